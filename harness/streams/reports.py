"""Reports stream: multi-asset inputs -> the four real generators (one forked child per run) read back with the independent
ODS reader, vs the Lean abstract-report models (rdriver); oracles C13/C14/C15/C19/C20 on the real files. Prints one JSON object."""
import sys, os, json, random, logging, re, shutil, hashlib, pickle, traceback
os.chdir(os.environ["RP2_SCRATCH"]); logging.disable(logging.CRITICAL)
sys.path.insert(0, os.path.join(os.environ["VERIF_ROOT"], "harness")); sys.path.insert(0, os.path.join(os.environ["VERIF_ROOT"], "harness", "streams"))
import common, pipeline as P
from pipeline import *          # generators, build helpers, ACCTS, U, F, fr, o, ordn, ldate, ts_of, dec, engine
from odsread import read_ods
import rp2.plugin.report.rp2_full_report as FR, rp2.plugin.report.us.tax_report_us as TU, rp2.plugin.report.ie.tax_report_ie as TI
import rp2.plugin.report.open_positions as OP, rp2.plugin.report.jp.tax_report_jp as JPR
from rp2.plugin.country.ie import IE
from rp2.plugin.country.jp import JP as JPC
from rp2.localization import set_generation_language
set_generation_language("en")
SCR = os.environ["RP2_SCRATCH"]
LINK = re.compile(r'^=HYPERLINK\("#(.+)\.a(\d+):z(\d+)"; (.*)\)$'); REF = re.compile(r"^='(.+)'\.I(\d+)$"); REFANY = re.compile(r"^='(.+)'\.([A-Z]+)(\d+)$")
def hexs(s): return s.encode().hex()
def fl(x): return float(F(x))
def unlink(v):
    if v and v[0] == "formula":
        m = LINK.match(v[1])
        if m: return (m.group(1), int(m.group(2)), m.group(4))
    return None
def cellval(v):
    """numeric value of a cell that is either a plain number or a hyperlink whose payload is the number"""
    l = unlink(v)
    try:
        return float(l[2]) if l else (float(v[1]) if v and v[0] == "num" else None)
    except (TypeError, ValueError):
        return None
def txt(v):
    l = unlink(v)
    return l[2].strip('"') if l else (v[1] if v else "")

WHICH = {"C04": ["full"], "C06": ["full"], "C05": ["full", "us", "us", "ie"], "C13": ["full"], "C19": ["full"], "C14": ["us", "ie"], "C15": ["open"], "C20": ["jp"], "C07": ["full"], "C16": ["full", "us", "ie", "open", "jp"]}
_CRAFT = {"k": 0}
def capacity_rows(rng, n, price=None):
    """one purchase and `n` small sales of it on consecutive days: with several such assets in one run a sheet of the tax report receives
    more rows than the template holds while no single asset outgrows it (the sheets must be extended by what is already filled)"""
    t0 = datetime(2020, 1, 5, 12, tzinfo=timezone.utc)
    rows = [["IN", 3, us(t0), 0, "BUY", 0, price or rprice(rng), (n + 5) * U, None, None, None]]
    for k in range(n):
        rows.append(["OUT", 7 + k, us(t0 + timedelta(days=30 + k)), 0, "SELL", 0, rprice(rng), U, 0, None, None, None])
    return rows

def expense_rows(rng, fees, moves, lost):
    """one purchase, then fee-only disposals, transfers with a fee and losses: three transaction types that share one sheet of the tax
    report (Investment Expenses); together they outgrow the template although none of the types does alone"""
    t0 = datetime(2020, 2, 3, 12, tzinfo=timezone.utc)
    rows = [["IN", 3, us(t0), 0, "BUY", 0, rprice(rng), (fees + moves + lost + 20) * U, None, None, None]]
    k = 0
    for _ in range(fees):
        rows.append(["OUT", 7 + k, us(t0 + timedelta(days=20 + k)), 0, "FEE", 0, rprice(rng), 0, U // 10, None, None, None]); k += 1
    for _ in range(lost):
        rows.append(["OUT", 7 + k, us(t0 + timedelta(days=20 + k)), 0, "LOST", 0, rprice(rng), U // 10, 0, None, None, None]); k += 1
    for j in range(moves):
        rows.append(["INTRA", 10 + k + j, us(t0 + timedelta(days=20 + k + j)), 0, 0, 1, rprice(rng), U, U - U // 100])
    return rows

def gen(rng, prop=None):
    _CRAFT["k"] += 1
    if prop in ("C14", "C16") and _CRAFT["k"] == 3:
        f, m, l = rng.randint(50, 58), rng.randint(36, 42), rng.randint(0, 6)
        return {"which": rng.choice(["us", "ie"]), "assets": {"B1": expense_rows(rng, f, m, l), "B2": capacity_rows(rng, 5)},
                "sched": {"1970": "fifo"}, "from": None, "to": None}
    if prop in ("C14", "C16") and _CRAFT["k"] == 2:
        n = rng.randint(38, 47)
        return {"which": rng.choice(["us", "ie"]), "assets": {a: capacity_rows(rng, n + j) for j, a in enumerate(["B1", "B2", "B3"])},
                "sched": {"1970": "fifo"}, "from": None, "to": None}
    assets = ["B1", "B2", "B3"][:rng.randint(1, 3)]; per = {}; days = []
    for a in assets:
        c = P.gen(rng, "reports"); rows = c["rows"]
        per[a] = rows; days += [ldate(r[2], r[3]) for r in rows]
    days = sorted(set(days)); cand = days + [d + timedelta(days=1) for d in days] + [d - timedelta(days=1) for d in days]
    fd = rng.choice(cand) if rng.random() < 0.4 else None; td = rng.choice(cand) if rng.random() < 0.4 else None
    bd = [d for rows in per.values() for d in P.boundary_dates(rows)]
    if bd and rng.random() < 0.5:
        if rng.random() < 0.7: td = rng.choice(bd)
        else: fd = rng.choice(bd)
    if fd and td and fd > td: fd, td = td, fd
    if prop in ("C14", "C13", "C19") and bd and rng.random() < (0.5 if prop == "C14" else 0.25):
        fd, td = rng.choice(bd), None      # a from-date alone, on a day where instant order and local-date order disagree: nothing may be lost
    if prop == "C14" and rng.random() < 0.3:
        # one sale dated D in a far-east zone followed, in instant order, by several sales still dated D-1 in a far-west zone, window
        # "from D": the first of them is in the window although later instants are not (a search that assumes dates never go back loses it)
        a = rng.choice(assets); rows = per[a]; D0 = datetime(2019, 6, 1, tzinfo=timezone.utc) + timedelta(days=rng.randint(1300, 1500))
        rid = max(r[1] for r in rows) + 5
        rows.append(["IN", rid, us(D0 - timedelta(days=400)), 0, "BUY", 0, rprice(rng), 20 * U, None, None, None])
        rows.append(["OUT", rid + 1, us(D0 - timedelta(hours=13, minutes=30)), 14 * 3600, "SELL", 0, rprice(rng), U, 0, None, None, None])      # local D 00:30
        for k in range(rng.randint(2, 5)):
            rows.append(["OUT", rid + 2 + k, us(D0 - timedelta(hours=12) + timedelta(minutes=10 * k)), -12 * 3600, "SELL", 0, rprice(rng), U, 0, None, None, None])   # local D-1 00:00+
        fd, td = D0.date(), None
    which = rng.choice(WHICH.get(prop, ["full", "full", "us", "ie", "open", "jp"]))
    if which in ("open", "jp"): fd = None
    return {"which": which, "assets": per, "sched": {"1970": rng.choice(["fifo", "lifo", "hifo", "lofo"]) if which not in ("ie", "jp") else "fifo"},
            "from": fd.isoformat() if fd else None, "to": td.isoformat() if td else None}

def compute_all(case):
    fd = date.fromisoformat(case["from"]) if case["from"] else MIN_DATE; td = date.fromisoformat(case["to"]) if case["to"] else MAX_DATE
    country = {"ie": IE, "jp": JPC}.get(case["which"], US)()
    cfg = Configuration(INI, country, from_date=fd, to_date=td, allow_negative_balances=True)
    eng = engine(case["sched"])      # one accounting engine for all assets, as in rp2_main
    return country, cfg, fd, td, {a: compute_tax(cfg, eng, P.build_asset(cfg, a, rows)) for a, rows in case["assets"].items()}
def build_asset(cfg, a, rows):
    i = TransactionSet(cfg, "IN", a); oo = TransactionSet(cfg, "OUT", a); x = TransactionSet(cfg, "INTRA", a); o2 = lambda v: dec(v) if v is not None else None
    for r in rows:
        if r[0] == "IN": i.add_entry(InTransaction(cfg, ts_of(r[2], r[3]), a, *ACCTS[r[5]], r[4], dec(r[6]), dec(r[7]), fiat_fee=o2(r[8]), fiat_in_no_fee=o2(r[9]), fiat_in_with_fee=o2(r[10]), row=r[1], unique_id=P.uid_of(r[2])))
        elif r[0] == "OUT": oo.add_entry(OutTransaction(cfg, ts_of(r[2], r[3]), a, *ACCTS[r[5]], r[4], dec(r[6]), dec(r[7]), dec(r[8]), crypto_out_with_fee=o2(r[9]), fiat_out_no_fee=o2(r[10]), fiat_fee=o2(r[11]), row=r[1], unique_id=P.uid_of(r[2])))
        else: x.add_entry(IntraTransaction(cfg, ts_of(r[2], r[3]), a, *ACCTS[r[4]], *ACCTS[r[5]], dec(r[6]) if r[6] is not None else None, dec(r[7]), dec(r[8]), row=r[1], unique_id=P.uid_of(r[2])))
    return InputData(a, i, oo, x, cfg.from_date, cfg.to_date)
P.build_asset = build_asset

def data_rows(rows, start):
    i = start + 3; out = []
    while i < len(rows) and rows[i] and any(c is not None and c != ("str", "") for c in rows[i]): out.append((i + 1, rows[i])); i += 1
    return out
def find(rows, title):
    for i, r in enumerate(rows):
        if r and r[0] == ("str", title): return i
    raise KeyError(title)
def extract_full(path, assets, a2c):
    full = dict(read_ods(path)); L = []
    for a in assets:
        cd = a2c[a]; io = full[f"{a} In-Out"]; tax = full[f"{a} Tax"]
        ins = list(cd.in_transaction_set); outs = list(cd.out_transaction_set); xs = list(cd.intra_transaction_set)
        for (r, row), t in zip(data_rows(io, find(io, "In-Flow Detail")), ins + [None] * 99):
            L.append(["IOIN", a, r, int(t.internal_id) if t else None, None if row[0] in (("str", ""), None) else row[0][1], row[7][1], row[8][1], row[6][1], row[9][1], row[10][1], row[11][1], row[1][1] if t is None else (row[1][1] == str(t.timestamp))])
        for (r, row), t in zip(data_rows(io, find(io, "Out-Flow Detail")), outs + [None] * 99):
            L.append(["IOOUT", a, r, int(t.internal_id) if t else None, row[7][1], row[8][1], row[9][1], row[10][1], row[6][1], row[11][1], row[12][1], row[1][1] if t is None else (row[1][1] == str(t.timestamp))])
        for (r, row), t in zip(data_rows(io, find(io, "Intra-Flow Detail")), xs + [None] * 99):
            L.append(["IOX", a, r, int(t.internal_id) if t else None, row[8][1], row[9][1], row[10][1], row[11][1], row[7][1], row[12][1], 1.0 if str(row[13][1]).upper() == "YES" else 0.0, row[1][1] if t is None else (row[1][1] == str(t.timestamp))])
        for r, row in data_rows(tax, find(tax, "Gain / Loss Summary")):
            L.append(["TY", a, r, int(row[0][1]), row[4][1].lower(), row[3][1] == "LONG", row[2][1], row[5][1], row[6][1], row[7][1]])
        for r, row in data_rows(tax, find(tax, "Account Balances")):
            if row[0] == ("str", "Total"): L.append(["TT", a, r, row[1][1], row[6][1]])
            else: L.append(["TB", a, r, ACCTS.index((row[0][1], row[1][1])), row[3][1], row[4][1], row[5][1], row[6][1]])
        ip = find(tax, "Average Price"); L.append(["TP", a, ip + 4, tax[ip + 3][0][1]])
        for (r, row), g in zip(data_rows(tax, find(tax, "Gain / Loss Detail")), list(cd.gain_loss_set) + [None] * 99):
            el = unlink(row[5]); ll = unlink(row[12]) if len(row) > 12 else None
            lab = txt(row[11]).split(":")[0]; llab = txt(row[19]).split(":")[0] if len(row) > 19 and row[19] else "-/-"
            L.append(["TD", a, r, int(g.taxable_event.internal_id) if g else None, (int(g.acquired_lot.internal_id) if g.acquired_lot else None) if g else None,
                      row[0][1], row[2][1], row[3][1], row[4][1] == "LONG", [el[0], el[1]] if el else None, [ll[0], ll[1]] if ll else None, lab, llab,
                      cellval(row[8]), (cellval(row[16]) if len(row) > 16 and row[16] else None) or 0.0])        # proceeds; cost basis (income rows: blank = 0)
    for r, row in data_rows(full["Summary"], 0):
        l = unlink(row[0]); L.append(["SU", r, txt(row[1]), int(float(txt(row[0]))), txt(row[4]).lower(), txt(row[3]) == "LONG", [l[0], l[1]] if l else None])
    return L, full
def extract_tax(path, datefmt):
    L = []; sheets = []
    for name, rows in read_ods(path):
        if name == "Legend": continue
        sheets.append(name)
        for i, r in enumerate(rows[7:]):
            if r and r[0] and r[0][0] == "num":
                def dt(c):
                    if not c or c[1] == "": return None
                    p = [int(x) for x in c[1].split("/")]; return [p[2], p[0], p[1]] if datefmt == "us" else p
                L.append(["TR", name, 8 + i, r[1][1], r[0][1], r[4][1], None if (not r[5] or r[5][1] == "") else r[5][1], r[8][1], r[14][1] == "LONG", dt(r[3]), dt(r[2]), r[12][1].split(":")[0], r[10][1].split(":")[0] if r[10] and r[10][1] else "-/-"])
    return L, sorted(sheets)
def extract_open(path, assets):
    d = dict(read_ods(path)); L = []
    for i, r in enumerate(d["Asset"][3:]):
        if r and r[0] and r[0][0] == "str" and r[0][1] in assets: L.append(["OA", 4 + i, r[0][1], r[1][1], r[2][1], r[3][1], r[4][1], r[5][1]])
    for i, r in enumerate(d["Asset - Exchange"][3:]):
        if r and r[0] and r[0][0] == "str" and r[0][1] in assets: L.append(["OE", 4 + i, r[0][1], r[1][1], ACCTS.index((r[2][1], r[1][1])), r[3][1], r[4][1], r[5][1], r[6][1]])
    # per-holder "Total" rows (order = the report's holder order; their SUMIF formula must name the holder of the row)
    for tag, sh in (("A", "Asset"), ("E", "Asset - Exchange")):
        for i, r in enumerate(d[sh][3:]):
            if r and r[0] and r[0][0] == "str" and r[0][1] == "Total" and len(r) > 1 and r[1]:
                f = next((c[1] for c in r[2:] if c and c[0] == "formula" and "SUMIF" in c[1]), "")
                m = re.search(r'SUMIF\([^;]*;"([^"]*)"', f)
                L.append(["OT", tag, 4 + i, r[1][1] if (m and m.group(1) == r[1][1]) else f"{r[1][1]}!={m.group(1) if m else None}"])
    return L
def extract_jp(path):
    L = []
    for name, rows in read_ods(path):
        ms = re.match(r"^(\d{4})_Summary$", name)
        if ms:
            # a year's summary sheet: one line per asset from row 8, the asset's name in column A and references to the asset-year sheet
            for i, r in enumerate(rows[7:]):
                refs = [REFANY.match(c[1]) for c in r if c and c[0] == "formula" and REFANY.match(c[1])]
                if r and r[0] and r[0][0] == "str" and r[0][1] and refs:
                    ri = [m_ for m_ in refs if m_.group(2) == "I"]
                    L.append(["JSUM", int(ms.group(1)), 8 + i, r[0][1], refs[0].group(1), min(int(m_.group(3)) for m_ in ri) if ri else None,
                              len({m_.group(1) for m_ in refs}) == 1])
            continue
        if not re.match(r"^.+_\d{4}$", name): continue
        refs = [REF.match(c[1]) for r in rows for c in r if c and c[0] == "formula" and REF.match(c[1])]; close = None
        for i, r in enumerate(rows):
            if len(r) > 8 and r[8] and r[8][0] == "formula" and re.match(r"^=E\d+\+F\d+-H\d+$", r[8][1]): close = i + 1
        L.append(["JS", name, f"{refs[0].group(1)}:{refs[0].group(2)}" if refs else "-", close])
        for i, r in enumerate(rows[21:]):
            if len(r) > 3 and r[0] and r[0][0] == "num" and r[3] and r[3][0] == "str":
                g = lambda k: (r[k][1] if len(r) > k and r[k] and r[k][0] == "num" else None)
                L.append(["JR", name, 22 + i, int(r[0][1]), int(r[1][1]), r[3][1].lower(), g(4), g(5), g(6), g(7), g(8)])
    return L

def run_impl(case):
    """computation in-process, generation in a forked child (fresh class-level state)"""
    try: country, cfg, fd, td, a2c = compute_all(case)
    except RP2Error as e: return {"status": "compute-error"}
    except Exception as e: return {"status": "crash:" + type(e).__name__}
    out = os.path.join(SCR, "rep"); shutil.rmtree(out, ignore_errors=True); os.makedirs(out)
    G, lang = {"full": (FR.Generator, "en"), "us": (TU.Generator, "en"), "ie": (TI.Generator, "en_IE"), "open": (OP.Generator, "en"), "jp": (JPR.Generator, "en")}[case["which"]]
    rfd, wfd = os.pipe(); pid = os.fork()
    if pid == 0:
        os.close(rfd); st = "ok"
        try: G().generate(country=country, years_2_accounting_method_names={1970: case["sched"]["1970"]}, asset_to_computed_data=a2c, output_dir_path=out, output_file_prefix="r_", from_date=fd, to_date=td, generation_language=lang)
        except Exception as e: st = "gen-error:" + type(e).__name__
        os.write(wfd, st.encode()); os._exit(0)
    os.close(wfd); st = os.read(rfd, 200).decode(); os.close(rfd); os.waitpid(pid, 0)
    if st != "ok": return {"status": st}
    m = case["sched"]["1970"]; assets = list(case["assets"])
    if case["which"] == "full":
        rows, full = extract_full(f"{out}/r_{m}_rp2_full_report.ods", assets, a2c); return {"status": "ok", "rows": rows, "_full": full, "_a2c": a2c}
    if case["which"] in ("us", "ie"):
        rows, sheets = extract_tax(f"{out}/r_{m}_tax_report_{case['which']}.ods", case["which"]); return {"status": "ok", "rows": rows, "sheets": sheets, "_a2c": a2c}
    if case["which"] == "open": return {"status": "ok", "rows": extract_open(f"{out}/r_{m}_open_positions.ods", assets), "_a2c": a2c}
    return {"status": "ok", "rows": extract_jp(f"{out}/r_{m}_tax_report_jp.ods"), "_a2c": a2c}

def encode(case):
    fd = date.fromisoformat(case["from"]) if case["from"] else None; td = date.fromisoformat(case["to"]) if case["to"] else None
    period = 365 if case["which"] in ("full", "us", "open") else sys.maxsize
    L = ["RESET", f"CFG {period} 1 {o(ordn(fd) if fd else None)} {o(ordn(td) if td else None)} 1 1", f"SCHED 1970 {case['sched']['1970']}"]
    for k, (e, h) in enumerate(ACCTS): L.append(f"ACCT {k} {hexs(e)} {hexs(h)}")
    for a, rows in case["assets"].items():
        L.append(f"ASSET {hexs(a)}"); L += P.encode({"sched": {}, "rows": rows, "from": None, "to": None, "neg": True})[1:-1]
    return L + [{"full": "REPORT", "us": "TAX 1", "ie": "TAX 1", "open": "OPEN", "jp": "JP 1"}[case["which"]]]
def parse_model(case, block):
    lines = block.strip().splitlines(); L = []; sheets = None
    if lines and lines[0].startswith("ERR"): return {"status": "compute-error" if lines[0].startswith("ERR compute") else "gen-error"}
    q = lambda s: None if s == "-" else fl(s); n = lambda s: None if s == "-" else int(s)
    dd = lambda s: None if s == "-" else [int(x) for x in s.split("-")]
    for ln in lines:
        t = ln.split(" ")
        if t[0] == "IOIN": L.append(["IOIN", t[1], int(t[2]), int(t[3]), q(t[4]), fl(t[5]), fl(t[6])] + [fl(x) for x in t[7:11]] + [True])
        elif t[0] == "IOOUT": L.append(["IOOUT", t[1], int(t[2]), int(t[3]), fl(t[4]), fl(t[5]), fl(t[6]), fl(t[7])] + [fl(x) for x in t[8:11]] + [True])
        elif t[0] == "IOX": L.append(["IOX", t[1], int(t[2]), int(t[3]), fl(t[4]), fl(t[5]), fl(t[6]), fl(t[7])] + [fl(x) for x in t[8:11]] + [True])
        elif t[0] == "TY": L.append(["TY", t[1], int(t[2]), int(t[3]), t[4], t[5] == "1", fl(t[6]), fl(t[7]), fl(t[8]), fl(t[9])])
        elif t[0] == "TB": L.append(["TB", t[1], int(t[2]), int(t[3]), fl(t[4]), fl(t[5]), fl(t[6]), fl(t[7])])
        elif t[0] == "TT": L.append(["TT", t[1], int(t[2]), t[3], fl(t[4])])
        elif t[0] == "TP": L.append(["TP", t[1], int(t[2]), fl(t[3])])
        elif t[0] == "JSUM": L.append(["JSUM", int(t[1]), int(t[2]), t[3], t[4], int(t[5]), True])
        elif t[0] == "TD": L.append(["TD", t[1], int(t[2]), int(t[3]), n(t[4]), fl(t[5]), fl(t[6]), fl(t[7]), t[8] == "1", [f"{t[1]} In-Out", int(t[9])] if t[9] != "-" else None, [f"{t[1]} In-Out", int(t[10])] if t[10] != "-" else None, t[11], t[12], fl(t[13]) if len(t) > 13 else None, fl(t[14]) if len(t) > 14 else None])
        elif t[0] == "SU": L.append(["SU", int(t[1]), t[2], int(t[3]), t[4], t[5] == "1", [f"{t[2]} Tax", int(t[6])] if t[6] != "-" else None])
        elif t[0] == "TR": L.append(["TR", t[1].replace("_", " "), int(t[2]), t[3], fl(t[4]), fl(t[5]), q(t[6]), fl(t[7]), t[8] == "1", dd(t[9]), dd(t[10]), t[11], t[12]])
        elif t[0] == "SHEETS": sheets = sorted(x.replace("_", " ") for x in t[1].split(",") if x) if len(t) > 1 else []
        elif t[0] == "OA": L.append(["OA", int(t[1]), t[2], t[3], fl(t[4]), fl(t[5]), fl(t[6]), fl(t[7])])
        elif t[0] == "OE": L.append(["OE", int(t[1]), t[2], t[3], int(t[4]), fl(t[5]), fl(t[6]), fl(t[7]), fl(t[8])])
        elif t[0] == "OT": L.append(["OT", t[1], int(t[2]), t[3]])
        elif t[0] == "JS": L.append(["JS", t[1], t[2], int(t[3])])
        elif t[0] == "JR": L.append(["JR", t[1], int(t[2]), int(t[3]), int(t[4]), t[5], q(t[6]), q(t[7]), q(t[8]), q(t[9]), fl(t[10])])
    r = {"status": "ok", "rows": L}
    if sheets is not None: r["sheets"] = sheets
    return r
def run_model(cases):
    out = common.run_driver("rdriver", [l for c in cases for l in encode(c)]).split("END\n")
    return [parse_model(c, b) for c, b in zip(cases, out)]
def pub(r): return {k: v for k, v in r.items() if not k.startswith("_")}
KIND = {"IOIN": "inout", "IOOUT": "inout", "IOX": "inout", "TY": "taxsheet", "TB": "taxsheet", "TT": "taxsheet", "TP": "taxsheet", "TD": "detail", "SU": "summary",
        "TR": "taxreport", "OA": "open", "OE": "open", "OT": "open", "JS": "jp", "JR": "jp", "JSUM": "jp"}
def strip_links(r):
    if r[0] == "TD": return r[:9] + r[11:]          # everything but the two link targets (compared under "links")
    if r[0] == "SU": return r[:6]
    return r
def only_links(r):
    if r[0] == "TD": return r[:3] + r[9:11]
    if r[0] == "SU": return r[:2] + r[6:]
    return None
def diff(case, i, m):
    if i["status"].split(":")[0] != m["status"].split(":")[0]: return ["status"]
    if i["status"] != "ok": return []
    key = lambda t: json.dumps(t, default=str)
    d = []
    for comp in sorted(set(KIND.values())):
        a = sorted([strip_links(r) for r in i["rows"] if KIND[r[0]] == comp], key=key); b = sorted([strip_links(r) for r in m["rows"] if KIND[r[0]] == comp], key=key)
        if a != b: d.append(comp)
    la = sorted([only_links(r) for r in i["rows"] if only_links(r)], key=key); lb = sorted([only_links(r) for r in m["rows"] if only_links(r)], key=key)
    if la != lb: d.append("links")
    if i.get("sheets") != m.get("sheets"): d.append("sheets")
    return d

# ---------------- oracles on the real files
def oracle_c19(case, res, guard=True):
    if res["status"] != "ok" or case["which"] != "full": return None
    full = res["_full"]; shown = {}
    fdw = date.fromisoformat(case["from"]) if case["from"] else date.min; tdw = date.fromisoformat(case["to"]) if case["to"] else date.max
    for r in res["rows"]:
        if r[0] in ("IOIN", "IOOUT", "IOX"):
            if r[-1] is not True: return f"{r[1]} In-Out row {r[2]} does not hold the expected transaction"
            shown[(r[1], r[3])] = r[2]
    for r in res["rows"]:
        if r[0] == "TD":
            for tx, link, what in ((r[3], r[9], "taxable event"), (r[4], r[10], "acquired lot")):
                if tx is None: continue
                exp = [f"{r[1]} In-Out", shown[(r[1], tx)]] if (r[1], tx) in shown else None
                if link != exp: return f"{r[1]} Tax row {r[2]}: {what} {tx} links to {link}, expected {exp}"
                # independently of which rows rp2 chose to show: a link exactly when the transaction's own date lies in the window
                if (not guard) or dates_ok(case):
                    src = [x for x in case["assets"][r[1]] if x[1] == tx]
                    if src:
                        inside = fdw <= ldate(src[0][2], src[0][3]) <= tdw
                        if inside and link is None: return f"{r[1]} Tax row {r[2]}: {what} {tx} lies inside the window [{case['from']}, {case['to']}] but carries no link"
                        if (not inside) and link is not None: return f"{r[1]} Tax row {r[2]}: {what} {tx} is hidden by the date filter [{case['from']}, {case['to']}] but links to {link}"
        if r[0] == "SU":
            if guard and not P.local_dates_monotone({"rows": case["assets"][r[2]]}): continue      # finding F15 (hypothesis LocalDatesMonotone)
            det = [d for d in res["rows"] if d[0] == "TD" and d[1] == r[2]]; rows_a = {a: rws for a, rws in case["assets"].items()}
            yr = lambda d: ldate(*[(x[2], x[3]) for x in rows_a[r[2]] if x[1] == d[3]][0]).year
            first = [d[2] for d in det if yr(d) == r[3]]
            if r[6] is None:
                # a Summary line without a link is right only when the date filter hides every gain / loss row of that year
                if first: return f"Summary row {r[1]} ({r[2]}, {r[3]}) carries no link although the {r[2]} Tax sheet shows gain / loss rows of that year (first: row {min(first)})"
                continue
            sheet, row = r[6]
            if sheet != f"{r[2]} Tax": return f"Summary row {r[1]} links to sheet {sheet}"
            if not first or row != min(first): return f"Summary row {r[1]} ({r[2]}, {r[3]}) links to row {row}, first detail row of that year is {min(first) if first else None}"
    return None
def oracle_c13(case, res, guard=True):
    if res["status"].startswith(("gen-error", "crash")) and case["which"] in WHICH["C13"]: return f"the full report could not be generated ({res['status']}): nothing is listed"
    if res["status"] != "ok" or case["which"] != "full": return None
    for r in res["rows"]:
        if r[0] in ("IOIN", "IOOUT", "IOX") and r[3] is not None and r[-1] is not True:
            src = [x for x in case["assets"][r[1]] if x[1] == r[3]]
            return f"{r[1]} In-Out row {r[2]} (transaction {r[3]}): the timestamp cell differs from the transaction's timestamp {P.ts_of(src[0][2], src[0][3]) if src else '?'}"
    a2c = res["_a2c"]
    fdw = date.fromisoformat(case["from"]) if case["from"] else date.min; tdw = date.fromisoformat(case["to"]) if case["to"] else date.max
    for a, cd in a2c.items():
        for kind, s in (("IOIN", cd.in_transaction_set), ("IOOUT", cd.out_transaction_set), ("IOX", cd.intra_transaction_set)):
            got = [r[3] for r in res["rows"] if r[0] == kind and r[1] == a]; exp = [int(t.internal_id) for t in s]
            if got != exp: return f"{a}: {kind} rows {got} vs transactions of the window {exp}"
            # independently of rp2's own filtered sets: exactly the transactions whose own date lies in the window, in time order
            if (not guard) or dates_ok(case):
                tbl = {"IOIN": "IN", "IOOUT": "OUT", "IOX": "INTRA"}[kind]
                want = [r[1] for r in sorted([r for r in case["assets"][a] if r[0] == tbl and fdw <= ldate(r[2], r[3]) <= tdw], key=lambda r: (r[2], r[1]))]
                if sorted(got) != sorted(want): return f"{a}: {kind} rows show transactions {sorted(got)}, the window [{case['from']}, {case['to']}] contains {sorted(want)}"
        close = lambda x, y: abs(x - y) <= 1e-9 * max(1.0, abs(x), abs(y))
        rows_a = case["assets"][a]; order = lambda t: sorted([r for r in rows_a if r[0] == t], key=lambda r: (r[2], r[1]))
        run = 0; pre = {}
        for r in order("IN"): run += r[7]; pre[r[1]] = run / U
        for r in res["rows"]:
            if r[0] == "IOIN" and r[1] == a and r[3] in pre and not close(r[6], pre[r[3]]): return f"{a} In-Out row {r[2]}: crypto-in running sum {r[6]} vs sum of all acquisitions up to that row {pre[r[3]]}"
        run = 0; runf = 0; pre = {}
        for r in order("OUT"): run += r[7]; runf += r[8]; pre[r[1]] = (run / U, runf / U)
        for r in res["rows"]:
            if r[0] == "IOOUT" and r[1] == a and r[3] in pre and not (close(r[6], pre[r[3]][0]) and close(r[7], pre[r[3]][1])): return f"{a} In-Out row {r[2]}: out running sums {r[6:8]} vs {pre[r[3]]}"
        run = 0; pre = {}
        for r in order("INTRA"): run += r[7] - r[8]; pre[r[1]] = run / U
        for r in res["rows"]:
            if r[0] == "IOX" and r[1] == a and r[3] in pre and not close(r[7], pre[r[3]]): return f"{a} In-Out row {r[2]}: transfer-fee running sum {r[7]} vs {pre[r[3]]}"
        # fiat columns of the three tables: the values of the transaction itself (spot price, fee, in / out amounts; taxable flag of a transfer)
        txs = {("IOIN", int(t.internal_id)): t for t in cd.in_transaction_set}
        txs.update({("IOOUT", int(t.internal_id)): t for t in cd.out_transaction_set}); txs.update({("IOX", int(t.internal_id)): t for t in cd.intra_transaction_set})
        for r in res["rows"]:
            t = txs.get((r[0], r[3])) if r[0] in ("IOIN", "IOOUT", "IOX") and r[1] == a else None
            if t is None: continue
            if r[0] == "IOIN" and len(r) > 11: want = [float(t.spot_price), float(t.fiat_fee), float(t.fiat_in_no_fee), float(t.fiat_in_with_fee)]; got = r[7:11]
            elif r[0] == "IOOUT" and len(r) > 11: want = [float(t.spot_price), float(t.fiat_out_no_fee), float(t.fiat_fee)]; got = r[8:11]
            elif r[0] == "IOX" and len(r) > 11: want = [float(t.spot_price), float(t.fiat_fee), 1.0 if t.is_taxable() else 0.0]; got = r[8:11]
            else: continue
            if got != want: return f"{a} In-Out row {r[2]} ({r[0][2:]} transaction {r[3]}): spot price / fiat columns {got} vs the transaction's {want}"
        sold = {}
        for g in cd.gain_loss_set:
            if g.acquired_lot is not None: sold[int(g.acquired_lot.internal_id)] = sold.get(int(g.acquired_lot.internal_id), 0) + F(g.crypto_amount) / F(g.acquired_lot.crypto_in)
        for k, r in enumerate([r for r in res["rows"] if r[0] == "IOIN" and r[1] == a]):
            want = float(sold.get(r[3], 0)); got = r[4]
            if got is None and (k == 0 or want > 1e-12): return f"{a} In-Out row {r[2]}: sold percentage blank, fractions shown consume {want} of the lot"
            if got is not None and not close(got, want): return f"{a} In-Out row {r[2]}: sold percentage {got} vs {want} consumed by the fractions shown"
        gls = list(cd.gain_loss_set); det = [r for r in res["rows"] if r[0] == "TD" and r[1] == a]
        if len(det) != len(gls): return f"{a}: {len(det)} detail rows for {len(gls)} fractions"
        for r, g in zip(det, gls):
            if r[5] != float(g.crypto_amount) or r[7] != float(g.fiat_gain) or r[8] != g.is_long_term_capital_gains(): return f"{a} Tax row {r[2]}: values differ from the computed fraction"
            if len(r) > 14 and (r[13] != float(g.taxable_event_fiat_amount_with_fee_fraction) or r[14] != float(g.fiat_cost_basis)):
                return f"{a} Tax row {r[2]}: proceeds / cost basis shown {r[13]!r} / {r[14]!r} vs computed {float(g.taxable_event_fiat_amount_with_fee_fraction)!r} / {float(g.fiat_cost_basis)!r}"
            k = cd.gain_loss_set.get_taxable_event_fraction(g) + 1; nn = cd.gain_loss_set.get_taxable_event_number_of_fractions(g.taxable_event)
            if r[11] != f"{k}/{nn}": return f"{a} Tax row {r[2]}: label {r[11]} vs {k}/{nn}"
        # k/n labels are 1..n per event, independently of the accessors
        per = {}
        for r in det: per.setdefault(r[3], []).append(r[11])
        for ev, labs in per.items():
            if labs != [f"{k + 1}/{len(labs)}" for k in range(len(labs))]: return f"{a}: fractions of taxable event {ev} are labelled {labs}"
        # acquired-lot labels: the fractions of a lot up to the to-date are numbered 1..n; the from-date only hides a prefix of them
        if (not guard) or dates_ok(case):
            perl = {}
            for r in det:
                if r[4] is not None: perl.setdefault(r[4], []).append(r[12])
            for lot, labs in perl.items():
                try: kn = [tuple(int(x) for x in l.split("/")) for l in labs]
                except ValueError: return f"{a}: fractions of lot {lot} are labelled {labs}"
                n = kn[-1][1]
                if any(q[1] != n for q in kn) or [q[0] for q in kn] != list(range(n - len(kn) + 1, n + 1)) or (case["from"] is None and len(kn) != n):
                    return f"{a}: the {len(kn)} fractions of lot {lot} shown (window [{case['from']}, {case['to']}]) are labelled {labs}"
    return None
def oracle_c14(case, res, guard=True):
    if res["status"].startswith(("gen-error", "crash")) and case["which"] in WHICH["C14"]: return f"the tax report could not be generated ({res['status']}): nothing is listed"
    if res["status"] != "ok" or case["which"] not in ("us", "ie"): return None
    want = {"sell": "Capital Gains", "gift": "Gifts", "donate": "Donations", "fee": "Investment Expenses", "lost": "Investment Expenses", "move": "Investment Expenses",
            "airdrop": "Airdrops", "hardfork": "Hard Forks", "income": "Income", "interest": "Interest", "mining": "Mining", "staking": "Staking", "wages": "Wages"}
    exp = []
    for a, cd in res["_a2c"].items():
        for g in cd.gain_loss_set:
            d = lambda t: [t.timestamp.year, t.timestamp.month, t.timestamp.day]
            exp.append((want[g.taxable_event.transaction_type.value], a, float(g.crypto_amount), float(g.taxable_event_fiat_amount_with_fee_fraction), float(g.fiat_gain),
                        float(g.fiat_cost_basis) if g.acquired_lot else None, bool(g.is_long_term_capital_gains()), d(g.taxable_event), d(g.acquired_lot) if g.acquired_lot else None))
    got = [(r[1], r[3], r[4], r[5], r[7], r[6], r[8], r[9], r[10]) for r in res["rows"]]
    key = lambda t: json.dumps(t, default=str)
    got.sort(key=key); exp.sort(key=key)
    if case["from"] and not case["to"]:
        # a from-date alone needs no hypothesis: the window holds exactly the fractions of the whole computation whose own date is on or
        # after it (nothing stops the scan early), so the expectation can come from a run without any window
        fdw = date.fromisoformat(case["from"])
        try: a2c_all = compute_all(dict(case, **{"from": None}))[4]
        except Exception: a2c_all = None
        if a2c_all is not None:
            n_all = sum(1 for cd in a2c_all.values() for g in cd.gain_loss_set if g.taxable_event.timestamp.date() >= fdw)
            if n_all != len(got): return f"the tax report has {len(got)} rows; the computation without a window has {n_all} fractions dated on or after {case['from']}"
    if got != exp:
        bad = [g for g in got if g not in exp][:1] + [e for e in exp if e not in got][:1]
        return f"rows of the tax report differ from the fractions routed by the property's sheet table (sheet, asset, amount, proceeds, gain, cost, long, sold, acquired): {bad}"
    if len({(r[1], r[2]) for r in res["rows"]}) != len(res["rows"]): return "a (sheet, row) is used twice"
    if sorted(set(r[1] for r in res["rows"])) != res["sheets"]: return f"sheets present {res['sheets']} vs sheets with rows"
    return None
def oracle_c05(case, res, guard=True):
    """LONG/SHORT cells of the reports: long exactly when the whole days between the two instants reach the country's period (365 for the
    full and US reports, never for IE); income fractions are short; each fraction on its own"""
    if res["status"] != "ok" or case["which"] not in ("full", "us", "ie"): return None
    period = None if case["which"] == "ie" else 365
    DAY = 86400 * 10**6
    if case["which"] == "full":
        for r in res["rows"]:
            if r[0] != "TD" or r[3] is None: continue
            rows = case["assets"][r[1]]; ev = [x for x in rows if x[1] == r[3]]; lot = [x for x in rows if x[1] == r[4]] if r[4] is not None else []
            if not ev: continue
            exp = bool(lot) and period is not None and (ev[0][2] - lot[0][2]) // DAY >= period
            if r[8] != exp: return f"{r[1]} Tax row {r[2]}: fraction of event {r[3]} from lot {r[4]} is marked {'LONG' if r[8] else 'SHORT'}, the instants are {((ev[0][2] - lot[0][2]) // DAY) if lot else None} whole days apart"
        return None
    exp = []
    for a, cd in res["_a2c"].items():
        for g in cd.gain_loss_set:
            d = lambda t: [t.timestamp.year, t.timestamp.month, t.timestamp.day]
            lg = bool(g.acquired_lot) and period is not None and (g.taxable_event.timestamp - g.acquired_lot.timestamp).days >= period
            exp.append((a, float(g.crypto_amount), d(g.taxable_event), d(g.acquired_lot) if g.acquired_lot else None, lg))
    got = [(r[3], r[4], r[9], r[10], r[8]) for r in res["rows"]]
    key = lambda t: json.dumps(t, default=str)
    got.sort(key=key); exp.sort(key=key)
    if got != exp:
        bad = [g for g in got if g not in exp][:1] + [e for e in exp if e not in got][:1]
        return f"LONG/SHORT cells of the tax report differ from the holding periods (asset, amount, sold, acquired, long): {bad}"
    return None
def oracle_c06(case, res, guard=True):
    """Gain / Loss Summary of `<asset> Tax` in the real file: one line per (year, type, long/short) key of the shown detail fractions, the
    type written as the transaction type's own name, crypto amounts adding up to those of the fractions with that key"""
    if res["status"] != "ok" or case["which"] != "full" or case["from"]: return None
    for a, cd in res["_a2c"].items():
        want = {}
        for g in cd.gain_loss_set:
            k = (g.taxable_event.timestamp.year, g.taxable_event.transaction_type.value.lower(), bool(g.is_long_term_capital_gains()))
            want[k] = want.get(k, F(0)) + F(g.crypto_amount)
        got = {}
        for r in res["rows"]:
            if r[0] == "TY" and r[1] == a:
                k = (r[3], r[4], r[5])
                if k in got: return f"{a} Tax: two summary lines with the key {k}"
                got[k] = r[7]
        if set(got) != set(want): return f"{a} Tax: summary lines {sorted(got)} vs keys of the detail fractions {sorted(want)}"
        for k in want:
            if abs(got[k] - float(want[k])) > 1e-9 * max(1.0, abs(float(want[k]))): return f"{a} Tax: summary line {k} has crypto amount {got[k]}, its detail fractions add up to {float(want[k])}"
    return None
def fee_visible(case): return all(P.fee_fiat_visible({"rows": rows}) for rows in case["assets"].values())
def dates_ok(case):
    """LocalDatesMonotone (finding F6) matters only where a date cut is applied"""
    return not (case["to"] or case["from"]) or all(P.local_dates_monotone({"rows": rows}) for rows in case["assets"].values())
def oracle_c15(case, res, guard=True):
    if guard and not dates_ok(case): return None      # finding F6: the to-date cut with mixed UTC offsets
    # hypothesis OutWithFeeConsistent (as for C07): an exchange-supplied crypto_out_with_fee that differs from amount + fee makes lots
    # (which use it) and balances (which use amount + fee) disagree by construction of the input
    if guard and not all(P.HYPS["OutWithFeeConsistent"]({"rows": rows}) for rows in case["assets"].values()): return None
    # hypothesis FeeFiatVisible (finding F12, as for C07): a transfer fee worth less than 5e-14 in fiat is not disposed of, so the lots keep a
    # unit the balances no longer hold — "acquired − realized" then exceeds what any account holds (found by the thorough tier)
    if guard and not all(P.HYPS["FeeFiatVisible"]({"rows": rows}) for rows in case["assets"].values()): return None
    if res["status"].startswith(("gen-error", "crash")) and case["which"] in WHICH["C15"]: return f"the open-positions report could not be generated ({res['status']}): nothing is listed"
    if res["status"] != "ok" or case["which"] != "open": return None
    rowsOA = [r for r in res["rows"] if r[0] == "OA"]
    for a, cd in res["_a2c"].items():
        acquired = sum((F(t.fiat_in_with_fee) for t in cd.in_transaction_set), F(0)); realized = sum((F(g.fiat_cost_basis) for g in cd.gain_loss_set), F(0)); unreal = acquired - realized
        bal = {}
        for b in cd.balance_set:
            if F(b.final_balance) > 0: bal[b.holder] = bal.get(b.holder, F(0)) + F(b.final_balance)
        got = [r for r in rowsOA if r[2] == a]
        if unreal > F(1, 10**9):
            if {g[3] for g in got} != set(bal) or any(abs(float(bal[g[3]]) - g[4]) > 1e-9 * max(1, g[4]) for g in got): return f"{a}: holders/balances listed differ from the balance table"
            s = sum(g[6] for g in got)
            if abs(s - float(unreal)) > 1e-9 * max(1.0, float(unreal)): return f"{a}: unrealized cost {s} vs acquired − realized {float(unreal)}"
    w = sum(r[7] for r in rowsOA)
    if rowsOA and abs(w - 1) > 1e-9: return f"cost-basis weights add up to {w}"
    # independently of rp2's own balance table: every account whose final balance, recomputed from the rows up to the to-date, is positive
    # is listed on the Asset - Exchange sheet with that balance (however small), for every asset that is listed at all
    tdw = date.fromisoformat(case["to"]) if case["to"] else None
    for a, rows in case["assets"].items():
        listed = [r for r in res["rows"] if r[0] == "OE" and r[2] == a]
        if not listed: continue
        acq, sent, rec = P.flows({"rows": rows}, tdw)
        want = {k: acq[k] + rec[k] - sent[k] for k in set(acq) | set(sent) | set(rec)}
        want = {k: v for k, v in want.items() if v > 0}
        have = {r[4]: r[5] for r in listed}
        if set(have) != set(want) or any(abs(have[k] * U - want[k]) > 0.5 + 1e-9 * want[k] for k in want):
            return f"{a}: accounts listed {sorted(have.items())} vs positive final balances recomputed from the rows {sorted((k, v / U) for k, v in want.items())}"
    return None
def oracle_c07(case, res, guard=True):
    if res["status"] != "ok" or case["which"] != "full": return None
    close = lambda x, y: abs(x - y) <= 1e-9 * max(1.0, abs(x), abs(y))
    for a, cd in res["_a2c"].items():
        tb = [r for r in res["rows"] if r[0] == "TB" and r[1] == a]; tt = [r for r in res["rows"] if r[0] == "TT" and r[1] == a]
        exp = sorted([ACCTS.index((b.exchange, b.holder)), float(b.acquired_balance), float(b.sent_balance), float(b.received_balance), float(b.final_balance)] for b in cd.balance_set)
        if sorted(r[3:] for r in tb) != exp: return f"{a}: account balance rows differ from the computed balances"
        tot = {}
        for r in tb: tot[ACCTS[r[3]][1]] = tot.get(ACCTS[r[3]][1], 0.0) + r[7]
        if sorted(r[3] for r in tt) != sorted(tot): return f"{a}: per-holder total rows {sorted(r[3] for r in tt)} vs holders with accounts {sorted(tot)}"
        for r in tt:
            if not close(r[4], tot[r[3]]): return f"{a}: total of holder {r[3]} is {r[4]}, its accounts add up to {tot[r[3]]}"
    return None
def oracle_c20(case, res, guard=True):
    if guard and not fee_visible(case): return None      # finding F13 (hypothesis FeeFiatVisible)
    if res["status"].startswith(("gen-error", "crash")) and case["which"] in WHICH["C20"]: return f"the Japanese tax report could not be generated ({res['status']}): nothing is listed"
    if res["status"] != "ok" or case["which"] != "jp": return None
    if guard and not dates_ok(case): return None         # finding F6: a to-date with mixed UTC offsets
    js = {r[1]: r for r in res["rows"] if r[0] == "JS"}; exp = set()
    # summary sheets: one line per asset-year sheet, in the sheet of its year, naming the asset and pointing at that sheet's closing cells;
    # the lines of a year on consecutive rows from 8
    jsum = [r for r in res["rows"] if r[0] == "JSUM"]
    for nm, r_ in js.items():
        a_, y_ = nm.rsplit("_", 1)
        mine = [l for l in jsum if l[4] == nm]
        if len(mine) != 1: return f"{nm}: {len(mine)} lines in the summary sheets refer to this sheet (one expected, in {y_}_Summary)"
        l = mine[0]
        if l[1] != int(y_) or l[3] != a_ or l[5] != r_[3] or l[6] is not True:
            return f"{nm}: its summary line is in {l[1]}_Summary for asset {l[3]!r} and refers to row {l[5]} (closing cells of the sheet: row {r_[3]})"
    for l in jsum:
        if l[4] not in js: return f"{l[1]}_Summary row {l[2]}: refers to sheet {l[4]!r}, which the report does not have"
    for y_ in {l[1] for l in jsum}:
        rws = sorted(l[2] for l in jsum if l[1] == y_)
        if rws != list(range(8, 8 + len(rws))): return f"{y_}_Summary: asset lines on rows {rws}"
    tdw = date.fromisoformat(case["to"]) if case["to"] else date.max
    close = lambda x, y: (x is None and y is None) or (x is not None and y is not None and abs(x - y) <= 1e-9 * max(1.0, abs(x), abs(y)))
    for a, rows in case["assets"].items():
        rows = [r for r in rows if ldate(r[2], r[3]) <= tdw]
        yrs = sorted({ldate(r[2], r[3]).year for r in rows}); prev = None
        for y in yrs:
            nm = f"{a}_{y}"; exp.add(nm)
            if nm not in js: return f"sheet {nm} missing although {a} has transactions dated {y}"
            if prev is None and js[nm][2] != "-": return f"{nm}: first year refers to {js[nm][2]}"
            if prev is not None:
                want = f"{a}_{prev}:{js[f'{a}_{prev}'][3]}"
                if js[nm][2] != want: return f"{nm}: opening balance refers to {js[nm][2]}, closing cells of the previous year sheet are {want}"
            # one row per in/out transaction and fee-bearing transfer of that year, with month, day, purchased and sold amount
            want_rows = []
            for r in sorted([r for r in rows if ldate(r[2], r[3]).year == y], key=lambda r: (r[2], {"IN": 0, "OUT": 1, "INTRA": 2}[r[0]], r[1])):
                d = ldate(r[2], r[3])
                if r[0] == "IN": want_rows.append((d.month, d.day, r[7] / U, 0.0 if r[4] in EARN else None))
                elif r[0] == "OUT": want_rows.append((d.month, d.day, None, (r[9] if r[9] is not None else r[7] + r[8]) / U))
                elif r[7] > r[8]: want_rows.append((d.month, d.day, None, (r[7] - r[8]) / U))
            got_rows = [(r[3], r[4], r[6], r[8]) for r in res["rows"] if r[0] == "JR" and r[1] == nm]
            if len(got_rows) != len(want_rows): return f"{nm}: {len(got_rows)} rows for {len(want_rows)} transactions"
            key = lambda t: (t[0], t[1], t[2] if t[2] is not None else -1.0, t[3] if t[3] is not None else -1.0)
            for g, w in zip(sorted(got_rows, key=key), sorted(want_rows, key=key)):
                if g[0] != w[0] or g[1] != w[1] or not close(g[2], w[2]) or not close(g[3], w[3]):
                    return f"{nm}: row (month, day, purchased, sold) = {g} but the transaction is {w}"
            prev = y
    if set(js) != exp: return f"sheets {sorted(js)} vs asset-years with transactions {sorted(exp)}"
    return None
def oracle_c16(case, res, guard=True):
    if guard and case["which"] == "jp" and not fee_visible(case): return None      # finding F13
    if res["status"].startswith(("gen-error", "crash")): return f"report generator {case['which']} ends with an internal error ({res['status']}) on a valid input"
    return None
def oracle_c04(case, res, guard=True):
    """the Proceeds / Cost Basis / Gain cells of the real full report are the computed figures (which the pipeline stream compares with exact
    arithmetic): the clauses of the C13 oracle that are about those cells"""
    v = oracle_c13(case, res, guard)
    return v if v and ("proceeds / cost basis" in v or "values differ from the computed fraction" in v) else None

ORACLES = {"C04": oracle_c04, "C06": oracle_c06, "C05": oracle_c05, "C16": oracle_c16, "C07": oracle_c07, "C13": oracle_c13, "C14": oracle_c14, "C15": oracle_c15, "C19": oracle_c19, "C20": oracle_c20}

def shrink_candidates(case):
    for a in list(case["assets"]):
        if len(case["assets"]) > 1:
            yield dict(case, assets={k: v for k, v in case["assets"].items() if k != a})
    for a in list(case["assets"]):
        for k in range(len(case["assets"][a])):
            rows = case["assets"][a][:k] + case["assets"][a][k + 1:]
            if any(r[0] == "IN" for r in rows):
                yield dict(case, assets=dict(case["assets"], **{a: rows}))
    if case["from"]: yield dict(case, **{"from": None})
    if case["to"]: yield dict(case, to=None)
def nontrivial(case, i): return i["status"] == "ok" and len(i.get("rows", [])) >= 3
def hypotheses_failed(case, prop):
    h = ["FeeFiatVisible"] if prop in ("C20", "C16") and case["which"] == "jp" and not fee_visible(case) else []
    if prop in ("C15", "C20", "C13") and not dates_ok(case): h.append("LocalDatesMonotone")
    if prop == "C19" and any(not P.local_dates_monotone({"rows": rows}) for rows in case["assets"].values()): h.append("LocalDatesMonotone")
    return h
def note_stats(case, i, st):
    st["which:" + case["which"]] += 1; st["status:" + i["status"].split(":")[0]] += 1; st["assets"] += len(case["assets"])
    st["window:" + ("none" if not case["from"] and not case["to"] else "from+to" if case["from"] and case["to"] else "from" if case["from"] else "to")] += 1
    if i["status"] == "ok":
        st["rows"] += len(i["rows"])
        for r in i["rows"]: st["rows:" + KIND[r[0]]] += 1
