"""CLI stream (end to end): generated multi-asset inputs written as real .ods + .ini files, the real entry points (rp2_us, rp2_jp, rp2_es,
rp2_ie, rp2_generic) run in a forked child under an audit hook, exit status / files written / audit events / every report read back
with the independent ODS reader -- against the Lean whole-run model (`Cli.runCells`: parser -> computation -> generators -> files)
through rdriver.  Oracles: C12 (option/config faults), C13 (legend), C16 (completion), C17 (variants), C18 (audit), C19 (links through
crypto-fee acquisitions)."""
import sys, os, json, random, re, shutil, hashlib, copy, logging, configparser, glob, subprocess
os.chdir(os.environ["RP2_SCRATCH"])
logging.disable(logging.CRITICAL)
sys.path.insert(0, os.path.join(os.environ["VERIF_ROOT"], "harness"))
sys.path.insert(0, os.path.join(os.environ["VERIF_ROOT"], "harness", "streams"))
import common
import pipeline as P
import reports as R
import parser as PA
from pipeline import U, F, ACCTS, ldate, date, datetime, timedelta, timezone, MIN_DATE, MAX_DATE, Decimal, compute_tax, engine, Configuration
from odsread import read_ods
import ezodf
from importlib import import_module
from rp2.ods_parser import open_ods, parse_ods

SCR = os.environ["RP2_SCRATCH"]
REPO = os.environ["RP2_REPO"]
os.environ["LONG_TERM_CAPITAL_GAINS"] = "123"
os.environ["CURRENCY_CODE"] = "usd"
ENTRIES = {}
for _e in ("us", "jp", "es", "ie", "generic"):
    _m = import_module("rp2.plugin.country." + _e)
    _cls = [v for v in vars(_m).values() if isinstance(v, type) and v.__module__ == _m.__name__ and hasattr(v, "get_report_generators")][0]
    ENTRIES[_e] = {"module": _m, "cls": _cls}
import rp2.rp2_main as MAIN

LAY = {"IN": {"timestamp": 0, "asset": 6, "exchange": 1, "holder": 2, "transaction_type": 5, "spot_price": 8, "crypto_in": 7, "crypto_fee": 13, "fiat_fee": 11,
              "fiat_in_no_fee": 9, "fiat_in_with_fee": 10, "notes": 12, "unique_id": 14},
       "OUT": {"timestamp": 0, "asset": 6, "exchange": 1, "holder": 2, "transaction_type": 5, "spot_price": 8, "crypto_out_no_fee": 7, "crypto_fee": 9,
               "crypto_out_with_fee": 10, "fiat_out_no_fee": 11, "fiat_fee": 13, "notes": 12, "unique_id": 14},
       "INTRA": {"timestamp": 0, "asset": 6, "from_exchange": 1, "from_holder": 2, "to_exchange": 3, "to_holder": 4, "spot_price": 8, "crypto_sent": 7,
                 "crypto_received": 10, "notes": 12, "unique_id": 14}}
W = 15
# end to end the configuration file is the harness's own: account names chosen so that two different (exchange, holder) pairs spell the
# same text when joined with "_" (Cold_Wallet + Bob / Cold + Wallet_Bob) — accounts are pairs, not strings. The list object is shared with
# the pipeline / reports helpers (they index into it), so it is changed in place.
ACCTS[:] = [("Cold_Wallet", "Bob"), ("Kraken Pro", "Bob"), ("Cold", "Wallet_Bob"), ("Cold_Wallet", "Alice"), ("Kraken Pro", "Alice")]      # one name with a blank inside
EXS = sorted({a[0] for a in ACCTS})
HOS = sorted({a[1] for a in ACCTS}, reverse=True)
ALL_ASSETS = ["B1", "B.2", "UniswapV2-WETH-USDC-LP-token"]      # real tickers contain dots and hyphens (USDC.e, BRK-B): one asset name has a dot; one is long (28 characters: sheet names '<asset> In-Out', '<asset>_<year>' get longer than 31)


def country_facts(entry):
    c = ENTRIES[entry]["cls"]()
    data = os.path.join(os.path.dirname(import_module("rp2.plugin.report.abstract_ods_generator").__file__), "data", c.country_iso_code)
    langs = sorted({re.sub(r"^template_.*?_((?:[a-z]{2})(?:_[A-Z]{2})?)\.(ods|txt)$", r"\1", os.path.basename(f)) for f in glob.glob(data + "/template_rp2_full_report_*")})
    return {"iso": c.country_iso_code, "methods": sorted(c.get_accounting_methods()), "default_method": c.get_default_accounting_method(),
            "generators": sorted(c.get_report_generators()), "default_lang": c.get_default_generation_language(), "langs": langs}


def fval(units):
    return None if units is None else units / 1e11


def eff(units):
    """what the parser will read back from the cell holding `units`/1e11"""
    return None if units is None else int(Decimal(f"{units / 1e11:.11f}") * U)


_GAP = {"n": 0}     # blank rows between the tables of a sheet (room left to append rows): part of the case, used by grid() and renumber()


def grid(asset, rows, cfee, bad=None, order=("IN", "OUT", "INTRA"), gap=0):
    """`bad` = (row id, kind): one cell of that row is made invalid (fault 'bad-cell'); `order`: order of the tables in the sheet;
    `gap`: blank rows after every table"""
    g = []
    for t in order:
        g.append([t] + [None] * (W - 1))
        g.append(["h%d" % c for c in range(W)])
        m = LAY[t]
        for r in rows:
            if r[0] != t:
                continue
            row = [None] * W
            row[m["timestamp"]] = P.ts_of(r[2], r[3])
            row[m["asset"]] = asset
            # a transaction identifier derived from the second of the timestamp: rows of the same second — within a table and across
            # tables (an acquisition and the fee or sale booked with it) — share it, as they do in exchange exports
            row[m["unique_id"]] = "0x%x" % (r[2] // 10**6 % 0xfffff)
            if t == "IN":
                row[m["exchange"]], row[m["holder"]] = ACCTS[r[5]]
                row[m["transaction_type"]] = r[4]
                row[m["spot_price"]] = fval(r[6])
                row[m["crypto_in"]] = fval(r[7])
                cf = cfee.get(str(r[1]))
                if cf:
                    row[m["crypto_fee"]] = fval(cf)
                else:
                    row[m["fiat_fee"]] = fval(r[8])
                row[m["fiat_in_no_fee"]] = fval(r[9])
                row[m["fiat_in_with_fee"]] = fval(r[10])
            elif t == "OUT":
                row[m["exchange"]], row[m["holder"]] = ACCTS[r[5]]
                row[m["transaction_type"]] = r[4]
                row[m["spot_price"]] = fval(r[6])
                row[m["crypto_out_no_fee"]] = fval(r[7])
                row[m["crypto_fee"]] = fval(r[8])
                row[m["crypto_out_with_fee"]] = fval(r[9])
                row[m["fiat_out_no_fee"]] = fval(r[10])
                row[m["fiat_fee"]] = fval(r[11])
            else:
                row[m["from_exchange"]], row[m["from_holder"]] = ACCTS[r[4]]
                row[m["to_exchange"]], row[m["to_holder"]] = ACCTS[r[5]]
                row[m["spot_price"]] = fval(r[6])
                row[m["crypto_sent"]] = fval(r[7])
                row[m["crypto_received"]] = fval(r[8])
            if bad and bad[0] == r[1]:
                k = bad[1]
                if k == "unknown-exchange":
                    row[m["exchange" if t != "INTRA" else "from_exchange"]] = "Nowhere"
                elif k == "unknown-holder":
                    row[m["holder" if t != "INTRA" else "to_holder"]] = "Nobody"
                elif k == "negative-amount":
                    row[m[{"IN": "crypto_in", "OUT": "crypto_out_no_fee", "INTRA": "crypto_sent"}[t]]] = -1.5
                elif k == "text-number":
                    row[m["spot_price"]] = "12,5"
                elif k == "other-asset":
                    row[m["asset"]] = [x for x in ALL_ASSETS if x != asset][0]
                elif k.startswith("received-exceeds-sent:") and t == "INTRA":
                    # more received than sent, by an excess as small as dust (the documented rule has no tolerance)
                    row[m["crypto_received"]] = fval(r[7] + int(k.split(":")[1]))
            g.append(row)
        g.append(["TABLE END"] + [None] * (W - 1))
        for _ in range(gap):
            g.append([None] * W)
    return g


def effective_rows(rows):
    out = []
    for r in rows:
        r = list(r)
        if r[0] == "IN":
            for k in (6, 7, 8, 9, 10):
                r[k] = eff(r[k])
        elif r[0] == "OUT":
            for k in (6, 7, 8, 9, 10, 11):
                r[k] = eff(r[k])
        else:
            for k in (6, 7, 8):
                r[k] = eff(r[k])
        out.append(r)
    return out


_MATRIX = {"k": 0}


def matrix():
    """every (entry point, language option) pair: no language (the country's default) and each language the country ships templates for"""
    return [(e, l) for e in ("us", "jp", "es", "ie", "generic") for l in [None] + country_facts(e)["langs"]]


_ENV = {}


def env_switches():
    """names of the environment variables read anywhere in src/rp2 (`os.environ[...]`, `os.environ.get(...)`, `"X" in os.environ`, `os.getenv(...)`): AST walk over the current tree"""
    if "v" in _ENV:
        return _ENV["v"]
    import ast, glob
    names = set()
    for f in glob.glob(os.path.join(common.REPO, "src", "rp2", "**", "*.py"), recursive=True):
        try:
            tree = ast.parse(open(f).read())
        except Exception:
            continue
        for n in ast.walk(tree):
            is_env = lambda x: isinstance(x, ast.Attribute) and x.attr == "environ"
            if isinstance(n, ast.Call) and isinstance(n.func, ast.Attribute) and ((n.func.attr in ("get", "pop", "setdefault") and is_env(n.func.value)) or n.func.attr == "getenv") \
                    and n.args and isinstance(n.args[0], ast.Constant) and isinstance(n.args[0].value, str):
                names.add(n.args[0].value)
            if isinstance(n, ast.Subscript) and is_env(n.value) and isinstance(n.slice, ast.Constant) and isinstance(n.slice.value, str):
                names.add(n.slice.value)
            if isinstance(n, ast.Compare) and len(n.ops) == 1 and isinstance(n.ops[0], (ast.In, ast.NotIn)) and is_env(n.comparators[0]) \
                    and isinstance(n.left, ast.Constant) and isinstance(n.left.value, str):
                names.add(n.left.value)
    _ENV["v"] = sorted(names)
    return _ENV["v"]


_CRAFT = {"k": 0}


def renumber(rows, torder, cfee_a):
    """number the rows as they will lie in the sheet (tables in the order `torder`; a row whose id is 0 is new and goes last in its table);
    returns the crypto-fee map re-keyed by the new ids"""
    rid = 3
    old2new = {}
    for tbl in torder:
        for x in [r for r in rows if r[0] == tbl and r[1] != 0] + [r for r in rows if r[0] == tbl and r[1] == 0]:
            if x[1] != 0:
                old2new[x[1]] = rid
            x[1] = rid
            rid += 1
        rid += 3 + _GAP["n"]
    return {str(old2new[int(k)]): v for k, v in cfee_a.items() if int(k) in old2new}


def gen(rng, prop=None):
    _CRAFT["k"] += 1
    _GAP["n"] = 0
    c = _gen(rng, prop)
    c.setdefault("gap", _GAP["n"])
    if c.get("fault") is None and c.get("variant") is None and rng.random() < (0.3 if prop == "C16" else 0.08 if prop in ("C06", "C10", "C13", "C14", "C19", "C20") else 0.0):
        day_boundary(rng, c)
    return c


def day_boundary(rng, case):
    """the whole history in one non-UTC zone, moved as a block (order, balances and validity are untouched) so that one taxable event falls on a
    local calendar day that differs from its UTC day, with the window ending (or starting) on that very local day"""
    evs = [(a, r) for a, rows in case["assets"].items() for r in rows if r[0] != "IN" or r[4] in ("INTEREST", "MINING", "STAKING", "INCOME", "WAGES", "AIRDROP", "HARDFORK")]
    if not evs:
        return
    off = rng.choice([-12 * 3600, -9 * 3600, -5 * 3600, 9 * 3600, 14 * 3600, 5 * 3600 + 1800])
    a, e = rng.choice(evs)
    tod = (e[2] // 10**6) % 86400
    target = rng.randrange(0, -off) if off < 0 else rng.randrange(86400 - off, 86400)      # UTC time of day at which the local day is the other one
    delta = ((target - tod) % 86400) * 10**6
    for rows in case["assets"].values():
        for r in rows:
            r[2] += delta
            r[3] = off
    d = ldate(e[2], e[3])
    if case["entry"] == "jp" or rng.random() < 0.7:
        case["to"], case["from"] = d.isoformat(), (None if case["entry"] == "jp" or rng.random() < 0.6 else (d - timedelta(days=rng.choice([0, 1, 40, 400]))).isoformat())
    else:
        case["from"], case["to"] = d.isoformat(), (None if rng.random() < 0.6 else (d + timedelta(days=rng.choice([0, 1, 40, 400]))).isoformat())
    if case.get("sched"):
        # the schedule was laid out for the old local years: keep it, it stays a valid schedule (years >= 1970, any years)
        pass


def _gen(rng, prop=None):
    if prop == "C16" and _CRAFT["k"] == 3:
        # three assets with 38-49 sales each: more rows on the Capital Gains sheet than the template holds, none of the assets alone
        n = rng.randint(38, 47)
        entry = rng.choice(["us", "ie"])
        return {"entry": entry, "method": None, "lang": None, "from": None, "to": None, "neg": False, "only": None, "sched": None,
                "assets": {a: R.capacity_rows(rng, n + j) for j, a in enumerate(ALL_ASSETS)}, "cfee": {a: {} for a in ALL_ASSETS}, "fault": None, "prefix": ""}
    if prop == "C16" and _CRAFT["k"] == 5:
        f, m, l = rng.randint(50, 58), rng.randint(36, 42), rng.randint(0, 6)
        return {"entry": rng.choice(["us", "ie"]), "method": None, "lang": None, "from": None, "to": None, "neg": False, "only": None, "sched": None,
                "assets": {"B1": R.expense_rows(rng, f, m, l), "B.2": R.capacity_rows(rng, 5)}, "cfee": {"B1": {}, "B.2": {}}, "fault": None, "prefix": "",
                "table_order": ["IN", "OUT", "INTRA"]}
    if prop in ("C16", "C20") and _CRAFT["k"] == (7 if prop == "C16" else 2):
        # a year in which an asset is only moved between own accounts without a fee (nothing to report for that year), between a year with a
        # purchase and a year with a sale; alone in the run, or after an asset that has nothing in that year either
        t0 = datetime(2020, 5, 4, 9, tzinfo=timezone.utc)
        rows = [["IN", 3, P.us(t0), 0, "BUY", 0, P.rprice(rng), 5 * U, None, None, None],
                ["OUT", 7, P.us(t0 + timedelta(days=800)), 0, "SELL", 1, P.rprice(rng), 2 * U, 0, None, None, None],
                ["INTRA", 11, P.us(t0 + timedelta(days=400)), 0, 0, 1, None if rng.random() < 0.5 else P.rprice(rng), 3 * U, 3 * U]]
        assets_ = {"B1": rows}
        if rng.random() < 0.5:
            assets_ = {"B.2": [["IN", 3, P.us(t0 + timedelta(days=5)), 0, "BUY", 0, P.rprice(rng), 5 * U, None, None, None]], "B1": rows}
        return {"entry": "jp", "method": None, "lang": rng.choice([None, "en"]), "from": None, "to": None, "neg": False, "only": None, "sched": None,
                "assets": assets_, "cfee": {a: {} for a in assets_}, "fault": None, "prefix": "", "table_order": ["IN", "OUT", "INTRA"]}
    if prop == "C18" and _CRAFT["k"] == 2:
        # a large portfolio: nine assets with a couple of rows each (whatever the run does for many assets, it does it in this process)
        names = ["A%d" % k for k in range(1, 10)]
        assets_ = {}
        for k, a in enumerate(names):
            t0 = datetime(2020, 3, 1 + k, 10, tzinfo=timezone.utc)
            assets_[a] = [["IN", 3, P.us(t0), 0, "BUY", 0, P.rprice(rng), 5 * U, None, None, None],
                          ["OUT", 7, P.us(t0 + timedelta(days=40)), 0, "SELL", 0, P.rprice(rng), 2 * U, 0, None, None, None]]
        return {"entry": rng.choice(["us", "jp", "es", "ie"]), "method": None, "lang": None, "from": None, "to": None, "neg": False, "only": None, "sched": None,
                "assets": assets_, "cfee": {a: {} for a in names}, "fault": None, "prefix": "", "table_order": ["IN", "OUT", "INTRA"]}
    if prop == "C10" and _CRAFT["k"] == 4:
        # a long history (more than 64 rows in each table) in which nine acquisitions and nine sales share one calendar day around the
        # 64th position, and a window that starts on that day: every row of the day is in the window
        t0 = datetime(2020, 1, 1, 9, tzinfo=timezone.utc)
        day = lambda i: i if i < 60 else (60 if i < 69 else i - 8)
        rows = []
        for i in range(rng.randint(72, 80)):
            rows.append(["IN", 0, P.us(t0 + timedelta(days=day(i), minutes=i)), 0, "BUY", 0, P.rprice(rng), 3 * U, None, None, None])
            rows.append(["OUT", 0, P.us(t0 + timedelta(days=day(i), hours=5, minutes=i)), 0, "SELL", 0, P.rprice(rng), U, 0, None, None, None])
        rid = 3
        for tbl in ("IN", "OUT", "INTRA"):
            for x in rows:
                if x[0] == tbl:
                    x[1] = rid
                    rid += 1
            rid += 3
        return {"entry": "us", "method": rng.choice([None, "lifo", "hifo"]), "lang": None, "from": (t0 + timedelta(days=60)).date().isoformat(), "to": None, "neg": False,
                "only": None, "sched": None, "assets": {"B1": rows}, "cfee": {"B1": {}}, "fault": None, "prefix": "", "table_order": ["IN", "OUT", "INTRA"]}
    entry = rng.choice(["us", "us", "jp", "es", "ie", "generic"]) if prop != "C20" else "jp"
    if prop == "C01":
        entry = rng.choice([e for e in ("us", "us", "es", "generic") if len(country_facts(e)["methods"]) > 1] or ["us"])
    forced_lang = False
    if prop == "C16" and rng.random() < 0.6:
        # C16 quantifies over the full country x language matrix: walk through it instead of sampling it
        mx = matrix()
        entry, forced = mx[_MATRIX["k"] % len(mx)]
        _MATRIX["k"] += 1
        forced_lang = True
    facts = country_facts(entry)
    n_assets = rng.randint(1, 3) if prop != "C17" else rng.randint(2, 3)
    assets = {}
    cfee = {}
    days = []
    # C17: sometimes nearly every acquisition pays its fee in crypto, so that the run-wide counter of artificial ids (-1, -2, …) passes
    # -9 / -10 inside a later asset: an asset's results must not depend on how many ids earlier assets used up
    heavy_cfee = prop == "C17" and rng.random() < 0.35
    # order of the three tables in every sheet of the run (the documented format allows any)
    torder = ["IN", "OUT", "INTRA"] if rng.random() < 0.5 else rng.choice([["IN", "INTRA", "OUT"], ["OUT", "IN", "INTRA"], ["OUT", "INTRA", "IN"], ["INTRA", "IN", "OUT"], ["INTRA", "OUT", "IN"]])
    # blank rows between the tables (room left under a table to append rows later: the documented format allows any number)
    if rng.random() < (0.45 if prop in ("C03", "C11", "C17") else 0.14):
        _GAP["n"] = rng.choice([1, 3, 31, 32, 33, 49, 50, 51, 64, 130, 260])
    for a in ALL_ASSETS[:n_assets]:
        c = P.gen(rng, "reports") if prop != "C05" else P.gen(rng, "C05")
        if prop == "C05":
            # lots acquired a fraction of a second after the full second (the holding period is counted between instants, to the
            # microsecond, whatever the row went through on its way from the sheet)
            for r in c["rows"]:
                if r[0] == "IN" and rng.random() < 0.5:
                    r[2] += rng.choice([1, 500000, 999999])
        rows = [r for r in c["rows"] if not (r[0] == "OUT" and r[9] is not None and r[9] != r[7] + r[8])]
        if heavy_cfee and a == ALL_ASSETS[0]:
            # the first asset gets 7-11 acquisitions (extra purchases never make a history invalid); rows are renumbered table by table
            ins = [r for r in rows if r[0] == "IN"]
            while len(ins) < rng.randint(7, 11):
                src = rng.choice(ins)
                extra = ["IN", 0, src[2] + rng.randint(1, 10**6) * 10**6, src[3], "BUY", src[5], P.rprice(rng), max(P.ramt(rng), 2 * 10**6), None, None, None]
                ins.append(extra)
                rows.append(extra)
            rid = 3
            for tbl in torder:
                for x in rows:
                    if x[0] == tbl:
                        x[1] = rid
                        rid += 1
                rid += 3 + _GAP["n"]
        # rows are numbered as they will lie in the sheet (the tables may come in any order; rows dropped above leave no gap)
        renumber(rows, torder, {})
        # amounts that survive the float round trip exactly (<= 1e15 units); prices are re-read through eff()
        assets[a] = rows
        cfee[a] = {}
        for r in rows:
            if prop == "C20":
                break
            if r[0] == "IN" and rng.random() < (0.9 if heavy_cfee else 0.6 if prop == "C05" else 0.25) and r[7] > 10**6:
                cfee[a][str(r[1])] = rng.choice([1, 10**5, r[7] // 1000 or 1])
                r[8] = None
        days += [ldate(r[2], r[3]) for r in rows]
    days = sorted(set(days))
    cand = days + [d + timedelta(days=1) for d in days] + [d - timedelta(days=1) for d in days] + [date(2018, 1, 1), date(2030, 6, 30), date(2021, 1, 1), date(2020, 12, 31)]
    fd = rng.choice(cand) if rng.random() < 0.4 else None
    td = rng.choice(cand) if rng.random() < 0.4 else None
    bd = [d for rows in assets.values() for d in P.boundary_dates(rows)]
    if bd and rng.random() < 0.5:
        if rng.random() < 0.7:
            td = rng.choice(bd)
        else:
            fd = rng.choice(bd)
    if fd and td and fd > td:
        fd, td = td, fd
    method = rng.choice([None] + facts["methods"])
    lang = rng.choice([None] + facts["langs"])
    if forced_lang:
        lang = forced
    sched = None
    if len(facts["methods"]) > 1 and rng.random() < 0.35:
        method = None
        ms = facts["methods"]
        sched = rng.choice([{"2020": rng.choice(ms)}, {"1970": rng.choice(ms), "2021": rng.choice(ms)},
                            {"1970": rng.choice(ms), "2020": rng.choice(ms), "2022": rng.choice(ms)},
                            {"2018": rng.choice(ms), "2020": rng.choice(ms), "2021": rng.choice(ms), "2022": rng.choice(ms)},
                            {"1970": rng.choice(ms), "2019": rng.choice(ms), "2020": rng.choice(ms), "2021": rng.choice(ms), "2023": rng.choice(ms)}])
    if prop in ("C01", "C10") and len(facts["methods"]) > 1 and sched is None and rng.random() < 0.6:
        method = None
        ms = facts["methods"]
        sched = rng.choice([{"1970": rng.choice(ms), "2020": rng.choice(ms), "2021": rng.choice(ms)},
                            {"2018": rng.choice(ms), "2019": rng.choice(ms), "2020": rng.choice(ms), "2021": rng.choice(ms), "2022": rng.choice(ms)}])
    if sched and len(sched) >= 3 and rng.random() < 0.5:
        # a method that comes back after another one was in force (a, b, a), and the entries of the section in any order of the file:
        # what counts is the year of each entry, not the line it is written on
        ks = sorted(sched)
        a_, b_ = rng.sample(facts["methods"], 2)
        i_ = rng.randrange(len(ks) - 2)
        sched[ks[i_]], sched[ks[i_ + 1]], sched[ks[i_ + 2]] = a_, b_, a_
    if sched and len(sched) >= 2 and rng.random() < 0.5:
        ks = list(sched)
        rng.shuffle(ks)
        sched = {k: sched[k] for k in ks}
    if prop == "C10" and rng.random() < 0.7:
        # C10: the window must not change the figures: a from-date inside or after the years of the history, often with a schedule
        fd = rng.choice(cand)
        if td and fd > td:
            td = None
        ys_ = sorted({d.year for d in days})
        if len(facts["methods"]) > 1 and len(ys_) >= 2 and rng.random() < 0.75:
            # the history before the window is matched by the methods of *its* years: a schedule that changes method (to the opposite
            # order) before or in the year of the from-date, and a from-date late in the history
            y2 = rng.choice(ys_[1:])
            opp = [p_ for p_ in (("fifo", "lifo"), ("lifo", "fifo"), ("hifo", "lofo"), ("lofo", "hifo")) if p_[0] in facts["methods"] and p_[1] in facts["methods"]]
            a_, b_ = rng.choice(opp) if opp else rng.sample(facts["methods"], 2)
            sched = {"1970": a_, str(y2): b_}
            if rng.random() < 0.4:
                sched[str(y2 + 1)] = rng.choice(facts["methods"])
            method = None
            late = [d for d in cand if d.year >= y2]
            fd = rng.choice(late) if late else fd
            if td and fd > td:
                td = None
    if prop == "C09":
        fd = None
        ys_ = sorted({d.year for d in days})
        if rng.random() < 0.85:
            td = rng.choice(cand)
        if len(facts["methods"]) > 1 and len(ys_) >= 2 and rng.random() < 0.7:
            # a schedule that changes to the opposite method in a later year, and a to-date on or right around the first day of that year
            y2 = rng.choice(ys_[1:])
            opp = [p_ for p_ in (("fifo", "lifo"), ("lifo", "fifo"), ("hifo", "lofo"), ("lofo", "hifo")) if p_[0] in facts["methods"] and p_[1] in facts["methods"]]
            a_, b_ = rng.choice(opp) if opp else rng.sample(facts["methods"], 2)
            sched = {"1970": a_, str(y2): b_}
            method = None
            td = rng.choice([date(y2, 1, 1), date(y2, 1, 1), date(y2, 1, 2), date(y2 - 1, 12, 31), rng.choice([d for d in cand if d.year >= y2] or [date(y2, 6, 30)])])
            # a disposal on that first day makes the choice of the method visible
            a0 = rng.choice(list(assets))
            rws = assets[a0]
            ins_ = [r for r in rws if r[0] == "IN" and ldate(r[2], r[3]) < date(y2, 1, 1)]
            if len(ins_) >= 1 and rng.random() < 0.8:
                rws.append(["OUT", 0, P.us(datetime(y2, 1, 1, 12, tzinfo=timezone.utc)), 0, "SELL", ins_[0][5], P.rprice(rng), 1, 0, None, None, None])
                cfee[a0] = renumber(rws, torder, cfee.get(a0, {}))
    if prop == "C01":
        fd = td = None
        if len(facts["methods"]) > 1 and rng.random() < 0.85:
            # C01 end to end is about the schedule the configuration file states: entries at years in which the history has disposals,
            # a method that comes back after another one (a, b, a), the lines of the section in any order
            ys = sorted({P.local_year(r[2], r[3]) for rows in assets.values() for r in rows})
            dy = sorted({P.local_year(r[2], r[3]) for rows in assets.values() for r in rows if r[0] != "IN" and P.local_year(r[2], r[3]) > ys[0]})
            if dy and rng.random() < 0.8:
                y3 = rng.choice(dy)                  # the method comes back in a year that has disposals
                y2 = rng.choice([y for y in range(ys[0] + 1, y3)] or [y3 - 1]) if y3 - 1 > ys[0] else None
                if y2 is None:
                    y2, y3 = y3, y3 + 1
            else:
                later = [y for y in ys[1:]] or [ys[0] + 1]
                y2 = rng.choice(later)
                y3 = rng.choice([y for y in later if y > y2] or [y2 + 1])
            opp = [p_ for p_ in (("fifo", "lifo"), ("lifo", "fifo"), ("hifo", "lofo"), ("lofo", "hifo")) if p_[0] in facts["methods"] and p_[1] in facts["methods"]]
            a_, b_ = rng.choice(opp) if opp and rng.random() < 0.7 else rng.sample(facts["methods"], 2)
            ent = [(str(min(1970, ys[0])) if rng.random() < 0.7 else str(ys[0]), a_), (str(y2), b_), (str(y3), a_ if rng.random() < 0.8 else rng.choice(facts["methods"]))]
            order = rng.choice([[0, 1, 2], [0, 2, 1], [0, 2, 1], [1, 0, 2], [1, 0, 2], [2, 0, 1], [2, 1, 0], [1, 2, 0]])
            sched = {ent[i][0]: ent[i][1] for i in order}
            method = None
    case = {"entry": entry, "method": method, "lang": lang, "from": fd.isoformat() if fd else None, "to": td.isoformat() if td else None, "neg": rng.random() < 0.8,
            "only": rng.choice(list(assets)) if rng.random() < 0.15 else None, "sched": sched, "assets": assets, "cfee": cfee, "fault": None, "prefix": rng.choice(["", "x_"]), "table_order": torder}
    if forced_lang and lang is not None and rng.random() < 0.6:
        case["fresh"] = True
    if prop == "C18" and rng.random() < 0.45:
        # failing runs are audited too; the faults that end on the "unexpected error" path or involve the bytes of an input file are favoured
        case["fault"] = rng.choice(FAULTS + ["config-with-bom", "ini-duplicate-option", "input-not-ods", "config-json", "config-json"] * 3)
    if prop == "C18" and rng.random() < 0.3:
        # every environment variable the source reads is a switch of the program: the write set must stay confined with each of them set
        sw = [v for v in env_switches() if v not in ("CURRENCY_CODE", "LONG_TERM_CAPITAL_GAINS")]
        if sw:
            v_ = rng.choice(sw)
            # a log level must be one of logging's names (anything else is a misconfiguration that ends the run); other switches are
            # presence flags
            case["env"] = {v_: rng.choice(["DEBUG", "WARNING", "ERROR"]) if "LEVEL" in v_ else "1"}
    if prop == "C18" and rng.random() < 0.12:
        case["variant"] = "log-is-a-file"
    elif prop == "C18" and rng.random() < 0.2:
        case["variant"] = "report-is-symlink"
    if prop == "C12" and rng.random() < 0.7:
        case["fault"] = rng.choice(FAULTS + ["bad-cell"] * 6)
        if case["fault"] == "asset-without-sheet":
            case["only"] = None
        if case["fault"] == "bad-cell":
            # one invalid cell in one row of one sheet; every row is validated whatever the options are — in particular a row dated
            # outside the window of the run (often the latest row, with a to-date before it)
            a = rng.choice(list(assets))
            case["only"] = None
            rws = assets[a]
            r = max(rws, key=lambda x: x[2]) if rng.random() < 0.5 else rng.choice(rws)
            case["badcell"] = [a, r[1], rng.choice(["unknown-exchange", "unknown-holder", "negative-amount", "text-number", "other-asset"])]
            xs = [x for x in rws if x[0] == "INTRA" and x[7] < 10**14]
            if xs and rng.random() < 0.35:
                r = rng.choice(xs)
                case["badcell"] = [a, r[1], "received-exceeds-sent:%d" % rng.choice([1, 2000, 30000000, 400000000, 500000000, 2000000000, 10**11])]
            if rng.random() < 0.6:
                case["to"] = (ldate(r[2], r[3]) - timedelta(days=rng.choice([1, 1, 30, 400]))).isoformat()
                case["from"] = None if rng.random() < 0.7 else (date.fromisoformat(case["to"]) - timedelta(days=500)).isoformat()
    if prop == "C20":
        # rp2_jp end to end in each language it ships templates for (kl = the test locale, every string prefixed): no from+to (finding F8)
        case["lang"] = rng.choice([None, "en", "kl", "kl"] if "kl" in facts["langs"] else [None, "en"])
        case["from"] = None          # the oracle's expectation is written for to-date windows (as in the reports stream)
    if prop == "C17":
        case["variant"] = rng.choice(["hashseed", "hashseed", "stale-output", "single-asset", "single-asset", "repeat", "permuted", "permuted", "tables", "tables", "tables"]) if not heavy_cfee else "single-asset"
        if case["variant"] == "single-asset" and len(facts["methods"]) > 1 and rng.random() < 0.7:
            case["method"], case["sched"], case["only"] = rng.choice(["hifo", "lofo", "lifo"]), None, None
    return case


# option / config faults for C12 (each makes the invocation invalid)
FAULTS = ["from-after-to", "unknown-asset-option", "unknown-language", "plugin-flag", "method-twice", "unknown-method-in-section", "method-not-allowed",
          "ini-missing-section", "ini-duplicate-column", "ini-bad-header-name", "ini-non-integer-column", "ini-empty-assets", "ini-unknown-section",
          "asset-without-sheet", "input-not-ods", "config-missing", "bad-date", "ini-duplicate-option", "config-with-bom",
          "ini-negative-column", "ini-duplicate-asset", "ini-section-twice", "ini-early-year", "config-json"]
KNOWN_FAULTS = {"jp-from-and-to": "F8", "unknown-generator": "F14"}     # genuine defects recorded as known findings; generated only by their witnesses


def write_inputs(case, d):
    doc = ezodf.newdoc("ods", os.path.join(d, "in.ods"))
    for a, rows in case["assets"].items():
        g = grid(a, rows, case["cfee"].get(a, {}), case["badcell"][1:] if case.get("fault") == "bad-cell" and case["badcell"][0] == a else None, order=case.get("table_order") or ("IN", "OUT", "INTRA"), gap=case.get("gap", 0))
        sh = ezodf.Table(a, size=(len(g) + 2, W + 1))
        for i, row in enumerate(g):
            for j, v in enumerate(row):
                if v is not None:
                    sh[i, j].set_value(v)
        doc.sheets += sh
    doc.save()
    open(os.path.join(d, "in.ini"), "wb").write(ini_bytes(case))


def ini_bytes(case):
    """the configuration file of a case, byte for byte"""
    assets = list(case["assets"])
    f = case.get("fault")
    if f == "asset-without-sheet":
        assets = assets + ["B9"]
    ini = f"[general]\nassets = {', '.join(assets) if f != 'ini-empty-assets' else ''}\nexchanges = {', '.join(EXS)}\nholders = {', '.join(HOS)}\n\n"
    for t in ("IN", "OUT", "INTRA"):
        if f == "ini-missing-section" and t == "OUT":
            continue
        ini += f"[{PA.SEC[t]}]\n"
        for k, (name, col) in enumerate(LAY[t].items()):
            if f == "ini-duplicate-column" and t == "IN" and name == "holder":
                col = LAY[t]["exchange"]
            if f == "ini-bad-header-name" and t == "IN" and name == "crypto_in":
                name = "crypto_inn"
            if f == "ini-non-integer-column" and t == "IN" and name == "crypto_in":
                col = "x"
            if f == "ini-negative-column" and t == "OUT" and name == "notes":
                col = "-1"
            ini += f"{name} = {col}\n"
        ini += "\n"
    sched = case["sched"]
    if f == "method-twice":
        sched = {"1970": "fifo"}
    if f == "unknown-method-in-section":
        sched = {"1970": "zzz"}
    if sched:
        ini += "[accounting_methods]\n" + "".join(f"{y} = {m}\n" for y, m in sched.items()) + "\n"
    if f == "ini-unknown-section":
        ini += "[foo]\na = 1\n"
    if f == "ini-section-twice":
        ini += "[out_header again]\nnotes = 12\n"          # the name of a section is its first word
    if f == "ini-early-year":
        ini += ("" if sched else "[accounting_methods]\n") + "1969 = fifo\n"
    if f == "ini-duplicate-asset":
        ini = ini.replace("assets = ", "assets = " + assets[0] + ", ", 1)
    if f == "unknown-generator":
        ini = ini.replace("holders = " + ", ".join(HOS), "holders = " + ", ".join(HOS) + "\ngenerators = nope")
    if f == "ini-duplicate-option":
        # configparser itself refuses a repeated option (DuplicateOptionError, not an RP2Error): the run ends on the "unexpected error" path
        ini = ini.replace("[in_header]\n", "[in_header]\nnotes = 40\nnotes = 40\n") if "notes" not in LAY["IN"] else ini.replace("[in_header]\n", f"[in_header]\nnotes = {LAY['IN']['notes']}\n")
    data = ini.encode()
    if f == "config-json":
        # the deprecated JSON format of the configuration file (documented: refused, with a pointer to rp2_config) — the only path on
        # which the configuration is validated against the JSON schema
        j = {"in_header": {k: v for k, v in LAY["IN"].items()}, "out_header": {k: v for k, v in LAY["OUT"].items()},
             "intra_header": {k: v for k, v in LAY["INTRA"].items()}, "assets": assets, "exchanges": list(EXS), "holders": list(HOS)}
        data = json.dumps(j, indent=2).encode()
    if f == "config-with-bom":
        data = b"\xef\xbb\xbf" + data        # a UTF-8 byte order mark: configparser finds no section header on the first line
    return data


def ini_lines(case):
    """the configuration file as configparser reads it -> protocol lines for the Lean model of Configuration.__init__ (Ini.ofIni);
    ININONE when configparser itself refuses the text (duplicate option, missing section header)"""
    import configparser
    cp = configparser.ConfigParser()
    try:
        cp.read_string(ini_bytes(case).decode("utf-8"))
    except configparser.Error:
        return ["ININONE"]
    L = ["INIEMPTY"]
    for sec in cp.sections():
        L.append("INISEC x" + PA.hexs(sec))
        for k, v in cp[sec].items():
            L.append("INIKV x" + PA.hexs(k) + " x" + PA.hexs(v))
    return L


def argv_of(case, d):
    f = case.get("fault")
    a = ["rp2_" + case["entry"], "-o", os.path.join(d, "out")]
    if case["prefix"]:
        a += ["-p", case["prefix"]]
    if case["neg"]:
        a += ["-n"]
    m = case["method"]
    if f == "method-twice":
        m = "fifo"
    if f == "method-not-allowed":
        m = "zzfo"
    if m:
        a += ["-m", m]
    lang = case["lang"]
    if f == "unknown-language":
        lang = "zz"
    if lang:
        a += ["-g", lang]
    fd, td = case["from"], case["to"]
    if f == "jp-from-and-to":
        fd, td = fd or "2020-01-01", td or "2021-12-31"
    if f == "from-after-to":
        fd, td = "2021-06-01", "2020-06-01"
    if f == "bad-date":
        fd = "2021-13-45"
    if fd:
        a += ["-f", fd]
    if td:
        a += ["-t", td]
    only = case["only"]
    if f == "unknown-asset-option":
        only = "ZZ"
    if only:
        a += ["-a", only]
    if f == "plugin-flag":
        a += ["-l", "foo"]
    ini = os.path.join(d, "in.ini") if f != "config-missing" else os.path.join(d, "nope.ini")
    ods = os.path.join(d, "in.ods")
    if f == "input-not-ods":
        ods = os.path.join(d, "in.txt")
        shutil.copy(os.path.join(d, "in.ods"), ods)
    return a + [ini, ods]


WRITE_EVENTS = ("os.remove", "os.rename", "os.mkdir", "os.rmdir", "shutil.copyfile", "shutil.move", "os.truncate", "os.chmod", "os.symlink", "os.link")
FORBIDDEN_EVENTS = ("subprocess.Popen", "os.system", "os.exec", "os.posix_spawn", "os.fork", "os.forkpty", "os.spawn", "os.startfile", "pty.spawn",
                    "urllib.Request", "http.client.connect", "ftplib.connect", "smtplib.connect", "webbrowser.open")


def run_child(case, d, argv, hashseed=None):
    """run the entry point in a forked child (fresh copy of all module state) under an audit hook; returns (exit code, events)"""
    rfd, wfd = os.pipe()
    pid = os.fork()
    if pid == 0:
        os.close(rfd)
        events = []
        code = 0
        try:
            os.chdir(d)
            os.makedirs("log", exist_ok=True)      # rp2.logger does this at import time in a fresh process
            dn = os.open(os.devnull, os.O_WRONLY)
            os.dup2(dn, 1)
            os.dup2(dn, 2)

            def hook(ev, args):
                try:
                    if ev == "open":
                        path, mode, flags = args
                        if (isinstance(mode, str) and any(c in mode for c in "wax+")) or (mode is None and isinstance(flags, int) and flags & (os.O_WRONLY | os.O_RDWR | os.O_CREAT)):
                            events.append(["write-open", str(path)])
                    elif ev.startswith("socket.") or ev in FORBIDDEN_EVENTS:
                        events.append([ev, str(args)[:120]])
                    elif ev in WRITE_EVENTS:
                        events.append([ev, str(args[0])] + ([str(args[1])] if ev in ("os.rename", "shutil.move") and len(args) > 1 else []))
                except Exception:
                    pass
            # a real run imports the report plugins only after the generation language has been set (they bind `_` at import time):
            # drop the copies the harness imported so that the child imports them afresh, as a new process would
            for mname in [k for k in sys.modules if k.startswith("rp2.plugin.report")]:
                del sys.modules[mname]
            for k_, v_ in (case.get("env") or {}).items():
                os.environ[k_] = v_
            sys.addaudithook(hook)
            sys.argv = argv
            try:
                ENTRIES[case["entry"]]["module"].rp2_entry()
            except SystemExit as e:
                code = e.code if isinstance(e.code, int) else (0 if e.code is None else 1)
            except BaseException as e:
                code = 70
                events.append(["uncaught", type(e).__name__ + ": " + str(e)[:100]])
        finally:
            try:
                os.write(wfd, json.dumps({"exit": code, "events": events[:400]}).encode())
            finally:
                os._exit(0)
    os.close(wfd)
    buf = b""
    while True:
        chunk = os.read(rfd, 65536)
        if not chunk:
            break
        buf += chunk
    os.close(rfd)
    os.waitpid(pid, 0)
    try:
        return json.loads(buf.decode())
    except Exception:
        return {"exit": 71, "events": [["child-died", ""]]}


def sha(path):
    return hashlib.sha256(open(path, "rb").read()).hexdigest() if os.path.exists(path) else None


def in_process_a2c(case, d):
    """the same input through the real parser and engine, in-process: used only to pair report rows with transactions"""
    facts = country_facts(case["entry"])
    country = ENTRIES[case["entry"]]["cls"]()
    fd = date.fromisoformat(case["from"]) if case["from"] else MIN_DATE
    td = date.fromisoformat(case["to"]) if case["to"] else MAX_DATE
    cfg = Configuration(os.path.join(d, "in.ini"), country, from_date=fd, to_date=td, allow_negative_balances=case["neg"])
    sched = case["sched"] or {"1970": case["method"] or facts["default_method"]}
    h = open_ods(cfg, os.path.join(d, "in.ods"))
    names = [case["only"]] if case["only"] else sorted(case["assets"])
    return {a: compute_tax(cfg, engine(sched), parse_ods(cfg, a, h)) for a in names}, sched


def legend_of(path):
    for name, rows in read_ods(path):
        if name == "Legend":
            for i, r in enumerate(rows[:100]):
                if r and r[0] and r[0][0] == "str" and r[0][1] in ("Accounting Method", "Método Contable", "Accounting Method:"):
                    val = lambda k: (rows[k][1][1] if len(rows[k]) > 1 and rows[k][1] else None)
                    return [val(i), str(val(i + 1)), str(val(i + 2))]
            # language-independent fallback: the method cell is the one whose value looks like FIFO / year:METHOD
            for i, r in enumerate(rows[:100]):
                if len(r) > 1 and r[1] and r[1][0] == "str" and re.match(r"^(\d+(->\d+)?:)?(FIFO|LIFO|HIFO|LOFO)(, .*)?$", r[1][1]):
                    val = lambda k: (rows[k][1][1] if len(rows[k]) > 1 and rows[k][1] else None)
                    return [val(i), str(val(i + 1)), str(val(i + 2))]
    return None


def collect(case, d, res):
    """list the output directory and read every report back"""
    out = os.path.join(d, "out")
    files = sorted(os.listdir(out)) if os.path.isdir(out) else []
    r = {"status": "exit:%d" % res["exit"], "exit": res["exit"], "files": files, "events": res["events"], "rows": [], "legend": None}
    if res["exit"] != 0 or not files:
        return r
    try:
        a2c, sched = in_process_a2c(case, d)
    except Exception as e:
        r["status"] = "exit:0-but-in-process-run-failed:" + type(e).__name__
        return r
    r["_a2c"] = a2c
    names = list(a2c)
    lang = case["lang"] or country_facts(case["entry"])["default_lang"]
    r["content_checked"] = lang in ("en", "en_IE", "ja", "kl")
    import odsread
    odsread.STRIP = "__test_" if lang == "kl" else None      # the test locale prefixes every translated string (sheet names, labels, types)
    try:
        return _collect_files(case, out, files, names, a2c, r)
    finally:
        odsread.STRIP = None


SHEETREF = re.compile(r"'([^']+)'\.\$?[A-Za-z]+\$?\d+|HYPERLINK\(\"#([^\"]+?)\.[a-z]+\d+")


def dangling_refs(path):
    """cross-sheet references (formulas and hyperlinks) that name a sheet the file does not have — on the raw names, whatever the language"""
    import odsread
    keep, odsread.STRIP = odsread.STRIP, None
    try:
        sheets = read_ods(path)
    finally:
        odsread.STRIP = keep
    have = {n for n, _ in sheets}
    bad = []
    for n, rows in sheets:
        for row in rows:
            for c in row:
                if c and c[0] == "formula":
                    for m in SHEETREF.finditer(c[1]):
                        t = m.group(1) or m.group(2)
                        if t.startswith("'") and t.endswith("'"):
                            t = t[1:-1]
                        if t not in have and t not in bad:
                            bad.append(t)
    return bad


def _collect_files(case, out, files, names, a2c, r):
    for f in files:
        if f.endswith(".ods"):
            try:
                for t in dangling_refs(os.path.join(out, f)):
                    r["rows"].append(["DANGLING", f, t])
            except Exception:
                pass
    for f in files:
        p = os.path.join(out, f)
        if not f.endswith(".ods") or f.startswith(("~$", ".~lock.")):
            continue            # not a report: what an office suite leaves next to one (the stale-output variant puts such files there)
        if not r["content_checked"]:
            # translated sheet and table names: only check that the file is a readable spreadsheet with data in it
            try:
                sheets = read_ods(p)
                if not sheets or not any(rows for _, rows in sheets):
                    r["rows"].append(["UNREADABLE", f, "no sheets / empty"])
            except Exception as e:
                r["rows"].append(["UNREADABLE", f, type(e).__name__ + ": " + str(e)[:80]])
            continue
        try:
            if f.endswith("rp2_full_report.ods"):
                rows, full = R.extract_full(p, names, a2c)
                r["rows"] += rows
                r["_full"] = full
                r["legend"] = legend_of(p)
            elif re.search(r"tax_report_(us|ie)\.ods$", f):
                rows, sheets = R.extract_tax(p, "us" if f.endswith("us.ods") else "ie")
                r["rows"] += rows
                r["sheets"] = sheets
            elif f.endswith("open_positions.ods"):
                r["rows"] += R.extract_open(p, names)
            elif f.endswith("tax_report_jp.ods"):
                r["rows"] += R.extract_jp(p)
        except Exception as e:
            r["rows"].append(["UNREADABLE", f, type(e).__name__ + ": " + str(e)[:80]])
    return r


def run_impl(case, hashseed=None, stale=False):
    if case.get("fresh") and not stale and case.get("variant") is None:
        # a real interpreter start: the forked child re-imports the report modules by hand (to rebind gettext), which would hide a
        # dependence on the import order of the entry point
        return run_subprocess(case, 0)
    d = os.path.join(SCR, "cli")
    shutil.rmtree(d, ignore_errors=True)
    os.makedirs(d)
    write_inputs(case, d)
    if stale:
        os.makedirs(os.path.join(d, "out"))
        open(os.path.join(d, "out", "unrelated.txt"), "w").write("keep me")
        m = (case["sched"] and (list(case["sched"].values())[0] if len(case["sched"]) == 1 else "mixed")) or case["method"] or country_facts(case["entry"])["default_method"]
        open(os.path.join(d, "out", f"{case['prefix']}{m}_rp2_full_report.ods"), "w").write("stale garbage")
        # ... and, for every report of this run, what an office suite leaves next to a file that is (or was) open: a lock file, a backup copy
        # and a temporary file; sometimes an older version of the report itself
        for k_, name in enumerate(expected_files(case)):
            open(os.path.join(d, "out", f".~lock.{name}#"), "w").write(",user,host,01.01.2024 10:00,file:///home/user/.config/libreoffice/4;")
            open(os.path.join(d, "out", name + ".bak"), "w").write("older copy")
            open(os.path.join(d, "out", "~$" + name), "w").write("office temp")
            if k_ % 2 == 1 and not os.path.exists(os.path.join(d, "out", name)):
                open(os.path.join(d, "out", name), "w").write("report of an earlier run")
    link_target = None
    if case.get("variant") == "report-is-symlink":
        # the output directory already holds the name of a report as a symbolic link to a file kept elsewhere: the run may replace the
        # link, never what it points at
        os.makedirs(os.path.join(d, "out"), exist_ok=True)
        os.makedirs(os.path.join(d, "archive"))
        link_target = os.path.join(d, "archive", "filed_last_year.ods")
        open(link_target, "w").write("filed report, do not touch")
        m = (case["sched"] and (list(case["sched"].values())[0] if len(case["sched"]) == 1 else "mixed")) or case["method"] or country_facts(case["entry"])["default_method"]
        os.symlink(link_target, os.path.join(d, "out", f"{case['prefix']}{m}_rp2_full_report.ods"))
    h0 = (sha(os.path.join(d, "in.ods")), sha(os.path.join(d, "in.ini")))
    argv = argv_of(case, d)
    res = run_child(case, d, argv)
    r = collect(case, d, res)
    if link_target:
        m_ = os.path.join(d, "out", f"{case['prefix']}{m}_rp2_full_report.ods")
        if os.path.islink(m_):          # the run ended before that report was written: the link is the harness's, not an output
            r["files"] = [f for f in r["files"] if f != os.path.basename(m_)]
        r["link_target_intact"] = os.path.exists(link_target) and open(link_target, "rb").read() == b"filed report, do not touch"
    r["inputs_unchanged"] = h0 == (sha(os.path.join(d, "in.ods")), sha(os.path.join(d, "in.ini")))
    r["dir"] = d
    if stale:
        r["files"] = [f for f in r["files"] if f != "unrelated.txt" and not f.startswith((".~lock.", "~$")) and not f.endswith(".bak")]
        if res["exit"] != 0:
            # a failing run writes nothing: what is left of the earlier run's reports is not its output
            r["files"] = [f for f in r["files"] if open(os.path.join(d, "out", f), "rb").read() not in (b"report of an earlier run", b"stale garbage")]
        r["stale_kept"] = os.path.exists(os.path.join(d, "out", "unrelated.txt")) and open(os.path.join(d, "out", "unrelated.txt")).read() == "keep me"
    return r


# ---------------- model
def encode(case):
    L = ["RESET"] + ini_lines(case)
    for a, rows in case["assets"].items():
        L.append(f"S {PA.hexs(a)}")
        g = grid(a, rows, case["cfee"].get(a, {}), case["badcell"][1:] if case.get("fault") == "bad-cell" and case["badcell"][0] == a else None, order=case.get("table_order") or ("IN", "OUT", "INTRA"), gap=case.get("gap", 0))
        for row in g + [[None] * W, [None] * W]:
            L.append("R " + " ".join(PA.cell_tok(v) for v in row + [None]))
    fd = date.fromisoformat(case["from"]) if case["from"] else None
    td = date.fromisoformat(case["to"]) if case["to"] else None
    f = case.get("fault")
    if f == "from-after-to":
        fd, td = date(2021, 6, 1), date(2020, 6, 1)
    if f == "jp-from-and-to":
        fd, td = fd or date(2020, 1, 1), td or date(2021, 12, 31)
    L.append(f"CFG 0 {1 if case['neg'] else 0} {P.o(P.ordn(fd) if fd else None)} {P.o(P.ordn(td) if td else None)} 1 1")
    m = case["method"]
    if f == "method-twice":
        m = "fifo"
    if f == "method-not-allowed":
        m = "zzfo"
    lang = "zz" if f == "unknown-language" else case["lang"]
    only = "ZZ" if f == "unknown-asset-option" else case["only"]
    L.append(f"CLI rp2_{case['entry']} {m or '-'} {lang or '-'} {case['prefix'] or '-'} {PA.hexs(only) if only else '-'} {1 if f == 'plugin-flag' else 0}")
    return L


MODELLED_FAULTS = {None, "bad-cell", "jp-from-and-to", "from-after-to", "unknown-asset-option", "unknown-language", "plugin-flag", "method-twice", "unknown-method-in-section", "method-not-allowed",
                   "asset-without-sheet", "ini-missing-section", "ini-duplicate-column", "ini-bad-header-name", "ini-non-integer-column", "ini-empty-assets", "ini-unknown-section",
                   "ini-duplicate-option", "config-with-bom", "ini-negative-column", "ini-duplicate-asset", "ini-section-twice", "ini-early-year", "unknown-generator"}


def run_model(cases):
    out = common.run_driver("rdriver", [l for c in cases for l in encode(c)]).split("END\n")
    res = []
    for c, b in zip(cases, out):
        lines = b.strip().splitlines()
        if not lines or not lines[0].startswith("EXIT") or any(l == "bad-op" for l in lines):
            res.append({"status": "model-protocol-error", "exit": -1, "files": [], "rows": []})
            continue
        t = lines[0].split(" ")
        files = [l.split(" ", 1)[1] for l in lines if l.startswith("FILE ")]
        rows = R.parse_model(c, "\n".join(l for l in lines[2:] if not l.startswith("FILE ")))
        for r_ in rows.get("rows", []):      # model account numbers (exchange index * 1000 + holder index) -> index into ACCTS
            k_ = {"TB": 3, "OE": 4}.get(r_[0])
            if k_ is not None:
                r_[k_] = ACCTS.index((EXS[r_[k_] // 1000], HOS[r_[k_] % 1000]))
        m = {"status": "exit:" + t[1], "exit": int(t[1]), "stage": t[2] if len(t) > 2 else "", "files": sorted(files), "rows": rows.get("rows", []),
             "legend_method": lines[1].split(" ", 1)[1].replace("_", " ") if len(lines[1].split(" ", 1)) > 1 else ""}
        if "sheets" in rows:
            m["sheets"] = rows["sheets"]
        res.append(m)
    return res


def open_canon(r):
    """rp2 orders accounts by the text `exchange_holder`; the two accounts of this stream that spell the same text tie there and keep the
    order of their first transaction, which no property speaks about: the rows of the open-positions report are compared as a set
    (their position in the sheet is dropped)"""
    if r[0] in ("OA", "OE"):
        return [r[0], 0] + list(r[2:])
    if r[0] == "OT":
        return [r[0], r[1], 0] + list(r[3:])
    if r[0] in ("TB", "TT"):        # Account Balances rows of the full report: same tie
        return [r[0], r[1], 0] + list(r[3:])
    return r


def diff(case, i, m):
    if case.get("env"):
        return []                       # environment switches (profiler, log level) are outside the model — e.g. under RP2_ENABLE_PROFILER
                                        # cProfile swallows SystemExit and every run exits 0: the audit oracle (C18) is what applies
    if case.get("fault") not in MODELLED_FAULTS:
        return []                       # faults outside the model (input file is not an .ods, configuration file missing, malformed date option): oracle only
    if m["exit"] < 0:
        return ["model"]
    d = []
    if (i["exit"] == 0) != (m["exit"] == 0):
        return ["exit"]
    if i["exit"] != 0 and m["exit"] != 0:
        if (i["exit"] == 2) != (m["exit"] == 2):
            d.append("exit")
        if i["files"] != m["files"]:
            d.append("files")
        return d
    if i["files"] != m["files"]:
        d.append("files")
    if i["status"] != "exit:0":
        return d + ["status"]
    if not i.get("content_checked", True):
        return d + (["unreadable"] if any(r[0] == "UNREADABLE" for r in i["rows"]) else [])
    d += [x for x in R.diff(case, {"status": "ok", "rows": [open_canon(r) for r in i["rows"] if r[0] in R.KIND], "sheets": i.get("sheets")},
                            {"status": "ok", "rows": [open_canon(r) for r in m["rows"]], "sheets": m.get("sheets")})]
    if any(r[0] == "UNREADABLE" for r in i["rows"]):
        d.append("unreadable")
    if i.get("legend") and m.get("legend_method") and i["legend"][0] != m["legend_method"]:
        d.append("legend")
    return d


# ---------------- validity of a generated input (decided from the rows, without running rp2)
def asset_valid(rows, neg, jp):
    rows = effective_rows(rows)
    order = {"IN": 0, "INTRA": 1, "OUT": 2}
    bal = {}
    if not any(r[0] == "IN" for r in rows):
        return False
    for r in sorted(rows, key=lambda r: (r[2], order[r[0]], r[1])):
        if r[0] == "IN":
            bal[r[5]] = bal.get(r[5], 0) + r[7]
        elif r[0] == "OUT":
            bal[r[5]] = bal.get(r[5], 0) - r[7] - r[8]
            if bal[r[5]] < 0 and not neg:
                return False
        else:
            bal[r[4]] = bal.get(r[4], 0) - r[7]
            bal[r[5]] = bal.get(r[5], 0) + r[8]
            if bal[r[4]] < 0 and not neg:
                return False
    # every disposal covered by lots acquired at or before it (events: earn-IN, OUT, fee-INTRA; ties: IN, OUT, INTRA)
    lots = [r for r in rows if r[0] == "IN"]
    disposed = 0
    eo = {"IN": 0, "OUT": 1, "INTRA": 2}
    for e in sorted(rows, key=lambda r: (r[2], eo[r[0]], r[1])):
        if e[0] == "IN":
            continue
        amt = (e[9] if e[9] is not None else e[7] + e[8]) if e[0] == "OUT" else e[7] - e[8]
        disposed += amt
        if disposed > sum(l[7] for l in lots if l[2] <= e[2]):
            return False
    if jp and not P.fee_fiat_visible({"rows": rows}):
        return False
    return True


def with_cfee(case, a):
    """rows of asset `a` with the crypto-fee acquisitions split as the parser does (fee-only disposal at the same instant)"""
    rows = [list(r) for r in case["assets"][a]]
    extra = []
    for r in rows:
        cf = case["cfee"].get(a, {}).get(str(r[1]))
        if r[0] == "IN" and cf:
            extra.append(["OUT", -(len(extra) + 1), r[2], r[3], "FEE", r[5], r[6], 0, cf, None, None, None])
    return rows + extra


def schedule_covers(case):
    """an [accounting_methods] schedule must name a method for the year of every taxable event (a schedule that starts later is a
    configuration that cannot be computed, not a crash)"""
    if not case["sched"]:
        return True
    first = min(int(y) for y in case["sched"])
    names = [case["only"]] if case["only"] else list(case["assets"])
    return all(P.local_year(r[2], r[3]) >= first for a in names for r in with_cfee(case, a) if P.taxable(r))


def case_valid(case):
    names = [case["only"]] if case["only"] else list(case["assets"])
    return schedule_covers(case) and all(asset_valid(with_cfee(case, a), case["neg"], case["entry"] == "jp") for a in names)


def expected_files(case):
    facts = country_facts(case["entry"])
    sched = case["sched"]
    m = (list(sched.values())[0] if len(sched) == 1 else "mixed") if sched else (case["method"] or facts["default_method"])
    return sorted(f"{case['prefix']}{m}_{g.split('.')[-1]}.ods" for g in facts["generators"])


# ---------------- oracles
def oracle_c16(case, res, guard=True):
    if case.get("fault") is not None or not case_valid(case):
        return None
    if case["entry"] == "jp" and case["from"] and case["to"]:
        return None          # documented refusal of the JP report (counted under C12 / finding F8)
    if res["exit"] != 0:
        ev = [e for e in res["events"] if e[0] == "uncaught"]
        return f"valid input and supported options, but the run exits with status {res['exit']} {ev[:1]} (options: {argv_of(case, '.')[1:-2]})"
    if res["files"] != expected_files(case):
        return f"exit 0 but reports written are {res['files']}, expected {expected_files(case)}"
    if any(r[0] == "UNREADABLE" for r in res["rows"]):
        return f"report cannot be read back: {[r for r in res['rows'] if r[0] == 'UNREADABLE'][:1]}"
    return None


def oracle_c12(case, res, guard=True):
    f = case.get("fault")
    if f is None or (guard and f in KNOWN_FAULTS):
        return None
    if res["exit"] == 0:
        return f"invocation with fault '{f}' exits 0 and writes {res['files']}"
    if res["files"]:
        return f"invocation with fault '{f}' exits {res['exit']} but wrote {res['files']}"
    return None


def oracle_c18(case, res, guard=True):
    if case.get("variant") == "log-is-a-file" and "variant_done" not in res:
        # a fresh process started in a directory where ./log cannot be created: nothing may be written anywhere else
        r2 = run_subprocess(case, 0, log_is_file=True)
        r2["variant_done"] = True
        v = oracle_c18(case, r2, guard)
        if v:
            return "started where ./log is a regular file: " + v
        if not r2["log_file_intact"]:
            return "started where ./log is a regular file: that file was modified"
    d = res.get("dir", "")
    out = os.path.join(d, "out")
    logd = os.path.join(d, "log")
    zlog = os.path.join(SCR, "log")
    for e in res["events"]:
        if e[0].startswith("socket.") or e[0] in FORBIDDEN_EVENTS:
            return f"run performed {e[0]} {e[1]}"
        if e[0] in ("write-open",) + WRITE_EVENTS:
            for pth in e[1:]:
                p = os.path.abspath(os.path.join(d, pth)) if not os.path.isabs(pth) else os.path.abspath(pth)
                if not (p == out or p.startswith(out + os.sep) or p == logd or p.startswith(logd + os.sep) or p == zlog or p.startswith(zlog + os.sep) or p == os.devnull):
                    return f"{e[0]} outside the output and log directories: {p}"
    if res.get("inputs_unchanged") is False:
        return "the input spreadsheet or the configuration file was modified"
    if res.get("link_target_intact") is False:
        return "a report name in the output directory was a symbolic link: the file it points at (outside the output directory) was overwritten or removed"
    return None


def oracle_c19(case, res, guard=True):
    """links in the real full report, followed through the parser's fee split: a lot cell must lead to the In-Flow row of that lot"""
    if res["exit"] != 0:
        return None
    for r in res["rows"]:
        if r[0] == "DANGLING" and r[1].endswith("rp2_full_report.ods"):
            return f"{r[1]}: a link or formula refers to sheet {r[2]!r}, which the file does not have"
    if "_full" not in res:
        return None
    kind = {}
    for a in res["_a2c"]:
        for r in with_cfee(case, a):
            kind[(a, r[1])] = r[0]
    rowof = {}
    for r in res["rows"]:
        if r[0] in ("IOIN", "IOOUT", "IOX"):
            if r[-1] is not True:
                return f"{r[1]} In-Out row {r[2]} does not hold the expected transaction"
            rowof[(r[1], {"IOIN": "IN", "IOOUT": "OUT", "IOX": "INTRA"}[r[0]], r[3])] = r[2]
    for r in res["rows"]:
        if r[0] != "TD":
            continue
        a = r[1]
        if r[4] is not None:
            exp = rowof.get((a, "IN", r[4]))
            exp = [f"{a} In-Out", exp] if exp else None
            if r[10] != exp:
                return f"{a} Tax row {r[2]}: acquired lot {r[4]} links to {r[10]}, its In-Flow row is {exp}"
        k = kind.get((a, r[3]))
        if k:
            exp = rowof.get((a, k, r[3]))
            exp = [f"{a} In-Out", exp] if exp else None
            if r[9] != exp:
                return f"{a} Tax row {r[2]}: taxable event {r[3]} ({k}) links to {r[9]}, its row is {exp}"
    return None


def oracle_c13(case, res, guard=True):
    """legend: method(s) and date filters actually used"""
    if res["exit"] != 0 or not res.get("legend"):
        return None
    facts = country_facts(case["entry"])
    sched = case["sched"]
    if sched and len(sched) > 1:
        old = 1970
        parts = []
        for y, m in sched.items():
            parts.append(f"{old}->{y}:{m.upper()}" if int(y) - old > 1 else f"{y}:{m.upper()}")
            old = int(y)
        want = ", ".join(parts)
    else:
        want = (list(sched.values())[0] if sched else (case["method"] or facts["default_method"])).upper()
    got = res["legend"]
    if got[0] != want:
        return f"Legend states accounting method '{got[0]}', the run used '{want}'"
    for k, key in ((1, "from"), (2, "to")):
        if case[key] is None and got[k] != "non-specified":
            return f"Legend states {key}-date '{got[k]}' although none was given"
        if case[key] is not None and not got[k].startswith(case[key]):
            return f"Legend states {key}-date '{got[k]}', the run used {case[key]}"
    return None


def canon(res):
    return {"exit": res["exit"], "files": res["files"], "rows": sorted(json.dumps(r, default=str) for r in res["rows"]), "legend": res.get("legend")}


BOOT = """
import sys, os, json
events = []
W = %r
FB = %r
EVF = %r
def hook(ev, args):
    try:
        if ev == "open":
            path, mode, flags = args
            if os.path.abspath(str(path)) == EVF:
                return
            if (isinstance(mode, str) and any(c in mode for c in "wax+")) or (mode is None and isinstance(flags, int) and flags & (os.O_WRONLY | os.O_RDWR | os.O_CREAT)):
                events.append(["write-open", os.path.abspath(str(path))])
        elif ev.startswith("socket.") or ev in FB:
            events.append([ev, str(args)[:120]])
        elif ev in W:
            events.append([ev, os.path.abspath(str(args[0]))])
    except Exception:
        pass
sys.addaudithook(hook)
import atexit
atexit.register(lambda: open(EVF, "w").write(json.dumps(events[:400])))
sys.argv = %r
from rp2.plugin.country.%s import rp2_entry
rp2_entry()
"""


def run_subprocess(case, hashseed, log_is_file=False):
    """a real interpreter start (needed for PYTHONHASHSEED and for import-time behaviour), audited; returns the collected result"""
    d = os.path.join(SCR, "cli_sub")
    shutil.rmtree(d, ignore_errors=True)
    os.makedirs(d)
    write_inputs(case, d)
    if log_is_file:
        open(os.path.join(d, "log"), "w").write("not a directory")
    argv = argv_of(case, d)
    evf = os.path.join(SCR, "cli_sub_events.json")
    if os.path.exists(evf):
        os.remove(evf)
    env = dict(os.environ, PYTHONHASHSEED=str(hashseed))
    code = BOOT % (WRITE_EVENTS, FORBIDDEN_EVENTS, evf, argv, case["entry"])
    p = subprocess.run([sys.executable, "-c", code], cwd=d, env=env, capture_output=True, text=True, timeout=120)
    try:
        events = json.load(open(evf))
    except Exception:
        events = []
    r = collect(case, d, {"exit": p.returncode, "events": events})
    r["dir"] = d
    r["inputs_unchanged"] = True
    r["log_file_intact"] = (not log_is_file) or (os.path.isfile(os.path.join(d, "log")) and open(os.path.join(d, "log")).read() == "not a directory")
    return r


def oracle_c17(case, res, guard=True):
    if case.get("fault") is not None or res["exit"] != 0:
        return None
    v = case.get("variant", "repeat")
    base = canon(res)
    if v == "repeat":
        other = canon(run_impl(case))
        what = "a second identical run"
    elif v == "stale-output":
        r2 = run_impl(case, stale=True)
        if r2.get("stale_kept") is False:
            return "an unrelated file in the output directory was modified or removed"
        other = canon(r2)
        what = "a run into an output directory holding reports of an earlier run with their lock / backup / temporary files and an unrelated file"
    elif v == "hashseed":
        a = canon(run_subprocess(case, 1))
        for hs in (2, 3, 4):
            b = canon(run_subprocess(case, hs))
            if a != b:
                return f"reports differ between PYTHONHASHSEED=1 and PYTHONHASHSEED={hs}: " + first_diff(a, b)
        other = a
        what = "a run in a fresh interpreter with PYTHONHASHSEED=1"
    elif v == "tables":
        # the three tables of every sheet in each of the other five orders (rows keep their order within a table; row numbers change)
        if any(len({r[2] for r in rows}) < len(rows) for rows in case["assets"].values()):
            return None
        cur = case.get("table_order") or ["IN", "OUT", "INTRA"]
        strip = lambda r: [("id" if (k in (2, 3, 4) and r[0] in ("IOIN", "IOOUT", "IOX", "TD")) or (k in (9, 10) and r[0] == "TD") or (k == 6 and r[0] == "SU") else x) for k, x in enumerate(r)]
        mine = sorted(json.dumps(strip(r), default=str) for r in res["rows"] if r[0] in ("IOIN", "IOOUT", "IOX", "TD", "TY", "TB", "TT", "TP", "TR", "OA", "OE", "OT", "JS", "JR"))
        for torder in (["IN", "OUT", "INTRA"], ["IN", "INTRA", "OUT"], ["OUT", "IN", "INTRA"], ["OUT", "INTRA", "IN"], ["INTRA", "IN", "OUT"], ["INTRA", "OUT", "IN"]):
            if torder == list(cur):
                continue
            new_assets, new_cfee = {}, {}
            for a, rows in case["assets"].items():
                new = [list(r) for r in rows]
                rid = 3
                old2new = {}
                for tbl in torder:
                    for x in new:
                        if x[0] == tbl:
                            old2new[x[1]] = rid
                            x[1] = rid
                            rid += 1
                    rid += 3 + case.get("gap", 0)
                new_assets[a] = new
                new_cfee[a] = {str(old2new[int(k)]): v_ for k, v_ in case["cfee"].get(a, {}).items()}
            r2 = run_impl(dict(case, table_order=torder, assets=new_assets, cfee=new_cfee, variant=None))
            if r2["exit"] != 0:
                return f"the same sheet with its tables in the order {torder} is rejected (exit {r2['exit']}); in the order {list(cur)} it is computed"
            theirs = sorted(json.dumps(strip(r), default=str) for r in r2["rows"] if r[0] in ("IOIN", "IOOUT", "IOX", "TD", "TY", "TB", "TT", "TP", "TR", "OA", "OE", "OT", "JS", "JR"))
            if mine != theirs:
                return (f"reports differ between the table orders {list(cur)} and {torder} of the same sheet (timestamps distinct): "
                        + str([x for x in mine if x not in theirs][:1] + [x for x in theirs if x not in mine][:1]))
        return None
    elif v == "permuted":
        # rows reordered within each table (ids change, everything else must not) — only when timestamps are distinct within an asset
        if any(len({r[2] for r in rows}) < len(rows) for rows in case["assets"].values()):
            return None
        rng = random.Random(len(json.dumps(case, default=str)))
        perm = {}
        # the tables of a sheet in any of the six orders (the same order for all sheets of the run), rows shuffled within each table
        torder = rng.choice([["IN", "OUT", "INTRA"], ["IN", "INTRA", "OUT"], ["OUT", "IN", "INTRA"], ["OUT", "INTRA", "IN"], ["INTRA", "IN", "OUT"], ["INTRA", "OUT", "IN"]])
        for a, rows in case["assets"].items():
            new = [list(r) for r in rows]
            rng.shuffle(new)
            rid = 3
            old2new = {}
            for tbl in torder:
                for x in new:
                    if x[0] == tbl:
                        old2new[x[1]] = rid
                        x[1] = rid
                        rid += 1
                rid += 3 + case.get("gap", 0)
            perm[a] = (new, old2new)
        c2 = dict(case, table_order=torder, assets={a: perm[a][0] for a in perm}, cfee={a: {str(perm[a][1][int(k)]): v_ for k, v_ in case["cfee"].get(a, {}).items()} for a in perm})
        r2 = run_impl(c2)
        if r2["exit"] != 0:
            return f"the same transactions with rows reordered within the tables are rejected (exit {r2['exit']})"
        strip = lambda r: [("id" if (k in (3, 4) and r[0] in ("IOIN", "IOOUT", "IOX", "TD")) else x) for k, x in enumerate(r)]
        mine = sorted(json.dumps(strip(r), default=str) for r in res["rows"])
        theirs = sorted(json.dumps(strip(r), default=str) for r in r2["rows"])
        if mine != theirs:
            return "reports differ when rows are reordered within the tables (timestamps distinct): " + str([x for x in mine if x not in theirs][:1] + [x for x in theirs if x not in mine][:1])
        return None
    else:
        if case["only"] or len(case["assets"]) < 2:
            return None
        a = sorted(case["assets"])[-1]
        r2 = run_impl(dict(case, only=a))
        if r2["exit"] != 0:
            return f"processing asset {a} alone fails (exit {r2['exit']}) while the run over all assets succeeds"
        # artificial (negative) transaction ids come from a counter shared by all assets of a run: internal, not shown in any report
        norm = lambda r: [("art" if (k in (3, 4) and isinstance(x, int) and x < 0) else "pos" if (r[0] == "SU" and k == 1) else x) for k, x in enumerate(r)]
        mine = sorted(json.dumps(norm(r), default=str) for r in res["rows"] if asset_row(r, a))
        alone = sorted(json.dumps(norm(r), default=str) for r in r2["rows"] if asset_row(r, a))
        if mine != alone:
            return f"rows of asset {a} differ between the run over all assets and the run with -a {a}: " + str([x for x in mine if x not in alone][:1] + [x for x in alone if x not in mine][:1])
        return None
    if other != base:
        return f"output differs from {what}: " + first_diff(base, other)
    return None


def asset_row(r, a):
    """rows whose content must not depend on the other assets (row numbers on shared sheets do, and are excluded); the asset's lines of the
    shared Summary sheet count too — whether a cell is a link, and to which row of the asset's own Tax sheet — without their position"""
    return (r[0] in ("IOIN", "IOOUT", "IOX", "TY", "TB", "TT", "TP", "TD") and r[1] == a) or (r[0] == "SU" and r[2] == a)


def first_diff(a, b):
    for k in ("exit", "files", "legend"):
        if a[k] != b[k]:
            return f"{k}: {a[k]} vs {b[k]}"
    x = [r for r in a["rows"] if r not in b["rows"]][:1]
    y = [r for r in b["rows"] if r not in a["rows"]][:1]
    return f"rows {x} vs {y}"


def oracle_c02(case, res, guard=True):
    """end to end (through the parser, incl. crypto-fee acquisitions): a history in which every disposal is covered is not rejected"""
    if case.get("fault") is not None or not case_valid(case):
        return None
    if case["entry"] == "jp" and case["from"] and case["to"]:
        return None
    if res["exit"] != 0:
        return f"every disposal is covered by lots acquired at or before it, yet the run is rejected (exit {res['exit']}, options {argv_of(case, '.')[1:-2]})"
    return None


def _us(t):
    from datetime import datetime, timezone
    return (t - datetime(1970, 1, 1, tzinfo=timezone.utc)) // timedelta(microseconds=1)


def file_fractions(res, a):
    """the Gain / Loss Detail rows of asset `a` in the real report, each identified through the hyperlinks of the file itself:
    (event kind, event id, lot id or None, amount in grid units, proceeds, cost, gain, long, sheet row)"""
    rowmap = {}
    for r in res["rows"]:
        if r[0] in ("IOIN", "IOOUT", "IOX") and r[1] == a:
            rowmap[r[2]] = ({"IOIN": "IN", "IOOUT": "OUT", "IOX": "INTRA"}[r[0]], r[3])
    out = []
    for r in res["rows"]:
        if r[0] != "TD" or r[1] != a:
            continue
        ev = rowmap.get(r[9][1]) if r[9] else None
        lot = rowmap.get(r[10][1]) if r[10] else None
        out.append((ev[0] if ev else None, ev[1] if ev else None, lot[1] if lot else None, round(r[5] * 10**11), r[6], r[7], r[8], r[2], r[10] is not None))
    return out


def oracle_c01(case, res, guard=True):
    """end to end, from the file alone: every fraction of the Gain / Loss Detail table was taken from the lot the method in force in the
    year of the disposal ranks first among the lots acquired at or before it that still have balance (property-text strength: the
    method's primary criterion only; the schedule is the one the configuration file states, whatever the order of its lines)"""
    if case.get("fault") is not None or res["exit"] != 0 or "_full" not in res or case["from"] or case["to"]:
        return None
    sched = case["sched"] or {"1970": case["method"] or country_facts(case["entry"])["default_method"]}
    years = sorted(int(y) for y in sched)
    for a, cd in res["_a2c"].items():
        tx = {}
        for kind, st in (("IN", cd.in_transaction_set), ("OUT", cd.out_transaction_set), ("INTRA", cd.intra_transaction_set)):
            for t in st:
                tx[(kind, int(t.internal_id))] = t
        lots = {i: t for (k, i), t in tx.items() if k == "IN"}
        taxable = [t for t in tx.values() if t.is_taxable()]
        if guard and any(x.timestamp == y.timestamp and x.timestamp.year != y.timestamp.year for x in taxable for y in taxable):
            continue            # finding F7: two events at one instant in different local years
        rem = {i: int((Decimal(str(t.crypto_in)) * 10**11).to_integral_value()) for i, t in lots.items()}
        for k, (ek, ei, li, amt, _p, _c, _g, row, haslot) in enumerate(file_fractions(res, a)):
            if not haslot:
                continue
            e = tx.get((ek, ei))
            if e is None or li not in lots:
                return f"{a} Tax row {row}: the links of the fraction lead to no transaction of the sheet (event {ek} {ei}, lot {li})"
            ys = [y for y in years if y <= e.timestamp.year]
            if not ys:
                return None
            m = sched[str(ys[-1])]
            L = lots[li]
            if L.timestamp > e.timestamp:
                return f"{a} Tax row {row}: lot {li} was acquired after the disposal {ei}"
            for j, J in lots.items():
                if j == li or rem[j] <= 0 or J.timestamp > e.timestamp:
                    continue
                better = {"fifo": J.timestamp < L.timestamp, "lifo": J.timestamp > L.timestamp, "hifo": J.spot_price > L.spot_price, "lofo": J.spot_price < L.spot_price}[m]
                if better:
                    return (f"{a} Tax row {row}: the disposal {ei} of {e.timestamp.year} ({m} is in force: schedule {dict(sorted(sched.items()))}) took lot {li} "
                            f"while lot {j} with balance {rem[j]}e-11 ranks before it")
            rem[li] -= amt
    return None


def oracle_c03(case, res, guard=True):
    """end to end, from the sheet to the report: the taxable events of the Gain / Loss Detail table are exactly the earn-typed IN rows, the
    OUT rows (with one fee-only disposal for every acquisition that paid its fee in crypto, whatever its type) and the transfers with a
    fee — each for its full amount, income rows without a lot. Rows are identified by (table, instant), not by row number."""
    if case.get("fault") is not None or res["exit"] != 0 or "_full" not in res or case["from"] or case["to"]:
        return None
    for a, cd in res["_a2c"].items():
        rows = effective_rows(with_cfee(case, a))
        if guard and not P.fee_fiat_visible({"rows": rows}):
            continue            # finding F12: a transfer fee worth less than 5e-14 fiat is not taxed
        want = {}
        for r in rows:
            if not P.taxable(r):
                continue
            amt = r[7] if r[0] == "IN" else (r[9] if r[9] is not None else r[7] + r[8]) if r[0] == "OUT" else r[7] - r[8]
            k = (r[0], r[2], "fee-only" if r[1] < 0 else "row")
            want[k] = want.get(k, 0) + amt
        when = {}
        for kind, st in (("IN", cd.in_transaction_set), ("OUT", cd.out_transaction_set), ("INTRA", cd.intra_transaction_set)):
            for t in st:
                when[(kind, int(t.internal_id))] = _us(t.timestamp)
        got = {}
        for (ek, ei, li, amt, _p, _c, _g, row, haslot) in file_fractions(res, a):
            if ei is None or (ek, ei) not in when:
                return f"{a} Tax row {row}: the taxable event of the fraction is not linked to a row of the In-Out sheet"
            k = (ek, when[(ek, ei)], "fee-only" if ei < 0 else "row")
            got[k] = got.get(k, 0) + amt
            if (ek == "IN") == haslot:
                return f"{a} Tax row {row}: {'an income row has a lot' if ek == 'IN' else 'a disposal has no lot'}"
        if got != want:
            x = sorted(k for k in got if got[k] != want.get(k))[:3]
            y = sorted(k for k in want if want[k] != got.get(k))[:3]
            return (f"{a}: taxed (table, instant µs, kind -> amount e-11) {[(k, got[k]) for k in x]} vs taxable transactions of the sheet {[(k, want[k]) for k in y]}")
    return None


def oracle_c09(case, res, guard=True):
    """a run limited by a to-date reports the same fractions as a run on the sheet truncated at that date (end to end, with the method
    schedule of the configuration file)"""
    if case.get("fault") is not None or res["exit"] != 0 or "_full" not in res or not case["to"] or case["from"] or case.get("only"):
        return None
    if guard and not all(P.local_dates_monotone({"rows": effective_rows(with_cfee(case, a))}) for a in case["assets"]):
        return None             # finding F6
    td = date.fromisoformat(case["to"])
    keep = {a: [r for r in rows if ldate(r[2], r[3]) <= td] for a, rows in case["assets"].items()}
    if any(not any(r[0] == "IN" for r in rows) for rows in keep.values()):
        return None             # a sheet without acquisitions is not a valid input
    # rows keep their numbers only if no row before them is dropped: compare by content instead (timestamps identify rows)
    new_assets, new_cfee = {}, {}
    torder = case.get("table_order") or ["IN", "OUT", "INTRA"]
    for a, rows in keep.items():
        new = [list(r) for r in rows]
        rid = 3
        old2new = {}
        for tbl in torder:
            for x in new:
                if x[0] == tbl:
                    old2new[x[1]] = rid
                    x[1] = rid
                    rid += 1
            rid += 3 + case.get("gap", 0)
        new_assets[a] = new
        new_cfee[a] = {str(old2new[int(k)]): v_ for k, v_ in case["cfee"].get(a, {}).items() if int(k) in old2new}
    r2 = run_impl(dict(case, assets=new_assets, cfee=new_cfee, to=None, variant=None, fresh=False))
    if r2["exit"] != 0 or "_full" not in r2:
        return f"the history truncated at {case['to']} does not compute (exit {r2['exit']}) while the run limited by that to-date does"
    for a in res["_a2c"]:
        if a not in r2["_a2c"]:
            continue
        def frs(r_, cd):
            when = {}
            for kind, st in (("IN", cd.in_transaction_set), ("OUT", cd.out_transaction_set), ("INTRA", cd.intra_transaction_set)):
                for t in st:
                    when[(kind, int(t.internal_id))] = str(t.timestamp)
            return sorted((f[0], when.get((f[0], f[1])), when.get(("IN", f[2])), f[3], f[4], f[5], f[6]) for f in file_fractions(r_, a))
        x, y = frs(res, res["_a2c"][a]), frs(r2, r2["_a2c"][a])
        if x != y:
            return (f"{a}: fractions of the run limited by the to-date {case['to']} differ from the run on the sheet truncated at that date (event table, event time, lot time, "
                    f"amount, proceeds, cost basis, gain): {[f for f in x if f not in y][:1]} vs {[f for f in y if f not in x][:1]}")
    return None


def oracle_c05(case, res, guard=True):
    """end to end, from the sheet to the report: the LONG/SHORT cell of every Gain / Loss Detail row against the whole days between the
    instants of the two rows of the input sheet (threshold of the country; income rows are short)"""
    if case.get("fault") is not None or res["exit"] != 0 or "_full" not in res or case["from"] or case["to"]:
        return None
    period = {"us": 365, "es": 365}.get(case["entry"])
    if case["entry"] == "generic":
        period = int(os.environ.get("LONG_TERM_CAPITAL_GAINS", "0") or 0)
    for a in res["_a2c"]:
        when = {}
        for r in with_cfee(case, a):
            when[(r[0], r[1])] = r[2]
        arts = sorted([r for r in with_cfee(case, a) if r[1] < 0], key=lambda r: -r[1])
        for (ek, ei, li, amt, _p, _c, _g, row, haslot), td in zip(file_fractions(res, a), [r for r in res["rows"] if r[0] == "TD" and r[1] == a]):
            is_long = td[8]
            if not haslot:
                if is_long:
                    return f"{a} Tax row {row}: an income row is marked LONG"
                continue
            if li is None or (("IN", li) not in when):
                continue
            # the artificial fee rows carry ids of a run-wide counter: take their instant from the acquisition they belong to (same instant)
            if ei is not None and ei < 0:
                t_ev = res["_a2c"][a] and next((_us(t.timestamp) for t in res["_a2c"][a].out_transaction_set if int(t.internal_id) == ei), None)
            else:
                t_ev = when.get((ek, ei))
            if t_ev is None:
                continue
            span = t_ev - when[("IN", li)]
            want = period is not None and span // (86400 * 10**6) >= period
            if is_long != want:
                return (f"{a} Tax row {row}: marked {'LONG' if is_long else 'SHORT'} but {span} µs lie between the acquisition (row {li}) and the disposal "
                        f"(country {case['entry']}, threshold {period} days)")
    return None


def oracle_c10(case, res, guard=True):
    """a run with a date window shows, for the fractions it lists, exactly the figures of the run without a window (pairing, amount,
    proceeds, cost basis, gain, long/short), and lists every fraction of the unfiltered run whose event is dated inside the window"""
    if case.get("fault") is not None or res["exit"] != 0 or "_full" not in res or not (case["from"] or case["to"]):
        return None
    if case["entry"] == "jp" and case["from"] and case["to"]:
        return None
    if guard and (case["to"] or case["from"]) and not all(P.local_dates_monotone({"rows": effective_rows(with_cfee(case, a))}) for a in case["assets"]):
        return None             # finding F6: the scan over an entry set stops at the first entry dated after the to-date (and local dates
                                # need not follow the instant order); from-dates are kept under the same guard here because the filtered
                                # run's yearly numbering is compared row by row
    r2 = run_impl(dict(case, **{"from": None, "to": None, "variant": None, "fresh": False}))
    if r2["exit"] != 0 or "_full" not in r2:
        return None             # the unfiltered history does not compute: nothing to compare with (C08 / C16 are about that)
    fd = date.fromisoformat(case["from"]) if case["from"] else date.min
    td = date.fromisoformat(case["to"]) if case["to"] else date.max
    for a, cd in r2["_a2c"].items():
        if a not in res["_a2c"]:
            continue
        when = {}
        for kind, st in (("IN", cd.in_transaction_set), ("OUT", cd.out_transaction_set), ("INTRA", cd.intra_transaction_set)):
            for t in st:
                when[(kind, int(t.internal_id))] = t.timestamp.date()
        # the event of a fraction is always linked when it is shown (it lies in the window); the lot may be hidden (no link): compare the figures
        key = lambda f: (f[0], f[1], f[3], f[4], f[5], f[6])
        full = sorted(key(f) for f in file_fractions(r2, a) if f[1] is not None and fd <= when.get((f[0], f[1]), date.min) <= td)
        shown = sorted(key(f) for f in file_fractions(res, a))
        if shown != full:
            x = [f for f in shown if f not in full][:1]
            y = [f for f in full if f not in shown][:1]
            return (f"{a}: the Gain / Loss Detail rows of the run with window [{case['from']}, {case['to']}] differ from the in-window rows of the run "
                    f"without a window (event kind, event id, amount, proceeds, cost basis, gain): shown {x} vs unfiltered {y}")
    return None


def oracle_c15(case, res, guard=True):
    """open positions, end to end: unrealized cost = cost of everything acquired (from the sheet cells) minus realized cost"""
    if case.get("fault") is not None or res["exit"] != 0 or case["from"] or "_a2c" not in res or not res.get("content_checked", True):
        return None
    if guard and case["to"] and not all(P.local_dates_monotone({"rows": effective_rows(rows)}) for rows in case["assets"].values()):
        return None
    oa = [r for r in res["rows"] if r[0] == "OA"]
    td = date.fromisoformat(case["to"]) if case["to"] else date.max
    for a, cd in res["_a2c"].items():
        acquired = F(0)
        for r in effective_rows(case["assets"][a]):
            if r[0] != "IN" or ldate(r[2], r[3]) > td:
                continue
            cf = case["cfee"].get(a, {}).get(str(r[1]))
            nf = F(r[9], U) if r[9] is not None else F(r[7], U) * F(r[6], U)
            fee = (F(eff(cf), U) * F(r[6], U)) if cf else (F(r[8], U) if r[8] is not None else 0)
            acquired += F(r[10], U) if r[10] is not None else nf + fee
        realized = sum((F(g.fiat_cost_basis) for g in cd.gain_loss_set), F(0))
        unreal = acquired - realized
        got = [r for r in oa if r[2] == a]
        if got and unreal > F(1, 10**6):
            s_ = sum(g[6] for g in got)
            if abs(s_ - float(unreal)) > 1e-9 * max(1.0, float(unreal)):
                return f"{a}: unrealized cost {s_} vs cost of everything acquired (from the sheet) minus realized cost {float(unreal)}"
        # every account whose final balance, recomputed from the sheet rows up to the to-date, is positive — however small — is listed
        listed = [r for r in res["rows"] if r[0] == "OE" and r[2] == a]
        if listed:
            acq, sent, rec = P.flows({"rows": effective_rows(with_cfee(case, a))}, td if case["to"] else None)
            want = {k: acq[k] + rec[k] - sent[k] for k in set(acq) | set(sent) | set(rec)}
            want = {k: v for k, v in want.items() if v > 0}
            have = {r[4]: r[5] for r in listed}
            if set(have) != set(want) or any(abs(have[k] * U - want[k]) > 0.5 + 1e-9 * want[k] for k in want):
                return f"{a}: accounts listed {sorted(have.items())} vs positive final balances recomputed from the sheet {sorted((k, v / U) for k, v in want.items())}"
    return None


def oracle_c20(case, res, guard=True):
    """the Japanese report written by the real rp2_jp run (any language): sheets = asset-years with transactions, rows, chained references
    that name an existing sheet (the reports-stream oracle on the file read back)"""
    if case.get("fault") is not None or case["entry"] != "jp" or res["exit"] != 0 or not res.get("content_checked", True):
        return None
    names = [case["only"]] if case["only"] else list(case["assets"])
    rc = {"which": "jp", "assets": {a: effective_rows(case["assets"][a]) for a in names}, "from": case["from"], "to": case["to"]}
    for r in res["rows"]:
        if r[0] == "DANGLING" and r[1].endswith("tax_report_jp.ods"):
            return f"{r[1]}: a formula refers to sheet {r[2]!r}, which the file does not have"
    js = [r for r in res["rows"] if r[0] == "JS"]
    known = {r[1] for r in js}
    for r in js:
        if r[2] != "-" and r[2].split(":")[0] not in known:
            return f"{r[1]}: the opening balance refers to sheet {r[2].split(':')[0]!r}, which is not in the file (sheets {sorted(known)})"
    return R.oracle_c20(rc, {"status": "ok", "rows": [r for r in res["rows"] if r[0] in ("JS", "JR", "JSUM")]}, guard)


ORACLES = {"C01": oracle_c01, "C03": oracle_c03, "C09": oracle_c09, "C05": oracle_c05, "C10": oracle_c10, "C20": oracle_c20, "C02": oracle_c02, "C15": oracle_c15, "C12": oracle_c12, "C13": oracle_c13, "C16": oracle_c16, "C17": oracle_c17, "C18": oracle_c18, "C19": oracle_c19}


def shrink_candidates(case):
    _GAP["n"] = case.get("gap", 0)
    for a in list(case["assets"]):
        if len(case["assets"]) > 1 and case["only"] != a:
            yield dict(case, assets={k: v for k, v in case["assets"].items() if k != a})
    for a in list(case["assets"]):
        for k in range(len(case["assets"][a])):
            rows = [list(r) for r in case["assets"][a][:k] + case["assets"][a][k + 1:]]
            if any(r[0] == "IN" for r in rows):
                # rows are numbered as they lie in the sheet: renumber after the deletion (and re-key the crypto-fee map)
                cf = renumber(rows, case.get("table_order") or ["IN", "OUT", "INTRA"], case["cfee"].get(a, {}))
                c2 = dict(case, assets=dict(case["assets"], **{a: rows}), cfee=dict(case["cfee"], **{a: cf}))
                if case.get("fault") == "bad-cell" and case["badcell"][0] == a:
                    continue        # the faulty row is addressed by its number: keep that sheet as it is
                yield c2
    for key in ("from", "to", "lang", "method", "sched"):
        if case[key]:
            yield dict(case, **{key: None})


def hypotheses_failed(case, prop):
    h = []
    if prop == "C16" and case["entry"] == "jp" and not all(P.fee_fiat_visible({"rows": effective_rows(rows)}) for rows in case["assets"].values()):
        h.append("FeeFiatVisible")
    if prop == "C16" and not case_valid(case):
        h.append("input-not-valid(over-spending)")
    return h


def nontrivial(case, i):
    return (i["exit"] == 0 and len(i["rows"]) >= 3) or (case.get("fault") is not None and i["exit"] != 0)


def note_stats(case, i, st):
    st["entry:" + case["entry"]] += 1
    st["exit:%d" % i["exit"]] += 1
    st["fault:" + str(case.get("fault"))] += 1
    st["method:" + str(case["method"] if not case["sched"] else "schedule")] += 1
    st["lang:" + str(case["lang"])] += 1
    st["window:" + ("none" if not case["from"] and not case["to"] else "from+to" if case["from"] and case["to"] else "from" if case["from"] else "to")] += 1
    st["files"] += len(i["files"])
    st["rows"] += len(i["rows"])
    st["audit_events"] += len(i["events"])
    if any(case["cfee"].get(a) for a in case["assets"]):
        st["cases_with_crypto_fee_acquisitions"] += 1
    if case.get("variant"):
        st["variant:" + case["variant"]] += 1


def pub(r):
    return {k: v for k, v in r.items() if not k.startswith("_")}
