"""Engine stream: generated single-asset histories (small integers, many ties, income events, partial lots, method schedules)
-> (a) real rp2 compute_tax, (b) Lean model (driver: computeFractions = runM on the model engine); oracles C01, C02, C03 on the real output."""
import sys, os, json, random, re
from datetime import datetime, timedelta, timezone
from decimal import Decimal
from collections import defaultdict
from importlib import import_module
from prezzemolo.avl_tree import AVLTree
from rp2.configuration import Configuration
from rp2.plugin.country.us import US
from rp2.accounting_engine import AccountingEngine
from rp2.in_transaction import InTransaction
from rp2.out_transaction import OutTransaction
from rp2.intra_transaction import IntraTransaction
from rp2.transaction_set import TransactionSet
from rp2.input_data import InputData
from rp2.rp2_decimal import RP2Decimal as D
from rp2.tax_engine import compute_tax
from rp2.rp2_error import RP2Error
import common

EPOCH = datetime(1970, 1, 1, tzinfo=timezone.utc)
U = 10**11
ACCTS = [("Coinbase", "Bob"), ("Kraken", "Bob"), ("BlockFi", "Alice"), ("Coinbase", "Alice")]
CFG = Configuration(os.path.join(os.environ["RP2_REPO"], "config", "test_data.ini"), US(), allow_negative_balances=True)
EARN = ["INTEREST", "MINING", "STAKING", "AIRDROP", "WAGES", "INCOME", "HARDFORK"]
RULE = ("generated single-asset histories: 2-14 rows, instants from a small pool (ties), income events interleaved with disposals, partial lots, "
        "equal prices, 1-3-entry method schedules, 3% over-spending; non-trivial = succeeds with >= 2 fractions taken from >= 2 distinct lots; distinct by content hash")


def us(dt):
    d = dt - EPOCH
    return (d.days * 86400 + d.seconds) * 10**6 + d.microseconds


def dec(u):
    return D(str(Decimal(u) / Decimal(U)))


def engine(sched):
    t = AVLTree()
    for y, m in sched.items():
        t.insert_node(int(y), import_module("rp2.plugin.accounting_method." + m).AccountingMethod())
    return AccountingEngine(t)


_CRAFT = {"k": 0}


def long_history(rng):
    """a long history under one heap-based method: four large lots with distinct prices bought at the start, then well over a thousand
    small sales four hours apart (a lot bought after every 400th): whatever bookkeeping the engine keeps per look-up has grown past any
    threshold by then, and the lot in use at that moment still has most of its balance"""
    t0 = datetime(2020, 1, 2, tzinfo=timezone.utc)
    rows = []
    pr = [200, 150, 100, 50]
    rng.shuffle(pr)
    for k, p_ in enumerate(pr):
        rows.append(["IN", 0, us(t0 + timedelta(hours=k)), 0, "BUY", 0, p_ * U, 2000 * U, 0])
    n = rng.randint(1150, 1400)
    for k in range(n):
        rows.append(["OUT", 0, us(t0 + timedelta(days=1, hours=4 * k)), 0, "SELL", 0, 120 * U, U, 0])
        if k % 400 == 399:
            rows.append(["IN", 0, us(t0 + timedelta(days=1, hours=4 * k + 1)), 0, "BUY", 0, rng.choice([75, 125, 175]) * U, 10 * U, 0])
    r = 3
    for tbl in ("IN", "OUT", "INTRA"):
        for x in rows:
            if x[0] == tbl:
                x[1] = r
                r += 1
        r += 3
    return {"sched": {"1970": rng.choice(["hifo", "lofo", "lifo"])}, "rows": rows}


def gen(rng, prop=None):
    """one case: {'sched': {year: method}, 'rows': [...]}; rows carry instant (µs), UTC offset (s), amounts in 1e-11 units"""
    _CRAFT["k"] += 1
    if _CRAFT["k"] == 5 and prop in ("C01", "C02"):
        return long_history(rng)
    n = rng.randint(2, 14)
    pool = sorted(rng.sample(range(0, 1100), rng.randint(1, 5)))
    offs = [0] if rng.random() < 0.7 else [0, -8 * 3600, 5 * 3600 + 1800, 14 * 3600]
    bal = 0
    rows = []
    secs = sorted(rng.choice([0, 0, 0, 3600 * 23, 43207]) for _ in range(n))
    prices = rng.choice([[1, 2, 2, 3, 5], [2, 2, 3], [1, 2, 3, 4, 5, 6, 7]])
    subsec = rng.random() < 0.25          # several transactions inside one second, told apart only by microseconds
    if rng.random() < 0.3:
        # instants around New Year (days 121/122 = 2019-12-31 / 2020-01-01, 487/488, 852/853) and near midnight, often in one non-UTC zone:
        # the year that selects the accounting method is the year of the transaction's own (local) timestamp
        pool = sorted(set(rng.choice([121, 122, 487, 488, 852, 853]) for _ in range(rng.randint(2, 5))) | {rng.randint(0, 120)})
        secs = sorted(rng.choice([0, 1800, 3 * 3600 + 1800, 10 * 3600, 20 * 3600, 23 * 3600 + 1800]) for _ in range(n))
        if offs == [0] and rng.random() < 0.7:
            offs = [rng.choice([9 * 3600, -5 * 3600, 14 * 3600, -12 * 3600, 5 * 3600 + 1800, -8 * 3600])]
    for idx in range(n):
        d = pool[min(len(pool) - 1, idx * len(pool) // n)]
        inst = datetime(2019, 9, 1, tzinfo=timezone.utc) + timedelta(days=d, seconds=secs[idx], microseconds=(idx * 1000 + rng.choice([0, 1, 500000])) if subsec else 0)
        off = rng.choice(offs)
        kind = rng.choice(["buy", "buy", "earn", "earn", "sell", "sell", "fee", "move"]) if idx > 0 else rng.choice(["buy", "earn"])
        price = rng.choice(prices) * 100 * U
        if kind in ("buy", "earn"):
            amt = rng.randint(1, 6) * U
            bal += amt
            fee = rng.choice([0, 0, 0, price * (amt // U) // 20, price * (amt // U) // 3]) if kind == "buy" else 0    # fiat fee: no influence on the ranking
            rows.append(["IN", 0, us(inst), off, rng.choice(["BUY", "BUY", "GIFT", "DONATE"]) if kind == "buy" else rng.choice(EARN), rng.randrange(4), price, amt, fee])
        elif bal > 0:
            over = rng.random() < 0.03
            if kind == "sell":
                amt = min(bal, rng.randint(1, 7) * U) if not over else bal + rng.choice([1, U])
                fee = rng.choice([0, 0, U // 10]) if bal - amt > U else 0
                bal -= amt + fee
                rows.append(["OUT", 0, us(inst), off, rng.choice(["SELL", "GIFT", "DONATE", "LOST", "STAKING"]), rng.randrange(4), price, amt, fee])
            elif kind == "fee":
                f = min(bal, U // 2)
                bal -= f
                rows.append(["OUT", 0, us(inst), off, "FEE", rng.randrange(4), rng.choice([price, price, 0]), 0, f])
            else:
                s = min(bal, rng.randint(1, 4) * U)
                f = rng.choice([0, U // 4]) if s > U else 0
                bal -= f
                rows.append(["INTRA", 0, us(inst), off, rng.randrange(4), rng.randrange(4), price, s, s - f])
    rng.shuffle(rows)
    r = 3
    for tbl in ("IN", "OUT", "INTRA"):
        for x in rows:
            if x[0] == tbl:
                x[1] = r
                r += 1
        r += 3
    ms = ["fifo", "lifo", "hifo", "lofo"]
    k = rng.random()
    if k < 0.55:
        sched = {"1970": rng.choice(ms)}
    elif k < 0.9:
        sched = {"1970": rng.choice(ms), "2020": rng.choice(ms), "2021": rng.choice(ms)}
    else:
        sched = {"1970": rng.choice(ms), "2021": rng.choice(ms)}
    return {"sched": sched, "rows": rows}


def ts_of(u, off):
    return str((EPOCH + timedelta(microseconds=u)).astimezone(timezone(timedelta(seconds=off))))


def build(case):
    a = "B1"
    i = TransactionSet(CFG, "IN", a)
    o = TransactionSet(CFG, "OUT", a)
    x = TransactionSet(CFG, "INTRA", a)
    for r in case["rows"]:
        if r[0] == "IN":
            i.add_entry(InTransaction(CFG, ts_of(r[2], r[3]), a, *ACCTS[r[5]], r[4], dec(r[6]), dec(r[7]), fiat_fee=dec(r[8]) if len(r) > 8 else D("0"), row=r[1]))
        elif r[0] == "OUT":
            o.add_entry(OutTransaction(CFG, ts_of(r[2], r[3]), a, *ACCTS[r[5]], r[4], dec(r[6]), dec(r[7]), dec(r[8]), row=r[1]))
        else:
            x.add_entry(IntraTransaction(CFG, ts_of(r[2], r[3]), a, *ACCTS[r[4]], *ACCTS[r[5]], dec(r[6]), dec(r[7]), dec(r[8]), row=r[1]))
    return InputData(a, i, o, x)


def run_impl(case):
    try:
        cd = compute_tax(CFG, engine(case["sched"]), build(case))
    except RP2Error as e:
        m = str(e)
        if "Total in-transaction" in m:
            return {"status": "exhausted", "fractions": []}
        return {"status": "error:" + type(e).__name__, "_msg": m[:200], "fractions": []}
    return {"status": "ok", "fractions": [[int(g.taxable_event.internal_id), int(g.acquired_lot.internal_id) if g.acquired_lot else None,
                                            int(Decimal(g.crypto_amount) * U), g.taxable_event.transaction_type.value] for g in cd.gain_loss_set]}


def encode(case):
    L = ["CFG 365 1 - -"] + [f"SCHED {y} {m}" for y, m in case["sched"].items()]
    for r in case["rows"]:
        if r[0] == "IN":
            L.append(f"IN {r[1]} {r[2]} {r[3]} {r[4].lower()} {r[5]} {r[6]} {r[7]} {r[8] if len(r) > 8 else 0} - -")
        elif r[0] == "OUT":
            L.append(f"OUT {r[1]} {r[2]} {r[3]} {r[4].lower()} {r[5]} {r[6]} {r[7]} {r[8]} - - -")
        else:
            L.append(f"INTRA {r[1]} {r[2]} {r[3]} {r[4]} {r[5]} {r[6]} {r[7]} {r[8]}")
    return L + ["RUN"]


def parse_model(block):
    lines = block.strip().splitlines()
    if lines and lines[0].startswith("ERR"):
        return {"status": "exhausted" if "exhausted" in lines[0] else "error:" + lines[0], "fractions": []}
    if not lines or any(l == "bad-op" for l in lines):
        return {"status": "model-protocol-error", "fractions": []}
    return {"status": "ok", "fractions": [[int(t[1]), None if t[2] == "-" else int(t[2]), int(t[3]), t[12]] for t in (l.split() for l in lines if l.startswith("F "))]}


def run_model(cases):
    out = common.run_driver("driver", [l for c in cases for l in encode(c)]).split("END\n")
    return [parse_model(b) for b in out[:len(cases)]]


def diff(case, i, m):
    d = []
    si, sm = i["status"].split(":")[0], m["status"].split(":")[0]
    if si != sm:
        return ["status"]
    if si == "ok":
        if [f[:3] for f in i["fractions"]] != [f[:3] for f in m["fractions"]]:
            d.append("fractions")
        if sorted((f[0], f[3]) for f in i["fractions"]) != sorted((f[0], f[3]) for f in m["fractions"]):
            d.append("types")
    return d


# ---------------- hypotheses (named as in the Lean theorems)
def local_year(u, off):
    return (EPOCH + timedelta(microseconds=u) + timedelta(seconds=off)).year


def same_instant_same_year(case):
    by = defaultdict(set)
    for r in case["rows"]:
        by[r[2]].add(local_year(r[2], r[3]))
    return all(len(v) == 1 for v in by.values())


def hypotheses_failed(case, prop):
    return [] if prop != "C01" or same_instant_same_year(case) else ["SameInstantSameYear"]


# ---------------- oracles: the theorems' conclusions evaluated on the implementation's output
def amount_of(r):
    """crypto amount the event must be covered with (crypto_balance_change)"""
    return r[7] if r[0] == "IN" else (r[7] + r[8] if r[0] == "OUT" else r[7] - r[8])


def taxable(r):
    return (r[0] == "IN" and r[4] in EARN) or r[0] == "OUT" or (r[0] == "INTRA" and r[7] > r[8])


def processing_order(case):
    """taxable events as the engine meets them: stable time sort of IN ++ OUT ++ INTRA (each in row order)"""
    order = {"IN": 0, "OUT": 1, "INTRA": 2}
    return sorted([r for r in case["rows"] if taxable(r)], key=lambda r: (r[2], order[r[0]], r[1]))


def oracle_c01(case, res, guard=True):
    """property-text strength: no lot strictly better on the method's primary criterion was available with balance"""
    if res["status"] != "ok" or (guard and not same_instant_same_year(case)):
        return None
    lots = {r[1]: r for r in case["rows"] if r[0] == "IN"}
    rem = {k: v[7] for k, v in lots.items()}
    evs = {r[1]: r for r in case["rows"]}
    years = sorted(int(y) for y in case["sched"])
    for k, (ev, lot, amt, _typ) in enumerate(res["fractions"]):
        if lot is None:
            continue
        if ev not in evs or lot not in lots:
            return f"fraction {k}: unknown event {ev} or lot {lot}"
        e = evs[ev]
        ys = [y for y in years if y <= local_year(e[2], e[3])]
        m = case["sched"][str(ys[-1])]
        L = lots[lot]
        if L[2] > e[2]:
            return f"fraction {k}: lot {lot} acquired after event {ev}"
        if rem[lot] < amt:
            return f"fraction {k}: lot {lot} overspent"
        for j, J in lots.items():
            if j == lot or rem[j] <= 0 or J[2] > e[2]:
                continue
            better = {"fifo": J[2] < L[2], "lifo": J[2] > L[2], "hifo": J[6] > L[6], "lofo": J[6] < L[6]}[m]
            if better:
                return f"fraction {k} of event {ev} ({m}) took lot {lot} while lot {j} with balance {rem[j]} ranks before it"
        rem[lot] -= amt
    return None


def feasible(case):
    """C02 closed form: cumulative disposals never exceed cumulative acquisitions at or before each disposal (method-independent)"""
    lots = [r for r in case["rows"] if r[0] == "IN"]
    disposed = 0
    for e in processing_order(case):
        if e[0] == "IN":
            continue
        disposed += amount_of(e)
        if disposed > sum(l[7] for l in lots if l[2] <= e[2]):
            return False
    return True


def oracle_c02(case, res, guard=True):
    if res["status"] == "exhausted":
        return "rejected as uncovered although every disposal is covered by lots acquired at or before it" if feasible(case) else None
    if res["status"].startswith(("error", "crash", "hang")):
        return f"the run aborts ({res['status']}: {res.get('_msg', '')[:80]}) although every disposal is covered by lots acquired at or before it" if feasible(case) else None
    if res["status"] != "ok":
        return None
    if not feasible(case):
        return "accepted although some disposal exceeds what was acquired at or before it"
    lots = {r[1]: r for r in case["rows"] if r[0] == "IN"}
    evs = {r[1]: r for r in case["rows"]}
    per_ev = defaultdict(int)
    per_lot = defaultdict(int)
    for k, (ev, lot, amt, _typ) in enumerate(res["fractions"]):
        if ev not in evs:
            return f"fraction {k}: unknown event {ev}"
        if amt <= 0:
            return f"fraction {k}: non-positive amount {amt}"
        per_ev[ev] += amt
        if lot is not None:
            if lot not in lots:
                return f"fraction {k}: unknown lot {lot}"
            per_lot[lot] += amt
            if lots[lot][2] > evs[ev][2]:
                return f"fraction {k}: lot {lot} acquired after the disposal {ev}"
            if per_lot[lot] > lots[lot][7]:
                return f"lot {lot} overspent: {per_lot[lot]} of {lots[lot][7]}"
    for e in processing_order(case):
        if per_ev.get(e[1], 0) != amount_of(e):
            return f"event {e[1]} covered with {per_ev.get(e[1], 0)} of {amount_of(e)}"
    return None


def oracle_c03(case, res, guard=True):
    if res["status"] != "ok":
        return None
    evs = {r[1]: r for r in case["rows"]}
    want = {r[1] for r in case["rows"] if taxable(r)}
    got = defaultdict(list)
    for f in res["fractions"]:
        got[f[0]].append(f)
    if set(got) != want:
        return f"taxed transactions {sorted(got)} vs taxable transactions {sorted(want)}"
    for ev, fs in got.items():
        r = evs[ev]
        typ = "move" if r[0] == "INTRA" else r[4].lower()
        if any(f[3] != typ for f in fs):
            return f"event {ev} of type {typ} reported as {fs[0][3]}"
        if r[0] == "IN":
            if len(fs) != 1 or fs[0][1] is not None or fs[0][2] != r[7]:
                return f"income event {ev} taxed as {fs}, expected once, in full ({r[7]}), without a lot"
        else:
            if sum(f[2] for f in fs) != amount_of(r):
                return f"disposal {ev}: fractions add up to {sum(f[2] for f in fs)} of {amount_of(r)}"
            if any(f[1] is None for f in fs):
                return f"disposal {ev} has a fraction without a lot"
    return None


ORACLES = {"C01": oracle_c01, "C02": oracle_c02, "C03": oracle_c03}


def shrink_candidates(case):
    rows = case["rows"]
    for k in range(len(rows)):
        cand = rows[:k] + rows[k + 1:]
        if any(r[0] == "IN" for r in cand):
            yield {"sched": case["sched"], "rows": cand}
    if len(case["sched"]) > 1:
        for y in list(case["sched"]):
            if y != "1970":
                yield {"sched": {k: v for k, v in case["sched"].items() if k != y}, "rows": rows}


def nontrivial(case, i):
    return i["status"] == "ok" and len(i["fractions"]) >= 2 and len({f[1] for f in i["fractions"] if f[1]}) >= 2


def note_stats(case, i, st):
    st["status:" + i["status"].split(":")[0]] += 1
    st["method:" + ("schedule" if len(case["sched"]) > 1 else case["sched"]["1970"])] += 1
    st["fractions"] += len(i.get("fractions", []))
    st["income_fractions"] += sum(1 for f in i.get("fractions", []) if f[1] is None)
    st["rows"] += len(case["rows"])
    insts = [r[2] for r in case["rows"]]
    if len(set(insts)) < len(insts):
        st["cases_with_equal_instants"] += 1


def pub(r):
    return {k: v for k, v in r.items() if not k.startswith("_") or k == "_msg"}
