"""Pipeline stream: generated single-asset histories with from/to windows, -n, exchange-supplied fiat columns, 11-decimal amounts,
mixed UTC offsets -> rp2 compute_tax/ComputedData vs the Lean model (driver), every figure compared as an exact rational;
oracles C03..C10 (transcriptions of the theorem conclusions) evaluated on the real output."""
import sys, os, json, random, re
from datetime import datetime, timedelta, timezone, date
from fractions import Fraction as F
from decimal import Decimal
from collections import defaultdict
from importlib import import_module
from prezzemolo.avl_tree import AVLTree
from rp2.configuration import Configuration, MIN_DATE, MAX_DATE
from rp2.plugin.country.us import US
from rp2.accounting_engine import AccountingEngine
from rp2.in_transaction import InTransaction
from rp2.out_transaction import OutTransaction
from rp2.intra_transaction import IntraTransaction
from rp2.transaction_set import TransactionSet
from rp2.input_data import InputData
from rp2.rp2_decimal import RP2Decimal as D
from rp2.tax_engine import compute_tax
from rp2.rp2_error import RP2Error
import common

EPOCH = datetime(1970, 1, 1, tzinfo=timezone.utc)
U = 10**11
EPS = F(5, 10**31)
PERIOD = 365
ACCTS = [("Coinbase", "Bob"), ("Kraken", "Bob"), ("BlockFi", "Alice"), ("Coinbase", "Alice"), ("Kraken", "Alice")]
INI = os.path.join(os.environ["RP2_REPO"], "config", "test_data.ini")
EARN = ["INTEREST", "MINING", "STAKING", "AIRDROP", "WAGES", "INCOME", "HARDFORK"]


def us(dt):
    d = dt - EPOCH
    return (d.days * 86400 + d.seconds) * 10**6 + d.microseconds


def dec(u):
    return D(str(Decimal(u) / Decimal(U)))


def fr(x):
    f = F(x)
    return f"{f.numerator}/{f.denominator}"


def o(v):
    return "-" if v is None else str(v)


def ordn(d):
    return d.toordinal() - 719163


def engine(sched):
    t = AVLTree()
    for y, m in sched.items():
        t.insert_node(int(y), import_module("rp2.plugin.accounting_method." + m).AccountingMethod())
    return AccountingEngine(t)


def ldate(u, off):
    return (EPOCH + timedelta(microseconds=u) + timedelta(seconds=off)).date()


def local_year(u, off):
    return (EPOCH + timedelta(microseconds=u) + timedelta(seconds=off)).year


def ts_of(u, off):
    """the timestamp as text, in one of the spellings exchanges use (chosen by the instant, so a case always renders the same way):
    `2021-03-04 05:06:07+05:30`, the same with a colon-less offset `+0530`, or ISO 8601 with a `T`"""
    dt = (EPOCH + timedelta(microseconds=u)).astimezone(timezone(timedelta(seconds=off)))
    k = (u // 10**6) % 4
    if k == 2:
        return dt.strftime("%Y-%m-%d %H:%M:%S.%f%z" if dt.microsecond else "%Y-%m-%d %H:%M:%S%z")
    if k == 3:
        return dt.isoformat()
    return str(dt)


def uid_of(u):
    """a transaction identifier derived from the second of the timestamp: rows of the same second share it, within and across tables"""
    return "0x%x" % (u // 10**6 % 0xfffff)


def ramt(rng):
    k = rng.random()
    if k < 0.5:
        return rng.randint(1, 9) * U
    if k < 0.8:
        return rng.randint(1, 9 * 10**5) * 10**(rng.randint(0, 8))
    return rng.randint(1, 10**15)


def rprice(rng):
    return rng.choice([1, 2, 3, 5, 7]) * 100 * U if rng.random() < 0.5 else rng.randint(1, 10**rng.randint(4, 18))


MIXED = {"C06": 0.3, "C07": 0.15, "C09": 0.15, "C10": 0.15, "C08": 0.15, "C17": 0.6}


def boundary_dates(rows):
    """dates on which a date-filter bound is most delicate: the local date of a row differs from its UTC date (a filter that
    compares UTC dates goes wrong), or two rows adjacent in instant order have local dates in the opposite order"""
    out = []
    rs = sorted(rows, key=lambda r: r[2])
    for r in rs:
        dl, du = ldate(r[2], r[3]), ldate(r[2], 0)
        if dl != du:
            out += [min(dl, du), max(dl, du)]
    for a, b in zip(rs, rs[1:]):
        da, db = ldate(a[2], a[3]), ldate(b[2], b[3])
        if db < da:
            out += [db, da]
    return out


def country_of(case):
    """(country object, long-term period in days) of a case; default US"""
    c = case.get("country", "us")
    if c == "us":
        return US(), 365
    if c == "es":
        from rp2.plugin.country.es import ES
        return ES(), 365
    if c == "generic":
        from rp2.plugin.country.generic import Generic
        os.environ["CURRENCY_CODE"] = "usd"
        os.environ["LONG_TERM_CAPITAL_GAINS"] = str(case["period"])
        return Generic(), case["period"]
    from rp2.plugin.country.jp import JP
    from rp2.plugin.country.ie import IE
    return (JP() if c == "jp" else IE()), sys.maxsize


def near(rng, v):
    """an exchange-supplied value that (nearly) agrees with the computed one: exact, rounded to the cent, or off by less than a cent /
    by a few cents — supplied values must be used as given however close they are"""
    c = U // 100
    k = rng.random()
    if k < 0.25: w = v
    elif k < 0.55: w = (v + c // 2) // c * c
    elif k < 0.8: w = v + rng.choice([-1, 1]) * rng.randint(1, c // 2 - 1)
    else: w = v + rng.choice([-1, 1]) * rng.randint(c, 5 * c)
    return max(w, 1)


def gen(rng, prop=None):
    n = rng.randint(2, 14)
    if rng.random() < 0.02:
        n = rng.randint(40, 90)           # now and then a long history: more fractions than the rows a report template starts with
    country, PERIOD = "us", 365
    if prop == "C05":
        country = rng.choice(["us", "es", "generic", "generic", "jp", "ie"])
        PERIOD = {"us": 365, "es": 365, "generic": rng.choice([0, 1, 30, 123, 365, 366]), "jp": 365, "ie": 365}[country]     # jp/ie: placed at 365 days, must stay short
    pool = sorted(rng.sample(range(0, 1200), rng.randint(2, 6)))
    offs = [0] if rng.random() > MIXED.get(prop, 0.4) else [0, -8 * 3600, 5 * 3600 + 1800, 14 * 3600, -12 * 3600]
    if offs == [0] and rng.random() < 0.35:
        offs = [rng.choice([9 * 3600, -5 * 3600, 14 * 3600, -12 * 3600, 5 * 3600 + 1800])]      # one non-UTC zone for the whole history
    newyear = rng.random() < 0.3
    subsec = rng.random() < 0.2           # several transactions inside one second, told apart only by microseconds
    bal = defaultdict(int)
    rows = []
    secs = sorted(rng.choice([0, 0, 3600 * 23, 43207]) for _ in range(n))
    if prop == "C05" and rng.random() < 0.7:
        # holding periods at the threshold: pool days differ by exactly the period, seconds by 0 / +-1
        d0 = rng.randint(0, 400)
        pool = sorted([d0, d0 + PERIOD, d0 + rng.choice([PERIOD - 1, PERIOD + 1, 2 * PERIOD])][:rng.randint(2, 3)])
        base = rng.choice([0, 3600 * 23, 43207])
        secs = sorted(base + rng.choice([0, 0, 1, -1]) for _ in range(n))
    if newyear and prop != "C05":
        # instants around New Year (days 213/214 = 2019-12-31 / 2020-01-01, 579/580 = 2020-12-31 / 2021-01-01) and near midnight
        pool = sorted(set(rng.choice([213, 214, 579, 580, 944, 945]) for _ in range(rng.randint(2, 5))) | {rng.randint(0, 212)})
        secs = sorted(rng.choice([0, 1800, 3 * 3600 + 1800, 10 * 3600, 20 * 3600, 23 * 3600 + 1800]) for _ in range(n))
    many = prop == "C04"                  # many-digit amounts and prices: products that do not fit 31 digits, fees tiny next to the amounts
    for idx in range(n):
        d = pool[min(len(pool) - 1, idx * len(pool) // n)]
        u = us(datetime(2019, 6, 1, tzinfo=timezone.utc) + timedelta(days=d, seconds=secs[idx]))
        if subsec:
            u += idx * 1000 + rng.choice([0, 1, 499999])
        if prop == "C05" and rng.random() < 0.3:
            u += rng.choice([-1, 1])
        off = rng.choice(offs)
        kind = rng.choice(["buy", "buy", "earn", "sell", "sell", "fee", "move", "move"]) if idx > 0 else "buy"
        ai = rng.randrange(len(ACCTS))
        price = rprice(rng) if not (many and rng.random() < 0.7) else rng.randint(10**13, 10**18)
        if kind in ("buy", "earn"):
            amt = ramt(rng) if not (many and rng.random() < 0.6) else rng.randint(10**11, 10**15)
            bal[ai] += amt
            typ = rng.choice(["BUY", "GIFT", "DONATE"]) if kind == "buy" else rng.choice(EARN)
            ffee = rng.choice([None, None, 150000000000, rng.randint(1, 10**13), 0])
            rows.append(["IN", 0, u, off, typ, ai, price, amt, ffee,
                         rng.choice([None, None, None, rng.randint(1, 10**16), near(rng, amt * price // U)]),
                         rng.choice([None, None, None, rng.randint(1, 10**16), near(rng, amt * price // U + (ffee or 0))])])
        else:
            have = [a for a in bal if bal[a] > 0]
            if not have:
                continue
            ai = rng.choice(have)
            over = rng.random() < (0.25 if prop == "C08" else 0.04)
            if kind == "sell":
                amt = rng.randint(1, bal[ai]) if not over else bal[ai] + rng.choice([1, 4, 5, 6, 7, 10, 11, U])
                fee = rng.choice([0, 0, min(U // 100, max(0, bal[ai] - amt))])
                bal[ai] -= amt + fee
                rows.append(["OUT", 0, u, off, rng.choice(["SELL", "GIFT", "DONATE", "LOST", "STAKING"]), ai, price, amt, fee,
                             rng.choice([None, None, None, amt + fee]) if rng.random() < 0.92 else amt + fee + rng.choice([1, -1, 100, 40000000]), rng.choice([None, None, rng.randint(1, 10**16), near(rng, amt * price // U)]), rng.choice([None, None, rng.randint(0, 10**12), 0, near(rng, fee * price // U) if fee else 0])])
            elif kind == "fee":
                f = min(bal[ai], rng.choice([1, U // 1000, U]))
                bal[ai] -= f
                rows.append(["OUT", 0, u, off, "FEE", ai, rng.choice([price, price, 0]), 0, f, None, None, rng.choice([None, None, 0])])
            else:
                s = rng.randint(1, bal[ai]) if not over else bal[ai] + rng.choice([1, 5, 6, 11])
                f = rng.choice([0, 0, min(s - 1, rng.choice([1, U // 1000, U // 10]))]) if s > 1 else 0
                di = rng.randrange(len(ACCTS))
                bal[ai] -= s
                bal[di] += s - f
                rows.append(["INTRA", 0, u, off, ai, di, price if (f > 0 or rng.random() < 0.6) else None, s, s - f])
    if (prop == "C08" and rng.random() < 0.4) or (len(offs) > 1 and rng.random() < 0.05):
        # a purchase and a sale on an otherwise unused account three hours apart whose local calendar dates come in the opposite order
        # (bought first: the account never goes negative; sold first: it is overdrawn for three hours)
        unused = [k for k in range(len(ACCTS)) if all((x[5] != k) if x[0] != "INTRA" else (x[4] != k and x[5] != k) for x in rows)]
        if unused:
            ai = rng.choice(unused)
            base = us(datetime(2019, 6, 1, 12, tzinfo=timezone.utc) + timedelta(days=rng.choice(pool)))
            first, second = (base, 14 * 3600), (base + 3 * 3600 * 10**6, rng.choice([0, -12 * 3600]))
            if rng.random() < 0.35:
                # ... or a quarter of an hour apart, the first one in a half-hour zone and written with a colon-less offset (`+0530`):
                # reading the offset's minutes wrongly moves it by half an hour and swaps the two
                base += ((2 - (base // 10**6) % 4) % 4) * 10**6
                first, second = (base, 5 * 3600 + 1800), (base + 900 * 10**6, 0)
            (ub, ob), (uo, oo) = (first, second) if rng.random() < 0.6 else (second, first)
            amt = ramt(rng)
            rows.append(["IN", 0, ub, ob, "BUY", ai, rprice(rng), amt, None, None, None])
            rows.append(["OUT", 0, uo, oo, "SELL", ai, rprice(rng), amt if rng.random() < 0.7 else max(1, amt // 2), 0, None, None, None])
    if prop == "C08" and rng.random() < 0.2:
        # creeping overdraft: an account is refilled and emptied several times, each sale taking a few units of the 11th decimal more than
        # it holds — every single shortfall is inside the tolerance, their sum is not (the running balance is what is tested, every time)
        zero = [a_ for a_ in range(len(ACCTS)) if bal[a_] == 0]
        ai = rng.choice(zero) if zero else rng.randrange(len(ACCTS))
        other = (ai + 1) % len(ACCTS)
        t = max([x[2] for x in rows] or [0]) + 86400 * 10**6
        rows.append(["IN", 0, t, 0, "BUY", other, rprice(rng), 10**6 * U, None, None, None])     # coins elsewhere, so that the lots cover every sale
        step_ = rng.choice([3, 4, 4, 5])
        for k in range(rng.randint(2, 5)):
            amt = ramt(rng)
            rows.append(["IN", 0, t + (2 * k + 1) * 3600 * 10**6, 0, "BUY", ai, rprice(rng), amt, None, None, None])
            rows.append(["OUT", 0, t + (2 * k + 2) * 3600 * 10**6, 0, "SELL", ai, rprice(rng), amt + step_, 0, None, None, None])
    if prop == "C17":
        # distinct instants (the property's proviso), told apart by whole seconds or by microseconds ...
        step = rng.choice([1, 1000, 10**6, 10**6])
        for k, x in enumerate(sorted(rows, key=lambda x: x[2])):
            x[2] += k * step
        # ... and "wall-clock twins": an extra acquisition whose local wall-clock reading coincides with that of an existing one in another zone
        if len(offs) > 1:
            for _ in range(rng.choice([0, 1, 1, 2])):
                lots = [x for x in rows if x[0] == "IN"]
                src = rng.choice(lots)
                off = rng.choice([o_ for o_ in offs if o_ != src[3]])
                u = src[2] + (src[3] - off) * 10**6
                if all(x[2] != u for x in rows):
                    rows.append(["IN", 0, u, off, "BUY", src[5], rprice(rng), ramt(rng), None, None, None])
    rng.shuffle(rows)
    r = 3
    for tbl in ("IN", "OUT", "INTRA"):
        for x in rows:
            if x[0] == tbl:
                x[1] = r
                r += 1
        r += 3
    days = sorted({ldate(x[2], x[3]) for x in rows})
    cand = days + [d + timedelta(days=1) for d in days] + [d - timedelta(days=1) for d in days]
    nowin = 1 if prop in ("C09", "C10") else 3
    fd = rng.choice([None] * nowin + cand)
    td = rng.choice([None] * nowin + cand)
    bd = boundary_dates(rows)
    if bd and rng.random() < 0.5:
        if rng.random() < 0.7:
            td = rng.choice(bd)
        else:
            fd = rng.choice(bd)
    if prop == "C09":
        fd = None
    if fd and td and fd > td:
        fd, td = td, fd
    ms = ["fifo", "lifo", "hifo", "lofo"]
    sched = {"1970": rng.choice(ms)} if rng.random() < 0.6 else {"1970": rng.choice(ms), "2020": rng.choice(ms), "2021": rng.choice(ms)}
    case = {"sched": sched, "rows": rows, "from": fd.isoformat() if fd else None, "to": td.isoformat() if td else None, "neg": rng.random() < (0.3 if prop == "C08" else 0.5)}
    if prop == "C05":
        case["country"] = country
        case["period"] = PERIOD
    return case


def build_asset(cfg, a, rows):
    i = TransactionSet(cfg, "IN", a)
    oo = TransactionSet(cfg, "OUT", a)
    x = TransactionSet(cfg, "INTRA", a)
    o2 = lambda v: dec(v) if v is not None else None
    for r in rows:
        if r[0] == "IN":
            i.add_entry(InTransaction(cfg, ts_of(r[2], r[3]), a, *ACCTS[r[5]], r[4], dec(r[6]), dec(r[7]), fiat_fee=o2(r[8]), fiat_in_no_fee=o2(r[9]), fiat_in_with_fee=o2(r[10]), row=r[1], unique_id=uid_of(r[2])))
        elif r[0] == "OUT":
            oo.add_entry(OutTransaction(cfg, ts_of(r[2], r[3]), a, *ACCTS[r[5]], r[4], dec(r[6]), dec(r[7]), dec(r[8]), crypto_out_with_fee=o2(r[9]), fiat_out_no_fee=o2(r[10]), fiat_fee=o2(r[11]), row=r[1], unique_id=uid_of(r[2])))
        else:
            x.add_entry(IntraTransaction(cfg, ts_of(r[2], r[3]), a, *ACCTS[r[4]], *ACCTS[r[5]], dec(r[6]) if r[6] is not None else None, dec(r[7]), dec(r[8]), row=r[1], unique_id=uid_of(r[2])))
    return InputData(a, i, oo, x, cfg.from_date, cfg.to_date)


def run_impl(case, fd="case", td="case", rows=None):
    fd = (date.fromisoformat(case["from"]) if case["from"] else MIN_DATE) if fd == "case" else fd
    td = (date.fromisoformat(case["to"]) if case["to"] else MAX_DATE) if td == "case" else td
    cfg = Configuration(INI, country_of(case)[0], from_date=fd, to_date=td, allow_negative_balances=case["neg"])
    try:
        cd = compute_tax(cfg, engine(case["sched"]), build_asset(cfg, "B1", rows if rows is not None else case["rows"]))
    except RP2Error as e:
        m = str(e)
        if "Total in-transaction" in m:
            return {"status": "exhausted"}
        mm = re.search(r'balance of account "(.+?)" \(holder "(.+?)"\) went negative', m)
        if mm and (mm.group(1), mm.group(2)) in ACCTS:
            return {"status": f"overdrawn {ACCTS.index((mm.group(1), mm.group(2)))}"}
        return {"status": "error:" + type(e).__name__, "_msg": m[:200]}
    gls = cd.gain_loss_set
    fs = []
    for g in gls:
        l = g.acquired_lot
        fs.append({"ev": int(g.taxable_event.internal_id), "lot": int(l.internal_id) if l else None, "amt": int(Decimal(g.crypto_amount) * U),
                   "proceeds": fr(g.taxable_event_fiat_amount_with_fee_fraction), "cost": fr(g.fiat_cost_basis), "gain": fr(g.fiat_gain),
                   "long": bool(g.is_long_term_capital_gains()), "evk": gls.get_taxable_event_fraction(g), "evn": gls.get_taxable_event_number_of_fractions(g.taxable_event),
                   "lotk": gls.get_acquired_lot_fraction(g) if l else None, "lotn": gls.get_acquired_lot_number_of_fractions(l) if l else None,
                   "typ": g.taxable_event.transaction_type.value, "run": fr(cd.get_crypto_gain_loss_running_sum(g))})
    ys = sorted([y.year, y.transaction_type.value, bool(y.is_long_term_capital_gains), fr(y.crypto_amount), fr(y.fiat_amount), fr(y.fiat_cost_basis), fr(y.fiat_gain_loss)] for y in cd.yearly_gain_loss_list)
    # an account the input never names (a mutated tree can invent one) gets an index past the known ones instead of stopping the harness:
    # the balance rows then differ from the model's and the oracles see a row for an account no transaction touches
    aidx = lambda e_, h_: ACCTS.index((e_, h_)) if (e_, h_) in ACCTS else len(ACCTS) + sorted({(x.exchange, x.holder) for x in cd.balance_set if (x.exchange, x.holder) not in ACCTS}).index((e_, h_))
    bs = sorted([aidx(b.exchange, b.holder), int(Decimal(b.acquired_balance) * U), int(Decimal(b.sent_balance) * U), int(Decimal(b.received_balance) * U), int(Decimal(b.final_balance) * U)] for b in cd.balance_set)
    shown = {"in": [int(t.internal_id) for t in cd.in_transaction_set], "out": [int(t.internal_id) for t in cd.out_transaction_set], "intra": [int(t.internal_id) for t in cd.intra_transaction_set]}
    sums = {"in": sorted([int(t.internal_id), fr(cd.get_in_lot_sold_percentage(t)), fr(cd.get_crypto_in_running_sum(t))] for t in cd.in_transaction_set),
            "out": sorted([int(t.internal_id), fr(cd.get_crypto_out_running_sum(t)), fr(cd.get_crypto_out_fee_running_sum(t))] for t in cd.out_transaction_set),
            "intra": sorted([int(t.internal_id), fr(cd.get_crypto_intra_fee_running_sum(t))] for t in cd.intra_transaction_set)}
    return {"status": "ok", "fractions": fs, "yearly": ys, "balances": bs, "price": fr(cd.price_per_unit), "shown": shown, "sums": sums}


def encode(case):
    fd = date.fromisoformat(case["from"]) if case["from"] else None
    td = date.fromisoformat(case["to"]) if case["to"] else None
    period = {"us": 365, "es": 365, "generic": case.get("period", 365)}.get(case.get("country", "us"), sys.maxsize)
    L = [f"CFG {period} {1 if case['neg'] else 0} {o(ordn(fd) if fd else None)} {o(ordn(td) if td else None)}"] + [f"SCHED {y} {m}" for y, m in case["sched"].items()]
    L += encode_rows(case["rows"])
    return L + ["RUN"]


def encode_rows(rows):
    L = []
    for r in rows:
        if r[0] == "IN":
            L.append(f"IN {r[1]} {r[2]} {r[3]} {r[4].lower()} {r[5]} {r[6]} {r[7]} {o(r[8])} {o(r[9])} {o(r[10])}")
        elif r[0] == "OUT":
            L.append(f"OUT {r[1]} {r[2]} {r[3]} {r[4].lower()} {r[5]} {r[6]} {r[7]} {r[8]} {o(r[9])} {o(r[10])} {o(r[11])}")
        else:
            L.append(f"INTRA {r[1]} {r[2]} {r[3]} {r[4]} {r[5]} {0 if r[6] is None else r[6]} {r[7]} {r[8]}")
    return L


def parse_model(block):
    lines = block.strip().splitlines()
    if lines and lines[0].startswith("ERR"):
        t = lines[0].split()
        return {"status": "exhausted" if "exhausted" in lines[0] else (f"overdrawn {t[2]}" if t[1] == "overdrawn" else "error:" + lines[0])}
    if not lines or any(l == "bad-op" for l in lines):
        return {"status": "model-protocol-error"}
    fs = []
    ys = []
    bs = []
    price = None
    shown = {"in": [], "out": [], "intra": []}
    sums = {"in": [], "out": [], "intra": []}
    n = lambda s: None if s == "-" else int(s)
    for l in lines:
        t = l.split()
        if t[0] == "F":
            fs.append({"ev": int(t[1]), "lot": n(t[2]), "amt": int(t[3]), "proceeds": t[4], "cost": t[5], "gain": t[6], "long": t[7] == "1", "evk": int(t[8]), "evn": int(t[9]), "lotk": n(t[10]), "lotn": n(t[11]), "typ": t[12], "run": t[13]})
        elif t[0] == "Y":
            ys.append([int(t[1]), t[2], t[3] == "1", t[4], t[5], t[6], t[7]])
        elif t[0] == "B":
            bs.append([int(x) for x in t[1:]])
        elif t[0] == "P":
            price = t[1]
        elif t[0] == "V":
            shown[t[1]] = [int(x) for x in t[2:]]
        elif t[0] == "S":
            sums["in"].append([int(t[1]), t[2], t[3]])
        elif t[0] == "RO":
            sums["out"].append([int(t[1]), t[2], t[3]])
        elif t[0] == "RX":
            sums["intra"].append([int(t[1]), t[2]])
    return {"status": "ok", "fractions": fs, "yearly": sorted(ys), "balances": sorted(bs), "price": price, "shown": shown, "sums": {k: sorted(v) for k, v in sums.items()}}


def run_model(cases):
    out = common.run_driver("driver", [l for c in cases for l in encode(c)]).split("END\n")
    return [parse_model(b) for b in out[:len(cases)]]


def diff(case, i, m):
    """per-component comparison; downstream components are compared only where their upstream agrees"""
    canon = lambda st: "error" if st.startswith("error:") else st       # both sides reject the input with a value error: which message is not compared
    si, sm = canon(i["status"]), canon(m["status"])
    if si != sm:
        if "exhausted" in (si, sm):
            return ["status-engine"]
        if si.startswith("overdrawn") or sm.startswith("overdrawn"):
            return ["status-balance"]
        return ["status-crash"]
    if si != "ok":
        return []
    d = []
    key = lambda f: (f["ev"], f["lot"], f["amt"])
    if [key(f) for f in i["fractions"]] != [key(f) for f in m["fractions"]]:
        d.append("fractions")
    mm = {key(f): f for f in m["fractions"]}
    common_f = [(f, mm[key(f)]) for f in i["fractions"] if key(f) in mm]
    if any((a["proceeds"], a["cost"], a["gain"]) != (b["proceeds"], b["cost"], b["gain"]) for a, b in common_f):
        d.append("figures")
    if any(a["long"] != b["long"] for a, b in common_f):
        d.append("long")
    if any(a["typ"] != b["typ"] for a, b in common_f):
        d.append("types")
    if "fractions" not in d:
        if any((a["evk"], a["evn"], a["lotk"], a["lotn"]) != (b["evk"], b["evn"], b["lotk"], b["lotn"]) for a, b in common_f):
            d.append("numbering")
        if not d and i["yearly"] != m["yearly"]:
            d.append("yearly")
    if i["balances"] != m["balances"]:
        d.append("balances")
    if i["price"] != m["price"]:
        d.append("price")
    if i["shown"] != m["shown"]:
        d.append("views")
    elif i["sums"] != m["sums"]:
        d.append("sums")
    if "fractions" not in d and any(a["run"] != b["run"] for a, b in common_f):
        d.append("sums")
    return d


# ---------------- hypotheses (named as in the Lean theorems)
def chron(rows):
    return sorted(rows, key=lambda r: r[2])


def local_dates_monotone(case):
    """∀ a b, a.instant ≤ b.instant → a.localDate ≤ b.localDate (so equal instants have equal local dates)"""
    rs = chron(case["rows"])
    ds = [ldate(r[2], r[3]) for r in rs]
    return all(a <= b for a, b in zip(ds, ds[1:])) and all(ldate(a[2], a[3]) == ldate(b[2], b[3]) for a, b in zip(rs, rs[1:]) if a[2] == b[2])


def out_with_fee_consistent(case):
    return all(r[9] is None or r[9] == r[7] + r[8] for r in case["rows"] if r[0] == "OUT")


def fee_fiat_visible(case):
    return all(r[7] == r[8] or F(r[7] - r[8], U) * F(r[6] or 0, U) > F(5, 10**14) for r in case["rows"] if r[0] == "INTRA")


HYPS = {"LocalDatesMonotone": local_dates_monotone, "OutWithFeeConsistent": out_with_fee_consistent, "FeeFiatVisible": fee_fiat_visible}
NEEDS = {"C03": ["FeeFiatVisible"], "C04": [], "C05": [], "C06": ["LocalDatesMonotone"], "C07": ["LocalDatesMonotone", "OutWithFeeConsistent", "FeeFiatVisible"],
         "C08": ["LocalDatesMonotone"], "C09": ["LocalDatesMonotone"], "C10": ["LocalDatesMonotone"]}


def ldm_needed(case):
    """LocalDatesMonotone only matters where a date cut is applied: with a to-date (the `break` idiom) or a from-date"""
    return case.get("to") is not None or case.get("from") is not None


def ldm_ok(case):
    return (not ldm_needed(case)) or local_dates_monotone(case)


def hypotheses_failed(case, prop):
    return [h for h in NEEDS.get(prop, []) if not (ldm_ok(case) if h == "LocalDatesMonotone" else HYPS[h](case))]


# ---------------- oracles: transcriptions of the theorem conclusions, on the real output
def exact_fields(r):
    if r[0] == "IN":
        nf = F(r[9], U) if r[9] is not None else F(r[7], U) * F(r[6], U)
        fee = F(r[8], U) if r[8] is not None else 0
        return {"amount": r[7], "fiat_taxable": F(r[10], U) if r[10] is not None else nf + fee, "fiat_with_fee": F(r[10], U) if r[10] is not None else nf + fee}
    if r[0] == "OUT":
        nf = F(r[10], U) if r[10] is not None else F(r[7], U) * F(r[6], U)
        fee = F(r[11], U) if r[11] is not None else F(r[8], U) * F(r[6], U)
        return {"amount": r[9] if r[9] is not None else r[7] + r[8], "fiat_taxable": fee if r[4] == "FEE" else nf}
    return {"amount": r[7] - r[8], "fiat_taxable": F(r[7] - r[8], U) * F(r[6] or 0, U)}


def taxable(r):
    return (r[0] == "IN" and r[4] in EARN) or r[0] == "OUT" or (r[0] == "INTRA" and r[7] > r[8])


def oracle_c03(case, res, guard=True):
    if res["status"] != "ok" or case["from"] or case["to"] or (guard and not fee_fiat_visible(case)):
        return None
    rows = {r[1]: r for r in case["rows"]}
    want = {r[1] for r in case["rows"] if taxable(r)}
    got = defaultdict(list)
    for f in res["fractions"]:
        got[f["ev"]].append(f)
    if set(got) != want:
        return f"taxed transactions {sorted(got)} vs taxable transactions {sorted(want)}"
    for ev, fs in got.items():
        r = rows[ev]
        typ = "move" if r[0] == "INTRA" else r[4].lower()
        if any(f["typ"] != typ for f in fs):
            return f"event {ev} of type {typ} reported as {fs[0]['typ']}"
        if r[0] == "IN":
            if len(fs) != 1 or fs[0]["lot"] is not None or fs[0]["amt"] != r[7]:
                return f"income event {ev} not taxed exactly once, in full, without a lot"
            if abs(F(fs[0]["proceeds"]) - exact_fields(r)["fiat_taxable"]) > 4 * EPS * exact_fields(r)["fiat_taxable"] or F(fs[0]["cost"]) != 0:
                return f"income event {ev}: proceeds {fs[0]['proceeds']} / cost {fs[0]['cost']} vs fiat value received {exact_fields(r)['fiat_taxable']} / 0"
        else:
            want_amt = (r[7] + r[8]) if r[0] == "OUT" and out_with_fee_consistent(case) else exact_fields(r)["amount"]
            if sum(f["amt"] for f in fs) != want_amt:
                return f"disposal {ev}: fractions add up to {sum(f['amt'] for f in fs)} of {want_amt}"
    return None


def oracle_c04(case, res, guard=True):
    if res["status"] != "ok":
        return None
    rows = {r[1]: r for r in case["rows"]}
    per_ev = defaultdict(F)
    per_lot = defaultdict(lambda: [0, F(0)])
    for k, f in enumerate(res["fractions"]):
        if f["ev"] not in rows or (f["lot"] is not None and f["lot"] not in rows):
            return f"fraction {k} refers to an unknown transaction"
        e = exact_fields(rows[f["ev"]])
        if e["amount"] == 0 or (f["lot"] is not None and rows[f["lot"]][7] == 0):
            continue            # nothing to pro-rate (no formula of the property applies to a zero amount)
        px = e["fiat_taxable"] * F(f["amt"], U) / F(e["amount"], U)
        cx = F(0) if f["lot"] is None else exact_fields(rows[f["lot"]])["fiat_with_fee"] * F(f["amt"], U) / F(rows[f["lot"]][7], U)
        p, c, g = F(f["proceeds"]), F(f["cost"]), F(f["gain"])
        if abs(p - px) > 4 * EPS * abs(px):
            return f"fraction {k}: proceeds {float(p)!r} vs exact {float(px)!r} (relative error {float(abs(p - px) / abs(px)) if px else 'inf'})"
        if abs(c - cx) > 4 * EPS * abs(cx):
            return f"fraction {k}: cost basis {float(c)!r} vs exact {float(cx)!r} (relative error {float(abs(c - cx) / abs(cx)) if cx else 'inf'})"
        if abs(g - (px - cx)) > 5 * EPS * (abs(px) + abs(cx)):
            return f"fraction {k}: gain {float(g)!r} vs exact proceeds - cost {float(px - cx)!r}"
        if f["lot"] is None and c != 0:
            return f"fraction {k}: income with cost basis"
        per_ev[f["ev"]] += p
        if f["lot"] is not None:
            per_lot[f["lot"]][0] += f["amt"]
            per_lot[f["lot"]][1] += c
    if case["from"] is None and case["to"] is None:
        for ev, s in per_ev.items():
            w = exact_fields(rows[ev])["fiat_taxable"]
            if abs(s - w) > 40 * EPS * abs(w):
                return f"event {ev}: fractions' proceeds sum to {float(s)!r}, taxable value {float(w)!r}"
        for lot, (a, s) in per_lot.items():
            if a == rows[lot][7]:
                w = exact_fields(rows[lot])["fiat_with_fee"]
                if abs(s - w) > 40 * EPS * abs(w):
                    return f"lot {lot} fully consumed: fractions' cost bases sum to {float(s)!r}, lot cost {float(w)!r}"
    return None


def oracle_c05(case, res, guard=True):
    if res["status"] != "ok":
        return None
    rows = {r[1]: r for r in case["rows"]}
    period = {"us": 365, "es": 365, "generic": case.get("period", 365)}.get(case.get("country", "us"))      # None: never long-term (jp, ie)
    for k, f in enumerate(res["fractions"]):
        exp = period is not None and f["lot"] is not None and rows[f["ev"]][2] - rows[f["lot"]][2] >= period * 86400 * 10**6
        if f["long"] != exp:
            return f"fraction {k}: long={f['long']} but holding period is {(rows[f['ev']][2] - rows[f['lot']][2]) if f['lot'] else None} µs (country {case.get('country', 'us')}, threshold {period} days)"
    return None


def oracle_c06(case, res, guard=True):
    if res["status"] != "ok":
        return None
    rows = {r[1]: r for r in case["rows"]}
    if case["from"] is None:
        # summary vs the detail table of the same run (needs no hypothesis: both are cut at the to-date in the same way): every line is the
        # sum of the shown fractions with its key, every shown fraction is in a line
        shown = defaultdict(lambda: [F(0)] * 4)
        mag = defaultdict(lambda: [F(0)] * 4)        # a decimal sum is accurate relative to the size of its terms, not of a result that may cancel
        for f in res["fractions"]:
            k = (ldate(rows[f["ev"]][2], rows[f["ev"]][3]).year, f["typ"], f["long"])
            a = shown[k]
            t = [F(f["amt"], U), F(f["proceeds"]), F(f["cost"]), F(f["gain"])]
            shown[k] = [a[i] + t[i] for i in range(4)]
            mag[k] = [mag[k][i] + abs(t[i]) for i in range(4)]
        got = {(y[0], y[1], y[2]): [F(x) for x in y[3:]] for y in res["yearly"]}
        if set(got) != set(shown):
            return f"yearly keys {sorted(got)} vs keys of the detail fractions of the same run {sorted(shown)}"
        for k in shown:
            for a, b, m_ in zip(got[k], shown[k], mag[k]):
                if abs(a - b) > 100 * EPS * max(m_, 1):
                    return f"yearly line {k}: {float(a)!r} vs sum of the detail fractions of the same run {float(b)!r}"
    if guard and not ldm_ok(case):
        return None
    agg = defaultdict(lambda: [F(0)] * 4)
    fdy = date.fromisoformat(case["from"]).year if case["from"] else 0
    td = date.fromisoformat(case["to"]) if case["to"] else None
    full = run_impl(case, fd=MIN_DATE, td=MAX_DATE)     # every fraction, unfiltered
    if full["status"] != "ok":
        return None
    mag2 = defaultdict(lambda: [F(0)] * 4)
    for f in full["fractions"]:
        dd = ldate(rows[f["ev"]][2], rows[f["ev"]][3])
        if dd.year >= fdy and (td is None or dd <= td):
            a = agg[(dd.year, f["typ"], f["long"])]
            t = [F(f["amt"], U), F(f["proceeds"]), F(f["cost"]), F(f["gain"])]
            agg[(dd.year, f["typ"], f["long"])] = [a[i] + t[i] for i in range(4)]
            mag2[(dd.year, f["typ"], f["long"])] = [mag2[(dd.year, f["typ"], f["long"])][i] + abs(t[i]) for i in range(4)]
    got = {(y[0], y[1], y[2]): [F(x) for x in y[3:]] for y in res["yearly"]}
    if len(got) != len(res["yearly"]):
        return "two yearly lines share (year, type, long/short)"
    if set(got) != set(agg):
        return f"yearly keys {sorted(got)} vs fractions' keys {sorted(agg)}"
    for k in agg:
        for a, b, m_ in zip(got[k], agg[k], mag2[k]):
            if abs(a - b) > 100 * EPS * max(m_, 1):
                return f"yearly line {k}: {float(a)!r} vs sum of its fractions {float(b)!r}"
    return None


def flows(case, td):
    acq = defaultdict(int)
    sent = defaultdict(int)
    rec = defaultdict(int)
    for r in case["rows"]:
        if td and ldate(r[2], r[3]) > td:
            continue
        if r[0] == "IN":
            acq[r[5]] += r[7]
        elif r[0] == "OUT":
            sent[r[5]] += r[7] + r[8]
        else:
            sent[r[4]] += r[7]
            rec[r[5]] += r[8]
    return acq, sent, rec


def oracle_c07(case, res, guard=True):
    if res["status"] != "ok" or (guard and not ldm_ok(case)):
        return None
    td = date.fromisoformat(case["to"]) if case["to"] else None
    acq, sent, rec = flows(case, td)
    exp = sorted([a, acq[a], sent[a], rec[a], acq[a] + rec[a] - sent[a]] for a in set(acq) | set(sent) | set(rec))
    if res["balances"] != exp:
        return f"balances {res['balances']} vs flows {exp}"
    if (not guard) or (out_with_fee_consistent(case) and fee_fiat_visible(case)):
        full = run_impl(case, fd=MIN_DATE)
        if full["status"] == "ok":
            lots = sum(r[7] for r in case["rows"] if r[0] == "IN" and not (td and ldate(r[2], r[3]) > td))
            cons = sum(f["amt"] for f in full["fractions"] if f["lot"] is not None)
            if sum(b[4] for b in res["balances"]) != lots - cons:
                return f"sum of final balances {sum(b[4] for b in res['balances'])} vs unconsumed lot amounts {lots - cons}"
    return None


def oracle_c08(case, res, guard=True):
    if (guard and not ldm_ok(case)) or res["status"] == "exhausted" or res["status"].startswith(("error", "crash", "hang")):
        return None
    td = date.fromisoformat(case["to"]) if case["to"] else None
    bal = defaultdict(int)
    worst = 0
    order = {"IN": 0, "INTRA": 1, "OUT": 2}
    for r in sorted(case["rows"], key=lambda r: (r[2], order[r[0]], r[1])):
        if td and ldate(r[2], r[3]) > td:
            break
        if r[0] == "IN":
            bal[r[5]] += r[7]
        elif r[0] == "OUT":
            bal[r[5]] -= r[7] + r[8]
        else:
            bal[r[4]] -= r[7]
            bal[r[5]] += r[8]
        worst = min([worst] + list(bal.values()))
    rejected = res["status"].startswith("overdrawn")
    if case["neg"] and rejected:
        return "rejected although -n was given"
    if not case["neg"]:
        if worst < -10 and not rejected:
            return f"an account went down to {worst}e-11 and the run was not rejected"
        if worst >= 0 and rejected:
            return "rejected although no account ever went negative"
    return None


def oracle_c10(case, res, guard=True):
    if res["status"] != "ok" or (guard and not local_dates_monotone(case)) or (case["from"] is None and case["to"] is None):
        return None
    un = run_impl(case, fd=MIN_DATE, td=MAX_DATE)
    if un["status"] != "ok":
        return None
    rows = {r[1]: r for r in case["rows"]}
    fd = date.fromisoformat(case["from"]) if case["from"] else date.min
    td = date.fromisoformat(case["to"]) if case["to"] else date.max
    inw = lambda rid: fd <= ldate(rows[rid][2], rows[rid][3]) <= td
    key = lambda f: (f["ev"], f["lot"], f["amt"], f["proceeds"], f["cost"], f["gain"], f["long"])
    exp = [key(f) for f in un["fractions"] if inw(f["ev"])]
    if [key(f) for f in res["fractions"]] != exp:
        return "fractions of the filtered run differ from the filter of the unfiltered run"
    for t in ("in", "out", "intra"):
        if res["shown"][t] != [x for x in un["shown"][t] if inw(x)]:
            return f"{t}-transactions shown {res['shown'][t]} vs the in-window ones of the unfiltered run {[x for x in un['shown'][t] if inw(x)]}"
    # balances reflect all history up to the to-date
    acq, sent, rec = flows(case, td if case["to"] else None)
    expb = sorted([a, acq[a], sent[a], rec[a], acq[a] + rec[a] - sent[a]] for a in set(acq) | set(sent) | set(rec))
    if res["balances"] != expb:
        return f"balances {res['balances']} do not reflect the history up to the to-date: {expb}"
    if case["from"]:
        nofrom = run_impl(case, fd=MIN_DATE)
        if nofrom["status"] == "ok":
            if nofrom["balances"] != res["balances"] or nofrom["price"] != res["price"]:
                return "balances / average price depend on the from-date"
            cnt = {(f["ev"], f["lot"]): (f["evk"], f["evn"], f["lotk"], f["lotn"]) for f in nofrom["fractions"]}
            if any(cnt.get((f["ev"], f["lot"])) != (f["evk"], f["evn"], f["lotk"], f["lotn"]) for f in res["fractions"]):
                return "fraction counts depend on the from-date"
            fy = fd.year
            if res["yearly"] != [y for y in nofrom["yearly"] if y[0] >= fy]:
                return "yearly lines are not the lines of the from-less run with year >= the from-date's year"
    return None


def rows_constructible(case):
    """every row of the history is accepted by its transaction constructor (a row the constructors reject is an input fault — C12 —
    wherever it is dated, not a later transaction changing earlier results)"""
    try:
        cfg = Configuration(INI, country_of(case)[0], from_date=MIN_DATE, to_date=MAX_DATE, allow_negative_balances=case["neg"])
        build_asset(cfg, "B1", case["rows"])
        return True
    except Exception:
        return False


def oracle_c09(case, res, guard=True):
    if res["status"].startswith("error") and case["to"] is not None and case["from"] is None and not (guard and not local_dates_monotone(case)):
        td_ = date.fromisoformat(case["to"])
        keep_ = [r for r in case["rows"] if ldate(r[2], r[3]) <= td_]
        if any(r[0] == "IN" for r in keep_) and rows_constructible(case):
            tr_ = run_impl(case, fd=MIN_DATE, td=MAX_DATE, rows=keep_)
            if tr_["status"] == "ok":
                return f"the whole history fails ({res['status']}: {res.get('_msg', '')[:70]}) although the history truncated at the to-date computes: later transactions changed earlier results"
        return None
    if res["status"] != "ok" or (guard and not local_dates_monotone(case)) or case["to"] is None or case["from"] is not None:
        return None
    td = date.fromisoformat(case["to"])
    keep = [r for r in case["rows"] if ldate(r[2], r[3]) <= td]
    if not any(r[0] == "IN" for r in keep):
        return None
    tr = run_impl(case, fd=MIN_DATE, td=MAX_DATE, rows=keep)
    if tr["status"] != "ok":
        return f"truncated history fails ({tr['status']}) while the run limited by the to-date succeeds"
    for k in ("fractions", "yearly", "balances", "price", "sums"):
        if tr[k] != res[k]:
            return f"{k} of the run limited by the to-date differ from the run on the history truncated at that date"
    return None


def _no_crash(f):
    def g(case, res, guard=True):
        if res["status"].startswith(("crash", "hang")):
            return f"the computation aborts with an internal error ({res['status']}: {res.get('_msg', '')[:80]}) on this history, so the property's figures are not produced"
        return f(case, res, guard)
    return g


def permuted(case):
    """the same transactions with the rows of each table in another order (row numbers change with the order)"""
    rng = random.Random(sum(r[2] for r in case["rows"]) % 1000003)
    new = [list(r) for r in case["rows"]]
    rng.shuffle(new)
    rid = 3
    old2new = {}
    for tbl in ("IN", "OUT", "INTRA"):
        for x in new:
            if x[0] == tbl:
                old2new[x[1]] = rid
                x[1] = rid
                rid += 1
        rid += rng.choice([1, 3, 3])
    return new, old2new


def oracle_c17(case, res, guard=True):
    """results are a function of the transactions alone: unchanged (up to row numbers) when rows are reordered within the tables, provided
    the timestamps are distinct; and identical when the same input is computed twice in the same process"""
    rows = case["rows"]
    again = run_impl(case)
    pubd = lambda r: json.dumps({k: v for k, v in r.items() if not k.startswith("_")}, sort_keys=True, default=str)
    if pubd(again) != pubd(res):
        return "computing the same input twice in one process gives different results"
    if len({r[2] for r in rows}) < len(rows):
        return None
    new, o2n = permuted(case)
    r2 = run_impl(case, rows=new)
    if r2["status"] != res["status"]:
        return f"with the rows reordered within the tables (rows {[x[1] for x in new]}) the computation ends with '{r2['status']}' instead of '{res['status']}'"
    if res["status"] != "ok":
        return None
    m = lambda i: None if i is None else o2n.get(i, i)
    a = {"fractions": [dict(f, ev=m(f["ev"]), lot=m(f["lot"])) for f in res["fractions"]], "yearly": res["yearly"], "balances": res["balances"], "price": res["price"],
         "shown": {k: [m(i) for i in v] for k, v in res["shown"].items()}, "sums": {k: sorted([m(x[0])] + x[1:] for x in v) for k, v in res["sums"].items()}}
    b = {k: r2[k] for k in a}
    for k in a:
        if json.dumps(a[k], sort_keys=True, default=str) != json.dumps(b[k], sort_keys=True, default=str):
            return f"with the rows reordered within the tables (old row -> new row {o2n}) the {k} differ: {json.dumps(a[k], default=str)[:300]} vs {json.dumps(b[k], default=str)[:300]}"
    return None


ORACLES = {k: _no_crash(v) for k, v in {"C17": oracle_c17, "C03": oracle_c03, "C04": oracle_c04, "C05": oracle_c05, "C06": oracle_c06, "C07": oracle_c07, "C08": oracle_c08, "C09": oracle_c09, "C10": oracle_c10}.items()}


def shrink_candidates(case):
    rows = case["rows"]
    for k in range(len(rows)):
        cand = rows[:k] + rows[k + 1:]
        if any(r[0] == "IN" for r in cand):
            yield dict(case, rows=cand)
    if len(case["sched"]) > 1:
        yield dict(case, sched={"1970": case["sched"]["1970"]})
    for k, r in enumerate(rows):
        opt = {"IN": (8, 9, 10), "OUT": (9, 10, 11)}.get(r[0], ())
        for c in opt:
            if r[c] is not None:
                r2 = list(r)
                r2[c] = None
                yield dict(case, rows=rows[:k] + [r2] + rows[k + 1:])


def nontrivial(case, i):
    return i["status"] == "ok" and len(i["fractions"]) >= 2


def note_stats(case, i, st):
    st["status:" + i["status"].split()[0].split(":")[0]] += 1
    st["window:" + ("none" if not case["from"] and not case["to"] else "from+to" if case["from"] and case["to"] else "from" if case["from"] else "to")] += 1
    st["fractions"] += len(i.get("fractions", []))
    st["rows"] += len(case["rows"])
    st["allow_negative"] += 1 if case["neg"] else 0
    if len({r[3] for r in case["rows"]}) > 1:
        st["cases_with_mixed_utc_offsets"] += 1
    if i["status"] == "ok":
        st["long_fractions"] += sum(1 for f in i["fractions"] if f["long"])
        st["yearly_lines"] += len(i["yearly"])


def pub(r):
    return {k: v for k, v in r.items() if not k.startswith("_") or k == "_msg"}
