"""Parser stream: generated ODS + INI pairs (random column permutations, unmapped junk columns, tables in any order, blank rows,
optional columns present/absent, crypto-fee rows; for C12 one documented fault injected at a random applicable position)
-> real rp2 Configuration + parse_ods vs the Lean parser model (pdriver); oracles C11 (parsed = rows) and C12 (fault => rejected)."""
import sys, os, json, random, copy, logging
from datetime import datetime, timedelta, timezone
from decimal import Decimal
from fractions import Fraction as F
import ezodf
from dateutil.parser import parse as duparse
from rp2.configuration import Configuration
from rp2.plugin.country.us import US
from rp2.ods_parser import open_ods, parse_ods
import common

EPOCH = datetime(1970, 1, 1, tzinfo=timezone.utc)
U = 10**11
SCR = os.environ["RP2_SCRATCH"]
IN_F = ['timestamp', 'asset', 'exchange', 'holder', 'transaction_type', 'spot_price', 'crypto_in', 'crypto_fee', 'fiat_in_no_fee', 'fiat_in_with_fee', 'fiat_fee', 'unique_id', 'notes']
OUT_F = ['timestamp', 'asset', 'exchange', 'holder', 'transaction_type', 'spot_price', 'crypto_out_no_fee', 'crypto_fee', 'crypto_out_with_fee', 'fiat_out_no_fee', 'fiat_fee', 'unique_id', 'notes']
X_F = ['timestamp', 'asset', 'from_exchange', 'from_holder', 'to_exchange', 'to_holder', 'spot_price', 'crypto_sent', 'crypto_received', 'unique_id', 'notes']
FIELDS = {'IN': IN_F, 'OUT': OUT_F, 'INTRA': X_F}
MAND = {'IN': ['timestamp', 'asset', 'exchange', 'holder', 'transaction_type', 'spot_price', 'crypto_in'],
        'OUT': ['timestamp', 'asset', 'exchange', 'holder', 'transaction_type', 'spot_price', 'crypto_out_no_fee', 'crypto_fee'],
        'INTRA': ['timestamp', 'asset', 'from_exchange', 'from_holder', 'to_exchange', 'to_holder', 'spot_price', 'crypto_sent', 'crypto_received']}
# fields whose cell is never empty (the first column of a table must hold one of them); the numeric ones may hold 0
ALWAYS = {'IN': ['timestamp', 'asset', 'exchange', 'holder', 'transaction_type', 'spot_price', 'crypto_in'],
          'OUT': ['timestamp', 'asset', 'exchange', 'holder', 'transaction_type', 'spot_price', 'crypto_out_no_fee', 'crypto_fee'],
          'INTRA': ['timestamp', 'asset', 'from_exchange', 'from_holder', 'to_exchange', 'to_holder', 'crypto_sent', 'crypto_received']}
EXS = ['Coinbase', 'Kraken']
HOS = ['Bob', 'Alice']
SEC = {'IN': 'in_header', 'OUT': 'out_header', 'INTRA': 'intra_header'}


def hexs(s):
    return s.encode().hex()


def q11(x):
    return Decimal(f"{x:.11f}")


def rnum(rng, lo=-6, hi=6):
    e = rng.randint(lo, hi)
    x = rng.uniform(1.0, 9.9) * 10**e
    return max(round(x, rng.randint(max(0, -e + 1), 14)), 10.0**e)


def nearf(rng, v):
    """a supplied value (nearly) equal to the computed one: exact, rounded to the cent, off by less than half a cent, off by cents"""
    k = rng.random()
    if k < 0.25: w = v
    elif k < 0.55: w = round(v, 2)
    elif k < 0.8: w = v + rng.choice([-1, 1]) * rng.uniform(0.0001, 0.0049)
    else: w = v + rng.choice([-1, 1]) * rng.uniform(0.01, 0.05)
    return w if w > 1e-9 else max(v, 1e-6)


def layout(rng, fields, table, want=()):
    use = [f for f in fields if f in MAND[table] or f in want or rng.random() < 0.6]
    width = len(use) + rng.randint(0, 4)
    cols = rng.sample(range(width), len(use))
    m = dict(zip(use, cols))
    if 0 not in [m[f] for f in ALWAYS[table]]:      # first column must hold an always-non-empty field
        f0 = rng.choice(ALWAYS[table])
        other = [g for g, c in m.items() if c == 0]
        if other:
            m[other[0]] = m[f0]
        m[f0] = 0
    return m, width


def gen(rng, prop=None):
    lay = {}
    for t in ('IN', 'OUT', 'INTRA'):
        lay[t], w = layout(rng, FIELDS[t], t, want=('crypto_fee', 'fiat_fee') if t == 'IN' and rng.random() < 0.6 else ())
        lay[t + "_w"] = w
    W = max(lay[t + "_w"] for t in ('IN', 'OUT', 'INTRA'))
    off = rng.choice([-8, 0, 0, 5, 9])
    base = datetime(2020, 1, 1, tzinfo=timezone(timedelta(hours=off)))
    recs = {'IN': [], 'OUT': [], 'INTRA': []}

    def ts(i):
        # the spellings exchanges export: seconds, milliseconds or microseconds; blank or `T` between date and time; offset as +hhmm,
        # +hh:mm or (for UTC) `Z`. What counts is the instant to the microsecond and the offset, as dateutil reads them.
        d = base + timedelta(days=rng.randint(0, 900), seconds=i, microseconds=rng.choice([0, 0, 0, 250000, 123456, 1, 999999, 500]))
        k = rng.random()
        if k < 0.45:
            return d.strftime('%Y-%m-%d %H:%M:%S.%f%z' if d.microsecond else '%Y-%m-%d %H:%M:%S%z')
        if k < 0.65:
            return d.isoformat()
        if k < 0.8:
            return d.isoformat(sep=' ')
        if k < 0.9 and d.utcoffset() == timedelta(0):
            return d.strftime('%Y-%m-%dT%H:%M:%S.%f' if d.microsecond else '%Y-%m-%dT%H:%M:%S') + 'Z'
        return str(d)
    # text cells that look like numbers, and one identifier shared by several rows (partial fills of one order, one on-chain transaction
    # seen in two tables): identifiers and notes are text and are kept as they are; rows are never merged
    def uid(i):
        return rng.choice(['u%d' % i, 'u%d' % i, '0012345', '4129e07', 'dup', 'dup', '0xa1'])

    def note(i):
        return rng.choice(['n %d' % i, 'n %d' % i, '2021', 'nan', 'x'])
    for i in range(rng.randint(1, 5)):
        r = dict(timestamp=ts(i), asset='B1', exchange=rng.choice(EXS), holder=rng.choice(HOS), transaction_type=rng.choice(['BUY', 'INTEREST', 'Gift', 'mining', 'STAKING', 'Airdrop', 'WAGES', 'Hardfork', 'income', 'DONATE']),
                 spot_price=rnum(rng), crypto_in=rnum(rng))
        k = rng.random()
        if k < 0.3:
            r['fiat_fee'] = rnum(rng, -2, 2) if rng.random() < 0.85 else 0.0       # an explicit 0 is a value, not an empty cell
        elif k < 0.6:
            r['crypto_fee'] = rnum(rng, -4, -1) if rng.random() < 0.9 else 0.0
        if rng.random() < 0.3:
            r['fiat_in_no_fee'] = rnum(rng) if rng.random() < 0.6 else nearf(rng, r['crypto_in'] * r['spot_price'])
        if rng.random() < 0.3:
            r['fiat_in_with_fee'] = rnum(rng) if rng.random() < 0.6 else nearf(rng, r['crypto_in'] * r['spot_price'] + r.get('fiat_fee', 0.0))
        if rng.random() < 0.5:
            r['unique_id'] = uid(i)
        if rng.random() < 0.5:
            r['notes'] = note(i)
        recs['IN'].append(r)
    for i in range(rng.randint(0, 4)):
        typ = rng.choice(['SELL', 'GIFT', 'DONATE', 'LOST', 'STAKING', 'FEE'])
        r = dict(timestamp=ts(i), asset='B1', exchange=rng.choice(EXS), holder=rng.choice(HOS), transaction_type=typ, spot_price=rnum(rng),
                 crypto_out_no_fee=0.0 if typ == 'FEE' else rnum(rng), crypto_fee=rnum(rng, -4, -1) if typ == 'FEE' else rng.choice([0.0, rnum(rng, -4, -1)]))
        if rng.random() < 0.3:
            r['crypto_out_with_fee'] = r['crypto_out_no_fee'] + r['crypto_fee']
        if rng.random() < 0.3 and typ != 'FEE':
            r['fiat_out_no_fee'] = rnum(rng) if rng.random() < 0.6 else nearf(rng, r['crypto_out_no_fee'] * r['spot_price'])
        if rng.random() < 0.35:
            # supplied fee value: any, (nearly) the computed one, or an explicit 0 (e.g. a dust fee the exchange rounds to 0.00)
            r['fiat_fee'] = rng.choice([rnum(rng, -2, 2), rnum(rng, -2, 2), nearf(rng, r['crypto_fee'] * r['spot_price']), 0.0])
        if rng.random() < 0.4:
            r['unique_id'] = uid(i)
        if rng.random() < 0.4:
            r['notes'] = note(i)
        recs['OUT'].append(r)
    for i in range(rng.randint(0, 3)):
        s = rnum(rng)
        f = rng.choice([0.0, s * 0.01, s])          # s: the whole transfer is eaten by the fee (0 received)
        r = dict(timestamp=ts(i), asset='B1', from_exchange='Coinbase', from_holder='Bob', to_exchange='Kraken', to_holder=rng.choice(HOS),
                 spot_price=rnum(rng) if (f > 0 or rng.random() < 0.5) else None, crypto_sent=s, crypto_received=s - f)
        if rng.random() < 0.4:
            r['unique_id'] = uid(i)
        if rng.random() < 0.4:
            r['notes'] = note(i)
        recs['INTRA'].append(r)
    order = rng.sample(['IN', 'OUT', 'INTRA'], 3)
    rows = []
    pos = []
    for t in order:
        if not recs[t] and t != 'IN' and rng.random() < 0.5:
            continue
        # blank rows before a table: usually a few, sometimes a long gap (a sheet is read to its end however far apart its tables are)
        for _ in range(rng.randint(0, 2) if rng.random() < 0.85 else rng.choice([12, 99, 100, 101, 150, 400])):
            rows.append([None] * W)
        rows.append([t.lower() if rng.random() < 0.3 else t] + [None] * (W - 1))
        rows.append(['h%d' % c for c in range(W)])
        m = lay[t]
        for k, r in enumerate(recs[t]):
            row = [('junk' if rng.random() < 0.5 else None) for _ in range(W)]
            for f, c in m.items():
                row[c] = r.get(f)
            for f in list(r):           # fields not mapped in the layout are not in the sheet: drop them from the expectation
                if f not in m:
                    r.pop(f)
            rows.append(row)
            pos.append([t, len(rows) - 1, k])
        rows.append(['TABLE END'] + [None] * (W - 1))
    case = {"lay": {t: lay[t] for t in ('IN', 'OUT', 'INTRA')}, "W": W, "rows": rows, "pos": pos, "recs": recs, "fault": None}
    if prop == "C12" and rng.random() < 0.75:
        inject(rng, case)
    return case


# ---------------- documented faults (each one makes the input invalid for certain)
def inject(rng, case):
    rows = case["rows"]
    pos = case["pos"]
    lay = case["lay"]
    W = case["W"]
    opts = []
    for t, ri, k in pos:
        m = lay[t]
        names = [f for f in m if f in ('exchange', 'holder', 'from_exchange', 'from_holder', 'to_exchange', 'to_holder')]
        for f in names:
            opts.append((f"unknown-{'exchange' if 'exchange' in f else 'holder'}", ri, m[f], 'ZZZ'))
            if isinstance(rows[ri][m[f]], str):      # a configured name with a blank around it is another, unknown, name
                opts.append((f"unknown-{'exchange' if 'exchange' in f else 'holder'}-padded", ri, m[f], rng.choice([rows[ri][m[f]] + ' ', ' ' + rows[ri][m[f]]])))
        opts.append(("asset-differs-from-sheet", ri, m['asset'], 'B2'))
        opts.append(("unknown-asset", ri, m['asset'], 'ZZZ'))
        opts.append(("naive-timestamp", ri, m['timestamp'], '2020-03-04 05:06:07'))
        opts.append(("bad-timestamp", ri, m['timestamp'], 'yesterday-ish'))
        if t == 'IN':
            for v in ('SELL', 'MOVE', 'FEE', 'LOST', 'FOO'):
                opts.append(("type-not-allowed-in-IN", ri, m['transaction_type'], v))
            if case["recs"]['IN'][k]['transaction_type'].upper() != 'STAKING':      # the constructor accepts non-positive staking amounts
                opts.append(("non-positive-crypto-in", ri, m['crypto_in'], rng.choice([-1.0, 0.0])))
            opts.append(("non-positive-spot-price", ri, m['spot_price'], rng.choice([-2.0, 0.0])))
            opts.append(("non-numeric", ri, m[rng.choice(['crypto_in', 'spot_price'])], 'abc'))
            if 'crypto_fee' in m and 'fiat_fee' in m:
                opts.append(("both-crypto-and-fiat-fee", ri, None, None))
        elif t == 'OUT':
            for v in ('BUY', 'INTEREST', 'MOVE', 'MINING', 'AIRDROP', 'FOO'):
                opts.append(("type-not-allowed-in-OUT", ri, m['transaction_type'], v))
            if case["recs"]['OUT'][k]['transaction_type'] != 'FEE':
                opts.append(("non-positive-crypto-out", ri, m['crypto_out_no_fee'], rng.choice([-1.0, 0.0])))
                opts.append(("non-positive-spot-price", ri, m['spot_price'], rng.choice([-2.0, 0.0])))
            opts.append(("negative-crypto-fee", ri, m['crypto_fee'], -0.5))
            opts.append(("non-numeric", ri, m[rng.choice(['crypto_out_no_fee', 'spot_price', 'crypto_fee'])], 'abc'))
        else:
            opts.append(("more-received-than-sent", ri, m['crypto_received'], None))
            opts.append(("non-positive-crypto-sent", ri, m['crypto_sent'], rng.choice([-1.0, 0.0])))
            opts.append(("non-numeric", ri, m[rng.choice(['crypto_sent', 'crypto_received'])], 'abc'))
            if case["recs"]['INTRA'][k]['crypto_sent'] != case["recs"]['INTRA'][k]['crypto_received']:
                opts.append(("zero-spot-price-with-fee", ri, m['spot_price'], 0.0))
    ends = [i for i, r in enumerate(rows) if r[0] == 'TABLE END']
    heads = [i for i, r in enumerate(rows) if isinstance(r[0], str) and r[0].lower() in ('in', 'out', 'intra')]
    structural = ["missing-table-end", "repeated-table", "nested-table", "data-outside-table", "missing-in-table", "empty-in-table"]
    kind = rng.choice(["cell"] * 6 + structural) if opts else rng.choice(structural)
    if kind == "cell":
        name, ri, c, v = rng.choice(opts)
        if name == "both-crypto-and-fiat-fee":
            m = lay['IN']
            rows[ri][m['crypto_fee']] = 0.001
            rows[ri][m['fiat_fee']] = 1.5
        elif name == "more-received-than-sent":
            m = lay['INTRA']
            # any excess is a fault, however small: one unit of the 11th decimal, dust, fractions of a cent's worth, or more than twice the amount
            sent_ = float(rows[ri][m['crypto_sent']])
            rows[ri][c] = sent_ + rng.choice([1e-11, 2e-11, 2e-8, 3e-4, 4e-3, 5e-3, 0.02, 1.0, sent_ + 1])
            if f"{rows[ri][c]:.11f}" == f"{sent_:.11f}":
                rows[ri][c] = sent_ * 2 + 1
        else:
            rows[ri][c] = v
        case["fault"] = name
    elif kind == "missing-table-end":
        del rows[rng.choice(ends)]
        case["fault"] = kind
    elif kind == "repeated-table":
        t = rng.choice(sorted({t for t, _, _ in pos}) or ['IN'])      # a table that has data rows (repeating an empty table is harmless and accepted)
        # the keyword of the second table in any letter case (keywords are recognised case-insensitively: `IN` … `In` is a repeated table too)
        rows += [[rng.choice([t, t.lower(), t.capitalize(), t.upper()])] + [None] * (W - 1), ['h'] * W, ['TABLE END'] + [None] * (W - 1)]
        case["fault"] = kind
    elif kind == "nested-table" and pos:
        t, ri, k = rng.choice(pos)
        rows.insert(ri, ['OUT' if t != 'OUT' else 'IN'] + [None] * (W - 1))
        case["fault"] = kind
    elif kind == "data-outside-table":
        rows.append(['stray'] + [None] * (W - 1))
        case["fault"] = kind
    elif kind in ("missing-in-table", "empty-in-table"):
        h = [i for i in heads if rows[i][0].lower() == 'in'][0]
        e = [i for i in ends if i > h][0]
        if kind == "missing-in-table":
            del rows[h:e + 1]
        else:
            del rows[h + 2:e]
        case["fault"] = kind
    case["pos"] = []      # row positions are no longer meaningful for the C11 oracle


# ---------------- implementation
def write_files(case, d):
    rows = case["rows"]
    W = case["W"]
    doc = ezodf.newdoc('ods', os.path.join(d, 'q.ods'))
    sh = ezodf.Table('B1', size=(len(rows) + 2, W + 1))
    for i, row in enumerate(rows):
        for j, v in enumerate(row):
            if v is not None:
                sh[i, j].set_value(v)
    doc.sheets += sh
    doc.save()
    ini = '[general]\nassets = B1, B2\nexchanges = Coinbase, Kraken\nholders = Bob, Alice\n\n'
    for t in ('IN', 'OUT', 'INTRA'):
        ini += f'[{SEC[t]}]\n' + ''.join(f'{f} = {c}\n' for f, c in case["lay"][t].items()) + '\n'
    open(os.path.join(d, 'q.ini'), 'w').write(ini)


def fr(x):
    f = F(x)
    return f"{f.numerator}/{f.denominator}"


def us_of(dt):
    d = dt - EPOCH
    return (d.days * 86400 + d.seconds) * 10**6 + d.microseconds


def units(x):
    return int(Decimal(x) * U)


def acct(e, h):
    """account number as the model counts them; a name that is not configured (only possible if the parser accepted one) gets a number
    outside the configured range instead of making the harness fail"""
    return (EXS.index(e) if e in EXS else 900 + len(e)) * 1000 + (HOS.index(h) if h in HOS else 900 + len(h))


def run_impl(case):
    write_files(case, SCR)
    try:
        cfg = Configuration(os.path.join(SCR, 'q.ini'), US())
        d = parse_ods(cfg, 'B1', open_ods(cfg, os.path.join(SCR, 'q.ods')))
    except Exception as e:
        return {"status": "reject", "_msg": type(e).__name__ + ": " + str(e)[:150], "lines": []}
    out = []
    key = lambda t: (int(t.internal_id) < 0, abs(int(t.internal_id)))
    for t in sorted(d.unfiltered_in_transaction_set, key=key):
        out.append(f"IN {t.internal_id} {us_of(t.timestamp)} {int(t.timestamp.utcoffset().total_seconds())} {t.transaction_type.value} {acct(t.exchange, t.holder)} {units(t.spot_price)} {units(t.crypto_in)} {fr(t.fiat_fee)} {fr(t.fiat_in_no_fee)} {fr(t.fiat_in_with_fee)}")
    for t in sorted(d.unfiltered_out_transaction_set, key=key):
        out.append(f"OUT {t.internal_id} {us_of(t.timestamp)} {int(t.timestamp.utcoffset().total_seconds())} {t.transaction_type.value} {acct(t.exchange, t.holder)} {units(t.spot_price)} {units(t.crypto_out_no_fee)} {units(t.crypto_fee)} {units(t.crypto_out_with_fee)} {fr(t.fiat_out_no_fee)} {fr(t.fiat_fee)}")
    for t in sorted(d.unfiltered_intra_transaction_set, key=key):
        out.append(f"INTRA {t.internal_id} {us_of(t.timestamp)} {int(t.timestamp.utcoffset().total_seconds())} {acct(t.from_exchange, t.from_holder)} {acct(t.to_exchange, t.to_holder)} {units(t.spot_price)} {units(t.crypto_sent)} {units(t.crypto_received)} {fr(t.fiat_fee)}")
    return {"status": "ok", "lines": out, "_data": d}


# ---------------- model
def cell_tok(v):
    if v is None:
        return 'E'
    if isinstance(v, (int, float)) and not isinstance(v, bool):
        n, d = float(v).as_integer_ratio()
        return f'N{n}/{d}'
    s = str(v)
    try:
        dt = duparse(s)
        if dt.tzinfo is None:
            info = 'Z'
        else:
            dd = dt - EPOCH
            info = f"T{(dd.days * 86400 + dd.seconds) * 10**6 + dd.microseconds},{int(dt.utcoffset().total_seconds())}"
    except Exception:
        info = 'B'
    return f'S{hexs(s)}:{info}'


def encode(case):
    L = [f"A {hexs('B1')}", f"A {hexs('B2')}"] + [f"X {hexs(x)}" for x in EXS] + [f"H {hexs(x)}" for x in HOS]
    for t, n in (('IN', 'in'), ('OUT', 'out'), ('INTRA', 'intra')):
        for f, c in case["lay"][t].items():
            L.append(f"C {n} {f} {c}")
    L.append(f"S {hexs('B1')}")
    W = case["W"]
    for row in case["rows"] + [[None] * W, [None] * W]:      # ezodf pads the sheet to W+1 columns and 2 more rows
        L.append('R ' + ' '.join(cell_tok(v) for v in row + [None]))
    L.append('P')
    return L


def run_model(cases):
    out = common.run_driver("pdriver", [l for c in cases for l in encode(c)]).split("END\n")
    res = []
    for b in out[:len(cases)]:
        lines = b.strip().splitlines()
        if lines == ["ERR"]:
            res.append({"status": "reject", "lines": []})
        elif any(l == "bad-op" for l in lines):
            res.append({"status": "model-protocol-error", "lines": []})
        else:
            res.append({"status": "ok", "lines": lines})
    return res


def diff(case, i, m):
    if i["status"] != m["status"]:
        return ["accept-reject"]
    if i["status"] == "ok" and i["lines"] != m["lines"]:
        return ["fields"]
    return []


# ---------------- oracles
def same_stamp(ts, cell):
    """the parsed timestamp is the instant (to the microsecond) and the UTC offset the cell states, as dateutil reads the text"""
    from dateutil.parser import parse as _du
    w = _du(cell)
    return ts == w and ts.utcoffset() == w.utcoffset()


def oracle_c11(case, res, guard=True):
    """parsed transactions = the generator's own row records (valid inputs only)"""
    if case["fault"] is not None:
        return None
    if res["status"] != "ok":
        return f"valid sheet rejected: {res.get('_msg', '')}"
    d = res["_data"]
    recs = case["recs"]
    rowid = {(t, k): ri + 1 for t, ri, k in case["pos"]}
    ins = {int(t.internal_id): t for t in d.unfiltered_in_transaction_set}
    outs = {int(t.internal_id): t for t in d.unfiltered_out_transaction_set}
    xs = {int(t.internal_id): t for t in d.unfiltered_intra_transaction_set}
    art = {i: t for i, t in outs.items() if i < 0}
    outs = {i: t for i, t in outs.items() if i > 0}
    for name, got, t in (("IN", ins, 'IN'), ("OUT", outs, 'OUT'), ("INTRA", xs, 'INTRA')):
        want = {rowid[(t, k)] for k in range(len(recs[t]))}
        if set(got) != want:
            return f"{name} transactions have ids {sorted(got)}, the data rows are {sorted(want)} (a row skipped or read twice)"
    nfee = 0
    for k, r in enumerate(recs['IN']):
        t = ins[rowid[('IN', k)]]
        if Decimal(t.crypto_in) != q11(r['crypto_in']) or Decimal(t.spot_price) != q11(r['spot_price']):
            return f"IN row {rowid[('IN', k)]}: crypto_in/spot_price {t.crypto_in}/{t.spot_price} vs cells {r['crypto_in']!r}/{r['spot_price']!r}"
        if t.exchange != r['exchange'] or t.holder != r['holder'] or t.transaction_type.value != r['transaction_type'].lower() or t.asset != r['asset']:
            return f"IN row {rowid[('IN', k)]}: exchange/holder/type/asset differ from the cells"
        if not same_stamp(t.timestamp, r['timestamp']):
            return f"IN row {rowid[('IN', k)]}: timestamp {t.timestamp} vs cell {r['timestamp']}"
        cf = r.get('crypto_fee')
        ff = r.get('fiat_fee')
        if cf is not None and q11(cf) > 0:
            nfee += 1
            a = [x for x in art.values() if x.timestamp == t.timestamp and x.exchange == t.exchange and x.holder == t.holder and Decimal(x.crypto_fee) == q11(cf)]
            if not a:
                return f"IN row {rowid[('IN', k)]} has crypto fee {cf!r}: no artificial fee-only disposal of that amount at the same instant/exchange/holder"
            if a[0].transaction_type.value != 'fee' or Decimal(a[0].crypto_out_no_fee) != 0:
                return f"IN row {rowid[('IN', k)]}: artificial transaction is not a fee-only disposal"
            expfee = F(q11(cf)) * F(q11(r['spot_price']))
            if Decimal(t.crypto_fee) != 0 or abs(F(t.fiat_fee) - expfee) > F(1, 10**20) + expfee * F(1, 10**28):
                return f"IN row {rowid[('IN', k)]}: acquisition's fiat fee {t.fiat_fee} vs crypto fee x spot price {float(expfee)}"
        elif ff is not None:
            if Decimal(t.fiat_fee) != q11(ff):
                return f"IN row {rowid[('IN', k)]}: fiat_fee {t.fiat_fee} vs cell {ff!r}"
        elif Decimal(t.fiat_fee) != 0:
            return f"IN row {rowid[('IN', k)]}: empty fee cells but fiat_fee {t.fiat_fee}"
        if r.get('fiat_in_no_fee') is not None and Decimal(t.fiat_in_no_fee) != q11(r['fiat_in_no_fee']):
            return f"IN row {rowid[('IN', k)]}: fiat_in_no_fee {t.fiat_in_no_fee} vs cell {r['fiat_in_no_fee']!r}"
        if r.get('fiat_in_with_fee') is not None and Decimal(t.fiat_in_with_fee) != q11(r['fiat_in_with_fee']):
            return f"IN row {rowid[('IN', k)]}: fiat_in_with_fee {t.fiat_in_with_fee} vs cell {r['fiat_in_with_fee']!r}"
        if r.get('fiat_in_with_fee') is None:
            want = F(t.fiat_in_no_fee) + F(t.fiat_fee)
            if abs(F(t.fiat_in_with_fee) - want) > abs(want) * F(1, 10**28):
                return f"IN row {rowid[('IN', k)]}: empty fiat_in_with_fee cell but value {t.fiat_in_with_fee} is not fiat_in_no_fee + fiat_fee = {float(want)}"
        if r.get('fiat_in_no_fee') is None and abs(F(t.fiat_in_no_fee) - F(q11(r['crypto_in'])) * F(q11(r['spot_price']))) > F(t.fiat_in_no_fee) * F(1, 10**28):
            return f"IN row {rowid[('IN', k)]}: empty fiat_in_no_fee cell but value {t.fiat_in_no_fee} is not crypto_in x spot_price"
        if t.unique_id != (r.get('unique_id') or '') or t.notes.split('; This transaction has a crypto fee')[0].split('This transaction has a crypto fee')[0] != (r.get('notes') or ''):
            return f"IN row {rowid[('IN', k)]}: unique_id/notes differ from the cells"
    if len(art) != nfee:
        return f"{len(art)} artificial fee transactions for {nfee} acquisitions with a crypto fee"
    for k, r in enumerate(recs['OUT']):
        t = outs[rowid[('OUT', k)]]
        if Decimal(t.crypto_out_no_fee) != q11(r['crypto_out_no_fee']) or Decimal(t.crypto_fee) != q11(r['crypto_fee']) or Decimal(t.spot_price) != q11(r['spot_price']) or t.transaction_type.value != r['transaction_type'].lower():
            return f"OUT row {rowid[('OUT', k)]}: amount/fee/price/type differ from the cells"
        if t.exchange != r['exchange'] or t.holder != r['holder'] or not same_stamp(t.timestamp, r['timestamp']):
            return f"OUT row {rowid[('OUT', k)]}: exchange/holder/timestamp differ from the cells"
        if r.get('fiat_fee') is not None and Decimal(t.fiat_fee) != q11(r['fiat_fee']):
            return f"OUT row {rowid[('OUT', k)]}: fiat_fee {t.fiat_fee} vs cell {r['fiat_fee']!r}"
        if r.get('fiat_out_no_fee') is not None and Decimal(t.fiat_out_no_fee) != q11(r['fiat_out_no_fee']):
            return f"OUT row {rowid[('OUT', k)]}: fiat_out_no_fee {t.fiat_out_no_fee} vs cell {r['fiat_out_no_fee']!r}"
        if t.unique_id != (r.get('unique_id') or '') or t.notes != (r.get('notes') or ''):
            return f"OUT row {rowid[('OUT', k)]}: unique_id/notes {t.unique_id!r}/{t.notes!r} differ from the cells {r.get('unique_id')!r}/{r.get('notes')!r}"
    for k, r in enumerate(recs['INTRA']):
        t = xs[rowid[('INTRA', k)]]
        if Decimal(t.crypto_sent) != q11(r['crypto_sent']) or Decimal(t.crypto_received) != q11(r['crypto_received']) or t.to_holder != r['to_holder'] or t.from_exchange != r['from_exchange'] or t.to_exchange != r['to_exchange']:
            return f"INTRA row {rowid[('INTRA', k)]}: sent/received/accounts differ from the cells"
        if not same_stamp(t.timestamp, r['timestamp']):
            return f"INTRA row {rowid[('INTRA', k)]}: timestamp {t.timestamp} vs cell {r['timestamp']}"
        if r.get('spot_price') is not None and Decimal(t.spot_price) != q11(r['spot_price']):
            return f"INTRA row {rowid[('INTRA', k)]}: spot_price {t.spot_price} vs cell {r['spot_price']!r}"
        if t.unique_id != (r.get('unique_id') or '') or t.notes != (r.get('notes') or ''):
            return f"INTRA row {rowid[('INTRA', k)]}: unique_id/notes {t.unique_id!r}/{t.notes!r} differ from the cells {r.get('unique_id')!r}/{r.get('notes')!r}"
    return None


def oracle_c12(case, res, guard=True):
    if case["fault"] is not None and res["status"] == "ok":
        return f"input with fault '{case['fault']}' was accepted ({len(res['lines'])} transactions parsed)"
    return None


def oracle_c04(case, res, guard=True):
    """exchange-supplied fiat values are used in place of amount x spot price (through the parser, incl. crypto-fee acquisitions)"""
    v = oracle_c11(case, res, guard)
    return v if v and ("fiat" in v) else None


ORACLES = {"C11": oracle_c11, "C12": oracle_c12, "C04": oracle_c04}


def shrink_candidates(case):
    """drop one data row (valid cases only: positions are needed to keep the records in step)"""
    if case["fault"] is not None:
        return
    for idx, (t, ri, k) in enumerate(case["pos"]):
        if t == 'IN' and len(case["recs"]['IN']) == 1:
            continue
        c = copy.deepcopy(case)
        del c["rows"][ri]
        del c["recs"][t][k]
        c["pos"] = [[t2, r2 - (1 if r2 > ri else 0), k2 - (1 if (t2 == t and k2 > k) else 0)] for j, (t2, r2, k2) in enumerate(case["pos"]) if j != idx]
        yield c


def hypotheses_failed(case, prop):
    return []


def nontrivial(case, i):
    return (i["status"] == "ok" and len(i["lines"]) >= 3) or (case["fault"] is not None and i["status"] == "reject")


def note_stats(case, i, st):
    st["status:" + i["status"]] += 1
    st["fault:" + (case["fault"] or "none")] += 1
    st["rows"] += len(case["rows"])
    st["transactions"] += len(i.get("lines", []))
    if any(r.get('crypto_fee') for r in case["recs"]['IN']):
        st["cases_with_crypto_fee_rows"] += 1


def pub(r):
    return {k: v for k, v in r.items() if not k.startswith("_") or k == "_msg"}
