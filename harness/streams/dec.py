"""Dec stream: random operands through the real RP2Decimal (Python decimal, 31 digits, half-even, 13-decimal comparisons,
quantize) vs the Lean decimal model (`rnd 31`, `quant`, `gt13`, `eq13`), compared as exact rationals; oracle C04: every result is
within 5e-31 relative of the exact rational result and no float is involved."""
import sys, os, random
from fractions import Fraction as F
from decimal import Decimal, ROUND_HALF_EVEN
from rp2.rp2_decimal import RP2Decimal as D, ZERO
import common

OPS = ["add", "sub", "mul", "div", "q13", "q11", "q10", "gt", "eq"]
EPS = F(5, 10**31)


def rdec(rng):
    digits = rng.randint(1, 31)
    m = rng.randint(1, 10**digits - 1)
    e = rng.randint(-28, 12) if rng.random() < 0.8 else rng.choice([-13, -14, -11, 0])
    s = rng.choice([1, 1, 1, -1])
    return s * F(m) * F(10) ** e


def fstr(x):
    return f"{x.numerator}/{x.denominator}"


def todec(x):
    # exact: the operands are decimal fractions with <= 31 significant digits
    n, d = x.numerator, x.denominator
    return D(str(Decimal(n) / Decimal(d)))


def gen(rng, prop=None):
    op = rng.choice(OPS)
    a = rdec(rng)
    b = rdec(rng)
    k = rng.random()
    if op in ("gt", "eq", "sub") and k < 0.4:
        b = a + rng.choice([0, 1, -1, 4, 5, 6, -5, 49, 50, 51]) * F(1, 10**rng.choice([13, 14, 15]))   # differences around the 13-decimal quantum
    if op in ("gt", "eq"):
        # RP2Decimal comparisons quantise the difference to 13 decimals under the 31-digit context: |difference| >= 1e18 raises
        # InvalidOperation (precondition of the model: |x| < 1e18, enforced for sheet input by the parser model)
        while abs(a - b) >= F(10) ** 17:
            a = rdec(rng) / F(10) ** 13
            b = rdec(rng) / F(10) ** 13
        a = F(Decimal(a.numerator) / Decimal(a.denominator)) if False else a
    if op == "div" and k < 0.1:
        b = F(rng.choice([3, 7, 9, 11]))
    return {"op": op, "a": fstr(a), "b": fstr(b)}


def run_impl(case):
    a, b = todec(F(case["a"])), todec(F(case["b"]))
    if F(Decimal(a)) != F(case["a"]) or F(Decimal(b)) != F(case["b"]):
        return {"status": "skip", "value": None}          # operand not representable in 31 digits (never generated)
    op = case["op"]
    if op == "add":
        r = a + b
    elif op == "sub":
        r = a - b
    elif op == "mul":
        r = a * b
    elif op == "div":
        r = a / b
    elif op.startswith("q"):
        r = D(str(Decimal(a).quantize(Decimal(1).scaleb(-int(op[1:])), rounding=ROUND_HALF_EVEN))) if abs(Decimal(a)) < Decimal(10) ** (30 - int(op[1:])) else None
        if r is None:
            return {"status": "skip", "value": None}
    elif op == "gt":
        return {"status": "ok", "value": "1" if a > b else "0"}
    else:
        return {"status": "ok", "value": "1" if a == b else "0"}
    if isinstance(r, float):
        return {"status": "float!", "value": repr(r)}
    return {"status": "ok", "value": fstr(F(Decimal(r)))}


def run_model(cases):
    out = common.run_driver("driver", [f"D {c['op']} {c['a']} {c['b']}" for c in cases]).splitlines()
    return [{"status": "ok", "value": v.strip()} for v in out[:len(cases)]]


def diff(case, i, m):
    if i["status"] == "skip":
        return []
    if i["status"] != "ok":
        return ["status"]
    if i["value"] != m["value"]:
        try:
            if F(i["value"]) == F(m["value"]):
                return []
        except Exception:
            pass
        return ["value"]
    return []


def oracle_c04(case, res, guard=True):
    if res["status"] == "float!":
        return f"binary floating point entered: {res['value']}"
    if res["status"] != "ok" or case["op"] not in ("add", "sub", "mul", "div"):
        return None
    a, b = F(case["a"]), F(case["b"])
    exact = {"add": a + b, "sub": a - b, "mul": a * b, "div": a / b}[case["op"]]
    got = F(res["value"])
    if abs(got - exact) > EPS * abs(exact):
        return f"{case['op']}: result differs from the exact value by {float(abs(got - exact) / abs(exact)) if exact else 'inf'} relative (bound 5e-31)"
    return None


ORACLES = {"C04": oracle_c04}


def shrink_candidates(case):
    return []


def hypotheses_failed(case, prop):
    return []


def nontrivial(case, i):
    return i["status"] == "ok"


def note_stats(case, i, st):
    st["op:" + case["op"]] += 1
    st["status:" + i["status"]] += 1


def pub(r):
    return r
