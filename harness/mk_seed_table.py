#!/usr/bin/env python3
"""Rewrite the seeded-changes table in DESIGN.md (between the SEED-TABLE markers) from seeded/*/meta.json."""
import os, json, re
ROOT = os.path.dirname(os.path.dirname(os.path.abspath(__file__)))
rows = []
for sid in sorted(os.listdir(os.path.join(ROOT, "seeded"))):
    m = json.load(open(os.path.join(ROOT, "seeded", sid, "meta.json")))
    notes = open(os.path.join(ROOT, "seeded", sid, "NOTES.md")).read() if os.path.exists(os.path.join(ROOT, "seeded", sid, "NOTES.md")) else ""
    title = m.get("summary") or next((l.strip("# ").strip() for l in notes.splitlines() if l.strip()), "")
    det = m.get("detected_by", {})
    cell = "; ".join(f"{p}: {d['result']}" + (f" — {d['what'][0][:90]}" if d.get("what") else "") for p, d in det.items()) or "not run"
    rows.append(f"| {sid} | {', '.join(m['files_touched'])[:70]} | {title[:110]} | {cell} |")
table = "| seed | file(s) | change | quick check result |\n|---|---|---|---|\n" + "\n".join(rows)
p = os.path.join(ROOT, "DESIGN.md")
s = open(p).read()
s = re.sub(r"(<!-- SEED-TABLE-BEGIN -->\n).*?(<!-- SEED-TABLE-END -->)", lambda mm: mm.group(1) + table + "\n" + mm.group(2), s, flags=re.S)
open(p, "w").write(s)
print(len(rows), "seeds")
