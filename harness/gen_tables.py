#!/venv/bin/python
"""Regenerate Lean tables from the rp2 source tree on PYTHONPATH / sys.argv[1]; writes <outdir>/*.lean (only when changed)."""
import sys, os, ast, glob, importlib, logging, configparser
repo=sys.argv[1]; outdir=sys.argv[2]
os.makedirs(outdir,exist_ok=True)
os.chdir(os.environ.get('RP2_SCRATCH','/tmp/exp')); logging.disable(logging.CRITICAL)
sys.path.insert(0, os.path.join(repo,'src'))
def lstr(s): return '"'+s.replace('\\','\\\\').replace('"','\\"')+'"'
def llist(xs): return '['+', '.join(xs)+']'
def write(name, body):
    p=os.path.join(outdir,name); txt='-- GENERATED from '+repo+' by gen_tables.py; do not edit\n'+body
    if not os.path.exists(p) or open(p).read()!=txt: open(p,'w').write(txt)
# ---- Types
from rp2.entry_types import TransactionType
from rp2.configuration import Configuration
from rp2.plugin.country.us import US
from rp2.rp2_decimal import RP2Decimal as D
from rp2.in_transaction import InTransaction
from rp2.out_transaction import OutTransaction
from rp2.intra_transaction import IntraTransaction
cfg=Configuration(os.path.join(repo,'config/test_data.ini'),US())
rows=[]
for t in TransactionType:
    name=t.value
    def probe(f):
        try: x=f(); return (True, x.is_taxable(), x.is_earning())
        except Exception: return (False, False, False)
    i=probe(lambda: InTransaction(cfg,'2020-01-01 00:00:00+00:00','B1','Coinbase','Bob',name,D('10'),D('2'),fiat_fee=D('0'),row=3))
    o=probe(lambda: OutTransaction(cfg,'2020-01-01 00:00:00+00:00','B1','Coinbase','Bob',name,D('10'),D('0') if name=='fee' else D('2'),D('1'),row=4))
    rows.append((name,t.is_earn_type(),i,o))
b=lambda x:'true' if x else 'false'
body='namespace Rp2.Gen\n/-- (type, earn?, IN: accepted/taxable/earning, OUT: accepted/taxable/earning) -/\ndef types : List (String × Bool × (Bool × Bool × Bool) × (Bool × Bool × Bool)) :=\n  '+llist([f'({lstr(n)}, {b(e)}, ({b(i[0])}, {b(i[1])}, {b(i[2])}), ({b(o[0])}, {b(o[1])}, {b(o[2])}))' for n,e,i,o in rows])+'\n'
x0=IntraTransaction(cfg,'2020-01-01 00:00:00+00:00','B1','Coinbase','Bob','Kraken','Bob',D('10'),D('2'),D('2'),row=5)
x1=IntraTransaction(cfg,'2020-01-01 00:00:00+00:00','B1','Coinbase','Bob','Kraken','Bob',D('10'),D('2'),D('1'),row=6)
body+=f'def intraType : String := {lstr(x0.transaction_type.value)}\ndef intraTaxableNoFee : Bool := {b(x0.is_taxable())}\ndef intraTaxableFee : Bool := {b(x1.is_taxable())}\nend Rp2.Gen\n'
write('Types.lean',body)
# ---- Countries
cp=configparser.ConfigParser(); cp.read(os.path.join(repo,'setup.cfg'))
eps=[l.strip() for l in cp['options.entry_points']['console_scripts'].strip().splitlines() if 'plugin.country' in l]
os.environ.setdefault('CURRENCY_CODE','eur'); os.environ['LONG_TERM_CAPITAL_GAINS']='123'
crow=[]
for l in eps:
    script,target=[x.strip() for x in l.split('=')]; mod=target.split(':')[0]
    m=importlib.import_module(mod)
    from rp2.abstract_country import AbstractCountry
    cls=[v for v in vars(m).values() if isinstance(v,type) and issubclass(v,AbstractCountry) and v is not AbstractCountry][0]
    c=cls()
    crow.append((script,c.country_iso_code,c.get_long_term_capital_gain_period(),c.get_default_accounting_method(),sorted(c.get_accounting_methods()),sorted(c.get_report_generators()),c.get_default_generation_language()))
# generic plugin: the period is the configured LONG_TERM_CAPITAL_GAINS value; probe accepted and rejected values
import rp2.plugin.country.generic as GEN
gprobe=[]
for v in ["0","1","365","366","1000000000","-1","-365","abc","1.5","", " 12 "]:
    os.environ['LONG_TERM_CAPITAL_GAINS']=v
    try: gprobe.append((v, str(GEN.Generic().get_long_term_capital_gain_period())))
    except Exception as e: gprobe.append((v, "rejected"))
os.environ['LONG_TERM_CAPITAL_GAINS']='123'
allgens=sorted({g for r in crow for g in r[5]})
gb='/-- generator plugin name ↦ its last component (file / template base name); string processing is done here so that `decide` can evaluate the tables -/\ndef generatorBases : List (String × String) := '+llist([f'({lstr(g)}, {lstr(g.split(".")[-1])})' for g in allgens])+'\n'
gp='/-- generic country plugin: LONG_TERM_CAPITAL_GAINS value ↦ period in days, or "rejected" -/\ndef genericPeriodProbe : List (String × String) := '+llist([f'({lstr(a)}, {lstr(b)})' for a,b in gprobe])+'\n'
body='namespace Rp2.Gen\n'+gb+gp+'/-- (script, iso, long-term period, default method, methods, generators, default language); generic probed with LONG_TERM_CAPITAL_GAINS=123 -/\ndef countries : List (String × String × Nat × String × List String × List String × String) :=\n  '+llist([f'({lstr(s)}, {lstr(i)}, {p}, {lstr(dm)}, {llist(map(lstr,ms))}, {llist(map(lstr,gs))}, {lstr(lg)})' for s,i,p,dm,ms,gs,lg in crow])+'\nend Rp2.Gen\n'
write('Countries.lean',body)
# ---- Methods (AST)
def term(n):
    if isinstance(n,ast.UnaryOp) and isinstance(n.op,ast.USub): return ('neg',)+term(n.operand)
    s=ast.unparse(n)
    return {'lot.spot_price':('price',),'lot.timestamp.timestamp()':('ts',),'lot.row':('row',),'ZERO':('zero',)}[s]
mrows=[]
for f in sorted(glob.glob(os.path.join(repo,'src/rp2/plugin/accounting_method/*.py'))):
    name=os.path.basename(f)[:-3]
    if name=='__init__': continue
    t=ast.parse(open(f).read()); cls=[n for n in t.body if isinstance(n,ast.ClassDef)][0]; base=ast.unparse(cls.bases[0])
    key=None; order=None
    for fn in cls.body:
        if isinstance(fn,ast.FunctionDef) and fn.name=='sort_key':
            call=fn.body[-1].value; key=[term(a) for a in call.args]
        if isinstance(fn,ast.FunctionDef) and fn.name=='lot_candidates_order': order=ast.unparse(fn.body[-1].value).split('.')[-1]
    mrows.append((name,'chronological' if 'Chronological' in base else 'feature',order or '',key or []))
def kt(t): return ('.neg ' if t[0]=='neg' else '.pos ')+'.'+t[-1]
body='namespace Rp2.Gen\ninductive Comp | price | ts | row | zero\nderiving DecidableEq, Repr\ninductive Signed | pos (c : Comp) | neg (c : Comp)\nderiving DecidableEq, Repr\n/-- (plugin, kind, chronological order, sort key components) -/\ndef methods : List (String × String × String × List Signed) :=\n  '+llist([f'({lstr(n)}, {lstr(k)}, {lstr(o)}, {llist(kt(t) for t in key)})' for n,k,o,key in mrows])+'\nend Rp2.Gen\n'
write('Methods.lean',body)
# ---- Sheets
import rp2.plugin.report.us.tax_report_us as TU, rp2.plugin.report.ie.tax_report_ie as TI
def smap(m): return llist(sorted(f'({lstr(t.value)}, {lstr(s)})' for t,s in m._TYPE_TO_SHEET.items()))
body=f'namespace Rp2.Gen\ndef typeToSheetUS : List (String × String) := {smap(TU)}\ndef typeToSheetIE : List (String × String) := {smap(TI)}\ndef taxHeaderRows : Nat := {getattr(TU.Generator, 'HEADER_ROWS', 0)}\ndef taxMinRows : Nat := {getattr(TU.Generator, 'MIN_ROWS', 0)}\nend Rp2.Gen\n'
write('Sheets.lean',body)
# ---- Templates
data=os.path.join(repo,'src/rp2/plugin/report/data'); trow=[]
for f in sorted(glob.glob(data+'/*/template_*')):
    rel=os.path.relpath(f,data); country=rel.split('/')[0]; stem=os.path.basename(f)
    ext=stem.rsplit('.',1)[1]; core=stem[len('template_'):-len(ext)-1]
    ok=True
    if ext=='txt': ok=os.path.exists(os.path.join(data,open(f).read().strip()))
    trow.append((country,core,ext,ok))
import re as _re
tl=sorted({(c,_re.sub(r'^rp2_full_report_','',k)) for c,k,e,o in trow if k.startswith('rp2_full_report_')})
body='namespace Rp2.Gen\n/-- (country dir, language) for every shipped full-report template -/\ndef templateLangs : List (String × String) := '+llist([f'({lstr(c)}, {lstr(l)})' for c,l in tl])+'\n/-- (country dir, "<generator>_<language>", extension, link target exists) -/\ndef templates : List (String × String × String × Bool) :=\n  '+llist([f'({lstr(c)}, {lstr(k)}, {lstr(e)}, {b(o)})' for c,k,e,o in trow])+'\nend Rp2.Gen\n'
write('Templates.lean',body)
# ---- Consts
from decimal import getcontext, FloatOperation
import rp2.rp2_decimal as RD, rp2.balance as BAL, rp2.ods_parser as OPS
from rp2.configuration import MIN_DATE, MAX_DATE
import rp2.configuration as CFGM
fmt=[n for n in ast.walk(ast.parse(open(os.path.join(repo,'src/rp2/ods_parser.py')).read())) if isinstance(n,ast.FormattedValue) and n.format_spec is not None]
specs=sorted({ast.unparse(f.format_spec) for f in fmt})
body=f'''namespace Rp2.Gen
def prec : Nat := {getcontext().prec}
def rounding : String := {lstr(getcontext().rounding)}
def floatTrap : Bool := {b(getcontext().traps[FloatOperation])}
def cryptoDecimals : Nat := {RD.CRYPTO_DECIMALS}
def balanceDecimals : Nat := {-BAL.CRYPTO_BALANCE_DECIMAL_MASK.as_tuple().exponent}
def minDateOrdinal : Int := {MIN_DATE.toordinal()-719163}
def maxDateOrdinal : Int := {MAX_DATE.toordinal()-719163}
def tableEnd : String := {lstr(OPS._TABLE_END)}
def parserFormatSpecs : List String := {llist(map(lstr,specs))}
/-- `_HEADER_COLUMNS`: the column names a header section of the configuration file may use -/
def headerColumns : List (String × List String) := {llist('('+lstr(k)+', '+llist(map(lstr,sorted(v)))+')' for k,v in sorted(CFGM._HEADER_COLUMNS.items()))}
def minYear : Int := {MIN_DATE.year}
end Rp2.Gen
'''
write('Consts.lean',body)
# ---- Imports
mods=[]; calls=[]; dyn=[]; opens=[]; muts=[]
MUT={'write_bytes','write_text','unlink','rmdir','rename','removedirs','rmtree','chmod','chown','touch','symlink_to','hardlink_to','truncate','copy2','copyfile','copytree','move','mkdir','makedirs','save','saveas','write','writelines','dump'}
for f in sorted(glob.glob(os.path.join(repo,'src/rp2/**/*.py'),recursive=True)):
    t=ast.parse(open(f).read()); imps=set(); rel=os.path.relpath(f,os.path.join(repo,'src'))
    for n in ast.walk(t):
        if isinstance(n,ast.Import):
            for a in n.names: imps.add(a.name.split('.')[0])
        elif isinstance(n,ast.ImportFrom):
            if n.level==0: imps.add((n.module or '').split('.')[0])
            else: imps.add('rp2')
        elif isinstance(n,ast.Call):
            s_=ast.unparse(n.func)
            if s_ in ('os.system','os.popen','os.fork','os.forkpty','eval','exec','__import__','compile') or s_.startswith(('os.exec','os.spawn','os.posix_spawn','subprocess.','socket.','platform.','uuid.')): calls.append((rel,s_))
            if s_ in ('import_module','importlib.import_module') and n.args:
                dyn.append((rel, ast.unparse(n.args[0])))
            if rel!='rp2/rp2_configuration_translator.py' and (s_.split('.')[-1] in MUT or s_.startswith(('shutil.','os.replace','os.rename','os.remove','os.unlink','tempfile.'))): muts.append((rel,s_))
            if s_=='open' and rel!='rp2/rp2_configuration_translator.py':
                mode='r'
                if len(n.args)>1: mode=ast.unparse(n.args[1]).strip('\'"')
                for kw in n.keywords:
                    if kw.arg=='mode': mode=ast.unparse(kw.value).strip('\'"')
                opens.append((rel,mode))
    mods.append((rel,sorted(imps)))
body='namespace Rp2.Gen\n/-- (module file, root names of everything it imports) -/\ndef imports : List (String × List String) :=\n  '+llist([f'({lstr(m)}, {llist(map(lstr,i))})' for m,i in mods])+'\n/-- call sites of process-spawning / dynamic-code / networking facilities -/\ndef dangerousCalls : List (String × String) := '+llist([f'({lstr(m)}, {lstr(c)})' for m,c in calls])+'\n/-- import_module call sites: (module, first argument as written) -/\ndef dynamicImports : List (String × String) := '+llist([f'({lstr(m)}, {lstr(c)})' for m,c in dyn])+'\n/-- builtin open() call sites outside the configuration translator: (module, mode) -/\ndef opens : List (String × String) := '+llist([f'({lstr(m)}, {lstr(c)})' for m,c in opens])+'\n/-- call sites (outside the configuration translator tool) of methods that create, change or delete a file or directory: (module, callee as written) -/\ndef fileMutations : List (String × String) := '+llist([f'({lstr(m)}, {lstr(c)})' for m,c in muts])+'\nend Rp2.Gen\n'
write('Imports.lean',body)
print('generated', sorted(os.listdir(outdir)))
