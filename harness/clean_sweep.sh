#!/bin/bash
# clean_sweep.sh <seed> [props...] — run quick checks on the unchanged tree with a given seed; print any non-zero exit
seed=$1; shift
props=${@:-$(python3 -c "import sys; sys.path.insert(0,'/verif/harness'); import registry; print(' '.join(registry.PROPS))")}
for p in $props; do
  out=$(VERIF_SEED=$seed /verif/check $p 2>&1); rc=$?
  echo "seed=$seed $p exit=$rc $(echo "$out" | grep -c KNOWN) known"
  if [ $rc -ne 0 ]; then echo "$out" | tail -5; fi
done
