"""Generic correspondence + oracle runner for one stream and one property.  Runs under /venv/bin/python with PYTHONPATH=<repo>/src.

usage: runner.py <stream> <prop> <seed> <n> [--components a,b,c] [--replay file] [--search]

Prints one JSON object on the last line of stdout:
  evaluations, corpus, distinct_nontrivial, mismatches[], oracle[], known[], excluded{}, stats{}, samples[]
A stream module (harness/streams/<stream>.py) provides
  gen(rng, prop) -> case                       structured, mostly valid input, every choice from rng
  run_impl(case) -> result dict                real rp2 code, in-process (or forked); must have key "status"
  run_model(cases) -> [result dict]            the Lean model through the line protocol
  diff(case, impl, model) -> [component,...]   canonicalised comparison, per component
  ORACLES[prop](case, impl, guard) -> None|str executable statement of the property on the real output
  shrink_candidates(case) -> iterable of smaller cases
  nontrivial(case, impl) -> bool ; note_stats(case, impl, counter) ; pub(result) -> JSON-able dict
"""
import sys, os, json, random, hashlib, signal, importlib, traceback, time
from collections import Counter

os.chdir(os.environ["RP2_SCRATCH"])
import logging
logging.disable(logging.CRITICAL)
sys.path.insert(0, os.path.join(os.environ["VERIF_ROOT"], "harness"))
sys.path.insert(0, os.path.join(os.environ["VERIF_ROOT"], "harness", "streams"))
import common


class Hang(Exception):
    pass


def _alarm(signum, frame):
    raise Hang()


def guarded(fn, case, limit=30):
    """run the implementation on one case; any exception or hang becomes an observed status"""
    signal.signal(signal.SIGALRM, _alarm)
    signal.alarm(limit)
    try:
        return fn(case)
    except Hang:
        return {"status": "hang"}
    except BaseException as e:  # the code under test may raise anything, including SystemExit
        return {"status": "crash:" + type(e).__name__, "_msg": str(e)[:200]}
    finally:
        signal.alarm(0)


def shrink(S, case, failing, budget=400, seconds=45):
    cur = case
    changed = True
    deadline = time.time() + seconds          # long histories are slow to re-run: a replay that is not minimal is still a replay
    while changed and budget > 0:
        changed = False
        for cand in S.shrink_candidates(cur):
            budget -= 1
            if budget <= 0 or time.time() > deadline:
                budget = 0
                break
            try:
                if failing(cand):
                    cur = cand
                    changed = True
                    break
            except Exception:
                pass
    return cur


def main():
    stream, prop, seed, n = sys.argv[1], sys.argv[2], int(sys.argv[3]), int(sys.argv[4])
    comps = None
    replay = None
    args = sys.argv[5:]
    while args:
        a = args.pop(0)
        if a == "--components":
            comps = set(args.pop(0).split(","))
        elif a == "--replay":
            replay = args.pop(0)
    S = importlib.import_module(stream)
    oracle = S.ORACLES.get(prop)
    rng = random.Random(seed)
    impl = lambda c: guarded(S.run_impl, c)
    relevant = lambda d: [x for x in d if comps is None or x in comps or x == "status"]

    res = {"stream": stream, "evaluations": 0, "corpus": 0, "mismatches": [], "oracle": [], "known": [], "excluded": Counter(), "stats": Counter(), "samples": []}
    cases = []
    if replay:
        r = json.load(open(replay))
        cases = [r["case"]] if "case" in r else [m["case"] for m in r.get("mismatches", [])]
    else:
        cdir = os.path.join(os.environ["VERIF_ROOT"], "corpus", stream)
        if os.path.isdir(cdir):
            for f in sorted(os.listdir(cdir)):
                if f.endswith(".json"):
                    cases.append(json.load(open(os.path.join(cdir, f)))["case"])
        res["corpus"] = len(cases)
        cases += [S.gen(rng, prop) for _ in range(n)]
    t0 = time.time()
    impls = [impl(c) for c in cases]
    t1 = time.time()
    try:
        models = S.run_model(cases)
    except Exception as e:
        models = [{"status": "model-driver-failure: " + str(e)[:100]}] * len(cases)
    if len(models) < len(cases):
        models += [{"status": "model-driver-no-output"}] * (len(cases) - len(models))
    t2 = time.time()
    seen = set()
    for c, i, m in zip(cases, impls, models):
        res["evaluations"] += 1
        S.note_stats(c, i, res["stats"])
        if S.nontrivial(c, i):
            seen.add(hashlib.sha1(json.dumps(c, sort_keys=True, default=str).encode()).hexdigest())
        for h in S.hypotheses_failed(c, prop):
            res["excluded"][h] += 1
        v = None
        if oracle is not None:
            try:
                v = oracle(c, i, True)
            except Exception as e:
                v = None
                res["stats"]["oracle-internal-error:" + type(e).__name__] += 1
        if v and len(res["oracle"]) < 3:
            def failing(x):
                return oracle(x, impl(x), True) is not None
            small = shrink(S, c, failing)
            ri = impl(small)
            res["oracle"].append({"case": small, "impl": S.pub(ri), "what": oracle(small, ri, True)})
        d = relevant(S.diff(c, i, m))
        if d and len(res["mismatches"]) < 3:
            def differs(x):
                return bool(relevant(S.diff(x, impl(x), S.run_model([x])[0])))
            small = shrink(S, c, differs, budget=150)
            ri = impl(small)
            rm = S.run_model([small])[0]
            res["mismatches"].append({"components": relevant(S.diff(small, ri, rm)), "case": small, "impl": S.pub(ri), "model": S.pub(rm)})
        elif d:
            res["stats"]["further-mismatches"] += 1
    # failing-input search when a correspondence broke but the oracle was silent on the generated inputs: run the oracle on the
    # shrunk disagreeing inputs and on a larger budget of generated inputs
    if res["mismatches"] and not res["oracle"] and oracle is not None and not replay:
        extra = [m["case"] for m in res["mismatches"]] + [S.gen(rng, prop) for _ in range(max(200, n))]
        for c in extra:
            i = impl(c)
            res["stats"]["search-evaluations"] += 1
            try:
                v = oracle(c, i, True)
            except Exception:
                v = None
            if v:
                small = shrink(S, c, lambda x: oracle(x, impl(x), True) is not None)
                ri = impl(small)
                res["oracle"].append({"case": small, "impl": S.pub(ri), "what": oracle(small, ri, True), "found_by": "failing-input search"})
                break
    # known findings: replay each witness of this stream/property on the implementation, without the hypothesis guard
    for f in common.known_findings(prop):
        if f.get("stream") != stream or oracle is None:
            continue
        ri = impl(f["witness"])
        try:
            v = S.ORACLES[f.get("oracle", prop)](f["witness"], ri, False)
        except Exception as e:
            v = None
        if v:
            res["known"].append(f"{f['id']} ({f['what']}): {v}")
    res["distinct_nontrivial"] = len(seen)
    res["stats"] = dict(res["stats"])
    res["excluded"] = dict(res["excluded"])
    res["timing"] = {"impl_s": round(t1 - t0, 2), "model_s": round(t2 - t1, 2)}
    k = 0
    for c, i in zip(reversed(cases), reversed(impls)):
        if S.nontrivial(c, i) or k == 0:
            res["samples"].append({"case": c, "impl": S.pub(i)})
            k += 1
        if k >= 2:
            break
    print(json.dumps(res, default=str))


if __name__ == "__main__":
    main()
