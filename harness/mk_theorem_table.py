#!/usr/bin/env python3
"""Rewrite the theorem inventory in DESIGN.md (between the THEOREM-TABLE markers) from lean/Audit/*.lean and evidence/*.json."""
import os, re, json
ROOT = os.path.dirname(os.path.dirname(os.path.abspath(__file__)))
rows = []
for p in sorted(os.listdir(os.path.join(ROOT, "lean", "Audit"))):
    pid = p[:-5]
    names = re.findall(r"#print axioms (\S+)", open(os.path.join(ROOT, "lean", "Audit", p)).read())
    ev = {}
    try:
        ev = json.load(open(os.path.join(ROOT, "evidence", pid + ".json")))["coverage"]
    except Exception:
        pass
    short = [n.split(".")[-1] for n in names]
    model = [n for n in short if n.startswith(("model_", "pipeline_"))]
    rows.append(f"| {pid} | {len(names)} | {', '.join('`'+n+'`' for n in short)} | {ev.get('evaluations', '')} / {ev.get('distinct_nontrivial', '')} |")
table = "| property | theorems | names (in `lean/Rp2/Props/<id>.lean`; `model_*` / `pipeline_*` are about the executable model the drivers run) | quick run: cases / distinct non-trivial |\n|---|---|---|---|\n" + "\n".join(rows)
p = os.path.join(ROOT, "DESIGN.md")
s = open(p).read()
s = re.sub(r"(<!-- THEOREM-TABLE-BEGIN -->\n).*?(<!-- THEOREM-TABLE-END -->)", lambda mm: mm.group(1) + table + "\n" + mm.group(2), s, flags=re.S)
open(p, "w").write(s)
print(len(rows), "properties,", sum(int(r.split('|')[2]) for r in rows), "theorems")
