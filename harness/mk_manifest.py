#!/usr/bin/env python3
"""Write /verif/MANIFEST.json from harness/registry.py (claimed checks) and its PENDING / NOT_APPLICABLE tables."""
import os, sys, json
ROOT = os.path.dirname(os.path.dirname(os.path.abspath(__file__)))
sys.path.insert(0, os.path.join(ROOT, "harness"))
import registry

NOTE = ("Trusted base: Lean 4.33 kernel; axioms propext, Classical.choice, Quot.sound only (audited each run, no sorry/native_decide/own axioms); "
        "Lean code generator for the compiled drivers; harness/gen_tables.py + harness/gen_formulas.py + harness/gen_loops.py (reflection + AST translators: declarative tables, the bodies of the arithmetic getters / predicates / constructors, and two loops: EntrySetIterator.__next__ and the replay loop of BalanceSet.__init__) and the differential correspondence harness "
        "(sampling: model = code is validated, not proved); CPython/decimal/datetime/heapq/AVL/ezodf modelled, not verified. ")
BASE = "cd /repo && /venv/bin/python -m pytest -ra -q -p no:cacheprovider --timeout=900 --continue-on-collection-errors"
all_ids = [json.loads(l)["id"] for l in open(os.path.join(ROOT, "properties.jsonl"))]
checks = []
for pid in all_ids:
    if pid not in registry.PROPS:
        continue
    p = registry.PROPS[pid]
    checks.append({
        "property_id": pid,
        "quick_cmd": f"./check {pid} --tier quick",
        "thorough_cmd": f"./check {pid} --tier thorough",
        "evidence_file": f"evidence/{pid}.json",
        "replay_cmd_template": f"./check {pid} --replay {{path}}",
        "engine": "lean-model+correspondence",
        "level_claimed": {"category": "proof", "text": p["text"], "design_ref": p.get("design_ref", "DESIGN.md §3")},
        "level_note": NOTE + " ".join(p.get("assumptions", [])) + (" Partial: " + p["partial"] if p.get("partial") else ""),
        "technique": p["technique"],
    })
na = [{"property_id": pid, "reason": registry.PENDING.get(pid, "no check registered yet")} for pid in all_ids if pid not in registry.PROPS]
m = {
    "version": 1,
    "setup_cmd": "./check --setup",
    "hooks": {"guard": "RP2_VERIF", "enable": "none needed: observation is by public API and run-time wrapping from the harness; RP2_VERIF=1 is exported to the code under test but no source commit reads it",
              "baseline_off_cmd": BASE, "source_commits": [], "add_only": True},
    "engines": [{"name": "lean-model+correspondence", "path": "lean/", "serves_properties": [c["property_id"] for c in checks],
                 "kind_free_text": "hand-written executable Lean 4 model + machine-checked theorems; tables, the bodies of the arithmetic getters / predicates / constructors and two loops (entry-set iterator, balance replay) regenerated (translated) from the source each run; line-protocol differential correspondence against the real code"}],
    "checks": checks,
    "notes": "All checks: regenerate lean/Rp2/Gen (tables + translated formulas) from /repo, lake build the property's theorem cone, audit axioms, run correspondence streams + oracles, replay known findings (known_findings.json).",
}
m["not_applicable"] = na          # every property is claimed: the list is empty (kept explicit)
json.dump(m, open(os.path.join(ROOT, "MANIFEST.json"), "w"), indent=1)
print("MANIFEST.json:", len(checks), "checks,", len(na), "not claimed")
