"""Shared plumbing for the checks: paths, locking, table generation, Lean build/audit, evidence, replay and known-finding files."""
import os, sys, json, time, fcntl, subprocess, re, tempfile, shutil, contextlib, itertools

ROOT = os.path.dirname(os.path.dirname(os.path.abspath(__file__)))
LEAN = os.path.join(ROOT, "lean")
REPO = os.environ.get("RP2_REPO", "/repo")
PY = os.environ.get("RP2_PYTHON", "/venv/bin/python")
SEED = int(os.environ.get("VERIF_SEED", "0") or 0)
ALLOWED_AXIOMS = {"propext", "Classical.choice", "Quot.sound"}
FORBIDDEN = re.compile(r"\b(sorry|admit|native_decide|bv_decide|implemented_by)\b|^\s*axiom\s|\bunsafe\s|maxHeartbeats\s+0")
TRUSTED_BASE = [
    "Lean 4.33.0 kernel (leanchecker re-check of the property's modules in the thorough tier)",
    "axioms allowed in any property theorem: propext, Classical.choice, Quot.sound; no sorry/admit/native_decide/bv_decide/implemented_by/unsafe/own axioms (audited on every run)",
    "Lean code generator and runtime for the compiled line-protocol drivers (driver, pdriver, rdriver, cdriver)",
    "harness/gen_tables.py: reflection + AST extraction of declarative tables from the current source tree into lean/Rp2/Gen/*.lean",
    "harness/gen_formulas.py: translator of the bodies of rp2's arithmetic getters, predicates and the three transaction constructors (Python AST -> Lean definitions, lean/Rp2/Gen/Formulas.lean); trusted for its attribute-to-model-field table and its rendering of RP2Decimal operators; a body of unknown shape is listed as untranslated (see coverage.translator) and tied by correspondence only",
    "harness/gen_loops.py: translator of two loops (EntrySetIterator.__next__ -> iterNext; the replay loop of BalanceSet.__init__ -> stops / stepIn / stepIntra / stepOut / rows over insertion-ordered dictionaries, lean/Rp2/Gen/Loops.lean); trusted for its attribute-to-model-field and Account(...)-to-account-id tables and its rendering of dict.get / d[k] / RP2Decimal operators; a loop of unknown shape is listed as untranslated and tied by correspondence only",
    "correspondence harness (generators, canonicalisation, diff, shrinker, independent ODS reader): differential sampling; its input distribution is recorded in this file",
    "oracles (Python transcriptions of the theorem conclusions) are used only to find failing inputs, never to declare a property true",
    "modelled, not verified: CPython decimal/datetime/list.sort stability/dict order/heapq, dateutil.parser, prezzemolo.AVLTree, ezodf/lxml, argparse/configparser/gettext/babel, the OS and file system",
]


@contextlib.contextmanager
def locked(name):
    os.makedirs(os.path.join(ROOT, ".lock"), exist_ok=True)
    with open(os.path.join(ROOT, ".lock", name), "w") as f:
        fcntl.flock(f, fcntl.LOCK_EX)
        try:
            yield
        finally:
            fcntl.flock(f, fcntl.LOCK_UN)


def scratch():
    return tempfile.mkdtemp(prefix="rp2verif_")


def child_env(scratch_dir, extra=None):
    e = dict(os.environ)
    e["PYTHONPATH"] = os.pathsep.join([os.path.join(REPO, "src"), os.path.join(ROOT, "harness"), os.path.join(ROOT, "harness", "streams")])
    e["PYTHONDONTWRITEBYTECODE"] = "1"
    e["PYTHONHASHSEED"] = e.get("PYTHONHASHSEED", "0")
    e["RP2_REPO"] = REPO
    e["RP2_SCRATCH"] = scratch_dir
    e["VERIF_ROOT"] = ROOT
    e["RP2_VERIF"] = "1"
    e["PATH"] = "/venv/bin:" + e.get("PATH", "")
    if extra:
        e.update(extra)
    return e


def gen_tables(scratch_dir):
    """regenerate lean/Rp2/Gen/*.lean from the current working tree of REPO; returns (ok, log)"""
    with locked("gen"):
        p = subprocess.run([PY, os.path.join(ROOT, "harness", "gen_tables.py"), REPO, os.path.join(LEAN, "Rp2", "Gen")],
                           capture_output=True, text=True, env=child_env(scratch_dir), cwd=scratch_dir)
        if p.returncode == 0:
            # translator for the arithmetic getters, predicates and constructors (Python AST -> Lean definitions): Gen/Formulas.lean
            q = subprocess.run([PY, os.path.join(ROOT, "harness", "gen_formulas.py"), REPO, os.path.join(LEAN, "Rp2", "Gen")],
                               capture_output=True, text=True, env=child_env(scratch_dir), cwd=scratch_dir)
            if q.returncode != 0:
                return False, (q.stdout + q.stderr)[-3000:]
            p.stdout += q.stdout
            # translator for two loops (EntrySetIterator.__next__, the replay loop of BalanceSet.__init__): Gen/Loops.lean
            q2 = subprocess.run([PY, os.path.join(ROOT, "harness", "gen_loops.py"), REPO, os.path.join(LEAN, "Rp2", "Gen")],
                                capture_output=True, text=True, env=child_env(scratch_dir), cwd=scratch_dir)
            if q2.returncode != 0:
                return False, (q2.stdout + q2.stderr)[-3000:]
            p.stdout += q2.stdout
    return p.returncode == 0, (p.stdout + p.stderr)[-3000:]


def lake_build(targets):
    with locked("lake"):
        p = subprocess.run(["lake", "build"] + targets, cwd=LEAN, capture_output=True, text=True)
    out = p.stdout + p.stderr
    errs = [l for l in out.splitlines() if l.startswith("error:")]
    return p.returncode == 0, errs, out[-6000:]


def failing_modules(build_output):
    return sorted(set(re.findall(r"✖ \[\d+/\d+\] (?:Building|Built) (\S+)", build_output)))


def audit(prop):
    """run Audit/<prop>.lean; returns (theorems {name: axioms}, problems[])"""
    with locked("lake"):
        p = subprocess.run(["lake", "env", "lean", os.path.join("Audit", prop + ".lean")], cwd=LEAN, capture_output=True, text=True)
    out = p.stdout + p.stderr
    thms = {}
    problems = []
    for m in re.finditer(r"'([^']+)' (?:depends on axioms: \[([^\]]*)\]|does not depend on any axioms)", out):
        ax = set(a.strip() for a in (m.group(2) or "").replace("\n", " ").split(",") if a.strip())
        thms[m.group(1)] = sorted(ax)
        if not ax <= ALLOWED_AXIOMS:
            problems.append(f"{m.group(1)} uses axioms {sorted(ax - ALLOWED_AXIOMS)}")
    if p.returncode != 0:
        problems.append("audit file failed: " + out[-600:])
    problems += grep_forbidden()
    return thms, problems


def grep_forbidden():
    problems = []
    for top in ("Rp2", "Audit"):
        for dirpath, _, files in os.walk(os.path.join(LEAN, top)):
            for fn in files:
                if not fn.endswith(".lean"):
                    continue
                in_block = False
                for n, line in enumerate(open(os.path.join(dirpath, fn), encoding="utf-8"), 1):
                    code = line
                    if in_block:
                        if "-/" in code:
                            code = code.split("-/", 1)[1]
                            in_block = False
                        else:
                            continue
                    while "/-" in code:
                        pre, rest = code.split("/-", 1)
                        if "-/" in rest:
                            code = pre + " " + rest.split("-/", 1)[1]
                        else:
                            code = pre
                            in_block = True
                            break
                    code = code.split("--")[0]
                    if FORBIDDEN.search(code):
                        problems.append(f"{fn}:{n}: forbidden token: {line.strip()[:80]}")
    for fn in ("Driver.lean", "PDriver.lean", "RDriver.lean", "CDriver.lean"):
        path = os.path.join(LEAN, fn)
        if os.path.exists(path):
            for n, line in enumerate(open(path, encoding="utf-8"), 1):
                if re.search(r"\b(sorry|implemented_by|native_decide)\b", line.split("--")[0]):
                    problems.append(f"{fn}:{n}: forbidden token")
    return problems


def expected_theorems(prop):
    names = []
    for line in open(os.path.join(LEAN, "Audit", prop + ".lean")):
        m = re.match(r"#print axioms (\S+)", line.strip())
        if m:
            names.append(m.group(1))
    return names


def leanchecker(modules):
    with locked("lake"):
        p = subprocess.run(["lake", "env", "leanchecker"] + modules, cwd=LEAN, capture_output=True, text=True)
    return p.returncode == 0, (p.stdout + p.stderr)[-1500:]


def run_driver(exe, lines, timeout=600):
    p = subprocess.run([os.path.join(LEAN, ".lake", "build", "bin", exe)], input="\n".join(lines) + "\n", capture_output=True, text=True, timeout=timeout)
    return p.stdout


_counter = itertools.count()


def write_replay(prop, payload):
    d = os.path.join(ROOT, "evidence", "replays")
    os.makedirs(d, exist_ok=True)
    path = os.path.join(d, f"{prop}-{SEED}-{os.getpid()}-{next(_counter)}.json")
    json.dump(payload, open(path, "w"), indent=1, default=str)
    return os.path.relpath(path, ROOT)


def write_evidence(prop, tier, coverage, wall, violations, assumptions):
    d = os.path.join(ROOT, "evidence")
    os.makedirs(d, exist_ok=True)
    ev = {"property_id": prop, "tier": tier, "seed": SEED, "level": "proof", "coverage": coverage,
          "assumptions": assumptions, "wall_s": round(wall, 2), "violations": violations}
    tmp = os.path.join(d, prop + ".json.tmp")
    json.dump(ev, open(tmp, "w"), indent=1, default=str)
    os.replace(tmp, os.path.join(d, prop + ".json"))
    return ev


def known_findings(prop=None, status="known"):
    p = os.path.join(ROOT, "known_findings.json")
    if not os.path.exists(p):
        return []
    return [f for f in json.load(open(p))["findings"] if (prop is None or prop in f.get("properties", [])) and f.get("status") == status]
