"""Which theorem cone, which correspondence streams (and which of their components) and how many cases decide each property.
MANIFEST.json is generated from this file by harness/mk_manifest.py so that the two cannot drift apart."""
DRIVERS = ["driver", "pdriver", "rdriver"]


def S(name, quick, thorough, components=None, parallel=8):
    return {"name": name, "n": {"quick": quick, "thorough": thorough}, "components": components, "parallel": parallel}


ENGINE_RULE = ("engine stream: generated single-asset histories (2-14 rows, instants from a small pool so that ties are frequent, income events interleaved "
               "with disposals, partial lots, equal prices, 1-3-entry method schedules, 3% over-spending); non-trivial = succeeds with >= 2 fractions "
               "from >= 2 distinct lots; distinct by content hash")
PIPE_RULE = ("pipeline stream: generated single-asset histories (2-14 rows, 4 accounts, sheet order != time order, 11-decimal amounts 1e-11..1e4, prices to 1e7, "
             "optional exchange-supplied fiat columns, 1-3-entry schedules, random from/to windows on/around transaction dates, -n on/off, a share of mixed UTC offsets, "
             "4% over-spending); every figure compared with the Lean model as an exact rational; non-trivial = succeeds with >= 2 fractions; distinct by content hash")

PROPS = {
    "C01": {"streams": [S("engine", 2000, 160000, ["fractions"])], "rule": ENGINE_RULE,
            "assumptions": ["hypothesis SameInstantSameYear (finding F7): events at one instant share a local year"],
            "technique": "Lean 4 refinement proof (engine with heaps/cache/indices = greedy spec) + regenerated sort-key table + differential correspondence",
            "text": "Theorem engine_eq_spec / best_lot: for all histories, methods and schedules the engine model takes every piece from the best-ranked available lot; "
                    "tie to the code by Gen.Methods (decide) and the engine stream (compute_tax vs compiled model, fraction by fraction).",
            "design_ref": "DESIGN.md §3 C01"},
    "C02": {"streams": [S("engine", 2000, 160000, ["fractions"])], "rule": ENGINE_RULE, "assumptions": [],
            "technique": "Lean 4 proof: cover / no-overspend / not-from-the-future on the engine model, closed-form failure criterion (Feasible) on the spec",
            "text": "Theorems cover_and_no_overspend and succeeds_iff_feasible hold for every history and method; correspondence on the engine stream incl. the exhausted status.",
            "design_ref": "DESIGN.md §3 C02"},
    "C03": {"streams": [S("engine", 1500, 80000, ["fractions", "types"])], "rule": ENGINE_RULE, "assumptions": [],
            "technique": "Lean 4 proof: taxable events are a permutation of earn-IN + OUT + fee-INTRA; each event once and in full; regenerated type table",
            "text": "Theorems events_exact / events_perm / each_once_in_full; tie by Gen.Types and the engine + pipeline streams.",
            "design_ref": "DESIGN.md §3 C03"},
}

PENDING = {}
