"""Which theorem cone, which correspondence streams (and which of their components) and how many cases decide each property."""
DRIVERS = ["driver", "pdriver", "rdriver"]

def S(name, quick, thorough, components=None, parallel=8):
    return {"name": name, "n": {"quick": quick, "thorough": thorough}, "components": components, "parallel": parallel}

ENGINE_RULE = ("engine stream: generated single-asset histories (2-14 rows, instants from a small pool so that ties are frequent, income events interleaved "
               "with disposals, partial lots, equal prices, 1-3-entry method schedules, 3% over-spending); non-trivial = succeeds with >= 2 fractions "
               "from >= 2 distinct lots; distinct by content hash")

PROPS = {
    "C01": {"streams": [S("engine", 2000, 160000, ["fractions"])], "rule": ENGINE_RULE,
            "assumptions": ["hypothesis SameInstantSameYear (finding F7): events at one instant share a local year"]},
    "C02": {"streams": [S("engine", 2000, 160000, ["fractions"])], "rule": ENGINE_RULE, "assumptions": []},
    "C03": {"streams": [S("engine", 1500, 80000, ["fractions", "types"])], "rule": ENGINE_RULE, "assumptions": []},
}
