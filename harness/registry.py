"""Which theorem cone, which correspondence streams (and which of their components) and how many cases decide each property.
MANIFEST.json is generated from this file by harness/mk_manifest.py so that the two cannot drift apart."""
DRIVERS = ["driver", "pdriver", "rdriver"]


def S(name, quick, thorough, components=None, parallel=8):
    return {"name": name, "n": {"quick": quick, "thorough": thorough}, "components": components, "parallel": parallel}


ENGINE_RULE = ("engine stream: generated single-asset histories (2-14 rows, instants from a small pool so that ties are frequent, income events interleaved "
               "with disposals, partial lots, equal prices, 1-3-entry method schedules, 3% over-spending); non-trivial = succeeds with >= 2 fractions "
               "from >= 2 distinct lots; distinct by content hash")
PIPE_RULE = ("pipeline stream: generated single-asset histories (2-14 rows, 4 accounts, sheet order != time order, 11-decimal amounts 1e-11..1e4, prices to 1e7, "
             "optional exchange-supplied fiat columns, 1-3-entry schedules, random from/to windows on/around transaction dates, -n on/off, a share of mixed UTC offsets, "
             "4% over-spending); every figure compared with the Lean model as an exact rational; non-trivial = succeeds with >= 2 fractions; distinct by content hash")

REP_RULE = ("reports stream: 1-3 assets (colliding row numbers, rows not time-sorted, mixed offsets, all transaction types), random from/to windows, one of the "
            "five generators per case run in a forked child, output read back with an independent zipfile+ElementTree ODS reader and compared row by row with the "
            "Lean abstract-report model; non-trivial = report generated with >= 3 data rows; distinct by content hash")

PARSER_RULE = ("parser stream: generated ODS + INI pairs (random column permutations with unmapped junk columns, tables in any order, blank rows, lower-case keywords, "
               "optional columns present/absent, crypto-fee acquisitions, numbers with up to 14 decimals) parsed by the real Configuration + parse_ods and by the Lean parser model; "
               "non-trivial = >= 3 transactions parsed, or a faulty input rejected; distinct by content hash")

CLI_RULE = ("cli stream (end to end): 1-3 assets written as a real .ods + .ini pair (crypto-fee acquisitions, sparse years, mixed offsets), one of the five entry points with "
            "random supported options (method / schedule section, language, from/to windows incl. empty and out-of-range, -n, -a, prefix) run in a forked child under an audit hook; "
            "exit status, files written, audit events and every report (English-language outputs cell by cell, others for readability) compared with the Lean whole-run model "
            "(cells -> parser -> engine -> generators -> files); non-trivial = exit 0 with >= 3 report rows, or a faulty invocation rejected; distinct by content hash; "
            "the three tables of every sheet in any of the six orders; account names that collide when joined by '_'; [accounting_methods] lines in any order with a method "
            "that comes back after another (C01: oracle on the Gain / Loss Detail rows of the real file, identified through the file's hyperlinks; C05: LONG/SHORT cells vs the "
            "instants of the input rows, threshold-seeking histories with sub-second lots and crypto fees; C10: the same input run without a window, in-window rows compared; "
            "C12: one invalid cell in a row, often dated after the to-date; C16: three assets whose sales together outgrow a tax-report sheet; C17: all five other table orders; "
            "C18: environment switches the source reads)")

PROPS = {
    "C01": {"streams": [S("engine", 2000, 160000, ["fractions"]), S("cli", 40, 1200, ["exit", "detail", "model"])], "rule": ENGINE_RULE + "; " + CLI_RULE,
            "assumptions": ["hypothesis SameInstantSameYear (finding F7): events at one instant share a local year"],
            "technique": "Lean 4 refinement proof (engine with heaps/cache/indices = greedy spec; method in force independent of the order of the schedule's lines) + regenerated sort-key table + differential correspondence (API level and end to end)",
            "text": "Theorem engine_eq_spec / best_lot: for all histories, methods and schedules the engine model takes every piece from the best-ranked available lot; "
                    "tie to the code by Gen.Methods (decide) and the engine stream (compute_tax vs compiled model, fraction by fraction).",
            "design_ref": "DESIGN.md §3 C01"},
    "C02": {"streams": [S("engine", 2000, 160000, ["fractions"]), S("cli", 30, 1200, ["exit", "detail", "model"])], "rule": ENGINE_RULE, "assumptions": [],
            "technique": "Lean 4 proof: cover / no-overspend / not-from-the-future on the engine model, closed-form failure criterion (Feasible) on the spec",
            "text": "Theorems cover_and_no_overspend and succeeds_iff_feasible hold for every history and method; correspondence on the engine stream incl. the exhausted status.",
            "design_ref": "DESIGN.md §3 C02"},
    "C03": {"streams": [S("engine", 1500, 80000, ["fractions", "types"]), S("pipeline", 600, 30000, ["types", "fractions", "status-engine", "status-crash"]), S("cli", 30, 1000, ["exit", "detail", "model"])], "rule": ENGINE_RULE + "; " + CLI_RULE, "assumptions": [],
            "technique": "Lean 4 proof: taxable events are a permutation of earn-IN + OUT + fee-INTRA; each event once and in full; regenerated type table; is_taxable / is_earning bodies translated from the source on every run = the filters of the model's taxableEvents",
            "text": "Theorems events_exact / events_perm / each_once_in_full; tie by Gen.Types and the engine + pipeline streams.",
            "design_ref": "DESIGN.md §3 C03"},
    "C04": {"streams": [S("pipeline", 1200, 60000, ["figures", "status-crash"]), S("dec", 4000, 400000, ["value", "status"]), S("parser", 300, 15000, ["fields"]), S("reports", 30, 1500, ["detail", "status"])], "rule": PIPE_RULE + "; reports stream for C04: Proceeds / Cost Basis / Gain cells (hyperlink payloads included) of the real rp2_full_report.ods", "assumptions": [],
            "technique": "Lean 4: formulas stated outright on the bit-exact 31-digit decimal model and proved equal to the Python bodies translated from the source on every run (getters and the three constructors), exactness of decimal arithmetic on the 1e-11 grid, exact parts-add-to-whole, rounding-error lemmas; bit-exact differential correspondence of every figure",
            "text": "Theorems proceeds/cost/gain formulas, supplied-over-computed, parts_add_to_whole (exact), two_roundings_bound, round_half_even_err; "
                    "every proceeds/cost/gain figure of generated histories is compared with the model as an exact rational, and with exact Fraction arithmetic by the oracle.",
            "design_ref": "DESIGN.md §3 C04"},
    "C05": {"streams": [S("pipeline", 1200, 60000, ["long", "status-crash"]), S("reports", 40, 2000, ["detail", "taxreport", "taxsheet", "status"]),
                        S("cli", 24, 1000, ["exit", "detail", "model"])],
            "rule": PIPE_RULE + "; " + CLI_RULE + "; C05: holding periods placed at k*period days +-{0,1us,1s}; reports stream for C05: LONG/SHORT cells of rp2_full_report.ods, tax_report_us.ods and tax_report_ie.ods (multi-asset, colliding row numbers)", "assumptions": [],
            "technique": "Lean 4 proof: isLong iff period*86400e6 <= instant difference, and isLong = the body of is_long_term_capital_gains translated from the source on every run; regenerated country table; correspondence on threshold pairs (API level, reports, end to end)",
            "text": "Theorems long_iff, income_short, never_long on the model's Fraction.isLong; Gen.Countries periods decided; pipeline stream with threshold-seeking generator.",
            "design_ref": "DESIGN.md §3 C05"},
    "C06": {"streams": [S("pipeline", 1200, 60000, ["yearly", "status-crash"]), S("reports", 30, 1500, ["taxsheet", "summary", "status"])], "rule": PIPE_RULE + "; reports stream for C06: the Gain / Loss Summary table and the Summary sheet of the real rp2_full_report.ods",
            "assumptions": ["hypothesis LocalDatesMonotone (finding F6): local calendar dates never decrease along the instant order"],
            "technique": "Lean 4 proof: insertion-ordered group-by yields one line per key, each the in-order sum of exactly its fractions; EntrySetIterator.__next__ translated from the source on every run = the model's window (to-date cut); correspondence of yearly lines",
            "text": "Theorem lines_are_sums (group_spec); yearly lines of the real ComputedData compared with the model and with an independent group-by oracle.",
            "design_ref": "DESIGN.md §3 C06"},
    "C07": {"streams": [S("pipeline", 1200, 60000, ["balances", "status-balance", "status-crash"]), S("reports", 40, 2000, ["taxsheet", "inout", "status"])], "rule": PIPE_RULE + "; C07 reports stream: the Account Balances table and the In-Flow rows (Sent/Sold percentage) of the real file",
            "assumptions": ["hypotheses LocalDatesMonotone (F6), OutWithFeeConsistent, FeeFiatVisible (F12)"],
            "technique": "Lean 4 proof: balance after any prefix = initial + acquired + received - sent per account; the replay loop of BalanceSet.__init__ translated from the source on every run (dictionary updates, break at the to-date, Balance rows) simulates the model's balStep (exactness of the decimal on the 1e-11 grid); correspondence of BalanceSet; reconciliation oracle",
            "text": "Theorem final_is_flows for every transaction list and account; balances of the real BalanceSet compared with the model; oracle recomputes flows and lot reconciliation.",
            "design_ref": "DESIGN.md §3 C07"},
    "C08": {"streams": [S("pipeline", 1200, 60000, ["balances", "status-balance", "status-crash"])], "rule": PIPE_RULE + "; C08: 25% overdrafts by 1..11 grid units and by 1 unit around the tolerance",
            "assumptions": ["hypothesis LocalDatesMonotone (F6) for the to-date cut"],
            "technique": "Lean 4 proof: replay fails iff some account is below tolerance after some chronological prefix (checking only debited accounts suffices); -n never rejects; the overdraft test as written in the source (is_equal_within_precision at 10 decimals and RP2Decimal <) translated on every run and proved equal to the model's tolerance, round by round",
            "text": "Theorems rejected_iff_some_prefix_overdrawn and allowed_never_rejects; overdrawn status and account compared with the model; brute-force prefix oracle.",
            "design_ref": "DESIGN.md §3 C08"},
    "C09": {"streams": [S("pipeline", 800, 40000, ["fractions", "figures", "long", "numbering", "yearly", "balances", "price", "sums", "status-engine", "status-crash"]), S("cli", 30, 1000, ["exit", "detail", "model"])], "rule": PIPE_RULE + "; " + CLI_RULE,
            "assumptions": ["hypothesis LocalDatesMonotone (F6)"],
            "technique": "Lean 4 proof: prefix theorem on the greedy spec (later lots/events cannot change earlier fractions) carried to the engine by refinement; EntrySetIterator.__next__ translated from the source on every run = the model's window; correspondence on (history, truncated history) pairs",
            "text": "Theorem earlier_fractions_unchanged (runS_prefix); oracle compares the to-date-limited run with the run on the truncated history, on the real code.",
            "design_ref": "DESIGN.md §3 C09"},
    "C10": {"streams": [S("pipeline", 800, 40000, ["views", "fractions", "figures", "numbering", "yearly", "balances", "price", "sums", "status-crash"]), S("cli", 40, 1200, ["exit", "detail", "inout", "model"])], "rule": PIPE_RULE + "; " + CLI_RULE,
            "assumptions": ["hypothesis LocalDatesMonotone (F6)"],
            "technique": "Lean 4 proof: a window view is the filter by [from,to] under monotone local dates; EntrySetIterator.__next__ translated from the source on every run = the model's window; correspondence of ComputedData for random windows",
            "text": "Theorem view_is_filter; filtered ComputedData compared with the model; oracle compares filtered run with the filter of the unfiltered run on the real code.",
            "design_ref": "DESIGN.md §3 C10"},
    "C11": {"streams": [S("parser", 400, 20000, ["fields", "accept-reject"])], "rule": PARSER_RULE, "assumptions": ["dateutil's string parsing is an oracle supplied by the harness (not modelled)"],
            "technique": "Lean 4 proof: layout independence of row construction (any column permutation, unmapped columns), ids = row numbers strictly increasing (no row twice), failing row aborts (no row skipped); regenerated parser constants; field-by-field correspondence of parse_ods",
            "text": "Theorems in_row_layout_independent, permuted_columns_same_fields, ids_are_row_numbers, no_row_skipped on the parser model; generated ODS+INI pairs parsed by the real code and the model and compared field by field; oracle compares with the generator's own records.",
            "design_ref": "DESIGN.md §3 C11"},
    "C12": {"streams": [S("parser", 500, 25000, ["accept-reject", "fields"]), S("cli", 40, 1500, ["exit", "files", "model"])], "rule": PARSER_RULE + "; C12: 75% of the cases carry exactly one documented fault (23 cell-level fault kinds at a random applicable row/field, 6 structural faults)",
            "assumptions": ["known findings F8 (rp2_jp -f -t refused only after two reports) and F14 (generators field ignored) concern the CLI/config layer"],
            "technique": "Lean 4 proof: accepted => valid for the three row constructors (each documented field-level fault makes the constructor fail), failing row aborts the parse, IN table required; accept/reject correspondence on single-fault inputs",
            "text": "Theorems in/out/intra_row_accepted_is_valid, non_numeric_rejected, bad_row_aborts, in_table_required; every generated faulty input must be rejected by the real parser (oracle) and accept/reject must agree with the model.",
            "design_ref": "DESIGN.md §3 C12", "partial": "config-file and command-line faults are exercised by the cli stream (sampling), not yet modelled in Lean"},
    "C13": {"streams": [S("reports", 60, 3000, ["inout", "taxsheet", "detail", "summary", "status"]), S("cli", 20, 1000, ["legend", "inout", "taxsheet", "detail", "summary", "exit"])], "rule": REP_RULE, "assumptions": [],
            "technique": "Lean 4 proof: every fraction numbered once in order, k/n labels = position among the event's fractions; correspondence of the abstract full report (all tables, cell values as doubles)",
            "text": "Theorems fractions_once_in_order, event_labels, rows_once on the model's numberFractions; rp2_full_report.ods read back and compared cell by cell with the Lean full-report model; oracle compares rows with ComputedData.",
            "design_ref": "DESIGN.md §3 C13"},
    "C14": {"streams": [S("reports", 60, 3000, ["taxreport", "sheets", "status"])], "rule": REP_RULE, "assumptions": [],
            "technique": "Lean 4 proof: routing with one row counter per sheet never reuses a (sheet,row) and puts each fraction on its type's sheet; regenerated sheet maps; correspondence of abstract sheets",
            "text": "Theorem each_fraction_one_row_no_overwrite + sheet-map table theorems; tax_report_us/ie files read back and compared row by row with the Lean model; routing oracle.",
            "design_ref": "DESIGN.md §3 C14"},
    "C15": {"streams": [S("reports", 60, 3000, ["open", "status"]), S("cli", 30, 1200, ["open", "exit", "model"])], "rule": REP_RULE + "; C15: no from-date", "assumptions": ["runs without a from-date (as the property states)", "hypothesis LocalDatesMonotone (finding F6) when a to-date is given", "hypotheses OutWithFeeConsistent and FeeFiatVisible (finding F12) for the reconciliation clause, as for C07"],
            "technique": "Lean 4 proof (exact arithmetic): realized + unrealized = acquired per lot and in total, weights add to 1, unit cost distributes; correspondence of the open-positions rows",
            "text": "Theorems realized_plus_unrealized_is_acquired, weights_add_to_one, unit_cost_is_cost_over_balance; open_positions.ods compared row by row with the Lean model; conservation oracle on the real output.",
            "design_ref": "DESIGN.md §3 C15"},
    "C19": {"streams": [S("reports", 60, 3000, ["links", "inout", "status"]), S("cli", 25, 1000, ["links", "inout", "exit"])], "rule": REP_RULE, "assumptions": [],
            "technique": "Lean 4 proof: with a per-asset row dictionary every shown transaction links to the row it was written at, hidden ones carry no link; correspondence of link targets",
            "text": "Theorem links_lead_to_own_row; hyperlink targets of the real rp2_full_report.ods parsed and compared with the model; oracle follows each link in the real file.",
            "design_ref": "DESIGN.md §3 C19"},
    "C20": {"streams": [S("reports", 60, 3000, ["jp", "status"]), S("cli", 24, 800, ["jp", "exit", "files"])], "rule": REP_RULE + "; C20: sparse years, years first met in OUT/INTRA tables; cli stream for C20: rp2_jp end to end in the languages it ships (default ja, en, and the test locale kl read back with its string prefix removed)",
            "assumptions": ["hypothesis FeeFiatVisible (finding F13): every fee-bearing transfer has a yen fee value that does not vanish at 13 decimals"],
            "technique": "Lean 4 proof on the JP report model: sheets = years with transactions, ascending, each once; opening balance chained to the previous existing year sheet; correspondence of sheets/rows/references",
            "text": "Theorem sheets_and_chain (jpAsset_spec) for every input; tax_report_jp.ods sheet names, rows and cross-sheet references compared with the Lean model; chain oracle on the real file.",
            "design_ref": "DESIGN.md §3 C20"},
    "C16": {"streams": [S("cli", 80, 3000, ["exit", "files", "status", "unreadable", "model"]), S("reports", 40, 2000, ["status"])], "rule": CLI_RULE,
            "assumptions": ["valid input = no overdraft (unless -n), every disposal covered, hypothesis FeeFiatVisible for rp2_jp (finding F13); rp2_jp with both -f and -t is a documented refusal (finding F8, C12)"],
            "technique": "Lean 4: template / method / sheet-map obligations decided over tables regenerated from the source; whole-run CLI model (options -> parse -> compute -> generators -> files); end-to-end differential runs of all five entry points over the option matrix",
            "text": "Theorems default_options_have_templates, shipped_languages_have_all_templates, every_accepted_method_exists, taxable_types_have_a_sheet, files_are_reports; "
                    "every generated valid input x supported option tuple must exit 0 and write exactly the country's reports (oracle), and exit status / file list must agree with the Lean CLI model.",
            "design_ref": "DESIGN.md §3 C16", "partial": "failures inside ezodf/lxml/babel or the file system (disk full, permissions) cannot be exhibited by the model; totality of the generator models is validated by correspondence, not yet proved"},
    "C17": {"streams": [S("cli", 36, 900, ["exit", "files"], parallel=6), S("pipeline", 500, 30000, ["fractions", "figures", "long", "numbering", "yearly", "balances", "price", "sums", "status-engine", "status-crash"])],
            "rule": CLI_RULE + "; C17: each case is re-run as a variant (second identical run, stale output directory, PYTHONHASHSEED=1 vs 2..4 in fresh interpreters, asset alone vs together, rows permuted); "
                    "pipeline stream for C17: distinct instants (whole seconds or microseconds apart), 60% mixed UTC offsets with extra acquisitions whose local wall-clock reading coincides with another lot's, "
                    "each history recomputed in-process and with the rows of each table shuffled",
            "assumptions": [],
            "technique": "Lean 4 proof: time-sorted views are invariant under row permutation when timestamps are distinct; an asset's report rows do not depend on other assets' row dictionary; the model is a pure function; monitored variants of real runs",
            "text": "Theorems row_order_irrelevant, asset_rows_independent_of_other_assets; real runs repeated under four kinds of variation must produce identical reports (oracle).",
            "design_ref": "DESIGN.md §3 C17", "partial": "iteration order inside CPython sets/dicts and third-party libraries is sampled (hash seeds 1, 2), not proved"},
    "C18": {"streams": [S("cli", 60, 1500, ["exit", "files"])], "rule": CLI_RULE + "; C18: 45% of the invocations carry an option/config fault (favouring those that end on the unexpected-error path or involve the bytes of an input file) so that failing runs are audited too",
            "assumptions": [],
            "technique": "Lean 4: forbidden-import / dangerous-call / dynamic-import / open-mode predicates decided (decide +kernel) over a table rebuilt from every .py file of the package; written files = report names theorem on the CLI model; audit-hook monitoring of real runs",
            "text": "Theorems no_networking_or_process_import, no_process_or_dynamic_code_call, dynamic_imports_load_rp2_plugins_only, own_opens_are_read_only, file_mutating_calls_are_log_output_and_reports, written_files_are_reports; "
                    "every end-to-end run (valid and invalid) is executed under sys.addaudithook: no socket/subprocess event, writes confined to the output directory and ./log, inputs byte-identical.",
            "design_ref": "DESIGN.md §3 C18", "partial": "audit hooks do not see I/O done directly by C extensions; third-party packages are covered only on the paths the runs take"},
}

PENDING = {}
