#!/usr/bin/env python3
"""confirm_seed.py <src dir with patch.diff, demo.py, NOTES.md> <seed id> <property> <worktree>
Confirms in the scratch worktree: (1) the 48 baseline tests pass with the change, (2) demo exits non-zero with it, (3) demo exits 0 without it.
Then stores the seed under /verif/seeded/<id>/ with meta.json. The worktree is left clean."""
import sys, os, subprocess, json, shutil, re
src, sid, prop, wt = sys.argv[1:5]
ROOT = os.path.dirname(os.path.dirname(os.path.abspath(__file__)))
TESTS = ["tests/test_" + t + ".py" for t in "accounting_method balance configuration gain_loss gain_loss_set in_transaction input_parser intra_transaction out_transaction rp2_decimal tax_engine transaction_set".split()]
env = dict(os.environ, PYTHONPATH=os.path.join(wt, "src"), PYTHONDONTWRITEBYTECODE="1", PATH="/venv/bin:" + os.environ["PATH"])
def sh(cmd, **kw):
    return subprocess.run(cmd, capture_output=True, text=True, env=env, **kw)
def clean():
    sh(["git", "-C", wt, "checkout", "--", "."]); sh(["git", "-C", wt, "clean", "-fdxq"])
clean()
patch = os.path.join(src, "patch.diff"); demo = os.path.join(src, "demo.py")
r0 = sh(["/venv/bin/python", demo, wt], cwd="/tmp", timeout=900)
a = sh(["git", "-C", wt, "apply", patch])
assert a.returncode == 0, a.stderr
t = sh(["/venv/bin/python", "-m", "pytest", "-q", "-p", "no:cacheprovider"] + TESTS, cwd=wt, timeout=1800)
m = re.search(r"(\d+) passed", t.stdout)
r1 = sh(["/venv/bin/python", demo, wt], cwd="/tmp", timeout=900)
clean()
ok = r0.returncode == 0 and r1.returncode != 0 and m and int(m.group(1)) == 48 and "failed" not in t.stdout.splitlines()[-1]
print(sid, "demo clean exit", r0.returncode, "| demo changed exit", r1.returncode, "| tests:", t.stdout.strip().splitlines()[-1] if t.stdout.strip() else t.stderr[-200:])
if not ok:
    print("NOT CONFIRMED"); print(r0.stdout[-500:], r0.stderr[-500:]); sys.exit(1)
d = os.path.join(ROOT, "seeded", sid); os.makedirs(d, exist_ok=True)
for f in ("patch.diff", "demo.py", "NOTES.md"):
    if os.path.exists(os.path.join(src, f)):
        shutil.copy(os.path.join(src, f), os.path.join(d, f))
notes = open(os.path.join(src, "NOTES.md")).read() if os.path.exists(os.path.join(src, "NOTES.md")) else ""
meta = {"id": sid, "breaks_property": prop, "origin": "independent sub-agent given only the property text and a scratch worktree",
        "files_touched": sorted(set(re.findall(r"^\+\+\+ b/(\S+)", open(patch).read(), re.M))),
        "needs_to_manifest": "see NOTES.md", "confirmed": {"baseline_tests_with_change": t.stdout.strip().splitlines()[-1], "demo_exit_clean_tree": r0.returncode,
        "demo_exit_changed_tree": r1.returncode, "demo_output_changed_tree": (r1.stdout + r1.stderr)[-600:],
        "commands": ["git apply patch.diff (scratch worktree)", "pytest -q <12 stable test files> -> 48 passed", "python demo.py <tree> (changed: non-zero; clean: 0)"]},
        "detected_by": {}}
old = os.path.join(d, "meta.json")
if os.path.exists(old):
    meta["detected_by"] = json.load(open(old)).get("detected_by", {})
json.dump(meta, open(old, "w"), indent=1)
print("stored", d)
