#!/venv/bin/python
"""gen_loops.py <repo> <outdir> — translate two *loops* of rp2 (Python AST) into Lean definitions: <outdir>/Loops.lean.

  * `EntrySetIterator.__next__` (abstract_entry_set.py): the from/to-date window every filtered table, summary, balance and report is read
    through.  Becomes `iterNext day fromD toD : List α → Option (α × List α)` (the item returned and the entries not yet visited; `none` =
    `StopIteration`).  `Props/Tables/Loops.lean` proves that draining it is the model's `viewOf` (take while date ≤ to, keep date ≥ from).
  * the body of the replay loop of `BalanceSet.__init__` (balance.py): the `break` condition, the three `isinstance` blocks (dictionary updates
    and the overdraft test) and the construction of the `Balance` rows.  Becomes `stops`, `stepIn / stepIntra / stepOut : Bool → St → Tx → Option St`
    over four insertion-ordered dictionaries, and `rows`.  `Props/Tables/Loops.lean` proves that they simulate the model's `balStep` on integer
    units (exactness of the 31-digit decimal on the 1e-11 grid), so that the balance theorems of C07 / C08 are about what the Python body computes.

A statement or expression of a shape the translator does not know makes that loop `untranslated`: the text generated from the pinned tree
(FALLBACK) is emitted instead, the theorems are then about the model alone, the check prints a NOTE and the tie for that loop is the differential
correspondence.  The translator never guesses.
"""
import sys, os, ast

repo, outdir = sys.argv[1], sys.argv[2]
SRC = os.path.join(repo, "src", "rp2")


class Untranslatable(Exception):
    pass


def find(tree, cls, fn):
    for n in tree.body:
        if isinstance(n, ast.ClassDef) and n.name == cls:
            for f in n.body:
                if isinstance(f, ast.FunctionDef) and f.name == fn:
                    return f
    raise Untranslatable(f"{cls}.{fn} not found")


def nodoc(body):
    return [s for s in body if not (isinstance(s, ast.Expr) and isinstance(s.value, ast.Constant))]


CMP = {ast.Gt: ">", ast.GtE: "≥", ast.Lt: "<", ast.LtE: "≤", ast.Eq: "=", ast.NotEq: "≠"}

# ------------------------------------------------------------------------------------------------ iterator


def gen_iterator():
    tree = ast.parse(open(os.path.join(SRC, "abstract_entry_set.py")).read())
    f = find(tree, "EntrySetIterator", "__next__")
    body = nodoc(f.body)
    # result = None ; while index < size: ... ; raise StopIteration
    if isinstance(body[0], (ast.Assign, ast.AnnAssign)) and isinstance(body[0].value, ast.Constant) and body[0].value.value is None:
        body = body[1:]
    if len(body) != 2 or not isinstance(body[0], ast.While) or not is_stop(body[1]):
        raise Untranslatable("__next__ is not `while …: …` followed by `raise StopIteration`")
    w = body[0]
    if ast.unparse(w.test).replace("_EntrySetIterator", "") not in ("self.__index < self.__entry_set_size",) or w.orelse:
        raise Untranslatable("loop condition " + ast.unparse(w.test))
    wb = nodoc(w.body)
    # result = self.__entry_set._entry_list[self.__index] ; self.__index += 1
    if len(wb) < 2 or ast.unparse(wb[0]) != "result = self.__entry_set._entry_list[self.__index]" or ast.unparse(wb[1]) != "self.__index += 1":
        raise Untranslatable("loop does not start with the fetch and the increment")

    datevars = {}

    def dayexpr(e):
        s = ast.unparse(e)
        if isinstance(e, ast.Name) and e.id in datevars: return datevars[e.id]
        if s == "result.timestamp.date()": return "day result"
        if s in ("result.timestamp.astimezone(timezone.utc).date()", "result.timestamp.astimezone(utc).date()", "result.timestamp.astimezone(tz=timezone.utc).date()",
                 "result.timestamp.utctimetuple()[:3]", "result.timestamp.astimezone(UTC).date()"):
            return "utcDay result"
        if s == "self.__entry_set.to_date" or s == "self.__entry_set._to_date": return "toD"
        if s == "self.__entry_set.from_date" or s == "self.__entry_set._from_date": return "fromD"
        raise Untranslatable("date expression " + s[:60])

    def cond(e):
        if isinstance(e, ast.Compare) and len(e.ops) == 1 and type(e.ops[0]) in CMP:
            return f"decide ({dayexpr(e.left)} {CMP[type(e.ops[0])]} {dayexpr(e.comparators[0])})"
        if isinstance(e, ast.Compare) and len(e.ops) == 2 and all(type(o) in CMP for o in e.ops):
            a, b, c = dayexpr(e.left), dayexpr(e.comparators[0]), dayexpr(e.comparators[1])
            return f"(decide ({a} {CMP[type(e.ops[0])]} {b}) && decide ({b} {CMP[type(e.ops[1])]} {c}))"
        if isinstance(e, ast.BoolOp):
            return "(" + (" && " if isinstance(e.op, ast.And) else " || ").join(cond(v) for v in e.values) + ")"
        if isinstance(e, ast.UnaryOp) and isinstance(e.op, ast.Not):
            return f"(!{cond(e.operand)})"
        raise Untranslatable("condition " + ast.unparse(e)[:60])

    def stmts(ss):
        if not ss:
            return "iterNext day utcDay fromD toD rest"          # end of the loop body: next round
        s = ss[0]
        if is_stop(s):
            return "none"
        if isinstance(s, ast.Return) and ast.unparse(s.value) == "result":
            return "some (result, rest)"
        if isinstance(s, ast.Continue):
            return "iterNext day utcDay fromD toD rest"
        if isinstance(s, (ast.Assign, ast.AnnAssign)) and isinstance(s.targets[0] if isinstance(s, ast.Assign) else s.target, ast.Name) and s.value is not None:
            datevars[(s.targets[0] if isinstance(s, ast.Assign) else s.target).id] = dayexpr(s.value)
            return stmts(ss[1:])
        if isinstance(s, ast.If):
            then = stmts(nodoc(s.body) + ([] if terminal(s.body) else ss[1:]))
            els = stmts(nodoc(s.orelse) + ([] if s.orelse and terminal(s.orelse) else ss[1:]))
            return f"if {cond(s.test)} then {then} else\n    {els}"
        raise Untranslatable("statement " + ast.unparse(s)[:60])

    return ("/-- `EntrySetIterator.__next__`: the entry returned and the entries not yet visited; `none` = `StopIteration` -/\n"
            "def iterNext {α : Type} (day utcDay : α → Int) (fromD toD : Int) : List α → Option (α × List α)\n"
            "  | [] => none\n"
            "  | result :: rest =>\n    " + stmts(wb[2:]))


def is_stop(s):
    return isinstance(s, ast.Raise) and s.exc is not None and ast.unparse(s.exc).startswith("StopIteration")


def terminal(body):
    b = nodoc(body)
    return bool(b) and (is_stop(b[-1]) or isinstance(b[-1], (ast.Return, ast.Continue)))


ITER_FALLBACK = """/-- `EntrySetIterator.__next__`: NOT TRANSLATED; the model's own window stands in -/
def iterNext {α : Type} (day utcDay : α → Int) (fromD toD : Int) : List α → Option (α × List α)
  | [] => none
  | result :: rest =>
    if decide (day result > toD) then none else
    if decide (day result ≥ fromD) then some (result, rest) else
    iterNext day utcDay fromD toD rest"""

# ------------------------------------------------------------------------------------------------ balance replay

DICTS = ["acquired_balances", "sent_balances", "received_balances", "final_balances"]
TXF = {   # python attribute of the transaction class -> model field (decimal on the 1e-11 grid)
    "InTransaction": {"crypto_in": "(ofUnits t.amount)"},
    "IntraTransaction": {"crypto_sent": "(ofUnits t.sent)", "crypto_received": "(ofUnits t.recv)", "crypto_fee": "(ofUnits (t.sent - t.recv))"},
    "OutTransaction": {"crypto_out_no_fee": "(ofUnits t.outNoFee)", "crypto_fee": "(ofUnits t.fee)", "crypto_out_with_fee": "(ofUnits t.outWithFee)"},
}
ACCT = {  # Account(<exchange attr>, <holder attr>) -> model account id
    ("InTransaction", "exchange", "holder"): "t.acct", ("OutTransaction", "exchange", "holder"): "t.acct",
    ("IntraTransaction", "from_exchange", "from_holder"): "t.src", ("IntraTransaction", "to_exchange", "to_holder"): "t.dst",
}
LEANTX = {"InTransaction": "InTx", "IntraTransaction": "IntraTx", "OutTransaction": "OutTx"}


class Block:
    """one `if isinstance(transaction, X):` block of the replay loop"""

    def __init__(self, cls, masks):
        self.cls = cls
        self.alias = {"transaction"}
        self.accts = {}        # python variable -> lean account term
        self.locals = {}       # python local holding a decimal -> lean let-bound name
        self.dictalias = {}    # parameter of an inlined helper -> the dictionary it is bound to
        self.shadow = set()    # names shadowed inside an inlined helper
        self.helpers = {}      # name -> FunctionDef (module-level functions and methods of BalanceSet), set by gen_balance
        self.depth = 0
        self.masks = masks
        self.n = 0

    def fresh(self):
        self.n += 1
        return f"c{self.n}"

    def dname(self, e):
        """a Name that denotes one of the four dictionaries (directly or as a helper's parameter) -> its name, else None"""
        if isinstance(e, ast.Name):
            if e.id in self.dictalias: return self.dictalias[e.id]
            if e.id in DICTS and e.id not in self.shadow: return e.id
        return None

    def tx_attr(self, e):
        if isinstance(e, ast.Attribute) and isinstance(e.value, ast.Name) and e.value.id in self.alias:
            return e.attr
        return None

    def acct(self, e):
        if isinstance(e, ast.Name) and e.id in self.accts:
            return self.accts[e.id]
        if isinstance(e, ast.Call) and ast.unparse(e.func) == "Account" and len(e.args) == 2 and not e.keywords:
            k = (self.cls, self.tx_attr(e.args[0]), self.tx_attr(e.args[1]))
            if k in ACCT:
                return ACCT[k]
        raise Untranslatable("account expression " + ast.unparse(e)[:60])

    def dec(self, e):
        """decimal expression -> lean term of type Rat; dictionary reads `d[k]` become `(← s.d.get? k)` (none = KeyError)"""
        if isinstance(e, ast.Name) and e.id == "ZERO":
            return "(0 : Rat)"
        if isinstance(e, ast.Name) and e.id in self.locals:
            return self.locals[e.id]
        a = self.tx_attr(e)
        if a is not None:
            if a in TXF[self.cls]:
                return TXF[self.cls][a]
            raise Untranslatable(f"attribute {a} of {self.cls}")
        if isinstance(e, ast.Call) and isinstance(e.func, ast.Attribute) and e.func.attr == "get" and self.dname(e.func.value) and len(e.args) == 2:
            return f"(s.{self.dname(e.func.value)}.getD {self.acct(e.args[0])} {self.dec(e.args[1])})"
        if isinstance(e, ast.Subscript) and self.dname(e.value):
            return f"(← s.{self.dname(e.value)}.get? {self.acct(e.slice)})"
        if isinstance(e, ast.BinOp) and type(e.op) in (ast.Add, ast.Sub):
            return f"({'dadd' if isinstance(e.op, ast.Add) else 'dsub'} {self.dec(e.left)} {self.dec(e.right)})"
        raise Untranslatable("decimal expression " + ast.unparse(e)[:60])

    def atom(self, e):
        """boolean expression without short-circuit operators -> lean term of type Bool (may contain `(← …)`)"""
        if isinstance(e, ast.UnaryOp) and isinstance(e.op, ast.Not):
            return f"(!{self.atom(e.operand)})"
        if ast.unparse(e) == "configuration.allow_negative_balances":
            return "allowNeg"
        if isinstance(e, ast.Call) and isinstance(e.func, ast.Attribute) and e.func.attr == "is_equal_within_precision" and len(e.args) == 3 \
                and isinstance(e.args[2], ast.Name) and e.args[2].id in self.masks:
            return f"(eq13 (quant {self.masks[e.args[2].id]} (dsub {self.dec(e.args[0])} {self.dec(e.args[1])})) (0 : Rat))"
        if isinstance(e, ast.Compare) and len(e.ops) == 1:
            a, b = self.dec(e.left), self.dec(e.comparators[0])
            op = type(e.ops[0])
            if op is ast.Lt: return f"(lt13 {a} {b})"
            if op is ast.Gt: return f"(gt13 {a} {b})"
            if op is ast.GtE: return f"(!(lt13 {a} {b}))"
            if op is ast.LtE: return f"(!(gt13 {a} {b}))"
            if op is ast.Eq: return f"(eq13 {a} {b})"
            if op is ast.NotEq: return f"(!(eq13 {a} {b}))"
        raise Untranslatable("condition " + ast.unparse(e)[:60])

    def condM(self, e, ind):
        """condition -> lean term of type `Option Bool`, Python's short-circuit evaluation kept"""
        if isinstance(e, ast.BoolOp):
            stop = "false" if isinstance(e.op, ast.And) else "true"
            out = self.condM(e.values[-1], ind)
            for v in reversed(e.values[:-1]):
                c = self.fresh()
                test = f"!{c}" if isinstance(e.op, ast.And) else c
                out = f"(do let {c} ← {self.condM(v, ind)}; if {test} then pure {stop} else {out})"
            return out
        if isinstance(e, ast.UnaryOp) and isinstance(e.op, ast.Not) and isinstance(e.operand, ast.BoolOp):
            return f"(do let b ← {self.condM(e.operand, ind)}; pure (!b))"
        return f"(do pure {self.atom(e)})"

    def stmts(self, ss, ind="  "):
        out = []
        for s in nodoc(ss):
            if isinstance(s, ast.Expr):
                if isinstance(s.value, ast.Call) and ast.unparse(s.value.func).startswith("LOGGER."):
                    continue
                if isinstance(s.value, ast.Call):
                    out += self.inline(s.value, ind)
                    continue
                raise Untranslatable("expression statement " + ast.unparse(s)[:60])
            if isinstance(s, ast.AnnAssign) and isinstance(s.target, ast.Name) and s.value is not None:
                s = ast.copy_location(ast.Assign(targets=[s.target], value=s.value), s)
            if isinstance(s, ast.AnnAssign) and s.value is None:
                continue
            if isinstance(s, ast.Assign) and len(s.targets) == 1:
                tg = s.targets[0]
                if isinstance(tg, ast.Name) and isinstance(s.value, ast.Name) and s.value.id in self.alias:
                    self.alias.add(tg.id); continue
                if isinstance(tg, ast.Name) and isinstance(s.value, ast.Call) and ast.unparse(s.value.func) == "Account":
                    self.accts[tg.id] = self.acct(s.value); continue
                if isinstance(tg, ast.Subscript) and self.dname(tg.value):
                    d = self.dname(tg.value)
                    out.append(f"{ind}let s : St := {{ s with {d} := s.{d}.set {self.acct(tg.slice)} {self.dec(s.value)} }}")
                    continue
                if isinstance(tg, ast.Name) and tg.id not in self.alias and tg.id not in DICTS and tg.id != "transaction":
                    # a local that holds a decimal: `x = <decimal expression>` (evaluated here, as in Python, not where it is used)
                    v = self.dec(s.value)
                    self.n += 1
                    nm = f"v{self.n}_{tg.id}"
                    out.append(f"{ind}let {nm} : Rat := {v}")
                    self.locals[tg.id] = nm
                    continue
            if isinstance(s, ast.AugAssign) and isinstance(s.target, ast.Subscript) and self.dname(s.target.value) and type(s.op) in (ast.Add, ast.Sub):
                d = self.dname(s.target.value); k = self.acct(s.target.slice)
                op = "dadd" if isinstance(s.op, ast.Add) else "dsub"
                out.append(f"{ind}let s : St := {{ s with {d} := s.{d}.set {k} ({op} (← s.{d}.get? {k}) {self.dec(s.value)}) }}")
                continue
            if isinstance(s, ast.If) and not s.orelse and len(nodoc(s.body)) == 1 and isinstance(nodoc(s.body)[0], ast.Raise):
                c = self.fresh()
                out.append(f"{ind}let {c} ← {self.condM(s.test, ind)}")
                out.append(f"{ind}if {c} then none")
                continue
            raise Untranslatable("statement " + ast.unparse(s)[:70])
        return out


def _inline(self, call, ind):
    """a call, used as a statement, of a small helper (module-level function or method of BalanceSet): its body is translated in place with the
    parameters bound to the arguments (decimal arguments are evaluated at the call, as in Python).  An early `return` is accepted when nothing
    after it changes a dictionary (a checking helper)."""
    fn = ast.unparse(call.func)
    name = fn.split(".")[-1]
    if name not in self.helpers or fn not in (name, "self." + name, "BalanceSet." + name, "cls." + name) or self.depth >= 2:
        raise Untranslatable("call " + ast.unparse(call)[:60])
    h = self.helpers[name]
    params = [a.arg for a in h.args.args if a.arg not in ("self", "cls")]
    if h.args.vararg or h.args.kwarg or h.args.kwonlyargs or len(call.args) > len(params):
        raise Untranslatable("helper signature " + name)
    given = dict(zip(params, call.args)); given.update({k.arg: k.value for k in call.keywords})
    if sorted(given) != sorted(params): raise Untranslatable("helper arguments " + name)
    saved = (dict(self.accts), dict(self.locals), set(self.alias), dict(self.dictalias), set(self.shadow))
    out = []
    new_accts, new_locals, new_alias, new_dict = {}, {}, set(), {}
    for pn, a in given.items():
        if self.dname(a): new_dict[pn] = self.dname(a); continue
        if isinstance(a, ast.Name) and a.id in self.alias: new_alias.add(pn); continue
        if ast.unparse(a) == "configuration" and pn == "configuration": continue
        try:
            new_accts[pn] = self.acct(a); continue
        except Untranslatable:
            pass
        v = self.dec(a)
        self.n += 1
        nm = f"v{self.n}_{pn}"
        out.append(f"{ind}let {nm} : Rat := {v}")
        new_locals[pn] = nm
    self.shadow = set(params)
    self.accts = dict(new_accts); self.locals = dict(new_locals); self.alias = set(new_alias) or set(); self.dictalias = dict(new_dict)
    self.depth += 1
    try:
        body = nodoc(h.body)
        if body and isinstance(body[-1], ast.Return) and body[-1].value is None:
            body = body[:-1]
        hb = self.helper_body(body, ind)
        if any(" let s : St := " in l for l in hb):
            # only *checking* helpers are inlined: the theorems about the blocks are proved for the shape in which each dictionary is updated once
            # per block; a helper that updates dictionaries changes that shape, and a proof that no longer applies would be reported although the
            # behaviour may be the same — such a loop is left to the differential correspondence instead
            raise Untranslatable("helper " + name + " updates a dictionary")
        out += hb
    finally:
        self.depth -= 1
        self.accts, self.locals, self.alias, self.dictalias, self.shadow = saved
    return out


def _helper_body(self, body, ind):
    out = []
    for k, s in enumerate(body):
        if isinstance(s, ast.If) and not s.orelse and len(nodoc(s.body)) == 1 and isinstance(nodoc(s.body)[0], ast.Return) and nodoc(s.body)[0].value is None:
            # early return: the rest of the helper runs only when the condition is false; accepted when the rest changes no dictionary
            rest = self.helper_body(body[k + 1:], ind + "  ")
            if any(" let s : St := " in l for l in rest):
                raise Untranslatable("early return before a dictionary update")
            c = self.fresh()
            out.append(f"{ind}let {c} ← {self.condM(s.test, ind)}")
            if rest:
                out.append(f"{ind}if !{c} then do")
                out += rest
            return out
        if isinstance(s, ast.Return):
            raise Untranslatable("return in a helper")
        out += self.stmts([s], ind)
    return out


Block.inline = _inline
Block.helper_body = _helper_body


def gen_balance():
    import importlib
    tree = ast.parse(open(os.path.join(SRC, "balance.py")).read())
    init = find(tree, "BalanceSet", "__init__")
    sys.path.insert(0, os.path.join(repo, "src"))
    bal = importlib.import_module("rp2.balance")
    masks = {}
    for name in dir(bal):
        v = getattr(bal, name)
        if name.endswith("_MASK") and hasattr(v, "as_tuple"):
            masks[name] = -v.as_tuple().exponent
    body = nodoc(init.body)
    # the four dictionaries must start empty
    empties = [s.target.id for s in body if isinstance(s, ast.AnnAssign) and isinstance(s.target, ast.Name) and isinstance(s.value, ast.Dict) and not s.value.keys]
    if sorted(empties) != sorted(DICTS):
        raise Untranslatable("dictionaries " + str(empties))
    # transactions = in + intra + out ; sorted(key=_transaction_time_sort_key)
    order = None; sortkey = None
    for s in body:
        if isinstance(s, ast.Assign) and ast.unparse(s.targets[0]) == "transactions":
            if isinstance(s.value, ast.BinOp):
                order = [x.strip() for x in ast.unparse(s.value).split("+")]
            elif isinstance(s.value, ast.Call) and ast.unparse(s.value.func) == "sorted" and ast.unparse(s.value.args[0]) == "transactions":
                kw = {k.arg: ast.unparse(k.value) for k in s.value.keywords}
                if set(kw) != {"key"}: raise Untranslatable("sorted(...) arguments")
                sortkey = kw["key"]
            else:
                raise Untranslatable("transactions = " + ast.unparse(s.value)[:50])
    src_of = {}
    for s in body:
        if isinstance(s, ast.Assign) and isinstance(s.targets[0], ast.Name) and ast.unparse(s.value).startswith("list(self.__input_data.unfiltered_"):
            src_of[s.targets[0].id] = ast.unparse(s.value)[len("list(self.__input_data.unfiltered_"):-len("_transaction_set)")]
    if order is None or sortkey is None or any(o not in src_of for o in order):
        raise Untranslatable("order of the replay list")
    order = [src_of[o] for o in order]
    kf = next((f for f in tree.body if isinstance(f, ast.FunctionDef) and f.name == sortkey), None)
    if kf is None or len(nodoc(kf.body)) != 1 or ast.unparse(nodoc(kf.body)[0]) != f"return {kf.args.args[0].arg}.timestamp":
        raise Untranslatable("sort key of the replay list")
    loops = [s for s in body if isinstance(s, ast.For)]
    if len(loops) != 2 or ast.unparse(loops[0].iter) != "transactions" or ast.unparse(loops[0].target) != "transaction":
        raise Untranslatable("loops of BalanceSet.__init__")
    lb = nodoc(loops[0].body)
    # if transaction.timestamp.date() > to_date: break
    first = lb[0]
    if not (isinstance(first, ast.If) and not first.orelse and len(first.body) == 1 and isinstance(first.body[0], ast.Break)
            and isinstance(first.test, ast.Compare) and len(first.test.ops) == 1 and type(first.test.ops[0]) in CMP
            and ast.unparse(first.test.left) == "transaction.timestamp.date()" and ast.unparse(first.test.comparators[0]) == "to_date"):
        raise Untranslatable("break condition")
    out = ["/-- the replay list: concatenation order of the three tables before the stable time sort -/",
           "def replayOrder : List String := [" + ", ".join(f'"{o}"' for o in order) + "]",
           "/-- `if transaction.timestamp.date() … to_date: break` -/",
           f"def stops (day toD : Int) : Bool := decide (day {CMP[type(first.test.ops[0])]} toD)",
           "/-- the four dictionaries of `BalanceSet.__init__` (insertion ordered) -/",
           "structure St where", *[f"  {d} : Dict := []" for d in DICTS]]
    seen = []
    for s in lb[1:]:
        if not (isinstance(s, ast.If) and not s.orelse and isinstance(s.test, ast.Call) and ast.unparse(s.test.func) == "isinstance"
                and ast.unparse(s.test.args[0]) == "transaction" and ast.unparse(s.test.args[1]) in LEANTX):
            raise Untranslatable("loop statement " + ast.unparse(s)[:60])
        cls = ast.unparse(s.test.args[1])
        if cls in seen: raise Untranslatable("two blocks for " + cls)
        seen.append(cls)
        b = Block(cls, masks)
        b.helpers = {f.name: f for f in tree.body if isinstance(f, ast.FunctionDef)}
        b.helpers.update({f.name: f for n_ in tree.body if isinstance(n_, ast.ClassDef) and n_.name == "BalanceSet" for f in n_.body if isinstance(f, ast.FunctionDef) and f.name != "__init__"})
        lines = b.stmts(s.body)
        name = {"InTransaction": "stepIn", "IntraTransaction": "stepIntra", "OutTransaction": "stepOut"}[cls]
        out.append(f"/-- the `isinstance(transaction, {cls})` block of the replay loop; `none` = an exception -/")
        out.append(f"def {name} (allowNeg : Bool) (s : St) (t : {LEANTX[cls]}) : Option St := do")
        out += lines + ["  pure s"]
    if sorted(seen) != sorted(LEANTX):
        raise Untranslatable("blocks " + str(seen))
    # for account, final_balance in final_balances.items(): Balance(configuration, asset, exchange, holder, final, acquired, sent, received)
    l2 = loops[1]
    if ast.unparse(l2.iter) != "final_balances.items()" or ast.unparse(l2.target) != "(account, final_balance)":
        raise Untranslatable("row loop")
    call = next((s.value for s in nodoc(l2.body) if isinstance(s, (ast.Assign, ast.AnnAssign)) and isinstance(s.value, ast.Call) and ast.unparse(s.value.func) == "Balance"), None)
    if call is None: raise Untranslatable("Balance(...) call")
    bc = next((n for n in tree.body if isinstance(n, ast.ClassDef) and n.name == "Balance"), None)
    if bc is None or not any("dataclass" in ast.unparse(d) for d in bc.decorator_list):
        raise Untranslatable("Balance is not a dataclass")
    params = [n.target.id for n in bc.body if isinstance(n, ast.AnnAssign) and isinstance(n.target, ast.Name)]   # dataclass: fields in order = __init__ parameters
    if any(isinstance(n, ast.FunctionDef) and n.name in ("__init__", "final_balance", "acquired_balance", "sent_balance", "received_balance") for n in bc.body):
        raise Untranslatable("Balance overrides a field")
    given = dict(zip(params, call.args)); given.update({k.arg: k.value for k in call.keywords})
    def rowval(e):
        s = ast.unparse(e)
        if s == "final_balance": return "p.2"
        for d in DICTS:
            if s == f"{d}.get(account, ZERO)": return f"(s.{d}.getD p.1 (0 : Rat))"
            if s == f"{d}[account]": return f"((s.{d}.get? p.1).getD (0 : Rat))"
        raise Untranslatable("row value " + s[:50])
    if any(k not in given for k in ("exchange", "holder", "final_balance", "acquired_balance", "sent_balance", "received_balance")) \
            or ast.unparse(given["exchange"]) != "account.exchange" or ast.unparse(given["holder"]) != "account.holder":
        raise Untranslatable("row account")
    cols = [rowval(given[k]) for k in ("final_balance", "acquired_balance", "sent_balance", "received_balance")]
    out.append("/-- the `Balance` rows: one per key of `final_balances`, in insertion order: (account, final, acquired, sent, received) -/")
    out.append("def rows (s : St) : List (Nat × Rat × Rat × Rat × Rat) :=")
    out.append(f"  s.final_balances.map (fun p => (p.1, {cols[0]}, {cols[1]}, {cols[2]}, {cols[3]}))")
    return "\n".join(out)


BAL_FALLBACK = '''-- `BalanceSet.__init__`: NOT TRANSLATED; the text generated from the pinned tree stands in
/-- the replay list: concatenation order of the three tables before the stable time sort -/
def replayOrder : List String := ["in", "intra", "out"]
/-- `if transaction.timestamp.date() … to_date: break` -/
def stops (day toD : Int) : Bool := decide (day > toD)
/-- the four dictionaries of `BalanceSet.__init__` (insertion ordered) -/
structure St where
  acquired_balances : Dict := []
  sent_balances : Dict := []
  received_balances : Dict := []
  final_balances : Dict := []
/-- the `isinstance(transaction, InTransaction)` block of the replay loop; `none` = an exception -/
def stepIn (allowNeg : Bool) (s : St) (t : InTx) : Option St := do
  let s : St := { s with acquired_balances := s.acquired_balances.set t.acct (dadd (s.acquired_balances.getD t.acct (0 : Rat)) (ofUnits t.amount)) }
  let s : St := { s with final_balances := s.final_balances.set t.acct (dadd (s.final_balances.getD t.acct (0 : Rat)) (ofUnits t.amount)) }
  pure s
/-- the `isinstance(transaction, IntraTransaction)` block of the replay loop; `none` = an exception -/
def stepIntra (allowNeg : Bool) (s : St) (t : IntraTx) : Option St := do
  let s : St := { s with sent_balances := s.sent_balances.set t.src (dadd (s.sent_balances.getD t.src (0 : Rat)) (ofUnits t.sent)) }
  let s : St := { s with received_balances := s.received_balances.set t.dst (dadd (s.received_balances.getD t.dst (0 : Rat)) (ofUnits t.recv)) }
  let s : St := { s with final_balances := s.final_balances.set t.src (dsub (s.final_balances.getD t.src (0 : Rat)) (ofUnits t.sent)) }
  let s : St := { s with final_balances := s.final_balances.set t.dst (dadd (s.final_balances.getD t.dst (0 : Rat)) (ofUnits t.recv)) }
  let c1 ← (do let c3 ← (do pure (!(eq13 (quant 10 (dsub (← s.final_balances.get? t.src) (0 : Rat))) (0 : Rat)))); if !c3 then pure false else (do let c2 ← (do pure (lt13 (← s.final_balances.get? t.src) (0 : Rat))); if !c2 then pure false else (do pure (!allowNeg))))
  if c1 then none
  pure s
/-- the `isinstance(transaction, OutTransaction)` block of the replay loop; `none` = an exception -/
def stepOut (allowNeg : Bool) (s : St) (t : OutTx) : Option St := do
  let s : St := { s with sent_balances := s.sent_balances.set t.acct (dadd (dadd (s.sent_balances.getD t.acct (0 : Rat)) (ofUnits t.outNoFee)) (ofUnits t.fee)) }
  let s : St := { s with final_balances := s.final_balances.set t.acct (dsub (dsub (s.final_balances.getD t.acct (0 : Rat)) (ofUnits t.outNoFee)) (ofUnits t.fee)) }
  let c1 ← (do let c3 ← (do pure (!(eq13 (quant 10 (dsub (← s.final_balances.get? t.acct) (0 : Rat))) (0 : Rat)))); if !c3 then pure false else (do let c2 ← (do pure (lt13 (← s.final_balances.get? t.acct) (0 : Rat))); if !c2 then pure false else (do pure (!allowNeg))))
  if c1 then none
  pure s
/-- the `Balance` rows: one per key of `final_balances`, in insertion order: (account, final, acquired, sent, received) -/
def rows (s : St) : List (Nat × Rat × Rat × Rat × Rat) :=
  s.final_balances.map (fun p => (p.1, p.2, (s.acquired_balances.getD p.1 (0 : Rat)), (s.sent_balances.getD p.1 (0 : Rat)), (s.received_balances.getD p.1 (0 : Rat))))'''

# ------------------------------------------------------------------------------------------------ yearly summary loop

GL_ATTR = {   # attribute of `gain_loss` -> (lean term, needs bind)
    "crypto_amount": ("(ofUnits f.amt)", False),
    "taxable_event_fiat_amount_with_fee_fraction": ("(← F.GainLoss_taxable_event_fiat_amount_with_fee_fraction f)", True),
    "fiat_cost_basis": ("(← F.GainLoss_fiat_cost_basis f)", True),
    "fiat_gain": ("(← F.GainLoss_fiat_gain f)", True),
}
KEY_EXPR = {"gain_loss.taxable_event.timestamp.year": "f.ev.ts.year", "gain_loss.taxable_event.transaction_type": "f.ev.typ",
            "gain_loss.is_long_term_capital_gains()": "(← F.GainLoss_is_long_term_capital_gains period f)", "gain_loss.asset": None}
YFIELD = {"crypto_amount": "amt", "fiat_amount": "fiat", "fiat_cost_basis": "cost", "fiat_gain_loss": "gain"}


def dataclass_fields(tree, name):
    c = next((n for n in tree.body if isinstance(n, ast.ClassDef) and n.name == name), None)
    if c is None or not any("dataclass" in ast.unparse(d) or "NamedTuple" in ast.unparse(d) for d in c.decorator_list + c.bases):
        raise Untranslatable(name + " is not a dataclass / NamedTuple")
    return [n.target.id for n in c.body if isinstance(n, ast.AnnAssign) and isinstance(n.target, ast.Name)]


def gen_yearly():
    tree = ast.parse(open(os.path.join(SRC, "computed_data.py")).read())
    f = find(tree, "ComputedData", "_create_yearly_gain_loss_list")
    idf = dataclass_fields(tree, "_YearlyGainLossId")
    amf = dataclass_fields(tree, "_YearlyGainLossAmounts")
    if idf != ["year", "asset", "transaction_type", "is_long_term_capital_gains"] or amf != list(YFIELD):
        raise Untranslatable("fields of the key / amounts classes")
    body = nodoc(f.body)
    loops = [s for s in body if isinstance(s, ast.For)]
    if len(loops) != 2 or ast.unparse(loops[0].iter) != "unfiltered_gain_loss_set":
        raise Untranslatable("loops of _create_yearly_gain_loss_list")
    if not any(isinstance(s, ast.AnnAssign) and ast.unparse(s.target) == "summaries" and isinstance(s.value, ast.Dict) and not s.value.keys for s in body):
        raise Untranslatable("summaries does not start empty")
    var = ast.unparse(loops[0].target)
    lb = nodoc(loops[0].body)
    stops = key = zero = None
    locs = {}
    lines = []
    result = None
    for s in lb:
        if isinstance(s, (ast.Assign, ast.AnnAssign)) and s.value is not None:
            tg = ast.unparse(s.targets[0] if isinstance(s, ast.Assign) else s.target)
            v = s.value
            if tg == "gain_loss" and ast.unparse(v) in (f"cast(GainLoss, {var})", var):
                continue
            if tg == "key" and isinstance(v, ast.Call) and ast.unparse(v.func) == "_YearlyGainLossId":
                given = dict(zip(idf, v.args)); given.update({k.arg: k.value for k in v.keywords})
                if sorted(given) != sorted(idf): raise Untranslatable("key arguments")
                comp = {}
                for k_, e in given.items():
                    t = ast.unparse(e)
                    if t not in KEY_EXPR: raise Untranslatable("key component " + t[:50])
                    comp[k_] = KEY_EXPR[t]
                if comp["asset"] is not None or None in (comp["year"], comp["transaction_type"], comp["is_long_term_capital_gains"]):
                    raise Untranslatable("key components")
                key = f"pure ⟨{comp['year']}, {comp['transaction_type']}, {comp['is_long_term_capital_gains']}⟩"
                continue
            if tg == "value" and isinstance(v, ast.Call) and ast.unparse(v.func) == "summaries.setdefault" and ast.unparse(v.args[0]) == "key":
                z = v.args[1]
                if not (isinstance(z, ast.Call) and ast.unparse(z.func) == "_YearlyGainLossAmounts"): raise Untranslatable("default of setdefault")
                zg = dict(zip(amf, z.args)); zg.update({k.arg: k.value for k in z.keywords})
                if sorted(zg) != sorted(amf) or any(ast.unparse(e) != "ZERO" for e in zg.values()): raise Untranslatable("default amounts")
                zero = "⟨0, 0, 0, 0⟩"
                continue
            if isinstance(v, ast.BinOp) and isinstance(v.op, ast.Add) and tg.isidentifier():
                l, r = ast.unparse(v.left), ast.unparse(v.right)
                if not (l.startswith("value.") and l[6:] in YFIELD and r.startswith("gain_loss.") and r[10:] in GL_ATTR):
                    raise Untranslatable("sum " + ast.unparse(v)[:60])
                lines.append(f"  let {tg} : Rat := dadd value.{YFIELD[l[6:]]} {GL_ATTR[r[10:]][0]}")
                locs[tg] = True
                continue
            if tg == "summaries[key]" and isinstance(v, ast.Call) and ast.unparse(v.func) == "_YearlyGainLossAmounts":
                g = dict(zip(amf, v.args)); g.update({k.arg: k.value for k in v.keywords})
                if sorted(g) != sorted(amf) or any(ast.unparse(e) not in locs for e in g.values()): raise Untranslatable("stored amounts")
                result = "pure ⟨" + ", ".join(ast.unparse(g[k]) for k in amf) + "⟩"
                continue
        if isinstance(s, ast.If) and not s.orelse and len(s.body) == 1 and isinstance(s.body[0], ast.Break) and isinstance(s.test, ast.Compare) \
                and len(s.test.ops) == 1 and type(s.test.ops[0]) in CMP and ast.unparse(s.test.left) == "gain_loss.taxable_event.timestamp.date()" \
                and ast.unparse(s.test.comparators[0]) == "to_date":
            stops = f"decide (day {CMP[type(s.test.ops[0])]} toD)"
            continue
        raise Untranslatable("statement " + ast.unparse(s)[:70])
    if None in (stops, key, zero, result):
        raise Untranslatable("loop body incomplete")
    # second loop: every summary becomes a YearlyGainLoss with the same fields
    l2 = loops[1]
    call = next((s.value for s in nodoc(l2.body) if isinstance(s, (ast.Assign, ast.AnnAssign)) and isinstance(s.value, ast.Call) and ast.unparse(s.value.func) == "YearlyGainLoss"), None)
    if ast.unparse(l2.iter) != "summaries.items()" or call is None or call.args:
        raise Untranslatable("second loop")
    kw = {k.arg: ast.unparse(k.value) for k in call.keywords}
    if kw != {**{k: "key." + k for k in idf}, **{k: "value." + k for k in amf}}:
        raise Untranslatable("fields of YearlyGainLoss")
    return "\n".join([
        "/-- `if gain_loss.taxable_event.timestamp.date() … to_date: break` of `_create_yearly_gain_loss_list` -/",
        f"def yearlyStops (day toD : Int) : Bool := {stops}",
        "/-- the key of the summary line a fraction is added to (the asset component is the run's asset) -/",
        "def yearlyKey (period : Int) (f : Fraction) : Option YKey := do", "  " + key,
        "/-- the amounts `summaries.setdefault` starts a line with -/", f"def yearlyZero : YSums := {zero}",
        "/-- the new amounts of the line: `summaries[key] = _YearlyGainLossAmounts(…)` -/",
        "def yearlyAdd (value : YSums) (f : Fraction) : Option YSums := do", *lines, "  " + result])


YEARLY_FALLBACK = """-- `_create_yearly_gain_loss_list`: NOT TRANSLATED; the text generated from the pinned tree stands in
def yearlyStops (day toD : Int) : Bool := decide (day > toD)
def yearlyKey (period : Int) (f : Fraction) : Option YKey := do
  pure ⟨f.ev.ts.year, f.ev.typ, (← F.GainLoss_is_long_term_capital_gains period f)⟩
def yearlyZero : YSums := ⟨0, 0, 0, 0⟩
def yearlyAdd (value : YSums) (f : Fraction) : Option YSums := do
  let crypto_amount : Rat := dadd value.amt (ofUnits f.amt)
  let fiat_amount : Rat := dadd value.fiat (← F.GainLoss_taxable_event_fiat_amount_with_fee_fraction f)
  let fiat_cost_basis : Rat := dadd value.cost (← F.GainLoss_fiat_cost_basis f)
  let fiat_gain_loss : Rat := dadd value.gain (← F.GainLoss_fiat_gain f)
  pure ⟨crypto_amount, fiat_amount, fiat_cost_basis, fiat_gain_loss⟩"""

translated, untranslated = [], []
out = ["import Rp2.Model.Dict", "import Rp2.Gen.Formulas", "namespace Rp2.Gen.L", "open Rp2 Rp2.Gen"]
for name, gen, fb in (("EntrySetIterator.__next__", gen_iterator, ITER_FALLBACK), ("BalanceSet.__init__", gen_balance, BAL_FALLBACK),
                      ("ComputedData._create_yearly_gain_loss_list", gen_yearly, YEARLY_FALLBACK)):
    try:
        out.append(gen()); translated.append(name)
    except Exception as e:
        why = str(e) if isinstance(e, Untranslatable) else f"translator error {type(e).__name__}: {e}"
        out.append("-- " + name + ": NOT TRANSLATED (" + " ".join(why.split())[:160].replace("-/", "- /") + ")")
        out.append(fb); untranslated.append(name)
q = lambda xs: "[" + ", ".join('"' + x + '"' for x in xs) + "]"
out.append(f"def translated : List String := {q(translated)}")
out.append(f"def untranslated : List String := {q(untranslated)}")
out.append("end Rp2.Gen.L")
txt = "-- GENERATED from " + repo + " by gen_loops.py; do not edit\n" + "\n".join(out) + "\n"
p = os.path.join(outdir, "Loops.lean")
if not os.path.exists(p) or open(p).read() != txt:
    open(p, "w").write(txt)
print("loops translated:", len(translated), "untranslated:", untranslated)
