# independent ODS reader: zipfile + ElementTree, expands repeated rows/cells (bounded)
import zipfile, xml.etree.ElementTree as ET
NS={'table':'urn:oasis:names:tc:opendocument:xmlns:table:1.0','office':'urn:oasis:names:tc:opendocument:xmlns:office:1.0','text':'urn:oasis:names:tc:opendocument:xmlns:text:1.0'}
T='{%s}'%NS['table']; O='{%s}'%NS['office']; X='{%s}'%NS['text']
def cell_value(c):
    vt=c.get(O+'value-type'); f=c.get(T+'formula')
    if f is not None:
        return ('formula', f[3:] if f.startswith('of:') else f)
    if vt is None: return None
    if vt in('float','percentage','currency'): return ('num', float(c.get(O+'value')))
    if vt=='string':
        sv=c.get(O+'string-value')
        if sv is not None: return ('str', sv)
        return ('str', '\n'.join(''.join(p.itertext()) for p in c.findall(X+'p')))
    if vt=='date': return ('date', c.get(O+'date-value'))
    if vt=='boolean': return ('bool', c.get(O+'boolean-value'))
    return (vt, None)
STRIP=None    # set to '__test_' to read a report generated with the test locale `kl`, whose catalogue prefixes every string with it
def _un(v):
    if STRIP and v is not None and v[0] in ('str','formula') and isinstance(v[1],str): return (v[0], v[1].replace(STRIP,''))
    return v
def read_ods(path, maxrep=2000):
    z=zipfile.ZipFile(path); root=ET.fromstring(z.read('content.xml'))
    out=[]
    for t in root.iter(T+'table'):
        rows=[]
        for r in t.iter(T+'table-row'):
            rr=int(r.get(T+'number-rows-repeated','1'))
            cells=[]
            for c in r:
                if c.tag not in (T+'table-cell', T+'covered-table-cell'): continue
                cr=int(c.get(T+'number-columns-repeated','1'))
                v=_un(cell_value(c))
                cells.extend([v]*(cr if v is not None else min(cr,1)))
            while cells and cells[-1] is None: cells.pop()
            for _ in range(min(rr, maxrep if cells else 1)): rows.append(cells)
        while rows and not rows[-1]: rows.pop()
        out.append((t.get(T+'name').replace(STRIP,'') if STRIP else t.get(T+'name'), rows))
    return out
if __name__=='__main__':
    import sys
    for name,rows in read_ods(sys.argv[1]):
        print('==',name,len(rows))
        for i,r in enumerate(rows[:60]):
            if r: print(i+1,r[:8])
