#!/usr/bin/env python3
"""seed_sweep.py [ids...] — for every seeded change (or the given ones): apply to /repo, run the quick check of the property it breaks, undo; record in meta.json."""
import sys, os, json, subprocess, time
ROOT = os.path.dirname(os.path.dirname(os.path.abspath(__file__)))
sys.path.insert(0, os.path.join(ROOT, "harness"))
import registry
import shutil, tempfile
EVBAK = tempfile.mkdtemp(prefix="evbak_")      # evidence files must come from runs on the unchanged tree: save and restore them
for f in os.listdir(os.path.join(ROOT, "evidence")):
    if f.endswith(".json"):
        shutil.copy(os.path.join(ROOT, "evidence", f), EVBAK)
import atexit
def _restore():
    for f in os.listdir(EVBAK):
        shutil.copy(os.path.join(EVBAK, f), os.path.join(ROOT, "evidence", f))
    shutil.rmtree(EVBAK, ignore_errors=True)
atexit.register(_restore)
ids = sys.argv[1:] or sorted(os.listdir(os.path.join(ROOT, "seeded")))
summary = []
for sid in ids:
    d = os.path.join(ROOT, "seeded", sid)
    meta = json.load(open(os.path.join(d, "meta.json")))
    props = [meta["breaks_property"]] + [p for p in meta.get("also_check", [])]
    for prop in props:
        if prop not in registry.PROPS:
            summary.append((sid, prop, "no check yet")); continue
        assert subprocess.run(["git", "-C", "/repo", "status", "--porcelain"], capture_output=True, text=True).stdout.strip() == "", "/repo not clean"
        subprocess.run(["git", "-C", "/repo", "apply", os.path.join(d, "patch.diff")], check=True)
        try:
            t = time.time()
            r = subprocess.run([os.path.join(ROOT, "check"), prop], capture_output=True, text=True, cwd=ROOT)
        finally:
            subprocess.run(["git", "-C", "/repo", "checkout", "--", "."], check=True)
            subprocess.run(["git", "-C", "/repo", "clean", "-fdq", "src"], check=True)
        viol = [l for l in r.stdout.splitlines() if l.startswith("VIOLATION")]
        what = [l.strip() for l in r.stdout.splitlines() if l.startswith("  ")][:2]
        kind = "missed" if r.returncode == 0 else ("harness-error" if r.returncode == 2 else ("found-input" if any("no-failing-input-found" not in v for v in viol) else "tie-broken-only"))
        meta.setdefault("detected_by", {})[prop] = {"result": kind, "exit": r.returncode, "what": what, "wall_s": round(time.time() - t, 1)}
        summary.append((sid, prop, kind + " " + (what[0][:110] if what else "")))
        print(sid, prop, kind, what[:1], flush=True)
        if r.returncode == 2:
            print(r.stdout[-800:], r.stderr[-800:])
    json.dump(meta, open(os.path.join(d, "meta.json"), "w"), indent=1)
