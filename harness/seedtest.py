#!/usr/bin/env python3
"""seedtest.py <patch.diff> <prop> [<prop> ...] — apply a seeded change to /repo's working tree, run the quick checks, undo it (always)."""
import sys, subprocess, os, json, time
ROOT = os.path.dirname(os.path.dirname(os.path.abspath(__file__)))
patch = os.path.abspath(sys.argv[1]); props = sys.argv[2:]
assert subprocess.run(["git", "-C", "/repo", "status", "--porcelain"], capture_output=True, text=True).stdout.strip() == "", "/repo not clean"
import shutil, tempfile, atexit
EVBAK = tempfile.mkdtemp(prefix="evbak_")      # evidence files must come from runs on the unchanged tree: save and restore them
for f in os.listdir(os.path.join(ROOT, "evidence")):
    if f.endswith(".json"):
        shutil.copy(os.path.join(ROOT, "evidence", f), EVBAK)
def _restore():
    for f in os.listdir(EVBAK):
        shutil.copy(os.path.join(EVBAK, f), os.path.join(ROOT, "evidence", f))
    shutil.rmtree(EVBAK, ignore_errors=True)
atexit.register(_restore)
subprocess.run(["git", "-C", "/repo", "apply", patch], check=True)
res = {}
try:
    for p in props:
        t = time.time()
        r = subprocess.run([os.path.join(ROOT, "check"), p] + (["--tier", os.environ["TIER"]] if os.environ.get("TIER") else []), capture_output=True, text=True, cwd=ROOT)
        lines = [l for l in r.stdout.splitlines() if l.startswith(("VIOLATION", "KNOWN")) or l.startswith("  ")]
        res[p] = {"exit": r.returncode, "lines": lines[:8], "s": round(time.time() - t, 1)}
        print(p, "exit", r.returncode, f"{time.time()-t:.0f}s")
        for l in lines[:6]:
            print("   ", l[:300])
        if r.returncode == 2:
            print(r.stdout[-1500:], r.stderr[-1500:])
finally:
    subprocess.run(["git", "-C", "/repo", "checkout", "--", "."], check=True)
    subprocess.run(["git", "-C", "/repo", "clean", "-fdq", "src"], check=True)
try:
    print(json.dumps(res))
except BrokenPipeError:
    pass
