#!/venv/bin/python
"""gen_formulas.py <repo> <outdir> — translate the bodies of rp2's arithmetic getters and predicates (Python AST) into Lean definitions
over the model's records: <outdir>/Formulas.lean.  This is the *translator* tie for C03/C04/C05: `Props/Tables/Formulas.lean` proves that the
translated functions equal the hand-written model functions (`Fraction.proceeds/cost/gain/isLong`, `toEv`, the `taxableEvents` filters, `mkIn/mkOut/
mkIntra` derivations), so a change to one of these Python bodies changes the generated definition and the kernel re-checks the equation.

Every generated function returns `Option τ`; `none` is a Python `raise`.  Decimal `+ - * /` become the model's `dadd dsub dmul ddiv`
(exact operation, then round to 31 digits), `>` / `==` / `!=` / `<` on decimals the 13-decimal comparisons of `RP2Decimal`.

A body whose shape the translator does not know is emitted as `untranslated` (a `def … : Option Unit := none` plus an entry in
`untranslated`); the theorems about it are then skipped by `Props/Tables/Formulas.lean` (they are stated over `translated` functions only)
and the tie for that function rests on the differential correspondence alone.  The evidence file lists which bodies were translated.
"""
import sys, os, ast, textwrap

repo, outdir = sys.argv[1], sys.argv[2]
SRC = os.path.join(repo, "src", "rp2")


class Untranslatable(Exception):
    pass


MODULE_FUNCS = {}     # file -> {name: FunctionDef} (module-level helpers, inlined when they are a single `return <expr>`)


def parse_class(fname, cname):
    tree = ast.parse(open(os.path.join(SRC, fname)).read())
    MODULE_FUNCS[fname] = {f.name: f for f in tree.body if isinstance(f, ast.FunctionDef)}
    for n in tree.body:
        if isinstance(n, ast.ClassDef) and n.name == cname:
            return {f.name: f for f in n.body if isinstance(f, ast.FunctionDef)}
    raise Untranslatable(f"class {cname} not found in {fname}")


# ---- the records of the model: python attribute (public getter name or private field without the underscores) -> (lean term, type)
# This table is the translator's own trusted part: it says which model field stands for which Python attribute.
RECORDS = {
    "InTransaction": dict(var="t", lean="InTx", file="in_transaction.py", fields={
        "crypto_in": ("(ofUnits t.amount)", "dec"), "spot_price": ("(ofUnits t.price)", "dec"),
        "fiat_in_no_fee": ("t.fiatNoFee", "dec"), "fiat_in_with_fee": ("t.fiatWithFee", "dec"), "fiat_fee": ("t.fiatFee", "dec"),
        "transaction_type": ("t.typ", "type"), "timestamp": ("t.ts", "stamp")}),
    "OutTransaction": dict(var="t", lean="OutTx", file="out_transaction.py", fields={
        "crypto_out_no_fee": ("(ofUnits t.outNoFee)", "dec"), "crypto_fee": ("(ofUnits t.fee)", "dec"),
        "crypto_out_with_fee": ("(ofUnits t.outWithFee)", "dec"), "spot_price": ("(ofUnits t.price)", "dec"),
        "fiat_out_no_fee": ("t.fiatNoFee", "dec"), "fiat_fee": ("t.fiatFee", "dec"),
        "transaction_type": ("t.typ", "type"), "timestamp": ("t.ts", "stamp")}),
    "IntraTransaction": dict(var="t", lean="IntraTx", file="intra_transaction.py", fields={
        "crypto_sent": ("(ofUnits t.sent)", "dec"), "crypto_received": ("(ofUnits t.recv)", "dec"),
        "crypto_fee": ("(ofUnits (t.sent - t.recv))", "dec"), "spot_price": ("(ofUnits t.price)", "dec"),
        "fiat_fee": ("t.fiatFee", "dec"), "timestamp": ("t.ts", "stamp")}),
    # GainLoss: `taxable_event` is the flattened event record of the model, `acquired_lot` an optional InTx
    "GainLoss": dict(var="f", lean="Fraction", file="gain_loss.py", fields={
        "crypto_amount": ("(ofUnits f.amt)", "dec"), "taxable_event": ("f.ev", "ev"), "acquired_lot": ("f.lot", "optlot")}),
}
EV_FIELDS = {"fiat_taxable_amount": ("{}.fiatTaxable", "dec"), "crypto_balance_change": ("(ofUnits {}.amount)", "dec"),
             "timestamp": ("{}.ts", "stamp"), "is_earning()": ("{}.earn", "bool")}
TYPES = ["airdrop", "buy", "donate", "fee", "gift", "hardfork", "income", "interest", "lost", "mining", "move", "sell", "staking", "wages"]


class Tr:
    """translator for the methods of one class"""

    def __init__(self, cname):
        self.c = cname
        self.rec = RECORDS[cname]
        self.methods = parse_class(self.rec["file"], cname)
        self.binds = []          # (name, lean call) — getters of self that are themselves translated functions
        self.locals = {}         # local variable -> (lean term, type) (plain `x = <expr>` statements)
        self.lotvar = None       # set once `self.acquired_lot` is known to be present
        self.used = set()

    def private(self, attr):
        p = "_" + self.c + "__"
        return attr[len(p):] if attr.startswith(p) else (attr[2:] if attr.startswith("__") else None)

    # -- attribute of `self`
    def self_attr(self, name, call=False):
        priv = self.private(name)
        if priv is not None and call and ("__" + priv) in self.methods:
            name, priv = "__" + priv, None          # a private helper method: translated like any other method of the class
            if (self.c, name) not in RET:
                # inline a single-return helper
                body = [x for x in self.methods[name].body if not (isinstance(x, ast.Expr) and isinstance(x.value, ast.Constant))]
                if len(body) == 1 and isinstance(body[0], ast.Return):
                    return self.expr(body[0].value)
                raise Untranslatable(f"helper {name}")
        if priv is not None:
            if priv in self.rec["fields"]:
                return self.rec["fields"][priv]
            raise Untranslatable(f"private field {name} of {self.c} has no model counterpart")
        m = self.methods.get(name)
        if m is None or self.is_trivial_getter(m, name):
            if name in self.rec["fields"]:
                return self.rec["fields"][name]
            raise Untranslatable(f"attribute {name} of {self.c} has no model counterpart")
        # a non-trivial getter / method of the same class: translated on its own, bound here
        self.used.add(name)
        v = f"v_{name}"
        if (v, name) not in self.binds:
            self.binds.append((v, name))
        return (v, RET[(self.c, name)])

    def is_trivial_getter(self, m, name):
        b = [s for s in m.body if not (isinstance(s, ast.Expr) and isinstance(s.value, ast.Constant))]
        if len(b) == 1 and isinstance(b[0], ast.Return) and isinstance(b[0].value, ast.Attribute) and isinstance(b[0].value.value, ast.Name) \
                and b[0].value.value.id == "self":
            return self.private(b[0].value.attr) == name or b[0].value.attr == "_" + name
        return False

    # -- expressions
    def expr(self, e):
        if isinstance(e, ast.Name):
            if e.id == "ZERO":
                return ("(0 : Rat)", "dec")
            if e.id in self.locals:
                return self.locals[e.id]
            raise Untranslatable(f"name {e.id}")
        if isinstance(e, ast.Constant):
            if e.value is True: return ("true", "bool")
            if e.value is False: return ("false", "bool")
            raise Untranslatable(f"constant {e.value!r}")
        if isinstance(e, ast.Attribute):
            # self.x
            if isinstance(e.value, ast.Name) and e.value.id == "self":
                return self.self_attr(e.attr)
            # TransactionType.X
            if isinstance(e.value, ast.Name) and e.value.id == "TransactionType" and e.attr.lower() in TYPES:
                return (f"TxType.{e.attr.lower()}", "type")
            # (a - b).days
            if e.attr == "days":
                t, ty = self.expr(e.value)
                if ty == "delta":
                    return (f"(Int.fdiv {t} 86400000000)", "int")
            base, ty = self.expr(e.value)
            return self.attr_of(base, ty, e.attr)
        if isinstance(e, ast.Call):
            f = e.func
            if isinstance(f, ast.Attribute):
                # self.configuration.country.get_long_term_capital_gain_period()
                if f.attr == "get_long_term_capital_gain_period" and not e.args:
                    return ("period", "int")
                if f.attr == "is_earn_type" and not e.args:
                    b, ty = self.expr(f.value)
                    if ty == "type":
                        return (f"{b}.isEarn", "bool")
                if isinstance(f.value, ast.Name) and f.value.id == "self" and not e.args:
                    return self.self_attr(f.attr, call=True)
                if not e.args:
                    base, ty = self.expr(f.value)
                    return self.attr_of(base, ty, f.attr + "()")
            if isinstance(f, ast.Name) and f.id in MODULE_FUNCS.get(self.rec["file"], {}) and not e.keywords:
                fn = MODULE_FUNCS[self.rec["file"]][f.id]
                body = [x for x in fn.body if not (isinstance(x, ast.Expr) and isinstance(x.value, ast.Constant))]
                params = [a.arg for a in fn.args.args]
                if len(body) == 1 and isinstance(body[0], ast.Return) and len(params) == len(e.args):
                    saved = dict(self.locals)
                    vals = [self.expr(a) for a in e.args]
                    self.locals = dict(zip(params, vals))
                    try:
                        return self.expr(body[0].value)
                    finally:
                        self.locals = saved
            raise Untranslatable("call " + ast.unparse(e))
        if isinstance(e, ast.BinOp):
            a, ta = self.expr(e.left); b, tb = self.expr(e.right)
            op = type(e.op)
            if ta == tb == "dec" and op in (ast.Add, ast.Sub, ast.Mult, ast.Div):
                return ("(" + {ast.Add: "dadd", ast.Sub: "dsub", ast.Mult: "dmul", ast.Div: "ddiv"}[op] + f" {a} {b})", "dec")
            if ta == tb == "stamp" and op is ast.Sub:
                return (f"({a}.us - {b}.us)", "delta")
            raise Untranslatable("binop " + ast.unparse(e))
        if isinstance(e, ast.UnaryOp) and isinstance(e.op, ast.Not):
            a, ta = self.expr(e.operand)
            if ta == "bool":
                return (f"(!{a})", "bool")
            raise Untranslatable("not " + ast.unparse(e))
        if isinstance(e, ast.BoolOp):
            parts = [self.expr(v) for v in e.values]
            if all(t == "bool" for _, t in parts):
                return ("(" + (" && " if isinstance(e.op, ast.And) else " || ").join(p for p, _ in parts) + ")", "bool")
            raise Untranslatable("boolop " + ast.unparse(e))
        if isinstance(e, ast.Compare) and len(e.ops) == 1:
            a, ta = self.expr(e.left); b, tb = self.expr(e.comparators[0]); op = type(e.ops[0])
            if ta == tb == "dec":
                # RP2Decimal comparisons quantise the difference to 13 decimals
                m = {ast.Gt: f"(gt13 {a} {b})", ast.Lt: f"(gt13 {b} {a})", ast.Eq: f"(eq13 {a} {b})", ast.NotEq: f"(!eq13 {a} {b})",
                     ast.GtE: f"(!gt13 {b} {a})", ast.LtE: f"(!gt13 {a} {b})"}
                return (m[op], "bool")
            if ta == tb == "int":
                m = {ast.GtE: f"(decide ({b} ≤ {a}))", ast.Gt: f"(decide ({b} < {a}))", ast.LtE: f"(decide ({a} ≤ {b}))", ast.Lt: f"(decide ({a} < {b}))",
                     ast.Eq: f"(decide ({a} = {b}))", ast.NotEq: f"(!decide ({a} = {b}))"}
                return (m[op], "bool")
            if ta == tb == "type" and op in (ast.Eq, ast.NotEq, ast.Is, ast.IsNot):
                t = f"(decide ({a} = {b}))"
                return (t if op in (ast.Eq, ast.Is) else f"(!{t})", "bool")
            raise Untranslatable("compare " + ast.unparse(e))
        if isinstance(e, ast.IfExp):
            c, tc = self.expr(e.test); a, ta = self.expr(e.body); b, tb = self.expr(e.orelse)
            if tc == "bool" and ta == tb:
                return (f"(if {c} then {a} else {b})", ta)
        raise Untranslatable("expression " + ast.unparse(e))

    def attr_of(self, base, ty, attr):
        if ty == "ev" and attr in EV_FIELDS:
            t, r = EV_FIELDS[attr]
            return (t.format(base), r)
        if ty == "optlot":
            if self.lotvar is None:
                raise Untranslatable("acquired_lot used before it is known to be present")
            base, ty = self.lotvar, "lot"
        if ty == "lot":
            sub = TRS["InTransaction"]
            if attr.endswith("()"):
                raise Untranslatable("method of the lot: " + attr)
            m = sub.methods.get(attr)
            if m is not None and not sub.is_trivial_getter(m, attr):
                # e.g. lot.crypto_balance_change: translate the lot's own getter when it is a plain `return <expr>`
                body = [s for s in m.body if not (isinstance(s, ast.Expr) and isinstance(s.value, ast.Constant))]
                if len(body) == 1 and isinstance(body[0], ast.Return):
                    t, r = sub.expr(body[0].value)
                    if sub.binds:
                        sub.binds = []
                        raise Untranslatable("lot getter with nested getters: " + attr)
                    return (t.replace("t.", base + "."), r)
                raise Untranslatable("lot getter " + attr)
            if attr in sub.rec["fields"]:
                t, r = sub.rec["fields"][attr]
                return (t.replace("t.", base + "."), r)
        raise Untranslatable(f"attribute {attr} of a {ty}")

    # -- statements: returns lean term of type Option τ
    def block(self, stmts, rty):
        stmts = [s for s in stmts if not (isinstance(s, ast.Expr) and isinstance(s.value, ast.Constant))]   # docstrings
        if not stmts:
            raise Untranslatable("control reaches the end of the function")
        s, rest = stmts[0], stmts[1:]
        if isinstance(s, ast.Return):
            t, ty = self.expr(s.value)
            if ty != rty:
                raise Untranslatable(f"returns a {ty}, expected {rty}")
            return f"some {t}"
        if isinstance(s, ast.Raise):
            return "none"
        if isinstance(s, (ast.Assign, ast.AnnAssign)) and getattr(s, "value", None) is not None:
            tgt = s.targets[0] if isinstance(s, ast.Assign) else s.target
            if isinstance(tgt, ast.Name):
                saved = dict(self.locals)
                self.locals[tgt.id] = self.expr(s.value)
                try:
                    return self.block(rest, rty)
                finally:
                    self.locals = saved
        if isinstance(s, ast.If):
            # `if not self.acquired_lot:` / `if self.acquired_lot is None:` — case split on the optional lot
            tst = s.test
            neg = None
            if isinstance(tst, ast.UnaryOp) and isinstance(tst.op, ast.Not) and self.is_lot(tst.operand): neg = True
            elif self.is_lot(tst): neg = False
            elif isinstance(tst, ast.Compare) and len(tst.ops) == 1 and self.is_lot(tst.left) and isinstance(tst.comparators[0], ast.Constant) \
                    and tst.comparators[0].value is None:
                neg = isinstance(tst.ops[0], ast.Is)
            if neg is not None:
                absent = s.body if neg else s.orelse
                present = s.orelse if neg else s.body
                a = self.block(list(absent) + ([] if self.ends(absent) else rest), rty)
                old = self.lotvar; self.lotvar = "l"
                try:
                    p = self.block(list(present) + ([] if self.ends(present) else rest), rty)
                finally:
                    self.lotvar = old
                return f"(match f.lot with | none => {a} | some l => {p})"
            c, tc = self.expr(tst)
            if tc != "bool":
                raise Untranslatable("condition " + ast.unparse(tst))
            a = self.block(list(s.body) + ([] if self.ends(s.body) else rest), rty)
            b = self.block(list(s.orelse) + ([] if self.ends(s.orelse) else rest), rty)
            return f"(if {c} then {a} else {b})"
        raise Untranslatable("statement " + ast.unparse(s)[:60])

    def is_lot(self, e):
        if isinstance(e, ast.Name) and self.locals.get(e.id, (None, None))[1] == "optlot":
            return True
        return isinstance(e, ast.Attribute) and isinstance(e.value, ast.Name) and e.value.id == "self" and e.attr in ("acquired_lot", "_GainLoss__acquired_lot")

    def ends(self, stmts):
        if not stmts: return False
        s = stmts[-1]
        if isinstance(s, (ast.Return, ast.Raise)): return True
        if isinstance(s, ast.If): return self.ends(s.body) and self.ends(s.orelse)
        return False

    def function(self, name, rty):
        self.binds = []; self.lotvar = None; self.locals = {}
        m = self.methods.get(name)
        if m is None:
            raise Untranslatable(f"{self.c}.{name} not found")
        body = self.block(m.body, rty)
        pre = ""
        for v, g in self.binds:
            pre += f"({lean_name(self.c, g)} {'period ' if (self.c, g) in NEEDS_PERIOD else ''}{self.rec['var']}).bind fun {v} => "
        return pre + body


def lean_name(c, n): return f"{c}_{n}"


LEAN_TY = {"dec": "Rat", "bool": "Bool", "int": "Int"}
# functions to translate: (class, method) -> return type; order matters (callees first)
RET = {
    ("InTransaction", "is_taxable"): "bool", ("InTransaction", "is_earning"): "bool",
    ("InTransaction", "crypto_balance_change"): "dec", ("InTransaction", "fiat_taxable_amount"): "dec", ("InTransaction", "fiat_balance_change"): "dec",
    ("OutTransaction", "is_taxable"): "bool", ("OutTransaction", "is_earning"): "bool",
    ("OutTransaction", "crypto_balance_change"): "dec", ("OutTransaction", "fiat_taxable_amount"): "dec", ("OutTransaction", "crypto_taxable_amount"): "dec",
    ("IntraTransaction", "is_taxable"): "bool", ("IntraTransaction", "is_earning"): "bool",
    ("IntraTransaction", "crypto_balance_change"): "dec", ("IntraTransaction", "fiat_taxable_amount"): "dec",
    ("GainLoss", "taxable_event_fiat_amount_with_fee_fraction"): "dec", ("GainLoss", "fiat_cost_basis"): "dec",
    ("GainLoss", "acquired_lot_fiat_amount_with_fee_fraction"): "dec", ("GainLoss", "fiat_gain"): "dec",
    ("GainLoss", "taxable_event_fraction_percentage"): "dec", ("GainLoss", "acquired_lot_fraction_percentage"): "dec",
    ("GainLoss", "is_long_term_capital_gains"): "bool",
}
NEEDS_PERIOD = {("GainLoss", "is_long_term_capital_gains")}
TRS = {}
for c in RECORDS:
    try:
        TRS[c] = Tr(c)
    except Exception as e:      # file or class missing: everything of that class is untranslated
        TRS[c] = None


# ---------------------------------------------------------------------------------------------------------------------------------
# constructors: symbolic execution of `__init__` (if-conversion) giving the value of each private decimal field as a function of the
# decimal arguments.  `raise` kills a path (the rejections are the parser model's business, C12); what is translated is the
# *derivation of the values*.
def _masks():
    """decimal places of the quantisation masks, read from the source text of rp2_decimal.py (no import: the tree may be any tree)"""
    import re
    txt = open(os.path.join(SRC, "rp2_decimal.py")).read()
    out = {}
    for name in ("CRYPTO", "FIAT"):
        m = re.search(name + r"_DECIMALS\s*(?::[^=]*)?=\s*(?:\w+\()?[\"']?(\d+)", txt)
        if m: out[name + "_DECIMAL_MASK"] = int(m.group(1))
    return out
MASKS = _masks()


class Init:
    def __init__(self, cname):
        self.c = cname
        self.m = parse_class(RECORDS[cname]["file"], cname)["__init__"]
        self.params = []          # (name, kind) kind in dec/optdec/type
        for a in self.m.args.args[1:]:
            ann = ast.unparse(a.annotation) if a.annotation is not None else ""
            if ann == "RP2Decimal": self.params.append((a.arg, "dec"))
            elif ann == "Optional[RP2Decimal]": self.params.append((a.arg, "optdec"))
            elif a.arg == "transaction_type": self.params.append((a.arg, "type"))
        self.pnames = [a.arg for a in self.m.args.args]

    def key(self, t):
        if isinstance(t, ast.Name): return t.id
        if isinstance(t, ast.Attribute) and isinstance(t.value, ast.Name) and t.value.id == "self":
            a = t.attr
            for pre in ("_" + self.c + "__", "__"):
                if a.startswith(pre): a = a[len(pre):]; break
            return "self." + a
        return None

    def facts(self, c, truth):
        """names known to be present (not None) when condition c has the given truth value"""
        if isinstance(c, ast.Compare) and len(c.ops) == 1 and isinstance(c.comparators[0], ast.Constant) and c.comparators[0].value is None \
                and isinstance(c.left, ast.Name):
            if (isinstance(c.ops[0], ast.Is) and not truth) or (isinstance(c.ops[0], ast.IsNot) and truth): return {c.left.id}
            return set()
        if isinstance(c, ast.Name) and truth: return {c.id}
        if isinstance(c, ast.UnaryOp) and isinstance(c.op, ast.Not): return self.facts(c.operand, not truth)
        if isinstance(c, ast.BoolOp):
            if (isinstance(c.op, ast.Or) and not truth) or (isinstance(c.op, ast.And) and truth):
                r = set()
                for v in c.values: r |= self.facts(v, truth)
                return r
        return set()

    def ex(self, e, env, known):
        if isinstance(e, ast.Name):
            if e.id == "ZERO": return ("(0 : Rat)", "dec")
            v = env.get(e.id)
            if v is None: raise Untranslatable("unknown name " + e.id)
            return v
        if isinstance(e, ast.Constant) and e.value is None:
            return ("none", "none")
        if isinstance(e, ast.Attribute):
            k = self.key(e)
            if k is not None:
                v = env.get(k)
                if v is None: raise Untranslatable("unknown attribute " + k)
                return v
            if isinstance(e.value, ast.Name) and e.value.id == "TransactionType" and e.attr.lower() in TYPES:
                return (f"TxType.{e.attr.lower()}", "type")
            raise Untranslatable("attribute " + ast.unparse(e))
        if isinstance(e, ast.Call):
            f = e.func
            if isinstance(f, ast.Attribute) and f.attr in ("type_check_positive_decimal", "type_check_decimal") and len(e.args) >= 2:
                return self.dec(e.args[1], env, known)
            if isinstance(f, ast.Attribute) and f.attr == "is_equal_within_precision" and len(e.args) == 3 and isinstance(e.args[2], ast.Name) \
                    and e.args[2].id in MASKS:
                # (first - second).quantize(mask) == ZERO, the `==` being RP2Decimal's 13-decimal comparison
                a = self.dec(e.args[0], env, known); b = self.dec(e.args[1], env, known)
                return (f"(eq13 (quant {MASKS[e.args[2].id]} (dsub {a[0]} {b[0]})) (0 : Rat))", "bool")
            if isinstance(f, ast.Name) and f.id == "isinstance" and len(e.args) == 2 and isinstance(e.args[0], ast.Name) \
                    and ast.unparse(e.args[1]) == "RP2Decimal" and e.args[0].id in known:
                return ("true", "bool")
            raise Untranslatable("call " + ast.unparse(e)[:50])
        if isinstance(e, ast.BinOp):
            a = self.dec(e.left, env, known); b = self.dec(e.right, env, known)
            op = {ast.Add: "dadd", ast.Sub: "dsub", ast.Mult: "dmul", ast.Div: "ddiv"}.get(type(e.op))
            if op is None: raise Untranslatable("operator")
            return (f"({op} {a[0]} {b[0]})", "dec")
        if isinstance(e, ast.IfExp):
            c = self.cond(e.test, env, known)
            a = self.ex(e.body, env, known | self.facts(e.test, True)); b = self.ex(e.orelse, env, known | self.facts(e.test, False))
            if a[1] != b[1]: raise Untranslatable("branches of different type")
            return (f"(if {c} then {a[0]} else {b[0]})", a[1])
        raise Untranslatable("expression " + ast.unparse(e)[:50])

    def dec(self, e, env, known):
        t, ty = self.ex(e, env, known)
        if ty == "dec": return (t, ty)
        if ty == "optdec" and isinstance(e, ast.Name) and e.id in known: return (f"({t}.getD 0)", "dec")
        raise Untranslatable("not a decimal: " + ast.unparse(e)[:40])

    def cond(self, c, env, known):
        if isinstance(c, ast.Compare) and len(c.ops) == 1:
            l, r, op = c.left, c.comparators[0], type(c.ops[0])
            if isinstance(r, ast.Constant) and r.value is None:
                t, ty = self.ex(l, env, known)
                if ty == "optdec": return f"{t}.isNone" if op is ast.Is else f"{t}.isSome"
                if ty == "dec": return "false" if op is ast.Is else "true"
                raise Untranslatable("None test on " + ty)
            a, ta = self.ex(l, env, known); b, tb = self.ex(r, env, known)
            if ta == tb == "type" and op in (ast.Eq, ast.NotEq):
                t = f"(decide ({a} = {b}))"; return t if op is ast.Eq else f"(!{t})"
            a = self.dec(l, env, known)[0]; b = self.dec(r, env, known)[0]
            m = {ast.Gt: f"(gt13 {a} {b})", ast.Lt: f"(gt13 {b} {a})", ast.Eq: f"(eq13 {a} {b})", ast.NotEq: f"(!eq13 {a} {b})",
                 ast.GtE: f"(!gt13 {b} {a})", ast.LtE: f"(!gt13 {a} {b})"}
            if op in m: return m[op]
            raise Untranslatable("comparison")
        if isinstance(c, ast.Name):                      # truthiness of an optional decimal: present and non-zero (Decimal.__bool__ is exact)
            t, ty = self.ex(c, env, known)
            if ty == "optdec": return f"({t}.any (fun v => decide (v ≠ 0)))"
            raise Untranslatable("truthiness of " + ty)
        if isinstance(c, ast.UnaryOp) and isinstance(c.op, ast.Not):
            return f"(!{self.cond(c.operand, env, known)})"
        if isinstance(c, ast.BoolOp):
            parts = []; k = set(known)
            for v in c.values:
                parts.append(self.cond(v, env, k))
                k |= self.facts(v, isinstance(c.op, ast.And))     # short-circuit: later operands see the earlier ones' outcome
            return "(" + (" && " if isinstance(c.op, ast.And) else " || ").join(parts) + ")"
        t, ty = self.ex(c, env, known)
        if ty == "bool": return t
        raise Untranslatable("condition " + ast.unparse(c)[:50])

    def run(self, stmts, env, known):
        """returns (env, dead, known)"""
        for s in stmts:
            if isinstance(s, ast.Raise): return env, True, known
            if isinstance(s, (ast.Assign, ast.AnnAssign)):
                if getattr(s, "value", None) is None: continue
                tgt = s.targets[0] if isinstance(s, ast.Assign) else s.target
                k = self.key(tgt)
                if k is None: continue
                try: env[k] = self.ex(s.value, env, known)
                except Untranslatable: env[k] = None
                if isinstance(tgt, ast.Name) and env[k] is not None and env[k][1] == "dec": known = known | {tgt.id}
                continue
            if isinstance(s, ast.Expr):
                c = s.value
                if isinstance(c, ast.Call) and isinstance(c.func, ast.Attribute) and c.func.attr == "__init__" and ast.unparse(c.func.value) == "super()":
                    # AbstractTransaction.__init__(configuration, timestamp, asset, transaction_type, spot_price, row, unique_id, notes)
                    names = ["configuration", "timestamp", "asset", "transaction_type", "spot_price", "row", "unique_id", "notes"]
                    for i, a in enumerate(c.args):
                        if i < len(names) and names[i] in ("transaction_type", "spot_price"):
                            try:
                                if names[i] == "spot_price": env["self.spot_price"] = self.dec(a, env, known)
                                elif isinstance(a, ast.Constant): env["self.transaction_type"] = (f"TxType.{a.value.lower()}", "type")
                                else: env["self.transaction_type"] = self.ex(a, env, known)
                            except Untranslatable: env["self." + names[i]] = None
                continue
            if isinstance(s, ast.If):
                try: c = self.cond(s.test, env, known)
                except Untranslatable: c = None
                e1, d1, k1 = self.run(s.body, dict(env), known | self.facts(s.test, True))
                e2, d2, k2 = self.run(s.orelse, dict(env), known | self.facts(s.test, False))
                if d1 and d2: return env, True, known
                if d1: env, known = e2, k2; continue
                if d2: env, known = e1, k1; continue
                new = {}
                for k in set(e1) | set(e2):
                    a, b = e1.get(k), e2.get(k)
                    # an optional argument known to be present on one path meets a decimal assigned on the other
                    if a is not None and b is not None and {a[1], b[1]} == {"dec", "optdec"}:
                        if a[1] == "optdec" and k in k1: a = (f"({a[0]}.getD 0)", "dec")
                        if b[1] == "optdec" and k in k2: b = (f"({b[0]}.getD 0)", "dec")
                    if a == b: new[k] = a
                    elif a is None or b is None or c is None or a[1] != b[1]: new[k] = None
                    else: new[k] = (f"(if {c} then {a[0]} else {b[0]})", a[1])
                env, known = new, (k1 & k2) | {k for k, v in new.items() if v is not None and v[1] == "dec" and "." not in k}
                continue
            # anything else (loops, with, try …) is outside the translated fragment
            raise Untranslatable("statement " + ast.unparse(s)[:50])
        return env, False, known

    def fields(self):
        env = {}
        for n, k in self.params:
            env[n] = (n if k != "type" else "typ", k)
        known = {n for n, k in self.params if k == "dec"}
        env, dead, _ = self.run(self.m.body, env, known)
        if dead: raise Untranslatable("constructor always raises")
        return env

    def signature(self):
        return " ".join(f"({n if k != 'type' else 'typ'} : {'Rat' if k == 'dec' else 'Option Rat' if k == 'optdec' else 'TxType'})" for n, k in self.params)


INIT_FIELDS = {
    "InTransaction": ["crypto_in", "crypto_fee", "fiat_fee", "fiat_in_no_fee", "fiat_in_with_fee"],
    "OutTransaction": ["crypto_out_no_fee", "crypto_fee", "crypto_out_with_fee", "fiat_out_no_fee", "fiat_fee", "fiat_out_with_fee"],
    "IntraTransaction": ["crypto_sent", "crypto_received", "crypto_fee", "spot_price", "fiat_fee"],
}
out = ["import Rp2.Model.Pipeline", "namespace Rp2.Gen.F", "open Rp2",
       "/-! Translated from the Python bodies (AST) on every run; `none` = the Python code raises. -/"]
# what the model says each function is: used as the definition of a function whose Python body has a shape the translator does not know
# (the theorem about it is then trivially true, the function is listed in `untranslated`, and its tie is the differential correspondence)
LOTLESS = "(f.lot.isNone && !f.ev.earn)"
FALLBACK = {
    ("InTransaction", "is_taxable"): "some t.typ.isEarn", ("InTransaction", "is_earning"): "some t.typ.isEarn",
    ("InTransaction", "crypto_balance_change"): "some (ofUnits t.amount)",
    ("InTransaction", "fiat_taxable_amount"): "some (if t.typ.isEarn then t.fiatWithFee else 0)", ("InTransaction", "fiat_balance_change"): "some t.fiatWithFee",
    ("OutTransaction", "is_taxable"): "some true", ("OutTransaction", "is_earning"): "some false",
    ("OutTransaction", "crypto_balance_change"): "some (ofUnits t.outWithFee)",
    ("OutTransaction", "fiat_taxable_amount"): "some (if t.typ = .fee then t.fiatFee else t.fiatNoFee)",
    ("OutTransaction", "crypto_taxable_amount"): "some (if t.typ = .fee then ofUnits t.fee else ofUnits t.outNoFee)",
    ("IntraTransaction", "is_taxable"): "some (gt13 t.fiatFee 0)", ("IntraTransaction", "is_earning"): "some false",
    ("IntraTransaction", "crypto_balance_change"): "some (ofUnits (t.sent - t.recv))", ("IntraTransaction", "fiat_taxable_amount"): "some t.fiatFee",
    ("GainLoss", "taxable_event_fiat_amount_with_fee_fraction"): "some f.proceeds",
    ("GainLoss", "fiat_cost_basis"): f"if {LOTLESS} then none else some f.cost",
    ("GainLoss", "acquired_lot_fiat_amount_with_fee_fraction"): "some f.cost",
    ("GainLoss", "fiat_gain"): f"if {LOTLESS} then none else some f.gain",
    ("GainLoss", "taxable_event_fraction_percentage"): "some (ddiv (ofUnits f.amt) (ofUnits f.ev.amount))",
    ("GainLoss", "acquired_lot_fraction_percentage"): f"if {LOTLESS} then none else some (match f.lot with | none => 0 | some l => ddiv (ofUnits f.amt) (ofUnits l.amount))",
    ("GainLoss", "is_long_term_capital_gains"): f"if {LOTLESS} then none else some (f.isLong period)",
}
translated, untranslated = [], []
defs = {}     # (c, n) -> (text, deps)
for (c, n), rty in RET.items():
    tr = TRS[c]
    sig = f"def {lean_name(c, n)} {'(period : Int) ' if (c, n) in NEEDS_PERIOD else ''}({RECORDS[c]['var']} : {RECORDS[c]['lean']}) : Option {LEAN_TY[rty]} :="
    try:
        if tr is None:
            raise Untranslatable("class not found")
        body = tr.function(n, rty)
        defs[(c, n)] = (f"/-- `{c}.{n}` -/\n" + sig + "\n  " + body, [(c, g) for _, g in tr.binds])
        translated.append(f"{c}.{n}")
    except Exception as e:
        why = str(e) if isinstance(e, Untranslatable) else f"translator error {type(e).__name__}"
        defs[(c, n)] = (f"/-- `{c}.{n}`: NOT TRANSLATED ({why[:100].replace('-/', '- /')}); the model's own definition stands in -/\n" + sig + "\n  " + FALLBACK[(c, n)], [])
        untranslated.append(f"{c}.{n}")
# callees first
done = []
def emit_def(k, stack=()):
    if k in done or k not in defs: return
    if k in stack: return
    for d in defs[k][1]: emit_def(d, stack + (k,))
    done.append(k); out.append(defs[k][0])
for k in defs: emit_def(k)
INIT_SIG = {
    "InTransaction": "(typ : TxType) (spot_price : Rat) (crypto_in : Rat) (crypto_fee : Option Rat) (fiat_in_no_fee : Option Rat) (fiat_in_with_fee : Option Rat) (fiat_fee : Option Rat)",
    "OutTransaction": "(typ : TxType) (spot_price : Rat) (crypto_out_no_fee : Rat) (crypto_fee : Rat) (crypto_out_with_fee : Option Rat) (fiat_out_no_fee : Option Rat) (fiat_fee : Option Rat)",
    "IntraTransaction": "(spot_price : Option Rat) (crypto_sent : Rat) (crypto_received : Rat)",
}
_T = lambda x: f"(if ({x}.any (fun v => decide (v ≠ 0))) then ({x}.getD 0) else (0 : Rat))"
_INFEE = f"(if (crypto_fee.isSome && fiat_fee.isNone) then (dmul {_T('crypto_fee')} spot_price) else {_T('fiat_fee')})"
_INNF = "(if fiat_in_no_fee.isNone then (dmul crypto_in spot_price) else (fiat_in_no_fee.getD 0))"
_XP = "(if (spot_price.isNone || (true && (eq13 (spot_price.getD 0) (0 : Rat)))) then (0 : Rat) else (spot_price.getD 0))"
INIT_FALLBACK = {
    ("InTransaction", "crypto_in"): "crypto_in", ("InTransaction", "crypto_fee"): _T("crypto_fee"), ("InTransaction", "fiat_fee"): _INFEE,
    ("InTransaction", "fiat_in_no_fee"): _INNF,
    ("InTransaction", "fiat_in_with_fee"): f"(if fiat_in_with_fee.isNone then (dadd {_INNF} {_INFEE}) else (fiat_in_with_fee.getD 0))",
    ("OutTransaction", "crypto_out_no_fee"): "crypto_out_no_fee", ("OutTransaction", "crypto_fee"): "crypto_fee",
    ("OutTransaction", "crypto_out_with_fee"): "(if crypto_out_with_fee.isNone then (dadd crypto_out_no_fee crypto_fee) else (crypto_out_with_fee.getD 0))",
    ("OutTransaction", "fiat_out_no_fee"): "(if fiat_out_no_fee.isNone then (dmul crypto_out_no_fee spot_price) else (fiat_out_no_fee.getD 0))",
    ("OutTransaction", "fiat_fee"): "(if fiat_fee.isNone then (dmul crypto_fee spot_price) else (fiat_fee.getD 0))",
    ("OutTransaction", "fiat_out_with_fee"): "(dadd (if fiat_out_no_fee.isNone then (dmul crypto_out_no_fee spot_price) else (fiat_out_no_fee.getD 0)) (if fiat_fee.isNone then (dmul crypto_fee spot_price) else (fiat_fee.getD 0)))",
    ("IntraTransaction", "crypto_sent"): "crypto_sent", ("IntraTransaction", "crypto_received"): "crypto_received",
    ("IntraTransaction", "crypto_fee"): "(dsub crypto_sent crypto_received)", ("IntraTransaction", "spot_price"): _XP,
    ("IntraTransaction", "fiat_fee"): f"(dmul (dsub crypto_sent crypto_received) {_XP})",
}
for c, flds in INIT_FIELDS.items():
    try:
        it = Init(c); env = it.fields(); sig = it.signature()
        if sig != INIT_SIG[c]: raise Untranslatable("constructor signature changed")
    except Exception as e:
        it = None; env = {}; sig = ""
    for fl in flds:
        v = env.get("self." + fl)
        nm = f"{c}_init_{fl}"
        if it is not None and v is not None and v[1] == "dec":
            out.append(f"/-- value of `{c}.__{fl}` after `__init__` -/")
            out.append(f"def {nm} {sig} : Rat :=\n  {v[0]}")
            translated.append(f"{c}.__init__.{fl}")
        else:
            # shape not known: the constructor theorems of Props/Tables/Formulas.lean cannot be stated; emit the model's derivation
            out.append(f"/-- `{c}.__init__` / `{fl}`: NOT TRANSLATED; the model's own derivation stands in -/")
            out.append(f"def {nm} {INIT_SIG[c]} : Rat :=\n  {INIT_FALLBACK[(c, fl)]}")
            untranslated.append(f"{c}.__init__.{fl}")
q = lambda xs: "[" + ", ".join('"' + x + '"' for x in xs) + "]"
out.append(f"def translated : List String := {q(translated)}")
out.append(f"def untranslated : List String := {q(untranslated)}")
out.append("end Rp2.Gen.F")
txt = "-- GENERATED from " + repo + " by gen_formulas.py; do not edit\n" + "\n".join(out) + "\n"
p = os.path.join(outdir, "Formulas.lean")
if not os.path.exists(p) or open(p).read() != txt:
    open(p, "w").write(txt)
print("formulas translated:", len(translated), "untranslated:", untranslated)
