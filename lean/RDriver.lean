import Rp2.Model.Cli
open Rp2

def hexVal (c : Char) : Nat :=
  if c.isDigit then c.toNat - '0'.toNat else if 'a' ≤ c && c ≤ 'f' then c.toNat - 'a'.toNat + 10 else 0
def unhex (s : String) : String :=
  let rec go : List Char → List UInt8 → List UInt8
    | a :: b :: t, acc => go t (acc ++ [(hexVal a * 16 + hexVal b).toUInt8])
    | _, acc => acc
  (String.fromUTF8? (ByteArray.mk (go s.toList []).toArray)).getD ""

def parseRat (s : String) : Rat :=
  match s.splitOn "/" with
  | [n, d] => (n.toInt! : Rat) / (d.toNat! : Rat)
  | _ => 0

def parseCell (tok : String) : Cell :=
  if tok == "E" then .empty
  else if tok.startsWith "N" then .num (parseRat (tok.drop 1).toString)
  else
    match (tok.drop 1).toString.splitOn ":" with
    | [h, info] =>
      let ts : TsInfo :=
        if info == "B" then .bad else if info == "Z" then .naive
        else match (info.drop 1).toString.splitOn "," with
          | [us, off] => .aware us.toInt! off.toInt!
          | _ => .bad
      .str (unhex h) ts
    | _ => .empty

structure AssetIn where
  name : String
  ins : List InTx := []
  outs : List OutTx := []
  intras : List IntraTx := []

structure RCase where
  period : Int := 365
  allowNeg : Bool := false
  fromDay : Option Int := none
  toDay : Option Int := none
  clear : Bool := true
  sdef : Bool := true
  sched : List (Int × Method) := []
  accts : List (Nat × String × String) := []
  assets : List AssetIn := []
  cfgSched : List (Int × String) := []
  cfgAssets : List String := []
  pcfg : Config := ⟨[], [], [], [], [], []⟩
  grids : List (String × List (List Cell)) := []      -- (sheet name, rows reversed), newest first
  ini : Option (List Ini.Section) := none           -- sections newest first, items newest first
  useIni : Bool := false

def optInt (s : String) : Option Int := if s == "-" then none else s.toInt?
def parseMethod : String → Method
  | "fifo" => .fifo | "lifo" => .lifo | "hifo" => .hifo | _ => .lofo
def sr (r : Rat) : String := s!"{r.num}/{r.den}"
def so {α} (f : α → String) : Option α → String | none => "-" | some x => f x
def typOf (s : String) : TxType := (TxType.ofString? s).getD .buy
def b01 (b : Bool) : String := if b then "1" else "0"

def showRow : RRow → String
  | .ioIn a r tx sold amt run fiat => s!"IOIN {a} {r} {tx} {so sr sold} {sr amt} {sr run} {" ".intercalate (fiat.map sr)}"
  | .ioOut a r tx amt fee run frun fiat => s!"IOOUT {a} {r} {tx} {sr amt} {sr fee} {sr run} {sr frun} {" ".intercalate (fiat.map sr)}"
  | .ioIntra a r tx s rc fee frun fiat => s!"IOX {a} {r} {tx} {sr s} {sr rc} {sr fee} {sr frun} {" ".intercalate (fiat.map sr)}"
  | .taxY a r y t l g amt fiat cost => s!"TY {a} {r} {y} {t} {b01 l} {sr g} {sr amt} {sr fiat} {sr cost}"
  | .taxB a r acct acq s rc f => s!"TB {a} {r} {acct} {sr acq} {sr s} {sr rc} {sr f}"
  | .taxT a r h v => s!"TT {a} {r} {h} {sr v}"
  | .taxP a r p => s!"TP {a} {r} {sr p}"
  | .taxD a r ev lot amt run g l el ll k n lk ln fiat => s!"TD {a} {r} {ev} {so toString lot} {sr amt} {sr run} {sr g} {b01 l} {so toString el} {so toString ll} {k}/{n} {so toString lk}/{so toString ln} {" ".intercalate (fiat.map sr)}"
  | .summ r a y t l link => s!"SU {r} {a} {y} {t} {b01 l} {so toString link}"

def runR (c : RCase) : List String :=
  let acctName (i : Nat) : String := match c.accts.find? (·.1 == i) with | some (_, e, h) => s!"{e}_{h}" | none => ""
  let holderOf (i : Nat) : String := match c.accts.find? (·.1 == i) with | some (_, _, h) => h | none => ""
  let comps := c.assets.reverse.mapM fun a =>
    compute a.name acctName c.period c.allowNeg c.fromDay c.toDay c.sched.reverse a.ins.reverse a.outs.reverse a.intras.reverse
  match comps with
  | .error e => [s!"ERR compute {e}"]
  | .ok cs =>
    match genFull c.clear c.sdef holderOf c.period cs with
    | .error e => [s!"ERR gen {e}"]
    | .ok rows => rows.map showRow

def showDate (d : Int × Int × Int) : String := s!"{d.1}-{d.2.1}-{d.2.2}"
def runT (c : RCase) (lostMapped : Bool) : List String :=
  let acctName (i : Nat) : String := match c.accts.find? (·.1 == i) with | some (_, e, h) => s!"{e}_{h}" | none => ""
  let comps := c.assets.reverse.mapM fun a =>
    compute a.name acctName c.period c.allowNeg c.fromDay c.toDay c.sched.reverse a.ins.reverse a.outs.reverse a.intras.reverse
  match comps with
  | .error e => [s!"ERR compute {e}"]
  | .ok cs =>
    match taxReport lostMapped c.period 102 cs with
    | .error e => [s!"ERR gen {e}"]
    | .ok (rows, sheets) =>
      rows.map (fun r => s!"TR {r.sheet.replace " " "_"} {r.row} {r.asset} {sr r.amt} {sr r.proceeds} {so sr r.cost} {sr r.gain} {b01 r.long} {showDate r.sold} {so showDate r.acquired} {r.evK}/{r.evN} {so toString r.lotK}/{so toString r.lotN}") ++
      [s!"SHEETS {",".intercalate (sheets.map (·.replace " " "_"))}"]

def withComps (c : RCase) (k : List Computed → List String) : List String :=
  let acctName (i : Nat) : String := match c.accts.find? (·.1 == i) with | some (_, e, h) => s!"{e}_{h}" | none => ""
  let comps := c.assets.reverse.mapM fun a =>
    compute a.name acctName c.period c.allowNeg c.fromDay c.toDay c.sched.reverse a.ins.reverse a.outs.reverse a.intras.reverse
  match comps with
  | .error e => [s!"ERR compute {e}"]
  | .ok cs => k cs

def runO (c : RCase) : List String :=
  let holderOf (i : Nat) : String := match c.accts.find? (·.1 == i) with | some (_, _, h) => h | none => ""
  withComps c fun cs =>
    match openPositions holderOf cs with
    | .error e => [s!"ERR gen {e}"]
    | .ok (a, e, hs) =>
      a.map (fun r => s!"OA {r.row} {r.asset} {r.holder} {sr r.bal} {sr r.unit} {sr r.cost} {sr r.weight}") ++
      e.map (fun r => s!"OE {r.row} {r.asset} {r.holder} {r.acct} {sr r.bal} {sr r.unit} {sr r.cost} {sr r.weight}") ++
      (totalRows "A" hs a.length ++ totalRows "E" hs e.length).map (fun (t, r, h) => s!"OT {t} {r} {h}")

def runJ (c : RCase) (sortedYears : Bool) : List String :=
  withComps c fun cs =>
    match cs.mapM (jpAsset sortedYears) with
    | .error e => [s!"ERR gen {e}"]
    | .ok shs =>
      (jpSummaries shs.flatten).map (fun l => s!"JSUM {l.year} {l.row} {l.asset} {l.sheet} {l.closeRow}") ++
      shs.flatten.foldl (fun acc sh =>
        acc ++ [s!"JS {sh.name} {match sh.prevRef with | none => "-" | some (n, r) => s!"{n}:{r}"} {sh.closeRow}"] ++
        sh.rows.map (fun r => s!"JR {r.sheet} {r.row} {r.month} {r.day} {r.typ} {so sr r.pAmt} {so sr r.pYen} {so sr r.sAmt} {so sr r.sYen} {sr r.fee}")) []

def showTRow (r : TRow) : String :=
  s!"TR {r.sheet.replace " " "_"} {r.row} {r.asset} {sr r.amt} {sr r.proceeds} {so sr r.cost} {sr r.gain} {b01 r.long} {showDate r.sold} {so showDate r.acquired} {r.evK}/{r.evN} {so toString r.lotK}/{so toString r.lotN}"
def showJSum (shs : List JSheet) : List String :=
  (jpSummaries shs).map (fun l => s!"JSUM {l.year} {l.row} {l.asset} {l.sheet} {l.closeRow}")
def showJ (shs : List JSheet) : List String :=
  showJSum shs ++ shs.foldl (fun acc sh =>
    acc ++ [s!"JS {sh.name} {match sh.prevRef with | none => "-" | some (n, r) => s!"{n}:{r}"} {sh.closeRow}"] ++
    sh.rows.map (fun r => s!"JR {r.sheet} {r.row} {r.month} {r.day} {r.typ} {so sr r.pAmt} {so sr r.pYen} {so sr r.sAmt} {so sr r.sYen} {sr r.fee}")) []

def runCli (c : RCase) (script method lang pfx only plugin : String) : List String :=
  let acctName (i : Nat) : String := match c.accts.find? (·.1 == i) with | some (_, e, h) => s!"{e}_{h}" | none => ""
  let holderOf (i : Nat) : String := match c.accts.find? (·.1 == i) with | some (_, _, h) => h | none => ""
  let opt (s : String) : Option String := if s == "-" then none else some s
  let o : Cli.Options := { script, method := opt method, lang := opt lang, fromD := c.fromDay, toD := c.toDay, allowNeg := c.allowNeg,
                           only := opt only, pluginFlag := plugin == "1", pfx := if pfx == "-" then "" else pfx, cfgSched := c.cfgSched.reverse }
  let sheets : List Cli.AssetIn := c.assets.reverse.map fun a => ⟨a.name, a.ins.reverse, a.outs.reverse, a.intras.reverse⟩
  let out := if c.useIni then Cli.runIni o (c.ini.map fun secs => secs.reverse.map fun s => { s with items := s.items.reverse }) (c.grids.reverse.map fun g => (g.1, g.2.reverse))
             else if c.grids.isEmpty then Cli.run o acctName holderOf c.cfgAssets.reverse sheets
             else Cli.runCells o c.pcfg (c.grids.reverse.map fun g => (g.1, g.2.reverse))
  [s!"EXIT {out.exit} {out.stage.replace " " "_"}", s!"LEGEND {out.legendMethod.replace " " "_"}"] ++
  out.files.foldl (fun acc (name, rep) =>
    acc ++ [s!"FILE {name}"] ++ (match rep with
      | .full rows => rows.map showRow
      | .tax rows sheets => rows.map showTRow ++ [s!"SHEETS {",".intercalate (sheets.map (·.replace " " "_"))}"]
      | .openPos a e ts =>
        a.map (fun r => s!"OA {r.row} {r.asset} {r.holder} {sr r.bal} {sr r.unit} {sr r.cost} {sr r.weight}") ++
        e.map (fun r => s!"OE {r.row} {r.asset} {r.holder} {r.acct} {sr r.bal} {sr r.unit} {sr r.cost} {sr r.weight}") ++
        ts.map (fun (t, r, h) => s!"OT {t} {r} {h}")
      | .jp shs => showJ shs)) []

def updHead (c : RCase) (f : AssetIn → AssetIn) : RCase :=
  match c.assets with
  | [] => c
  | a :: t => { c with assets := f a :: t }

partial def loop (h : IO.FS.Stream) (c : RCase) : IO Unit := do
  let line ← h.getLine
  if line.isEmpty then return ()
  match line.trimAscii.toString.splitOn " " with
  | ["CFG", period, neg, fromD, toD, clear, sdef] =>
    loop h { c with period := period.toInt!, allowNeg := neg == "1", fromDay := optInt fromD, toDay := optInt toD, clear := clear == "1", sdef := sdef == "1" }
  | ["SCHED", y, m] => loop h { c with sched := (y.toInt!, parseMethod m) :: c.sched }
  | ["ACCT", i, e, ho] => loop h { c with accts := (i.toNat!, unhex e, unhex ho) :: c.accts }
  | ["ASSET", n] => loop h { c with assets := { name := unhex n } :: c.assets }
  | ["IN", row, us, off, typ, acct, price, amt, ff, fnf, fwf] =>
    loop h (updHead c fun a => { a with ins := mkIn row.toInt! ⟨us.toInt!, off.toInt!⟩ acct.toNat! (typOf typ) price.toInt! amt.toInt! (optInt ff) (optInt fnf) (optInt fwf) :: a.ins })
  | ["OUT", row, us, off, typ, acct, price, amt, fee, owf, fnf, ff] =>
    loop h (updHead c fun a => { a with outs := mkOut row.toInt! ⟨us.toInt!, off.toInt!⟩ acct.toNat! (typOf typ) price.toInt! amt.toInt! fee.toInt! (optInt owf) (optInt fnf) (optInt ff) :: a.outs })
  | ["INTRA", row, us, off, src, dst, price, sent, recv] =>
    loop h (updHead c fun a => { a with intras := mkIntra row.toInt! ⟨us.toInt!, off.toInt!⟩ src.toNat! dst.toNat! price.toInt! sent.toInt! recv.toInt! :: a.intras })
  | ["REPORT"] =>
    for l in runR c do IO.println l
    IO.println "END"
    loop h c
  | ["TAX", lm] =>
    for l in runT c (lm == "1") do IO.println l
    IO.println "END"
    loop h c
  | ["OPEN"] =>
    for l in runO c do IO.println l
    IO.println "END"
    loop h c
  | ["JP", sy] =>
    for l in runJ c (sy == "1") do IO.println l
    IO.println "END"
    loop h c
  | ["A", x] => loop h { c with pcfg := { c.pcfg with assets := c.pcfg.assets ++ [unhex x] } }
  | ["X", x] => loop h { c with pcfg := { c.pcfg with exchanges := c.pcfg.exchanges ++ [unhex x] } }
  | ["H", x] => loop h { c with pcfg := { c.pcfg with holders := c.pcfg.holders ++ [unhex x] } }
  | ["C", "in", f, col] => loop h { c with pcfg := { c.pcfg with inCols := c.pcfg.inCols ++ [(f, col.toNat!)] } }
  | ["C", "out", f, col] => loop h { c with pcfg := { c.pcfg with outCols := c.pcfg.outCols ++ [(f, col.toNat!)] } }
  | ["C", "intra", f, col] => loop h { c with pcfg := { c.pcfg with intraCols := c.pcfg.intraCols ++ [(f, col.toNat!)] } }
  | ["ININONE"] => loop h { c with useIni := true, ini := none }
  | ["INIEMPTY"] => loop h { c with useIni := true, ini := some [] }
  | ["INISEC", n] => loop h { c with useIni := true, ini := some ({ name := unhex (n.drop 1).toString, items := [] } :: c.ini.getD []) }
  | ["INIKV", k, v] => loop h { c with ini := match c.ini with | some (s :: t) => some ({ s with items := (unhex (k.drop 1).toString, unhex (v.drop 1).toString) :: s.items } :: t) | x => x }
  | ["S", a] => loop h { c with grids := (unhex a, []) :: c.grids }
  | "R" :: cells => loop h { c with grids := match c.grids with | [] => [] | (n, rs) :: t => (n, cells.map parseCell :: rs) :: t }
  | ["CSCHED", y, m] => loop h { c with cfgSched := (y.toInt!, m) :: c.cfgSched }
  | ["CFGASSET", n] => loop h { c with cfgAssets := unhex n :: c.cfgAssets }
  | ["CLI", script, method, lang, pfx, only, plugin] =>
    for l in runCli c script method lang pfx (if only == "-" then "-" else unhex only) plugin do IO.println l
    IO.println "END"
    loop h c
  | ["RESET"] => loop h {}
  | _ => IO.println "bad-op"; loop h c

def main : IO Unit := do loop (← IO.getStdin) {}
