import Rp2.Model.Parser
open Rp2

def hexVal (c : Char) : Nat :=
  if c.isDigit then c.toNat - '0'.toNat else if 'a' ≤ c && c ≤ 'f' then c.toNat - 'a'.toNat + 10 else 0
def unhex (s : String) : String :=
  let rec go : List Char → List UInt8 → List UInt8
    | a :: b :: t, acc => go t (acc ++ [(hexVal a * 16 + hexVal b).toUInt8])
    | _, acc => acc
  (String.fromUTF8? (ByteArray.mk (go s.toList []).toArray)).getD ""

def parseRat (s : String) : Rat :=
  match s.splitOn "/" with
  | [n, d] => (n.toInt! : Rat) / (d.toNat! : Rat)
  | _ => 0

def parseCell (tok : String) : Cell :=
  if tok == "E" then .empty
  else if tok.startsWith "N" then .num (parseRat (tok.drop 1).toString)
  else
    match (tok.drop 1).toString.splitOn ":" with
    | [h, info] =>
      let ts : TsInfo :=
        if info == "B" then .bad else if info == "Z" then .naive
        else match (info.drop 1).toString.splitOn "," with
          | [us, off] => .aware us.toInt! off.toInt!
          | _ => .bad
      .str (unhex h) ts
    | _ => .empty

structure PCase where
  cfg : Config := ⟨[], [], [], [], [], []⟩
  asset : String := ""
  rows : List (List Cell) := []

def showRat (r : Rat) : String := s!"{r.num}/{r.den}"

def runP (c : PCase) : List String :=
  let cfg := c.cfg
  let acct (ex ho : String) : Nat := (cfg.exchanges.idxOf ex) * 1000 + cfg.holders.idxOf ho
  match parseSheet cfg c.asset acct c.rows.reverse with
  | .error _ => ["ERR"]
  | .ok p =>
    p.ins.map (fun t => s!"IN {t.row} {t.ts.us} {t.ts.off} {t.typ.name} {t.acct} {t.price} {t.amount} {showRat t.fiatFee} {showRat t.fiatNoFee} {showRat t.fiatWithFee}") ++
    p.outs.map (fun t => s!"OUT {t.row} {t.ts.us} {t.ts.off} {t.typ.name} {t.acct} {t.price} {t.outNoFee} {t.fee} {t.outWithFee} {showRat t.fiatNoFee} {showRat t.fiatFee}") ++
    p.intras.map (fun t => s!"INTRA {t.row} {t.ts.us} {t.ts.off} {t.src} {t.dst} {t.price} {t.sent} {t.recv} {showRat t.fiatFee}")

partial def loop (h : IO.FS.Stream) (c : PCase) : IO Unit := do
  let line ← h.getLine
  if line.isEmpty then return ()
  match line.trimAscii.toString.splitOn " " with
  | ["A", x] => loop h { c with cfg := { c.cfg with assets := c.cfg.assets ++ [unhex x] } }
  | ["X", x] => loop h { c with cfg := { c.cfg with exchanges := c.cfg.exchanges ++ [unhex x] } }
  | ["H", x] => loop h { c with cfg := { c.cfg with holders := c.cfg.holders ++ [unhex x] } }
  | ["C", "in", f, col] => loop h { c with cfg := { c.cfg with inCols := c.cfg.inCols ++ [(f, col.toNat!)] } }
  | ["C", "out", f, col] => loop h { c with cfg := { c.cfg with outCols := c.cfg.outCols ++ [(f, col.toNat!)] } }
  | ["C", "intra", f, col] => loop h { c with cfg := { c.cfg with intraCols := c.cfg.intraCols ++ [(f, col.toNat!)] } }
  | ["S", a] => loop h { c with asset := unhex a }
  | "R" :: cells => loop h { c with rows := cells.map parseCell :: c.rows }
  | ["P"] =>
    for l in runP c do IO.println l
    IO.println "END"
    loop h {}
  | _ => IO.println "bad-op"; loop h c

def main : IO Unit := do loop (← IO.getStdin) {}
