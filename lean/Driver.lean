import Rp2.Model.Report
open Rp2

structure Case where
  period : Int := 365
  allowNeg : Bool := false
  fromDay : Option Int := none
  toDay : Option Int := none
  sched : List (Int × Method) := []
  ins : List InTx := []
  outs : List OutTx := []
  intras : List IntraTx := []

def optInt (s : String) : Option Int := if s == "-" then none else s.toInt?
def parseMethod : String → Method
  | "fifo" => .fifo | "lifo" => .lifo | "hifo" => .hifo | _ => .lofo
def showRat (r : Rat) : String := s!"{r.num}/{r.den}"
def showOptNat : Option Nat → String | none => "-" | some n => toString n
def typOf (s : String) : TxType := (TxType.ofString? s).getD .buy

def runCase (c : Case) : List String :=
  match compute "B1" (fun i => toString i) c.period c.allowNeg c.fromDay c.toDay c.sched.reverse c.ins.reverse c.outs.reverse c.intras.reverse with
  | .error e => [s!"ERR {e}"]
  | .ok cd =>
      let fl := (cd.fracs.zip cd.fracRun).map fun (n, run) =>
        let f := n.f
        s!"F {f.ev.row} {match f.lot with | none => "-" | some l => toString l.row} {f.amt} {showRat f.proceeds} {showRat f.cost} {showRat f.gain} {if f.isLong c.period then 1 else 0} {n.evK} {n.evN} {showOptNat n.lotK} {showOptNat n.lotN} {f.ev.typ.name} {showRat run}"
      let yl := cd.yearly.map fun (k, s) => s!"Y {k.year} {k.typ.name} {if k.long then 1 else 0} {showRat s.amt} {showRat s.fiat} {showRat s.cost} {showRat s.gain}"
      let bl := cd.bals.map fun b => s!"B {b.acct} {b.acq} {b.sent} {b.recv} {b.fin}"
      let vl := [" ".intercalate ("V in" :: cd.ins.map (fun t => toString t.row)), " ".intercalate ("V out" :: cd.outs.map (fun t => toString t.row)),
                 " ".intercalate ("V intra" :: cd.intras.map (fun t => toString t.row))]
      let sl := cd.ins.map fun t => s!"S {t.row} {showRat ((lookupI t.row cd.sold).getD 0)} {showRat ((lookupI t.row cd.inRun).getD 0)}"
      let ol := cd.outs.map fun t => let r := (lookupI t.row cd.outRun).getD (0, 0); s!"RO {t.row} {showRat r.1} {showRat r.2}"
      let xl := cd.intras.map fun t => s!"RX {t.row} {showRat ((lookupI t.row cd.intraRun).getD 0)}"
      fl ++ yl ++ bl ++ vl ++ sl ++ ol ++ xl ++ [s!"P {showRat cd.price}"]

partial def loop (h : IO.FS.Stream) (c : Case) : IO Unit := do
  let line ← h.getLine
  if line.isEmpty then return ()
  match line.trimAscii.toString.splitOn " " with
  | ["CFG", period, neg, fromD, toD] =>
    loop h { c with period := period.toInt!, allowNeg := neg == "1", fromDay := optInt fromD, toDay := optInt toD }
  | ["SCHED", y, m] => loop h { c with sched := (y.toInt!, parseMethod m) :: c.sched }
  | ["IN", row, us, off, typ, acct, price, amt, ff, fnf, fwf] =>
    loop h { c with ins := mkIn row.toInt! ⟨us.toInt!, off.toInt!⟩ acct.toNat! (typOf typ) price.toInt! amt.toInt! (optInt ff) (optInt fnf) (optInt fwf) :: c.ins }
  | ["OUT", row, us, off, typ, acct, price, amt, fee, owf, fnf, ff] =>
    loop h { c with outs := mkOut row.toInt! ⟨us.toInt!, off.toInt!⟩ acct.toNat! (typOf typ) price.toInt! amt.toInt! fee.toInt! (optInt owf) (optInt fnf) (optInt ff) :: c.outs }
  | ["INTRA", row, us, off, src, dst, price, sent, recv] =>
    loop h { c with intras := mkIntra row.toInt! ⟨us.toInt!, off.toInt!⟩ src.toNat! dst.toNat! price.toInt! sent.toInt! recv.toInt! :: c.intras }
  | ["D", op, a, b] =>
    let parse (t : String) : Rat := match t.splitOn "/" with
      | [n, d] => (n.toInt! : Rat) / (d.toNat! : Rat)
      | _ => 0
    let x := parse a; let y := parse b
    let out : String := match op with
      | "add" => showRat (dadd x y) | "sub" => showRat (dsub x y) | "mul" => showRat (dmul x y)
      | "div" => if y = 0 then "div0" else showRat (ddiv x y)
      | "q13" => showRat (quant 13 x) | "q10" => showRat (quant 10 x) | "q11" => showRat (quant 11 x)
      | "gt" => (if gt13 x y then "1" else "0") | "eq" => (if eq13 x y then "1" else "0")
      | _ => "bad-op"
    IO.println out
    loop h c
  | ["RUN"] =>
    for l in runCase c do IO.println l
    IO.println "END"
    loop h {}
  | _ => IO.println "bad-op"; loop h c

def main : IO Unit := do loop (← IO.getStdin) {}
