import Rp2.Model.Pipeline
open Rp2

structure Case where
  period : Int := 365
  allowNeg : Bool := false
  fromDay : Option Int := none
  toDay : Option Int := none
  sched : List (Int × Method) := []
  ins : List InTx := []
  outs : List OutTx := []
  intras : List IntraTx := []

def optInt (s : String) : Option Int := if s == "-" then none else s.toInt?
def parseMethod : String → Method
  | "fifo" => .fifo | "lifo" => .lifo | "hifo" => .hifo | _ => .lofo
def showRat (r : Rat) : String := s!"{r.num}/{r.den}"
def showOptNat : Option Nat → String | none => "-" | some n => toString n
def typOf (s : String) : TxType := (TxType.ofString? s).getD .buy

def viewFilter {α} (day : α → Int) (fromD toD : Option Int) (l : List α) : List α :=
  (cutAt day toD l).filter (fun x => match fromD with | none => true | some f => decide (f ≤ day x))

def runCase (c : Case) : List String :=
  match computeFractions c.sched.reverse c.ins.reverse c.outs.reverse c.intras.reverse with
  | .error e => [s!"ERR {repr e}"]
  | .ok fs =>
    match balances c.allowNeg c.toDay c.ins.reverse c.outs.reverse c.intras.reverse with
    | .error a => [s!"ERR overdrawn {a}"]
    | .ok bs =>
      let cut := cutAt (fun f : Fraction => f.ev.ts.day) c.toDay fs
      let numbered := numberFractions cut
      let shown := numbered.filter (fun n => match c.fromDay with | none => true | some f => decide (f ≤ n.f.ev.ts.day))
      let fl := shown.map fun n =>
        let f := n.f
        s!"F {f.ev.row} {match f.lot with | none => "-" | some l => toString l.row} {f.amt} {showRat f.proceeds} {showRat f.cost} {showRat f.gain} {if f.isLong c.period then 1 else 0} {n.evK} {n.evN} {showOptNat n.lotK} {showOptNat n.lotN} {f.ev.typ.name}"
      let fromYear : Option Int := c.fromDay.map (fun d => (civilFromDays d).1)
      let ys := (yearly c.period cut).filter (fun (k, _) => match fromYear with | none => true | some y => decide (y ≤ k.year))
      let yl := ys.map fun (k, s) => s!"Y {k.year} {k.typ.name} {if k.long then 1 else 0} {showRat s.amt} {showRat s.fiat} {showRat s.cost} {showRat s.gain}"
      let bl := bs.map fun b => s!"B {b.acct} {b.acq} {b.sent} {b.recv} {b.fin}"
      let vi := viewFilter (fun t : InTx => t.ts.day) c.fromDay c.toDay (sortByTs (·.ts.us) c.ins.reverse)
      let vo := viewFilter (fun t : OutTx => t.ts.day) c.fromDay c.toDay (sortByTs (·.ts.us) c.outs.reverse)
      let vx := viewFilter (fun t : IntraTx => t.ts.day) c.fromDay c.toDay (sortByTs (·.ts.us) c.intras.reverse)
      let vl := [" ".intercalate ("V in" :: vi.map (fun t => toString t.row)), " ".intercalate ("V out" :: vo.map (fun t => toString t.row)),
                 " ".intercalate ("V intra" :: vx.map (fun t => toString t.row))]
      fl ++ yl ++ bl ++ vl ++ [s!"P {showRat (pricePerUnit c.toDay c.ins.reverse)}"]

partial def loop (h : IO.FS.Stream) (c : Case) : IO Unit := do
  let line ← h.getLine
  if line.isEmpty then return ()
  match line.trimAscii.toString.splitOn " " with
  | ["CFG", period, neg, fromD, toD] =>
    loop h { c with period := period.toInt!, allowNeg := neg == "1", fromDay := optInt fromD, toDay := optInt toD }
  | ["SCHED", y, m] => loop h { c with sched := (y.toInt!, parseMethod m) :: c.sched }
  | ["IN", row, us, off, typ, acct, price, amt, ff, fnf, fwf] =>
    loop h { c with ins := mkIn row.toInt! ⟨us.toInt!, off.toInt!⟩ acct.toNat! (typOf typ) price.toInt! amt.toInt! (optInt ff) (optInt fnf) (optInt fwf) :: c.ins }
  | ["OUT", row, us, off, typ, acct, price, amt, fee, owf, fnf, ff] =>
    loop h { c with outs := mkOut row.toInt! ⟨us.toInt!, off.toInt!⟩ acct.toNat! (typOf typ) price.toInt! amt.toInt! fee.toInt! (optInt owf) (optInt fnf) (optInt ff) :: c.outs }
  | ["INTRA", row, us, off, src, dst, price, sent, recv] =>
    loop h { c with intras := mkIntra row.toInt! ⟨us.toInt!, off.toInt!⟩ src.toNat! dst.toNat! price.toInt! sent.toInt! recv.toInt! :: c.intras }
  | ["RUN"] =>
    for l in runCase c do IO.println l
    IO.println "END"
    loop h {}
  | _ => IO.println "bad-op"; loop h c

def main : IO Unit := do loop (← IO.getStdin) {}
