import Rp2.Props.Tables.Formulas
import Rp2.Props.Tables.Consts
import Rp2.Proofs.RoundErr
import Rp2.Proofs.Accuracy
/-! # C04 — proceeds, cost basis and gain of every fraction are arithmetically exact
`d*` operations are `rnd 31 ∘ exact` (Python's 31-digit decimal context, validated bit-exactly by the Dec stream). -/
namespace Rp2.C04
open Rp2

/-- the formulas, stated outright: multiply first, divide last, both in the 31-digit decimal model -/
theorem proceeds_formula (f : Fraction) :
    f.proceeds = rnd 31 (rnd 31 (f.ev.fiatTaxable * ofUnits f.amt) / ofUnits f.ev.amount) := rfl
theorem cost_formula (f : Fraction) (l : InTx) (h : f.lot = some l) :
    f.cost = rnd 31 (rnd 31 (l.fiatWithFee * ofUnits f.amt) / ofUnits l.amount) := by
  simp [Fraction.cost, h, ddiv, dmul]
theorem income_cost_zero (f : Fraction) (h : f.lot = none) : f.cost = 0 := by simp [Fraction.cost, h]
theorem gain_formula (f : Fraction) : f.gain = rnd 31 (f.proceeds - f.cost) := rfl

/-- the event's taxable fiat value: fee value for fee-typed disposals, sale value excluding fee otherwise,
    fiat value incl. fee for income, fee value for transfers -/
theorem taxable_value_out (t : OutTx) : t.toEv.fiatTaxable = if t.typ = .fee then t.fiatFee else t.fiatNoFee := rfl
theorem taxable_value_in (t : InTx) : t.toEv.fiatTaxable = t.fiatWithFee := rfl
theorem taxable_value_intra (t : IntraTx) : t.toEv.fiatTaxable = t.fiatFee := rfl

/-- exchange-supplied fiat values are used in place of amount × spot price -/
theorem supplied_in_some (row ts acct typ price amount) (fee wf : Option Int) (v : Int) :
    (mkIn row ts acct typ price amount fee (some v) wf).fiatNoFee = ofUnits v := rfl
theorem supplied_in_none (row ts acct typ price amount) (fee wf : Option Int) :
    (mkIn row ts acct typ price amount fee none wf).fiatNoFee = rnd 31 (ofUnits amount * ofUnits price) := rfl
theorem supplied_in_with_fee_some (row ts acct typ price amount) (fee nf : Option Int) (v : Int) :
    (mkIn row ts acct typ price amount fee nf (some v)).fiatWithFee = ofUnits v := rfl
theorem supplied_in_with_fee_none (row ts acct typ price amount) (fee nf : Option Int) :
    (mkIn row ts acct typ price amount fee nf none).fiatWithFee =
      rnd 31 ((mkIn row ts acct typ price amount fee nf none).fiatNoFee + (mkIn row ts acct typ price amount fee nf none).fiatFee) := rfl
theorem supplied_out_some (row ts acct typ price o fee) (w ff : Option Int) (v : Int) :
    (mkOut row ts acct typ price o fee w (some v) ff).fiatNoFee = ofUnits v := rfl
theorem supplied_out_none (row ts acct typ price o fee) (w ff : Option Int) :
    (mkOut row ts acct typ price o fee w none ff).fiatNoFee = rnd 31 (ofUnits o * ofUnits price) := rfl
theorem supplied_out_fee_some (row ts acct typ price o fee) (w nf : Option Int) (v : Int) :
    (mkOut row ts acct typ price o fee w nf (some v)).fiatFee = ofUnits v := rfl
theorem supplied_out_fee_none (row ts acct typ price o fee) (w nf : Option Int) :
    (mkOut row ts acct typ price o fee w nf none).fiatFee = rnd 31 (ofUnits fee * ofUnits price) := rfl

/-- parts add back to the whole in exact arithmetic: an event's fractions to its taxable value, a fully consumed
    lot's fractions to its full cost (`as` = the pieces, `E` = event amount / lot amount) -/
theorem parts_add_to_whole (F E : ℚ) (hE : E ≠ 0) (as : List ℚ) (hsum : as.sum = E) :
    (as.map (fun a => F * a / E)).sum = F := prorate_sum F E hE as hsum

/-- two correctly rounded operations lose at most 2ε+ε² relative -/
theorem two_roundings_bound (r : ℚ → ℚ) (ε : ℚ) (hε : 0 ≤ ε) (hr : ∀ x, |r x - x| ≤ ε * |x|) (F a E : ℚ) (hE : E ≠ 0) :
    |r (r (F * a) / E) - F * a / E| ≤ (2 * ε + ε ^ 2) * |F * a / E| := two_roundings r ε hε hr F a E hE

/-- the integer rounding used by the decimal model is within one half -/
theorem round_half_even_err (n d : Nat) (hd : 0 < d) :
    |((roundHalfEvenNat n d : Nat) : ℚ) - (n : ℚ) / (d : ℚ)| ≤ 1 / 2 := roundHalfEvenNat_err n d hd
/-- tie: 31-digit half-even decimal context with the float trap set, 13-decimal comparisons, `%.11f` cell conversion -/
theorem decimal_context : Gen.prec = 31 ∧ Gen.rounding = "ROUND_HALF_EVEN" ∧ Gen.floatTrap = true ∧ Gen.cryptoDecimals = 13 ∧ Gen.balanceDecimals = 10 ∧
    Gen.tableEnd = "TABLE END" ∧ Gen.parserFormatSpecs = ["f'.11f'"] := Tables.consts_agree
/-- one operation of the 31-digit decimal model (Python's context, validated bit-exactly) is within 5·10⁻³¹ relative -/
theorem decimal_operation_error (x : ℚ) : |rnd 31 x - x| ≤ eps31 * |x| := rnd31_err x
theorem rounding_to_p_digits (p : Nat) (hp : 1 ≤ p) (x : ℚ) : |rnd p x - x| ≤ |x| / (2 * 10 ^ (p - 1)) := rnd_rel_err p hp x
/-- proceeds agree with exact rational arithmetic to (2ε+ε²) ≈ 10⁻³⁰ relative -/
theorem proceeds_agree_with_exact (f : Fraction) (hE : f.ev.amount ≠ 0) :
    |f.proceeds - f.ev.fiatTaxable * ofUnits f.amt / ofUnits f.ev.amount| ≤
      (2 * eps31 + eps31 ^ 2) * |f.ev.fiatTaxable * ofUnits f.amt / ofUnits f.ev.amount| := proceeds_accuracy f hE
theorem cost_agrees_with_exact (f : Fraction) (l : InTx) (hl : f.lot = some l) (hA : l.amount ≠ 0) :
    |f.cost - l.fiatWithFee * ofUnits f.amt / ofUnits l.amount| ≤
      (2 * eps31 + eps31 ^ 2) * |l.fiatWithFee * ofUnits f.amt / ofUnits l.amount| := cost_accuracy f l hl hA
/-- gain agrees with exact proceeds − exact cost, relative to the operands -/
theorem gain_agrees_with_exact (p c pX cX δ : ℚ) (hδ : 0 ≤ δ) (hp : |p - pX| ≤ δ * |pX|) (hc : |c - cX| ≤ δ * |cX|) :
    |rnd 31 (p - c) - (pX - cX)| ≤ (δ + eps31 * (1 + δ)) * (|pX| + |cX|) := gain_accuracy p c pX cX δ hδ hp hc
theorem error_constants : 2 * eps31 + eps31 ^ 2 ≤ 101 / 100 * (1 / 10 ^ 30) ∧
    (2 * eps31 + eps31 ^ 2) + eps31 * (1 + (2 * eps31 + eps31 ^ 2)) ≤ 151 / 100 * (1 / 10 ^ 30) := constants_small

/-! ## Translator tie: the Python bodies themselves (regenerated on every run, `Gen/Formulas.lean`) -/
section Translator
open Rp2.Gen.F
/-- what `GainLoss.taxable_event_fiat_amount_with_fee_fraction`, `fiat_cost_basis` and `fiat_gain` compute — their bodies translated from
    the source — is `proceeds`, `cost`, `gain` of the model (`none` = the internal-error raise for a lot-less disposal) -/
theorem source_formulas_are_the_models (f : Fraction) :
    GainLoss_taxable_event_fiat_amount_with_fee_fraction f = some f.proceeds ∧
    GainLoss_fiat_cost_basis f = (if Tables.lotlessDisposal f then none else some f.cost) ∧
    GainLoss_fiat_gain f = (if Tables.lotlessDisposal f then none else some f.gain) ∧
    GainLoss_acquired_lot_fiat_amount_with_fee_fraction f = some f.cost :=
  ⟨Tables.gainloss_proceeds f, Tables.gainloss_cost f, Tables.gainloss_gain f, Tables.gainloss_lot_amount_fraction f⟩
/-- the taxable fiat value and the amount to match of each transaction class, as the source computes them, are the event view of the model -/
theorem source_event_views_are_the_models (i : InTx) (hi : i.typ.isEarn = true) (o : OutTx) (x : IntraTx) :
    (InTransaction_crypto_balance_change i = some (ofUnits i.toEv.amount) ∧ InTransaction_fiat_taxable_amount i = some i.toEv.fiatTaxable) ∧
    (OutTransaction_crypto_balance_change o = some (ofUnits o.toEv.amount) ∧ OutTransaction_fiat_taxable_amount o = some o.toEv.fiatTaxable) ∧
    (IntraTransaction_crypto_balance_change x = some (ofUnits x.toEv.amount) ∧ IntraTransaction_fiat_taxable_amount x = some x.toEv.fiatTaxable) :=
  ⟨⟨(Tables.in_event_view i hi).1, (Tables.in_event_view i hi).2.1⟩, ⟨(Tables.out_event_view o).1, (Tables.out_event_view o).2.1⟩,
   ⟨(Tables.intra_event_view x).1, (Tables.intra_event_view x).2.1⟩⟩
/-- the constructors' derivations of the fiat fields (symbolic execution of the three `__init__` bodies) are `mkIn`, `mkOut`, `mkIntra` -/
theorem source_constructors_are_the_models_in (row : Int) (ts : Stamp) (acct : Nat) (typ : TxType) (price amount : Int) (ff nf wf : Option Int) :
    let t := mkIn row ts acct typ price amount ff nf wf
    InTransaction_init_fiat_fee typ (ofUnits price) (ofUnits amount) none (nf.map ofUnits) (wf.map ofUnits) (ff.map ofUnits) = t.fiatFee ∧
    InTransaction_init_fiat_in_no_fee typ (ofUnits price) (ofUnits amount) none (nf.map ofUnits) (wf.map ofUnits) (ff.map ofUnits) = t.fiatNoFee ∧
    InTransaction_init_fiat_in_with_fee typ (ofUnits price) (ofUnits amount) none (nf.map ofUnits) (wf.map ofUnits) (ff.map ofUnits) = t.fiatWithFee :=
  Tables.in_init_is_mkIn row ts acct typ price amount ff nf wf
theorem source_constructors_are_the_models_out (row : Int) (ts : Stamp) (acct : Nat) (typ : TxType) (price o fee : Int) (w nf ff : Option Int)
    (hsize : (o + fee).natAbs < 10 ^ 31) :
    let t := mkOut row ts acct typ price o fee w nf ff
    OutTransaction_init_crypto_out_no_fee typ (ofUnits price) (ofUnits o) (ofUnits fee) (w.map ofUnits) (nf.map ofUnits) (ff.map ofUnits) = ofUnits t.outNoFee ∧
    OutTransaction_init_crypto_fee typ (ofUnits price) (ofUnits o) (ofUnits fee) (w.map ofUnits) (nf.map ofUnits) (ff.map ofUnits) = ofUnits t.fee ∧
    OutTransaction_init_crypto_out_with_fee typ (ofUnits price) (ofUnits o) (ofUnits fee) (w.map ofUnits) (nf.map ofUnits) (ff.map ofUnits) = ofUnits t.outWithFee ∧
    OutTransaction_init_fiat_out_no_fee typ (ofUnits price) (ofUnits o) (ofUnits fee) (w.map ofUnits) (nf.map ofUnits) (ff.map ofUnits) = t.fiatNoFee ∧
    OutTransaction_init_fiat_fee typ (ofUnits price) (ofUnits o) (ofUnits fee) (w.map ofUnits) (nf.map ofUnits) (ff.map ofUnits) = t.fiatFee :=
  Tables.out_init_is_mkOut row ts acct typ price o fee w nf ff hsize
theorem source_constructors_are_the_models_intra (row : Int) (ts : Stamp) (src dst : Nat) (price sent recv : Int)
    (hsize : (sent - recv).natAbs < 10 ^ 31) (hp : eq13 (ofUnits price) 0 = false) :
    let t := mkIntra row ts src dst price sent recv
    IntraTransaction_init_crypto_fee (some (ofUnits price)) (ofUnits sent) (ofUnits recv) = ofUnits (t.sent - t.recv) ∧
    IntraTransaction_init_spot_price (some (ofUnits price)) (ofUnits sent) (ofUnits recv) = ofUnits t.price ∧
    IntraTransaction_init_fiat_fee (some (ofUnits price)) (ofUnits sent) (ofUnits recv) = t.fiatFee :=
  Tables.intra_init_is_mkIntra row ts src dst price sent recv hsize hp
/-- and the parser model's IN row (crypto fee still attached) computes the same three fiat fields as the translated constructor -/
theorem source_in_row_values (cfg : Config) (asset : String) (acct : String → String → Nat) (r : Nat) (row : List Cell) (p : ParsedIn)
    (h : mkInRow cfg asset acct r row = .ok p) :
    ∃ cfee fnf fwf ffee,
      numArg cfg.inCols row "crypto_fee" = .ok cfee ∧ numArg cfg.inCols row "fiat_in_no_fee" = .ok fnf ∧
      numArg cfg.inCols row "fiat_in_with_fee" = .ok fwf ∧ numArg cfg.inCols row "fiat_fee" = .ok ffee ∧
      p.cryptoFee = (optNum cfee).getD 0 ∧
      p.tx.fiatFee = InTransaction_init_fiat_fee p.tx.typ (ofUnits p.tx.price) (ofUnits p.tx.amount)
        ((optNum cfee).map ofUnits) ((optNum fnf).map ofUnits) ((optNum fwf).map ofUnits) ((optNum ffee).map ofUnits) ∧
      p.tx.fiatNoFee = InTransaction_init_fiat_in_no_fee p.tx.typ (ofUnits p.tx.price) (ofUnits p.tx.amount)
        ((optNum cfee).map ofUnits) ((optNum fnf).map ofUnits) ((optNum fwf).map ofUnits) ((optNum ffee).map ofUnits) ∧
      p.tx.fiatWithFee = InTransaction_init_fiat_in_with_fee p.tx.typ (ofUnits p.tx.price) (ofUnits p.tx.amount)
        ((optNum cfee).map ofUnits) ((optNum fnf).map ofUnits) ((optNum fwf).map ofUnits) ((optNum ffee).map ofUnits) :=
  Tables.mkInRow_fiat_fields_are_translated cfg asset acct r row p h
/-- crypto amounts live on the 10⁻¹¹ grid, where the 31-digit decimal arithmetic is exact: no rounding enters sums of amounts -/
theorem grid_arithmetic_is_exact (a b : Int) (h : (a + b).natAbs < 10 ^ 31) (h' : (a - b).natAbs < 10 ^ 31) :
    dadd (ofUnits a) (ofUnits b) = ofUnits (a + b) ∧ dsub (ofUnits a) (ofUnits b) = ofUnits (a - b) :=
  ⟨dadd_grid_exact a b h, dsub_grid_exact a b h'⟩
theorem every_formula_accounted_for : (Gen.F.translated ++ Gen.F.untranslated).length = 37 := Tables.formulas_accounted_for
end Translator

end Rp2.C04
