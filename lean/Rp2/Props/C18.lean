import Rp2.Props.Tables.Imports
import Rp2.Proofs.CliFiles
import Rp2.Proofs.IniCli
/-! # C18 — no network, no subprocess, writes confined to the output and log directories -/
namespace Rp2.C18
open Rp2 Rp2.Tables
/-- no module of the rp2 package imports a networking or process facility (table rebuilt from every .py file on each run) -/
theorem no_networking_or_process_import : (Gen.imports.all fun m => m.2.all fun i => !(forbidden.contains i)) = true := no_network_import
theorem no_process_or_dynamic_code_call : Gen.dangerousCalls = [] := no_dangerous_call
theorem dynamic_imports_load_rp2_plugins_only : Gen.dynamicImports =
    [("rp2/rp2_main.py", "_ACCOUNTING_METHOD_PACKAGE"), ("rp2/rp2_main.py", "package_path"), ("rp2/rp2_main.py", "plugin_name"),
     ("rp2/rp2_main.py", "f'{_ACCOUNTING_METHOD_PACKAGE}.{accounting_method_name}'")] := dynamic_imports_confined
theorem own_opens_are_read_only : (Gen.opens.all fun o => o.2 == "r") = true := opens_read_only
theorem file_mutating_calls_are_log_output_and_reports : Gen.fileMutations =
    [("rp2/logger.py", "Path('./log').mkdir"), ("rp2/plugin/report/abstract_ods_generator.py", "output_file_path.unlink"),
     ("rp2/plugin/report/ie/tax_report_ie.py", "output_file.save"), ("rp2/plugin/report/jp/tax_report_jp.py", "output_file.save"),
     ("rp2/plugin/report/open_positions.py", "output_file.save"), ("rp2/plugin/report/rp2_full_report.py", "output_file.save"),
     ("rp2/plugin/report/us/tax_report_us.py", "output_file.save"), ("rp2/rp2_main.py", "output_dir_path.mkdir")] := file_mutations_confined'
/-- the files the run writes are the reports `<prefix><method>_<generator>.ods` of the output directory, nothing else -/
theorem written_files_are_reports (o : Cli.Options) (acctName holderOf : Nat → String) (cfgAssets : List String) (sheets : List Cli.AssetIn) :
    ∀ f ∈ (Cli.run o acctName holderOf cfgAssets sheets).files, ∃ m base, f.1 = Cli.fileName o.pfx m base := Cli.run_files o acctName holderOf cfgAssets sheets
/-- … and the same for the whole run from the configuration file's sections and the workbook's cells (`Cli.runIni`, what the end-to-end
    stream compares real runs with): whatever the configuration, options and cells, only report files are written -/
theorem written_files_are_reports_from_inputs (o : Cli.Options) (ini : Option (List Ini.Section)) (grids : List (String × List (List Cell))) :
    ∀ f ∈ (Cli.runIni o ini grids).files, ∃ m base, f.1 = Cli.fileName o.pfx m base := Cli.runIni_files o ini grids
end Rp2.C18
