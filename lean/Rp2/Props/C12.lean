import Rp2.Proofs.CliFiles
import Rp2.Props.Tables.Types
import Rp2.Proofs.ParseIds
import Rp2.Proofs.IniCli
import Rp2.Props.Tables.Consts
/-! # C12 — malformed or contradictory input is rejected, never silently processed
"Accepted ⇒ valid": every row that the model's constructors accept satisfies each documented constraint, so each
documented fault (the negation of one conjunct) makes the constructor fail, and a failing data row aborts the parse. -/
namespace Rp2.C12
open Rp2
theorem in_row_accepted_is_valid (cfg : Config) (asset : String) (acct : String → String → Nat) (r : Nat) (row : List Cell) (p : ParsedIn)
    (h : mkInRow cfg asset acct r row = .ok p) :
    asset ∈ cfg.assets ∧ (∃ ts, field cfg.inCols row "asset" = some (.str asset ts)) ∧
    p.exch ∈ cfg.exchanges ∧ p.holder ∈ cfg.holders ∧
    (∃ s, field cfg.inCols row "timestamp" = some (.str s (.aware p.tx.ts.us p.tx.ts.off))) ∧
    (p.tx.typ = .buy ∨ p.tx.typ = .gift ∨ p.tx.typ = .donate ∨ p.tx.typ.isEarn = true) ∧
    0 < p.tx.price ∧ (p.tx.typ ≠ .staking → 0 < p.tx.amount) ∧ 0 ≤ p.cryptoFee ∧ p.tx.row = r := mkInRow_ok cfg asset acct r row p h
theorem out_row_accepted_is_valid (cfg : Config) (asset : String) (acct : String → String → Nat) (r : Nat) (row : List Cell) (t : OutTx)
    (h : mkOutRow cfg asset acct r row = .ok t) :
    asset ∈ cfg.assets ∧ (∃ ts, field cfg.outCols row "asset" = some (.str asset ts)) ∧
    (∃ s, field cfg.outCols row "timestamp" = some (.str s (.aware t.ts.us t.ts.off))) ∧
    (t.typ = .donate ∨ t.typ = .fee ∨ t.typ = .gift ∨ t.typ = .lost ∨ t.typ = .sell ∨ t.typ = .staking) ∧
    (t.typ = .fee → t.outNoFee = 0 ∧ 0 < t.fee) ∧ (t.typ ≠ .fee → 0 < t.price ∧ 0 < t.outNoFee ∧ 0 ≤ t.fee) ∧ t.row = r := mkOutRow_ok cfg asset acct r row t h
theorem intra_row_accepted_is_valid (cfg : Config) (asset : String) (acct : String → String → Nat) (r : Nat) (row : List Cell) (t : IntraTx)
    (h : mkIntraRow cfg asset acct r row = .ok t) :
    asset ∈ cfg.assets ∧ (∃ ts, field cfg.intraCols row "asset" = some (.str asset ts)) ∧
    (∃ s, field cfg.intraCols row "timestamp" = some (.str s (.aware t.ts.us t.ts.off))) ∧
    0 < t.sent ∧ 0 ≤ t.recv ∧ t.recv ≤ t.sent ∧ (t.recv < t.sent → 0 < t.price) ∧ t.row = r := mkIntraRow_ok cfg asset acct r row t h
/-- a non-numeric cell in a numeric column is an error -/
theorem non_numeric_rejected {cols row name s ts} (h : field cols row name = some (.str s ts)) : ∃ m, numArg cols row name = .error m := numArg_str h
/-- a failing data row aborts the parse (never skipped) -/
theorem bad_row_aborts (cfg : Config) (asset : String) (acct : String → String → Nat) (i : Nat) (st : PState) (row : List Cell)
    (rest : List (List Cell)) (t : Table) (hcur : st.cur = some t) (hcount : st.count ≠ 1)
    (h0 : tableOf (row.getD 0 .empty) = none) (h1 : isEnd (row.getD 0 .empty) = false) (h2 : isEmptyCell (row.getD 0 .empty) = false)
    (m : String) (hbad : tryRow cfg asset acct t (i + 1) row st = .error m) :
    parseRows cfg asset acct i st (row :: rest) = .error (.row (i + 1) m) := parseRows_bad_row cfg asset acct i st row rest t hcur hcount h0 h1 h2 m hbad
/-- broken structure: an accepted sheet has a non-empty IN table (and every table was closed: `parseSheet` tests `cur`) -/
theorem in_table_required (cfg : Config) (asset : String) (acct : String → String → Nat) (rows : List (List Cell)) (p : Parsed)
    (h : parseSheet cfg asset acct rows = .ok p) : p.ins ≠ [] := (parseSheet_ids cfg asset acct rows p h).1
/-- command-line and input faults: exit status non-zero, nothing written -/
theorem cli_fault_rejected (o : Cli.Options) (acctName holderOf : Nat → String) (cfgAssets : List String) (sheets : List Cli.AssetIn)
    (h : Cli.OptionFault o acctName cfgAssets sheets) :
    (Cli.run o acctName holderOf cfgAssets sheets).exit ≠ 0 ∧ (Cli.run o acctName holderOf cfgAssets sheets).files = [] := Cli.run_fault_rejected o acctName holderOf cfgAssets sheets h
/-- **configuration file**: an accepted configuration has non-empty duplicate-free asset / exchange / holder lists without empty names,
    three non-empty header maps that use only the column names of their table and give every name its own column, no unknown section,
    and no accounting-method year before 1970 -/
theorem config_accepted_is_valid (secs : List Ini.Section) (c : Ini.IniConfig) (h : Ini.ofIni secs = .ok c) :
    (c.cfg.assets ≠ [] ∧ c.cfg.assets.Nodup ∧ ∀ v ∈ c.cfg.assets, v ≠ "") ∧
    (c.cfg.exchanges ≠ [] ∧ c.cfg.exchanges.Nodup ∧ ∀ v ∈ c.cfg.exchanges, v ≠ "") ∧
    (c.cfg.holders ≠ [] ∧ c.cfg.holders.Nodup ∧ ∀ v ∈ c.cfg.holders, v ≠ "") ∧
    (c.cfg.inCols ≠ [] ∧ Ini.HeaderOk Ini.inAllowed c.cfg.inCols) ∧ (c.cfg.outCols ≠ [] ∧ Ini.HeaderOk Ini.outAllowed c.cfg.outCols) ∧
    (c.cfg.intraCols ≠ [] ∧ Ini.HeaderOk Ini.intraAllowed c.cfg.intraCols) ∧
    (∀ s ∈ secs, Ini.normName s.name ∈ ["general", "in_header", "out_header", "intra_header", "accounting_methods"]) ∧
    (∀ p ∈ c.methods, 1970 ≤ p.1) := Ini.ofIni_ok secs c h
/-- a configuration file that `configparser` refuses or that `Configuration.__init__` rejects: non-zero exit status, nothing written -/
theorem config_fault_rejected (o : Cli.Options) (ini : Option (List Ini.Section)) (grids : List (String × List (List Cell)))
    (h : ini = none ∨ ∃ secs e, ini = some secs ∧ Ini.ofIni secs = .error e) :
    (Cli.runIni o ini grids).exit ≠ 0 ∧ (Cli.runIni o ini grids).files = [] := Cli.runIni_bad_config o ini grids h
/-- **workbook faults end the run**: a sheet among the assets to process that is missing, or that the parser rejects (any row or structure
    fault of the theorems above), makes the whole run exit non-zero having written nothing — no asset is computed, no report generated -/
theorem workbook_fault_rejected (o : Cli.Options) (cfg : Config) (lookup : String → Option (List (List Cell))) (a : String)
    (ha : a ∈ Cli.assetNames o cfg.assets)
    (hbad : lookup a = none ∨ ∃ g, lookup a = some g ∧ ∀ base, ∃ e, parseSheet cfg a (Cli.acctOf cfg) g base = .error e) :
    (Cli.runCellsWith o cfg lookup).exit ≠ 0 ∧ (Cli.runCellsWith o cfg lookup).files = [] := Cli.bad_sheet_rejected o cfg lookup a ha hbad
theorem header_column_table_agrees :
    (Gen.headerColumns.map (·.1) == ["in_header", "intra_header", "out_header"] &&
     Gen.headerColumns.all (fun p =>
       let allowed := if p.1 == "in_header" then Ini.inAllowed else if p.1 == "out_header" then Ini.outAllowed else Ini.intraAllowed
       p.2.all allowed.contains && allowed.all p.2.contains) && decide (Gen.minYear = 1970)) = true := Tables.header_columns_agree
/- non-vacuity (evaluated, a test: the kernel cannot reduce the string functions): a three-section-plus-general configuration is accepted;
   the same file with two names on one column is not -/
#guard (Ini.ofIni [⟨"general", [("assets", "B1, B2"), ("exchanges", "Kraken"), ("holders", "Bob")]⟩, ⟨"in_header", [("timestamp", "0"), ("asset", "1")]⟩,
    ⟨"out_header", [("timestamp", "0")]⟩, ⟨"intra_header", [("timestamp", "0")]⟩]).toBool
#guard !(Ini.ofIni [⟨"general", [("assets", "B1, B2"), ("exchanges", "Kraken"), ("holders", "Bob")]⟩, ⟨"in_header", [("timestamp", "0"), ("asset", "0")]⟩,
    ⟨"out_header", [("timestamp", "0")]⟩, ⟨"intra_header", [("timestamp", "0")]⟩]).toBool
theorem type_table_agrees : Gen.types = Tables.allTypes.map Tables.modelRow := Tables.types_agree
end Rp2.C12
