import Rp2.Proofs.JpRows
import Rp2.Proofs.JpChain
import Rp2.Proofs.JpSummary
/-! # C20 — Japanese tax report: one sheet per asset-year, chained in year order -/
namespace Rp2.C20
open Rp2
/-- for the JP report model (`jpAsset`, repaired year order): the calculation sheets are exactly the years that have a
    transaction, each once, ascending; the first sheet has no opening reference and every later sheet refers to the
    closing-balance row of the sheet of the most recent earlier year -/
theorem sheets_and_chain (c : Computed) (shs : List JSheet) (h : jpAsset true c = .ok shs) :
    let all : List JTx := c.ins.map JTx.i ++ c.outs.map JTx.o ++ c.intras.map JTx.x
    let ys := jpYears true all
    shs.map (·.name) = ys.map (jpSheetName c.asset) ∧ ys.Pairwise (· < ·) ∧
    (∀ y, y ∈ ys ↔ ∃ t ∈ all, t.ts.year = y) ∧ Chained none shs := jpAsset_spec c shs h
theorem years_sorted_once (l : List Int) :
    (sortBy (fun a b => decide (a < b)) (dedup l)).Pairwise (· < ·) ∧
    ∀ y, y ∈ sortBy (fun a b => decide (a < b)) (dedup l) ↔ y ∈ l := sorted_years_spec l
/-- rows of one asset-year sheet: every in- and out-transaction and every fee-bearing transfer exactly once, in time order, with
    its month and day, on consecutive rows; fee-less transfers are not listed -/
theorem sheet_rows_each_once (name : String) (ts : List JTx) (k : Nat) (rows : List JRow) (h : jpRows name ts k = .ok rows) :
    rows.map (fun r => (r.month, r.day)) = (ts.filter jListed).map jDate ∧
    rows.map (·.row) = List.range' (k + 1) rows.length ∧ ∀ r ∈ rows, r.sheet = name := jpRows_spec name ts k rows h
/-- the summary sheets: every asset-year sheet of the run has exactly one line — in generation order — that carries the sheet's year (the
    summary sheet `<year>_Summary` it is written to), its asset, its name and its closing-balance row; the lines of one year stand on
    consecutive rows from 8 (`RowsOk`: the row of a line is 8 + the number of earlier lines of the same year) -/
theorem summary_lines (shs : List JSheet) :
    (jpSummaries shs).map JSumLine.key = shs.map JSheet.key ∧ RowsOk (jpSummaries shs) := jpSummaries_spec shs
/-- the sheets generated for an asset are tagged with that asset and with the years they are about -/
theorem sheets_carry_asset_and_year (asset : String) (all : List JTx) (ys : List Int) (po : Nat) (py : Int) (shs : List JSheet)
    (h : jpSheets true asset all ys po py = .ok shs) : shs.map (fun s => (s.asset, s.year)) = ys.map (fun y => (asset, y)) :=
  jpSheets_tags asset all ys po py shs h
example : (jpSummaries [{ name := "A_2020", rows := [], prevRef := none, closeRow := 30, asset := "A", year := 2020 },
                        { name := "A_2022", rows := [], prevRef := none, closeRow := 31, asset := "A", year := 2022 },
                        { name := "B_2022", rows := [], prevRef := none, closeRow := 33, asset := "B", year := 2022 }]).map (fun l => (l.year, l.row, l.asset)) =
    [(2020, 8, "A"), (2022, 8, "A"), (2022, 9, "B")] := by decide
end Rp2.C20
