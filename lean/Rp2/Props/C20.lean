import Rp2.Proofs.JpRows
import Rp2.Proofs.JpChain
/-! # C20 — Japanese tax report: one sheet per asset-year, chained in year order -/
namespace Rp2.C20
open Rp2
/-- for the JP report model (`jpAsset`, repaired year order): the calculation sheets are exactly the years that have a
    transaction, each once, ascending; the first sheet has no opening reference and every later sheet refers to the
    closing-balance row of the sheet of the most recent earlier year -/
theorem sheets_and_chain (c : Computed) (shs : List JSheet) (h : jpAsset true c = .ok shs) :
    let all : List JTx := c.ins.map JTx.i ++ c.outs.map JTx.o ++ c.intras.map JTx.x
    let ys := jpYears true all
    shs.map (·.name) = ys.map (jpSheetName c.asset) ∧ ys.Pairwise (· < ·) ∧
    (∀ y, y ∈ ys ↔ ∃ t ∈ all, t.ts.year = y) ∧ Chained none shs := jpAsset_spec c shs h
theorem years_sorted_once (l : List Int) :
    (sortBy (fun a b => decide (a < b)) (dedup l)).Pairwise (· < ·) ∧
    ∀ y, y ∈ sortBy (fun a b => decide (a < b)) (dedup l) ↔ y ∈ l := sorted_years_spec l
/-- rows of one asset-year sheet: every in- and out-transaction and every fee-bearing transfer exactly once, in time order, with
    its month and day, on consecutive rows; fee-less transfers are not listed -/
theorem sheet_rows_each_once (name : String) (ts : List JTx) (k : Nat) (rows : List JRow) (h : jpRows name ts k = .ok rows) :
    rows.map (fun r => (r.month, r.day)) = (ts.filter jListed).map jDate ∧
    rows.map (·.row) = List.range' (k + 1) rows.length ∧ ∀ r ∈ rows, r.sheet = name := jpRows_spec name ts k rows h
end Rp2.C20
