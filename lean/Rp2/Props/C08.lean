import Rp2.Proofs.Balance
/-! # C08 — histories that overdraw an account are rejected unless -n is given -/
namespace Rp2.C08
open Rp2
theorem rejected_iff_some_prefix_overdrawn (below : Int → Bool) (hanti : ∀ x y : Int, x ≤ y → below y = true → below x = true)
    (txs : List BTx) (b : Bal) (hb : ∀ a, below (b a) = false) :
    (∃ a, replay below false b txs = .error a) ↔ ∃ p a, p <+: txs ∧ below (balAfter b p a) = true :=
  replay_error_iff below hanti txs b hb
theorem allowed_never_rejects (below : Int → Bool) (txs : List BTx) (b : Bal) :
    replay below true b txs = .ok (balAfter b txs) := replay_allow below txs b
/-- non-vacuity: the code's tolerance on the grid (`x ≤ -6` units) is antitone -/
example : ∀ x y : Int, x ≤ y → decide (y ≤ -6) = true → decide (x ≤ -6) = true := by
  intro x y h1 h2; simp only [decide_eq_true_eq] at *; omega
end Rp2.C08
