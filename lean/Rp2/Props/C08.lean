import Rp2.Props.Tables.Loops
import Rp2.Proofs.Balance
import Rp2.Proofs.BalanceTheorems
/-! # C08 — histories that overdraw an account are rejected unless -n is given -/
namespace Rp2.C08
open Rp2
theorem rejected_iff_some_prefix_overdrawn (below : Int → Bool) (hanti : ∀ x y : Int, x ≤ y → below y = true → below x = true)
    (txs : List BTx) (b : Bal) (hb : ∀ a, below (b a) = false) :
    (∃ a, replay below false b txs = .error a) ↔ ∃ p a, p <+: txs ∧ below (balAfter b p a) = true :=
  replay_error_iff below hanti txs b hb
theorem allowed_never_rejects (below : Int → Bool) (txs : List BTx) (b : Bal) :
    replay below true b txs = .ok (balAfter b txs) := replay_allow below txs b
/-- the tolerance on the 10⁻¹¹ grid: "below tolerance" ⇔ balance ≤ −6·10⁻¹¹ (so more than 10⁻¹⁰ below zero is always rejected,
    non-negative never) -/
theorem tolerance_on_grid (u : Int) : belowTol u = true ↔ u ≤ -6 := belowTol_iff u
/-- **on the executable model** (`balances`): rejected ⇔ some account is at or below −6·10⁻¹¹ after some chronological prefix -/
theorem model_rejected_iff (toD : Option Int) (ins : List InTx) (outs : List OutTx) (intras : List IntraTx)
    (hnn : ∀ t ∈ balanceOrder toD ins outs intras, t.NonNeg) :
    (∃ a, balances false toD ins outs intras = .error a) ↔
      ∃ p a, p <+: (balanceOrder toD ins outs intras).map toBTx ∧ balAfter (fun _ => 0) p a ≤ -6 := balances_rejected_iff toD ins outs intras hnn
theorem model_allow_negative (toD : Option Int) (ins : List InTx) (outs : List OutTx) (intras : List IntraTx)
    (hnn : ∀ t ∈ balanceOrder toD ins outs intras, t.NonNeg) : ∃ bs, balances true toD ins outs intras = .ok bs :=
  balances_allow_negative toD ins outs intras hnn
theorem model_never_negative_never_rejected (toD : Option Int) (ins : List InTx) (outs : List OutTx) (intras : List IntraTx)
    (hnn : ∀ t ∈ balanceOrder toD ins outs intras, t.NonNeg)
    (hpos : ∀ p a, p <+: (balanceOrder toD ins outs intras).map toBTx → 0 ≤ balAfter (fun _ => 0) p a) :
    ∃ bs, balances false toD ins outs intras = .ok bs := balances_never_negative_ok toD ins outs intras hnn hpos
/-- non-vacuity: the code's tolerance on the grid (`x ≤ -6` units) is antitone -/
example : ∀ x y : Int, x ≤ y → decide (y ≤ -6) = true → decide (x ≤ -6) = true := by
  intro x y h1 h2; simp only [decide_eq_true_eq] at *; omega

/-- **tie to the source (translator)**: the overdraft test as `BalanceSet.__init__` spells it —
    `not is_equal_within_precision(balance, ZERO, 10 decimals) and balance < ZERO` with `RP2Decimal`'s tolerant comparisons — is, on the grid,
    the model's `belowTol` (i.e. balance ≤ −6·10⁻¹¹, `tolerance_on_grid`) -/
theorem source_overdraft_test_is_tolerance (u : Int) (h : u.natAbs < 10 ^ 29) :
    ((!(eq13 (quant 10 (dsub (ofUnits u) (0 : Rat))) (0 : Rat))) && lt13 (ofUnits u) (0 : Rat)) = belowTol u :=
  overdraft_test_eq_belowTol u h
/-- the replay loop translated from the source raises exactly when the model rejects, one round at a time: after a debit that leaves the
    debited account below tolerance (and without `-n`) the translated block is `none` (the Python `raise`), otherwise it continues in a state
    that holds the model's rows -/
theorem source_loop_round_rejects_iff_model (allowNeg : Bool) (s : Gen.L.St) (bs : List BalRow) (t : AnyTx) (M : Nat) (h : Tables.Rel s bs)
    (hb : Tables.Bnd bs M) (hM : M + Tables.mass t < 10 ^ 29) :
    match balStep allowNeg bs t with
    | .ok bs' => ∃ s', Tables.stepAny allowNeg s t = some s' ∧ Tables.Rel s' bs' ∧ Tables.Bnd bs' (M + Tables.mass t)
    | .error _ => Tables.stepAny allowNeg s t = none :=
  Tables.step_sim allowNeg s bs t M h hb hM

end Rp2.C08
