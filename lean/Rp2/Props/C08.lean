import Rp2.Proofs.Balance
import Rp2.Proofs.BalanceTheorems
/-! # C08 — histories that overdraw an account are rejected unless -n is given -/
namespace Rp2.C08
open Rp2
theorem rejected_iff_some_prefix_overdrawn (below : Int → Bool) (hanti : ∀ x y : Int, x ≤ y → below y = true → below x = true)
    (txs : List BTx) (b : Bal) (hb : ∀ a, below (b a) = false) :
    (∃ a, replay below false b txs = .error a) ↔ ∃ p a, p <+: txs ∧ below (balAfter b p a) = true :=
  replay_error_iff below hanti txs b hb
theorem allowed_never_rejects (below : Int → Bool) (txs : List BTx) (b : Bal) :
    replay below true b txs = .ok (balAfter b txs) := replay_allow below txs b
/-- the tolerance on the 10⁻¹¹ grid: "below tolerance" ⇔ balance ≤ −6·10⁻¹¹ (so more than 10⁻¹⁰ below zero is always rejected,
    non-negative never) -/
theorem tolerance_on_grid (u : Int) : belowTol u = true ↔ u ≤ -6 := belowTol_iff u
/-- **on the executable model** (`balances`): rejected ⇔ some account is at or below −6·10⁻¹¹ after some chronological prefix -/
theorem model_rejected_iff (toD : Option Int) (ins : List InTx) (outs : List OutTx) (intras : List IntraTx)
    (hnn : ∀ t ∈ balanceOrder toD ins outs intras, t.NonNeg) :
    (∃ a, balances false toD ins outs intras = .error a) ↔
      ∃ p a, p <+: (balanceOrder toD ins outs intras).map toBTx ∧ balAfter (fun _ => 0) p a ≤ -6 := balances_rejected_iff toD ins outs intras hnn
theorem model_allow_negative (toD : Option Int) (ins : List InTx) (outs : List OutTx) (intras : List IntraTx)
    (hnn : ∀ t ∈ balanceOrder toD ins outs intras, t.NonNeg) : ∃ bs, balances true toD ins outs intras = .ok bs :=
  balances_allow_negative toD ins outs intras hnn
theorem model_never_negative_never_rejected (toD : Option Int) (ins : List InTx) (outs : List OutTx) (intras : List IntraTx)
    (hnn : ∀ t ∈ balanceOrder toD ins outs intras, t.NonNeg)
    (hpos : ∀ p a, p <+: (balanceOrder toD ins outs intras).map toBTx → 0 ≤ balAfter (fun _ => 0) p a) :
    ∃ bs, balances false toD ins outs intras = .ok bs := balances_never_negative_ok toD ins outs intras hnn hpos
/-- non-vacuity: the code's tolerance on the grid (`x ≤ -6` units) is antitone -/
example : ∀ x y : Int, x ≤ y → decide (y ≤ -6) = true → decide (x ≤ -6) = true := by
  intro x y h1 h2; simp only [decide_eq_true_eq] at *; omega
end Rp2.C08
