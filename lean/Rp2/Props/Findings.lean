import Rp2.Model.Cli
import Rp2.Proofs.Truncate
import Rp2.Proofs.SummaryLinks
/-! # Known findings as statements about the model: the negation of the unguarded property, each on a concrete witness
(the same witnesses are replayed on the real code by the checks; see `known_findings.json`). These are `example`s decided by
the kernel, not part of any audit list: they document *why* the property theorems carry the hypotheses they carry. -/
namespace Rp2.Findings
open Rp2

/-- **F6** (hypothesis `LocalDatesMonotone`): the to-date cut stops at the first entry past the bound, so when local days go back along
    the instant order (days 3, 6, 5 with bound 5) an in-window entry is hidden: the cut is [3], the window holds [3, 5] -/
example : cutAt (fun d : Int => d) (some 5) [3, 6, 5] = [3] ∧ ([3, 6, 5] : List Int).filter (fun d => decide (d ≤ 5)) = [3, 5] := by decide

/-- **F8**: the Japanese report generator refuses a run that has both a from- and a to-date — after the generic reports were written -/
example : (match Cli.genReport { script := "rp2_jp", fromD := some 18262, toD := some 18627 } "tax_report_jp" 0 (fun _ => "") [] with
    | .error _ => true | .ok _ => false) = true := by decide

/-- **F15** (hypothesis `LocalDatesMonotone`, Summary links): detail rows with years 2022, 2021, 2022 send the year 2022 to the third
    row, not to the first row of that year -/
example : aget (yearRowsFrom "B1" 30 0 0 [] [2022, 2021, 2022]) ("B1", 2022) = some 33 ∧ firstIdx 2022 [2022, 2021, 2022] = some 0 := by decide

/-- **F7** (hypothesis `SameInstantSameYear`): two taxable events at the same instant can carry different local years (23:30−01:00 on
    31 Dec and 00:30+00:00 on 1 Jan), so the method of the second one's year is not looked up again -/
example : ¬ SameInstantSameYear
    [⟨7, ⟨1609461000000000, -3600⟩, .sell, 1, false, 1, 0, 0⟩, ⟨8, ⟨1609461000000000, 0⟩, .sell, 1, false, 1, 0, 0⟩] := by
  intro h
  have := h _ (List.mem_cons_self ..) _ (List.mem_cons_of_mem _ (List.mem_cons_self ..)) rfl
  revert this
  decide

/-- **F12** (hypothesis `FeeFiatVisible`): a transfer of 1 with 0.99999999999 received at price 0.001 has a crypto fee of 10⁻¹¹ whose fiat
    value 10⁻¹⁴ vanishes at 13 decimals — it is not a taxable event, so nothing is disposed although the balances lose 10⁻¹¹ -/
example : (taxableEvents [] [] [mkIntra 9 ⟨0, 0⟩ 0 1 100000000 100000000000 99999999999]).length = 0 ∧
    (100000000000 : Int) - 99999999999 = 1 := by decide +kernel

/-- **F13** (same hypothesis, Japanese report): for such a transfer the JP generator writes `None` into a cell — the row constructor fails -/
example : (match jRowOf "B1_2020" 22 (.x (mkIntra 9 ⟨0, 0⟩ 0 1 8600 100000000000 99999999999)) with | .error _ => true | .ok _ => false) = true := by
  decide +kernel

end Rp2.Findings
