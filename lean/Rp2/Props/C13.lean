import Rp2.Proofs.ReportLinks
import Rp2.Proofs.DetailRows
import Rp2.Proofs.RunSums
import Rp2.Proofs.ReportTotal
import Rp2.Proofs.Numbering
import Rp2.Proofs.ReportProps
/-! # C13 — the full report shows every transaction and fraction once, with computed values -/
namespace Rp2.C13
open Rp2
/-- every fraction of the window is numbered exactly once, in order (the detail table is `numbered` row by row) -/
theorem fractions_once_in_order (fs : List Fraction) : (numberFractions fs).map (·.f) = fs := numberFractions_map fs
theorem fractions_count (fs : List Fraction) : (numberFractions fs).length = fs.length := numberFractions_length fs
/-- the `k/n` label of a fraction: k−1 = number of earlier fractions of the same taxable event, n = their total number,
    hence 1/n … n/n in order for each event -/
theorem event_labels (fs : List Fraction) (i : Nat) (n : Numbered) (h : (numberFractions fs)[i]? = some n) :
    n.evK = ((fs.take i).filter (fun g => g.ev.row == n.f.ev.row)).length ∧
    n.evN = (fs.filter (fun g => g.ev.row == n.f.ev.row)).length ∧ n.evK < n.evN := label_event fs i n h
/-- the acquired-lot label `k/n`: k−1 = number of earlier fractions from the same lot in the list that is numbered (the history cut at
    the to-date), n = their total number in that list; income fractions carry no lot label -/
theorem lot_labels (fs : List Fraction) (i : Nat) (n : Numbered) (h : (numberFractions fs)[i]? = some n) :
    (n.f.lot = none → n.lotK = none ∧ n.lotN = none) ∧
    (∀ l, n.f.lot = some l →
      n.lotK = some ((fs.take i).filter (sameLotAs n.f)).length ∧ n.lotN = some (fs.filter (sameLotAs n.f)).length ∧
      ((fs.take i).filter (sameLotAs n.f)).length < (fs.filter (sameLotAs n.f)).length) := label_lot fs i n h
/-- rows written from a start row are consecutive and each entry is written once -/
theorem rows_once (start : Nat) (l : List Int) : (numberFrom start l).map (·.1) = l := numberFrom_keys start l
/-- **on the full-report model**: the In-Out sheet lists the window's in-, out- and intra-transactions, each exactly once, in the
    order of the computed (time-sorted) sets -/
theorem model_transactions_once (c : Computed) :
    (shownRows c).map (·.1) = c.ins.map (·.row) ++ c.outs.map (·.row) ++ c.intras.map (·.row) := shownRows_keys c
/-- the repaired generator always produces the report (no internal error whatever the computed data) -/
theorem model_report_always_generated (holderOf : Nat → String) (period : Int) (cs : List Computed) :
    ∃ rows, genFull true true holderOf period cs = .ok rows := genFull_total holderOf period cs
/-- **running-sum columns on the `compute` model**: the sums attached to a transaction run over the whole time-sorted history up to and
    including it (decimal addition, left to right) — a from/to window hides rows but never restarts a sum -/
theorem model_running_sums_over_whole_history (asset : String) (acctName : Nat → String) (period : Int) (allowNeg : Bool) (fromD toD : Option Int)
    (sched : List (Int × Method)) (ins : List InTx) (outs : List OutTx) (intras : List IntraTx) (cd : Computed)
    (h : compute asset acctName period allowNeg fromD toD sched ins outs intras = .ok cd) :
    cd.inRun = ((sortByTs (·.ts.us) ins).map (·.row)).zip
      ((List.range (sortByTs (·.ts.us) ins).length).map fun k => ((sortByTs (·.ts.us) ins).take (k + 1)).foldl (fun s t => dadd s (ofUnits t.amount)) 0) ∧
    cd.outRun = ((sortByTs (·.ts.us) outs).map (·.row)).zip
      (((List.range (sortByTs (·.ts.us) outs).length).map fun k => ((sortByTs (·.ts.us) outs).take (k + 1)).foldl (fun s t => dadd s (ofUnits t.outNoFee)) 0).zip
       ((List.range (sortByTs (·.ts.us) outs).length).map fun k => ((sortByTs (·.ts.us) outs).take (k + 1)).foldl (fun s t => dadd s (ofUnits t.fee)) 0)) ∧
    cd.intraRun = ((sortByTs (·.ts.us) intras).map (·.row)).zip
      ((List.range (sortByTs (·.ts.us) intras).length).map fun k => ((sortByTs (·.ts.us) intras).take (k + 1)).foldl (fun s t => dadd s (ofUnits (t.sent - t.recv))) 0) :=
  compute_running_sums asset acctName period allowNeg fromD toD sched ins outs intras cd h
/-- **every fraction shown gets exactly one Gain / Loss Detail row** (full-report model on the `compute` model): the detail rows of an asset
    are, in order from row `dStart + 1`, one per (shown fraction, running sum) pair — carrying that fraction's taxable event, lot, amount
    and `k/n` label — and the running-sum column has exactly one entry per shown fraction, so the pairing loses nothing -/
theorem model_each_fraction_one_detail_row (cpa : Bool) (holderOf : Nat → String) (period : Int) (st : GenState) (c : Computed) :
    (layoutAsset cpa holderOf period st c).rows.filterMap detailOf =
      ((List.range c.fracs.length).zip (c.fracs.zip c.fracRun)).map (fun x =>
        ((layoutAsset cpa holderOf period st c).dStart + x.1 + 1, x.2.1.f.ev.row, x.2.1.f.lot.map (·.row), ofUnits x.2.1.f.amt, x.2.1.evK + 1, x.2.1.evN)) :=
  layout_detail_rows cpa holderOf period st c
theorem model_running_sum_per_shown_fraction (asset : String) (acctName : Nat → String) (period : Int) (allowNeg : Bool) (fromD toD : Option Int)
    (sched : List (Int × Method)) (ins : List InTx) (outs : List OutTx) (intras : List IntraTx) (cd : Computed)
    (h : compute asset acctName period allowNeg fromD toD sched ins outs intras = .ok cd) : cd.fracRun.length = cd.fracs.length :=
  compute_fracRun_length asset acctName period allowNeg fromD toD sched ins outs intras cd h
end Rp2.C13
