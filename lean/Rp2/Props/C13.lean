import Rp2.Proofs.ReportLinks
import Rp2.Proofs.ReportTotal
import Rp2.Proofs.Numbering
import Rp2.Proofs.ReportProps
/-! # C13 — the full report shows every transaction and fraction once, with computed values -/
namespace Rp2.C13
open Rp2
/-- every fraction of the window is numbered exactly once, in order (the detail table is `numbered` row by row) -/
theorem fractions_once_in_order (fs : List Fraction) : (numberFractions fs).map (·.f) = fs := numberFractions_map fs
theorem fractions_count (fs : List Fraction) : (numberFractions fs).length = fs.length := numberFractions_length fs
/-- the `k/n` label of a fraction: k−1 = number of earlier fractions of the same taxable event, n = their total number,
    hence 1/n … n/n in order for each event -/
theorem event_labels (fs : List Fraction) (i : Nat) (n : Numbered) (h : (numberFractions fs)[i]? = some n) :
    n.evK = ((fs.take i).filter (fun g => g.ev.row == n.f.ev.row)).length ∧
    n.evN = (fs.filter (fun g => g.ev.row == n.f.ev.row)).length ∧ n.evK < n.evN := label_event fs i n h
/-- rows written from a start row are consecutive and each entry is written once -/
theorem rows_once (start : Nat) (l : List Int) : (numberFrom start l).map (·.1) = l := numberFrom_keys start l
/-- **on the full-report model**: the In-Out sheet lists the window's in-, out- and intra-transactions, each exactly once, in the
    order of the computed (time-sorted) sets -/
theorem model_transactions_once (c : Computed) :
    (shownRows c).map (·.1) = c.ins.map (·.row) ++ c.outs.map (·.row) ++ c.intras.map (·.row) := shownRows_keys c
/-- the repaired generator always produces the report (no internal error whatever the computed data) -/
theorem model_report_always_generated (holderOf : Nat → String) (period : Int) (cs : List Computed) :
    ∃ rows, genFull true true holderOf period cs = .ok rows := genFull_total holderOf period cs
end Rp2.C13
