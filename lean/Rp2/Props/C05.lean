import Rp2.Props.Tables.Formulas
import Rp2.Props.Tables.Countries
import Rp2.Proofs.PropsA
/-! # C05 — long-term vs short-term classification follows the holding period -/
namespace Rp2.C05
open Rp2
theorem long_iff (period : Int) (f : Fraction) :
    f.isLong period = true ↔ ∃ l, f.lot = some l ∧ period * 86400000000 ≤ f.ev.ts.us - l.ts.us := isLong_iff period f
theorem income_short (period : Int) (f : Fraction) (h : f.lot = none) : f.isLong period = false := isLong_earn period f h
theorem never_long (period : Int) (f : Fraction) (l : InTx) (hl : f.lot = some l)
    (hspan : f.ev.ts.us - l.ts.us < period * 86400000000) : f.isLong period = false := isLong_never period f l hl hspan
theorem us_365 : Tables.periodOf "rp2_us" = some 365 := Tables.period_us
theorem es_365 : Tables.periodOf "rp2_es" = some 365 := Tables.period_es
theorem jp_never : ∃ p, Tables.periodOf "rp2_jp" = some p ∧ 3652059 < p := Tables.period_jp_never
theorem ie_never : ∃ p, Tables.periodOf "rp2_ie" = some p ∧ 3652059 < p := Tables.period_ie_never
theorem generic_configured : Tables.periodOf "rp2_generic" = some 123 := Tables.period_generic_env
theorem generic_takes_configured_value : Gen.genericPeriodProbe =
    [("0", "0"), ("1", "1"), ("365", "365"), ("366", "366"), ("1000000000", "1000000000"), ("-1", "rejected"), ("-365", "rejected"),
     ("abc", "rejected"), ("1.5", "rejected"), ("", "rejected"), (" 12 ", "12")] := Tables.generic_period_is_the_configured_value

/-- translator tie: the body of `GainLoss.is_long_term_capital_gains`, translated from the source on every run, is the model's `isLong`
    (`none` = the internal-error raise for a lot-less disposal) -/
theorem source_long_term_test_is_the_models (period : Int) (f : Fraction) :
    Gen.F.GainLoss_is_long_term_capital_gains period f = if Tables.lotlessDisposal f then none else some (f.isLong period) :=
  Tables.gainloss_long period f

end Rp2.C05
