import Rp2.Proofs.PropsA
/-! # C05 — long-term vs short-term classification follows the holding period -/
namespace Rp2.C05
open Rp2
theorem long_iff (period : Int) (f : Fraction) :
    f.isLong period = true ↔ ∃ l, f.lot = some l ∧ period * 86400000000 ≤ f.ev.ts.us - l.ts.us := isLong_iff period f
theorem income_short (period : Int) (f : Fraction) (h : f.lot = none) : f.isLong period = false := isLong_earn period f h
theorem never_long (period : Int) (f : Fraction) (l : InTx) (hl : f.lot = some l)
    (hspan : f.ev.ts.us - l.ts.us < period * 86400000000) : f.isLong period = false := isLong_never period f l hl hspan
end Rp2.C05
