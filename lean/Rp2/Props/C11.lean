import Rp2.Proofs.PropsB
/-! # C11 — parsed transactions equal the spreadsheet rows for any column layout -/
namespace Rp2.C11
open Rp2
theorem in_row_layout_independent (cfg cfg' : Config) (asset : String) (acct : String → String → Nat) (r : Nat) (row row' : List Cell)
    (hnames : cfg.assets = cfg'.assets ∧ cfg.exchanges = cfg'.exchanges ∧ cfg.holders = cfg'.holders)
    (h : SameRecord cfg.inCols cfg'.inCols row row') :
    (mkInRow cfg asset acct r row).toOption.map (fun p => (p.tx.row, p.tx.ts.us, p.tx.ts.off, p.tx.acct, p.tx.typ, p.tx.price, p.tx.amount,
        p.tx.fiatFee, p.tx.fiatNoFee, p.tx.fiatWithFee, p.cryptoFee)) =
    (mkInRow cfg' asset acct r row').toOption.map (fun p => (p.tx.row, p.tx.ts.us, p.tx.ts.off, p.tx.acct, p.tx.typ, p.tx.price, p.tx.amount,
        p.tx.fiatFee, p.tx.fiatNoFee, p.tx.fiatWithFee, p.cryptoFee)) := mkInRow_layout cfg cfg' asset acct r row row' hnames h
theorem permuted_columns_same_fields (cols : List (String × Nat)) (row : List Cell) (π : Nat → Nat) (row' : List Cell)
    (hrow : ∀ p ∈ cols, row'.getD (π p.2) .empty = row.getD p.2 .empty) (name : String) :
    field (cols.map (fun p => (p.1, π p.2))) row' name = field cols row name := field_perm cols row π row' hrow name
end Rp2.C11
