import Rp2.Proofs.PropsB
import Rp2.Proofs.ParseIds
/-! # C11 — parsed transactions equal the spreadsheet rows for any column layout -/
namespace Rp2.C11
open Rp2
theorem in_row_layout_independent (cfg cfg' : Config) (asset : String) (acct : String → String → Nat) (r : Nat) (row row' : List Cell)
    (hnames : cfg.assets = cfg'.assets ∧ cfg.exchanges = cfg'.exchanges ∧ cfg.holders = cfg'.holders)
    (h : SameRecord cfg.inCols cfg'.inCols row row') :
    (mkInRow cfg asset acct r row).toOption.map (fun p => (p.tx.row, p.tx.ts.us, p.tx.ts.off, p.tx.acct, p.tx.typ, p.tx.price, p.tx.amount,
        p.tx.fiatFee, p.tx.fiatNoFee, p.tx.fiatWithFee, p.cryptoFee)) =
    (mkInRow cfg' asset acct r row').toOption.map (fun p => (p.tx.row, p.tx.ts.us, p.tx.ts.off, p.tx.acct, p.tx.typ, p.tx.price, p.tx.amount,
        p.tx.fiatFee, p.tx.fiatNoFee, p.tx.fiatWithFee, p.cryptoFee)) := mkInRow_layout cfg cfg' asset acct r row row' hnames h
theorem permuted_columns_same_fields (cols : List (String × Nat)) (row : List Cell) (π : Nat → Nat) (row' : List Cell)
    (hrow : ∀ p ∈ cols, row'.getD (π p.2) .empty = row.getD p.2 .empty) (name : String) :
    field (cols.map (fun p => (p.1, π p.2))) row' name = field cols row name := field_perm cols row π row' hrow name
/-- ids are 1-based row numbers; within a table they strictly increase, so no row is read twice; the artificial fee
    transactions created for acquisitions with a crypto fee are fee-only disposals with negative ids -/
theorem ids_are_row_numbers (cfg : Config) (asset : String) (acct : String → String → Nat) (rows : List (List Cell)) (p : Parsed)
    (h : parseSheet cfg asset acct rows = .ok p) :
    p.ins ≠ [] ∧ (p.ins.map (·.row)).Pairwise (· < ·) ∧ (∀ t ∈ p.ins, 0 < t.row ∧ t.row ≤ rows.length) ∧
    (p.intras.map (·.row)).Pairwise (· < ·) ∧ (∀ t ∈ p.intras, 0 < t.row ∧ t.row ≤ rows.length) ∧
    (∀ t ∈ p.outs, (0 < t.row ∧ t.row ≤ rows.length) ∨ (t.row < 0 ∧ t.typ = .fee ∧ t.outNoFee = 0)) := parseSheet_ids cfg asset acct rows p h
/-- a row in data position that cannot be built into a transaction aborts the parse: no row is skipped -/
theorem no_row_skipped (cfg : Config) (asset : String) (acct : String → String → Nat) (i : Nat) (st : PState) (row : List Cell)
    (rest : List (List Cell)) (t : Table) (hcur : st.cur = some t) (hcount : st.count ≠ 1)
    (h0 : tableOf (row.getD 0 .empty) = none) (h1 : isEnd (row.getD 0 .empty) = false) (h2 : isEmptyCell (row.getD 0 .empty) = false)
    (m : String) (hbad : tryRow cfg asset acct t (i + 1) row st = .error m) :
    parseRows cfg asset acct i st (row :: rest) = .error (.row (i + 1) m) := parseRows_bad_row cfg asset acct i st row rest t hcur hcount h0 h1 h2 m hbad
end Rp2.C11
