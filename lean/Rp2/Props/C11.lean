import Rp2.Proofs.PropsB
import Rp2.Proofs.BlankRows
import Rp2.Proofs.ParseFields
import Rp2.Proofs.ParseIds
/-! # C11 — parsed transactions equal the spreadsheet rows for any column layout -/
namespace Rp2.C11
open Rp2
theorem in_row_layout_independent (cfg cfg' : Config) (asset : String) (acct : String → String → Nat) (r : Nat) (row row' : List Cell)
    (hnames : cfg.assets = cfg'.assets ∧ cfg.exchanges = cfg'.exchanges ∧ cfg.holders = cfg'.holders)
    (h : SameRecord cfg.inCols cfg'.inCols row row') :
    (mkInRow cfg asset acct r row).toOption.map (fun p => (p.tx.row, p.tx.ts.us, p.tx.ts.off, p.tx.acct, p.tx.typ, p.tx.price, p.tx.amount,
        p.tx.fiatFee, p.tx.fiatNoFee, p.tx.fiatWithFee, p.cryptoFee)) =
    (mkInRow cfg' asset acct r row').toOption.map (fun p => (p.tx.row, p.tx.ts.us, p.tx.ts.off, p.tx.acct, p.tx.typ, p.tx.price, p.tx.amount,
        p.tx.fiatFee, p.tx.fiatNoFee, p.tx.fiatWithFee, p.cryptoFee)) := mkInRow_layout cfg cfg' asset acct r row row' hnames h
theorem permuted_columns_same_fields (cols : List (String × Nat)) (row : List Cell) (π : Nat → Nat) (row' : List Cell)
    (hrow : ∀ p ∈ cols, row'.getD (π p.2) .empty = row.getD p.2 .empty) (name : String) :
    field (cols.map (fun p => (p.1, π p.2))) row' name = field cols row name := field_perm cols row π row' hrow name
/-- ids are 1-based row numbers; within a table they strictly increase, so no row is read twice; the artificial fee
    transactions created for acquisitions with a crypto fee are fee-only disposals with negative ids -/
theorem ids_are_row_numbers (cfg : Config) (asset : String) (acct : String → String → Nat) (rows : List (List Cell)) (p : Parsed)
    (h : parseSheet cfg asset acct rows = .ok p) :
    p.ins ≠ [] ∧ (p.ins.map (·.row)).Pairwise (· < ·) ∧ (∀ t ∈ p.ins, 0 < t.row ∧ t.row ≤ rows.length) ∧
    (p.intras.map (·.row)).Pairwise (· < ·) ∧ (∀ t ∈ p.intras, 0 < t.row ∧ t.row ≤ rows.length) ∧
    (∀ t ∈ p.outs, (0 < t.row ∧ t.row ≤ rows.length) ∨ (t.row < 0 ∧ t.typ = .fee ∧ t.outNoFee = 0)) := parseSheet_ids cfg asset acct rows p h
/-- a row in data position that cannot be built into a transaction aborts the parse: no row is skipped -/
theorem no_row_skipped (cfg : Config) (asset : String) (acct : String → String → Nat) (i : Nat) (st : PState) (row : List Cell)
    (rest : List (List Cell)) (t : Table) (hcur : st.cur = some t) (hcount : st.count ≠ 1)
    (h0 : tableOf (row.getD 0 .empty) = none) (h1 : isEnd (row.getD 0 .empty) = false) (h2 : isEmptyCell (row.getD 0 .empty) = false)
    (m : String) (hbad : tryRow cfg asset acct t (i + 1) row st = .error m) :
    parseRows cfg asset acct i st (row :: rest) = .error (.row (i + 1) m) := parseRows_bad_row cfg asset acct i st row rest t hcur hcount h0 h1 h2 m hbad
/-- **the fields of an accepted IN row are its cells**, through whatever header map: spot price and amount are the `spot_price` and `crypto_in`
    cells read at 11 decimals; the optional fiat fields are their cells when filled and otherwise the documented defaults
    (`fiat_fee` = crypto fee × price when only the crypto fee is given, `fiat_in_no_fee` = amount × price,
    `fiat_in_with_fee` = `fiat_in_no_fee + fiat_fee`) -/
theorem in_row_fields_are_cells (cfg : Config) (asset : String) (acct : String → String → Nat) (r : Nat) (row : List Cell) (p : ParsedIn)
    (h : mkInRow cfg asset acct r row = .ok p) :
    ∃ cfee fnf fwf ffee,
      numArg cfg.inCols row "crypto_fee" = .ok cfee ∧ numArg cfg.inCols row "fiat_in_no_fee" = .ok fnf ∧
      numArg cfg.inCols row "fiat_in_with_fee" = .ok fwf ∧ numArg cfg.inCols row "fiat_fee" = .ok ffee ∧
      (∃ q, field cfg.inCols row "spot_price" = some (.num q) ∧ p.tx.price = toUnits q) ∧
      (∃ q, field cfg.inCols row "crypto_in" = some (.num q) ∧ p.tx.amount = toUnits q) ∧
      p.cryptoFee = (optNum cfee).getD 0 ∧
      p.tx.fiatFee = (if (optNum cfee).isSome && (optNum ffee).isNone then dmul (ofUnits ((optNum cfee).getD 0)) (ofUnits p.tx.price)
                      else ofUnits ((optNum ffee).getD 0)) ∧
      p.tx.fiatNoFee = (match optNum fnf with | some v => ofUnits v | none => dmul (ofUnits p.tx.amount) (ofUnits p.tx.price)) ∧
      p.tx.fiatWithFee = (match optNum fwf with | some v => ofUnits v | none => dadd p.tx.fiatNoFee p.tx.fiatFee) :=
  mkInRow_fields cfg asset acct r row p h
/-- an optional numeric field takes its default exactly when its column is not mapped or its cell is empty; a filled cell is read as a
    number at 11 decimals -/
theorem optional_cell_read (cols : List (String × Nat)) (row : List Cell) (name : String) (o : Option (Option Int)) (h : numArg cols row name = .ok o) :
    (optNum o = none → field cols row name = none ∨ field cols row name = some .empty) ∧
    (∀ u, o = some (some u) → ∃ q, field cols row name = some (.num q) ∧ u = toUnits q) :=
  ⟨numArg_absent h, fun u hu => numArg_num (hu ▸ h)⟩
theorem out_row_fields_are_cells (cfg : Config) (asset : String) (acct : String → String → Nat) (r : Nat) (row : List Cell) (t : OutTx)
    (h : mkOutRow cfg asset acct r row = .ok t) :
    ∃ price onf fee owf fnf ffee ts ex ho typ,
      (∃ q, field cfg.outCols row "spot_price" = some (.num q) ∧ price = toUnits q) ∧
      (∃ q, field cfg.outCols row "crypto_out_no_fee" = some (.num q) ∧ onf = toUnits q) ∧
      (∃ q, field cfg.outCols row "crypto_fee" = some (.num q) ∧ fee = toUnits q) ∧
      numArg cfg.outCols row "crypto_out_with_fee" = .ok owf ∧ numArg cfg.outCols row "fiat_out_no_fee" = .ok fnf ∧
      numArg cfg.outCols row "fiat_fee" = .ok ffee ∧
      t = mkOut r ts (acct ex ho) typ price onf fee (optNum owf) (optNum fnf) (optNum ffee) := mkOutRow_fields cfg asset acct r row t h
theorem intra_row_fields_are_cells (cfg : Config) (asset : String) (acct : String → String → Nat) (r : Nat) (row : List Cell) (t : IntraTx)
    (h : mkIntraRow cfg asset acct r row = .ok t) :
    ∃ price sent recv ts fe fh te th,
      numArg cfg.intraCols row "spot_price" = .ok price ∧
      (∃ q, field cfg.intraCols row "crypto_sent" = some (.num q) ∧ sent = toUnits q) ∧
      (∃ q, field cfg.intraCols row "crypto_received" = some (.num q) ∧ recv = toUnits q) ∧
      t = mkIntra r ts (acct fe fh) (acct te th) ((optNum price).getD 0) sent recv := mkIntraRow_fields cfg asset acct r row t h
/-- **blank rows between tables are skipped, however many there are**: outside a table, any number of rows whose first cell is empty changes
    nothing but the row numbers of what follows — the sheet is read to its end -/
theorem blank_rows_between_tables_are_skipped (cfg : Config) (asset : String) (acct : String → String → Nat) (blanks : List (List Cell)) (i : Nat)
    (st : PState) (rest : List (List Cell)) (hcur : st.cur = none) (hb : ∀ r ∈ blanks, isEmptyCell (r.getD 0 .empty) = true) :
    parseRows cfg asset acct i st (blanks ++ rest) =
      parseRows cfg asset acct (i + blanks.length) { st with count := st.count + blanks.length } rest :=
  parseRows_blanks cfg asset acct blanks i st rest hcur hb
end Rp2.C11
