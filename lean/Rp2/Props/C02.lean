import Rp2.Proofs.Final
import Rp2.Proofs.Cover
/-! # C02 — every disposal is fully covered by earlier lots; no lot is ever overspent -/
namespace Rp2.C02
open Rp2

/-- coverage, positivity, lots acquired at or before the disposal, no over-spend — for the engine model -/
theorem cover_and_no_overspend (acqs : List Acq) (meth : Nat → Method) (es : List Event) (out : List Frac)
    (hrows : (acqs.map (·.row)).Nodup) (hev : EvOK none es) (hpos : ∀ e ∈ es, ¬ e.earn → 0 < e.amount)
    (hrun : runM (mkCtx acqs meth) MSt.init none 0 es = some out) :
    (∀ i, taken out i ≤ ((mkCtx acqs meth).L i).amount) ∧
    (∀ j e, es[j]? = some e → total (out.filter (fun f => f.ev = j)) = e.amount) ∧
    (∀ f ∈ out, ∃ e, es[f.ev]? = some e ∧ (e.earn → f = ⟨f.ev, none, e.amount⟩) ∧
        (¬ e.earn → 0 < f.amt ∧ ∃ i, f.lot = some i ∧ i < (sortedLots acqs).length ∧ ((mkCtx acqs meth).L i).ts ≤ e.ts)) :=
  let h := engine_C01_C02 acqs meth es out hrows hev hpos hrun
  ⟨h.1, h.2.1, h.2.2.1⟩

/-- the run succeeds iff cumulative disposals never exceed cumulative acquisitions inside each disposal's window:
    a criterion on amounts only, the same for every accounting method (specification level; the engine equals the
    specification by `C01.engine_refines_spec`) -/
theorem succeeds_iff_feasible (ctx : Ctx) (amount : Nat → Nat) (hbm : ∀ a b : Int, a ≤ b → ctx.bound a ≤ ctx.bound b)
    (es : List Event) (hev : EvOK none es) (hpos : ∀ e ∈ es, ¬ e.earn → 0 < e.amount) :
    (∃ out, runS ctx amount 0 es = some out) ↔ Feasible ctx amount 0 es :=
  runS_some_iff ctx amount hbm es amount 0 0 0 none hev (by intro t s h; cases h) (fun _ => rfl) hpos (fun _ _ => rfl) (by simp [sumTo])

/-- non-vacuity: selling exactly what was bought is feasible -/
example : Feasible ⟨fun _ => ⟨0, 0, 0, 5⟩, fun _ => 1, fun _ => .fifo⟩ (fun _ => 5) 0 [⟨1, 0, 5, false⟩] := by
  simp [Feasible, sumTo]
end Rp2.C02
