import Rp2.Proofs.Final
import Rp2.Proofs.Cover
import Rp2.Proofs.PipelineEngine
/-! # C02 — every disposal is fully covered by earlier lots; no lot is ever overspent -/
namespace Rp2.C02
open Rp2

/-- coverage, positivity, lots acquired at or before the disposal, no over-spend — for the engine model -/
theorem cover_and_no_overspend (acqs : List Acq) (meth : Nat → Method) (es : List Event) (out : List Frac)
    (hrows : (acqs.map (·.row)).Nodup) (hev : EvOK none es) (hpos : ∀ e ∈ es, ¬ e.earn → 0 < e.amount)
    (hrun : runM (mkCtx acqs meth) MSt.init none 0 es = some out) :
    (∀ i, taken out i ≤ ((mkCtx acqs meth).L i).amount) ∧
    (∀ j e, es[j]? = some e → total (out.filter (fun f => f.ev = j)) = e.amount) ∧
    (∀ f ∈ out, ∃ e, es[f.ev]? = some e ∧ (e.earn → f = ⟨f.ev, none, e.amount⟩) ∧
        (¬ e.earn → 0 < f.amt ∧ ∃ i, f.lot = some i ∧ i < (sortedLots acqs).length ∧ ((mkCtx acqs meth).L i).ts ≤ e.ts)) :=
  let h := engine_C01_C02 acqs meth es out hrows hev hpos hrun
  ⟨h.1, h.2.1, h.2.2.1⟩

/-- the run succeeds iff cumulative disposals never exceed cumulative acquisitions inside each disposal's window:
    a criterion on amounts only, the same for every accounting method (specification level; the engine equals the
    specification by `C01.engine_refines_spec`) -/
theorem succeeds_iff_feasible (ctx : Ctx) (amount : Nat → Nat) (hbm : ∀ a b : Int, a ≤ b → ctx.bound a ≤ ctx.bound b)
    (es : List Event) (hev : EvOK none es) (hpos : ∀ e ∈ es, ¬ e.earn → 0 < e.amount) :
    (∃ out, runS ctx amount 0 es = some out) ↔ Feasible ctx amount 0 es :=
  runS_some_iff ctx amount hbm es amount 0 0 0 none hev (by intro t s h; cases h) (fun _ => rfl) hpos (fun _ _ => rfl) (by simp [sumTo])

/-- coverage / no over-spend / lots acquired at or before the disposal, for `computeFractions` (the executable pipeline) -/
theorem pipeline_cover_and_no_overspend (sched : List (Int × Method)) (ins : List InTx) (outs : List OutTx) (intras : List IntraTx) (fs : List Fraction)
    (hord : SheetOrder ins) (hy : SameInstantSameYear (taxableEvents ins outs intras))
    (h : computeFractions sched ins outs intras = .ok fs) :
    ∃ es out, engineEvents sched (taxableEvents ins outs intras) = some es ∧
      fs = decodeFracs (sortByTs (·.ts.us) ins) (taxableEvents ins outs intras) out ∧
      (∀ i, taken out i ≤ ((lotCtx sched (sortByTs (·.ts.us) ins)).L i).amount) ∧
      (∀ j e, es[j]? = some e → total (out.filter (fun f => f.ev = j)) = e.amount) ∧
      (∀ f ∈ out, ∃ e, es[f.ev]? = some e ∧ (e.earn → f = ⟨f.ev, none, e.amount⟩) ∧
          (¬ e.earn → 0 < f.amt ∧ ∃ i, f.lot = some i ∧ i < (sortByTs (·.ts.us) ins).length ∧
            ((lotCtx sched (sortByTs (·.ts.us) ins)).L i).ts ≤ e.ts)) := by
  obtain ⟨es, out, h1, h2, h3, h4, h5, _⟩ := computeFractions_sound sched ins outs intras fs hord hy h
  exact ⟨es, out, h1, h2, h3, h4, h5⟩

/-- non-vacuity: selling exactly what was bought is feasible -/
example : Feasible ⟨fun _ => ⟨0, 0, 0, 5⟩, fun _ => 1, fun _ => .fifo⟩ (fun _ => 5) 0 [⟨1, 0, 5, false⟩] := by
  simp [Feasible, sumTo]
end Rp2.C02
