import Rp2.Proofs.ReportProps
/-! # C14 — tax report lists every fraction once, on the sheet of its transaction type -/
namespace Rp2.C14
open Rp2
theorem each_fraction_one_row_no_overwrite (idx : String → Nat) (ss : List String) :
    (route idx ss).length = ss.length ∧ (route idx ss).map (·.1) = ss ∧ (route idx ss).Nodup := C14_routing idx ss
end Rp2.C14
