import Rp2.Proofs.TaxRouting
import Rp2.Props.Tables.Sheets
import Rp2.Proofs.ReportProps
/-! # C14 — tax report lists every fraction once, on the sheet of its transaction type -/
namespace Rp2.C14
open Rp2
theorem each_fraction_one_row_no_overwrite (idx : String → Nat) (ss : List String) :
    (route idx ss).length = ss.length ∧ (route idx ss).map (·.1) = ss ∧ (route idx ss).Nodup := C14_routing idx ss
/-- tie: the US and IE type-to-sheet maps of the source are the model's `sheetOf`, which is the table the property prescribes -/
theorem us_map : Gen.typeToSheetUS = Tables.modelSheets := Tables.sheets_us
theorem ie_map : Gen.typeToSheetIE = Tables.modelSheets := Tables.sheets_ie
theorem map_is_the_propertys : Tables.modelSheets = Tables.propertySheets := Tables.model_sheets_are_the_propertys
/-- **on the tax-report model** (`taxReport`, shared by US and IE): if the report is generated then every fraction of every asset has
    exactly one row; rows come in fraction order, each on the sheet of its transaction type; all rows are below the 7 header rows; no
    (sheet, row) is used twice, however many assets share a sheet; and a sheet is kept iff it received a row -/
theorem model_every_fraction_once_on_its_sheet (period : Int) (templateRows : Nat) (cs : List Computed) (rows : List TRow) (sheets : List String)
    (h : taxReport true period templateRows cs = .ok (rows, sheets)) :
    rows.length = (allFracs cs).length ∧
    rows.map (fun r => (r.asset, r.sheet)) = (allFracs cs).filterMap (fun p => (sheetOf true p.2.f.ev.typ).map (fun s => (p.1, s))) ∧
    (∀ r ∈ rows, 7 < r.row) ∧ (rows.map (fun r => (r.sheet, r.row))).Nodup ∧
    (∀ s, s ∈ sheets ↔ s ∈ allSheets ∧ ∃ r ∈ rows, r.sheet = s) := taxReport_spec period templateRows cs rows sheets h
/-- the values written for a fraction are the computed ones (`mkTRow`): amount, proceeds, cost basis (none for income), gain,
    LONG/SHORT, local dates sold / acquired -/
theorem model_row_values (period : Int) (asset sheet : String) (r : Nat) (n : Numbered) :
    (mkTRow period asset sheet r n).amt = ofUnits n.f.amt ∧ (mkTRow period asset sheet r n).proceeds = n.f.proceeds ∧
    (mkTRow period asset sheet r n).cost = n.f.lot.map (fun _ => n.f.cost) ∧ (mkTRow period asset sheet r n).gain = n.f.gain ∧
    (mkTRow period asset sheet r n).long = n.f.isLong period ∧ (mkTRow period asset sheet r n).sold = civilFromDays n.f.ev.ts.day ∧
    (mkTRow period asset sheet r n).acquired = n.f.lot.map (fun l => civilFromDays l.ts.day) := ⟨rfl, rfl, rfl, rfl, rfl, rfl, rfl⟩
end Rp2.C14
