import Rp2.Props.Tables.Sheets
import Rp2.Proofs.ReportProps
/-! # C14 — tax report lists every fraction once, on the sheet of its transaction type -/
namespace Rp2.C14
open Rp2
theorem each_fraction_one_row_no_overwrite (idx : String → Nat) (ss : List String) :
    (route idx ss).length = ss.length ∧ (route idx ss).map (·.1) = ss ∧ (route idx ss).Nodup := C14_routing idx ss
/-- tie: the US and IE type-to-sheet maps of the source are the model's `sheetOf`, which is the table the property prescribes -/
theorem us_map : Gen.typeToSheetUS = Tables.modelSheets := Tables.sheets_us
theorem ie_map : Gen.typeToSheetIE = Tables.modelSheets := Tables.sheets_ie
theorem map_is_the_propertys : Tables.modelSheets = Tables.propertySheets := Tables.model_sheets_are_the_propertys
end Rp2.C14
