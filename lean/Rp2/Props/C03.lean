import Rp2.Props.Tables.Formulas
import Rp2.Proofs.PipelineEngine
import Rp2.Props.Tables.Types
import Rp2.Proofs.PropsA
import Rp2.Proofs.Props2
/-! # C03 — exactly the taxable transactions are taxed, each once and in full -/
namespace Rp2.C03
open Rp2

/-- the taxable events are a permutation of: earn-typed IN rows, all OUT rows, fee-bearing INTRA rows -/
theorem events_exact (ins : List InTx) (outs : List OutTx) (intras : List IntraTx) (e : TaxEv) :
    e ∈ taxableEvents ins outs intras ↔
      (∃ t ∈ ins, t.typ.isEarn = true ∧ e = t.toEv) ∨ (∃ t ∈ outs, e = t.toEv) ∨
      (∃ t ∈ intras, gt13 t.fiatFee 0 = true ∧ e = t.toEv) := mem_taxableEvents ins outs intras e

theorem events_perm (ins : List InTx) (outs : List OutTx) (intras : List IntraTx) :
    (taxableEvents ins outs intras).Perm
      ((ins.filter (·.typ.isEarn)).map InTx.toEv ++ outs.map OutTx.toEv ++ (intras.filter (fun t => gt13 t.fiatFee 0)).map IntraTx.toEv) :=
  taxableEvents_perm ins outs intras

/-- every fraction belongs to one event; an income event yields exactly one lot-less fraction of its full amount;
    every event is covered in full (specification level) -/
theorem each_once_in_full (ctx : Ctx) (es : List Event) (rem : Nat → Nat) (out : List Frac)
    (hpos : ∀ e ∈ es, ¬ e.earn → 0 < e.amount) (h : runS ctx rem 0 es = some out) :
    (∀ f ∈ out, ∃ j e, es[j]? = some e ∧ f.ev = 0 + j ∧ (e.earn → f = ⟨0 + j, none, e.amount⟩) ∧
        (¬ e.earn → 0 < f.amt ∧ ∃ i, f.lot = some i ∧ i < ctx.bound e.ts)) ∧
    (∀ j e, es[j]? = some e → total (out.filter (fun f => f.ev = 0 + j)) = e.amount) :=
  let r := runS_spec ctx es rem 0 out hpos h
  ⟨r.2.1, r.2.2.1⟩
/-- tie: `is_earn_type`, the types each table accepts, `is_taxable` / `is_earning` of every (table, type) pair — obtained by
    running the real constructors — are the model's `isEarn`, `inOk`, `outOk` -/
theorem type_table_agrees : Gen.types = Tables.allTypes.map Tables.modelRow := Tables.types_agree
theorem transfer_taxed_iff_fee : Gen.intraType = TxType.move.name ∧ Gen.intraTaxableNoFee = false ∧ Gen.intraTaxableFee = true := Tables.intra_agree
/-- **on the executable pipeline** (`computeFractions`): the reported fractions are the decoding of an engine run over exactly the
    taxable events (`taxableEvents`, see `events_exact`) in which every event is covered in full, an income event yields exactly
    one lot-less fraction of its full amount, and every other fraction is a positive piece of a lot; `decodeFracs` attaches to each
    fraction the event itself, so it is reported under the event's own transaction type -/
theorem pipeline_each_event_once_in_full (sched : List (Int × Method)) (ins : List InTx) (outs : List OutTx) (intras : List IntraTx) (fs : List Fraction)
    (hord : SheetOrder ins) (hy : SameInstantSameYear (taxableEvents ins outs intras))
    (h : computeFractions sched ins outs intras = .ok fs) :
    ∃ es out, engineEvents sched (taxableEvents ins outs intras) = some es ∧
      fs = decodeFracs (sortByTs (·.ts.us) ins) (taxableEvents ins outs intras) out ∧
      (∀ j e, es[j]? = some e → total (out.filter (fun f => f.ev = j)) = e.amount) ∧
      (∀ f ∈ out, ∃ e, es[f.ev]? = some e ∧ (e.earn → f = ⟨f.ev, none, e.amount⟩) ∧ (¬ e.earn → 0 < f.amt ∧ ∃ i, f.lot = some i)) := by
  obtain ⟨es, out, h1, h2, _, h4, h5, _⟩ := computeFractions_sound sched ins outs intras fs hord hy h
  refine ⟨es, out, h1, h2, h4, ?_⟩
  intro f hf
  obtain ⟨e, he, he1, he2⟩ := h5 f hf
  exact ⟨e, he, he1, fun hne => let ⟨hp, i, hi, _⟩ := he2 hne; ⟨hp, i, hi⟩⟩
/-- income is reported at its fiat value with zero cost basis: proceeds pro-rate `fiatWithFee` of the acquisition, cost is 0 -/
theorem income_value_and_zero_cost (t : InTx) (amt : Int) :
    (⟨t.toEv, none, amt⟩ : Fraction).cost = 0 ∧ (t.toEv).fiatTaxable = t.fiatWithFee := ⟨rfl, rfl⟩

open Rp2.Gen.F in
/-- translator tie: `is_taxable()` of the three transaction classes, bodies translated from the source on every run, are exactly the
    filters of the model's `taxableEvents`; `is_earning()` is the model's income flag -/
theorem source_taxability_is_the_models (ins : List InTx) (outs : List OutTx) (intras : List IntraTx) :
    taxableEvents ins outs intras =
      sortByTs (·.ts.us)
        ((ins.filter (fun t => InTransaction_is_taxable t == some true)).map InTx.toEv ++
         (outs.filter (fun t => OutTransaction_is_taxable t == some true)).map OutTx.toEv ++
         (intras.filter (fun t => IntraTransaction_is_taxable t == some true)).map IntraTx.toEv) :=
  Tables.taxable_filters ins outs intras
open Rp2.Gen.F in
theorem source_earning_flag_is_the_models (i : InTx) (hi : i.typ.isEarn = true) (o : OutTx) (x : IntraTx) :
    InTransaction_is_earning i = some i.toEv.earn ∧ OutTransaction_is_earning o = some o.toEv.earn ∧
    IntraTransaction_is_earning x = some x.toEv.earn :=
  ⟨(Tables.in_event_view i hi).2.2, (Tables.out_event_view o).2.2, (Tables.intra_event_view x).2.2⟩

end Rp2.C03
