import Rp2.Props.Tables.Types
import Rp2.Proofs.PropsA
import Rp2.Proofs.Props2
/-! # C03 — exactly the taxable transactions are taxed, each once and in full -/
namespace Rp2.C03
open Rp2

/-- the taxable events are a permutation of: earn-typed IN rows, all OUT rows, fee-bearing INTRA rows -/
theorem events_exact (ins : List InTx) (outs : List OutTx) (intras : List IntraTx) (e : TaxEv) :
    e ∈ taxableEvents ins outs intras ↔
      (∃ t ∈ ins, t.typ.isEarn = true ∧ e = t.toEv) ∨ (∃ t ∈ outs, e = t.toEv) ∨
      (∃ t ∈ intras, gt13 t.fiatFee 0 = true ∧ e = t.toEv) := mem_taxableEvents ins outs intras e

theorem events_perm (ins : List InTx) (outs : List OutTx) (intras : List IntraTx) :
    (taxableEvents ins outs intras).Perm
      ((ins.filter (·.typ.isEarn)).map InTx.toEv ++ outs.map OutTx.toEv ++ (intras.filter (fun t => gt13 t.fiatFee 0)).map IntraTx.toEv) :=
  taxableEvents_perm ins outs intras

/-- every fraction belongs to one event; an income event yields exactly one lot-less fraction of its full amount;
    every event is covered in full (specification level) -/
theorem each_once_in_full (ctx : Ctx) (es : List Event) (rem : Nat → Nat) (out : List Frac)
    (hpos : ∀ e ∈ es, ¬ e.earn → 0 < e.amount) (h : runS ctx rem 0 es = some out) :
    (∀ f ∈ out, ∃ j e, es[j]? = some e ∧ f.ev = 0 + j ∧ (e.earn → f = ⟨0 + j, none, e.amount⟩) ∧
        (¬ e.earn → 0 < f.amt ∧ ∃ i, f.lot = some i ∧ i < ctx.bound e.ts)) ∧
    (∀ j e, es[j]? = some e → total (out.filter (fun f => f.ev = 0 + j)) = e.amount) :=
  let r := runS_spec ctx es rem 0 out hpos h
  ⟨r.2.1, r.2.2.1⟩
/-- tie: `is_earn_type`, the types each table accepts, `is_taxable` / `is_earning` of every (table, type) pair — obtained by
    running the real constructors — are the model's `isEarn`, `inOk`, `outOk` -/
theorem type_table_agrees : Gen.types = Tables.allTypes.map Tables.modelRow := Tables.types_agree
theorem transfer_taxed_iff_fee : Gen.intraType = TxType.move.name ∧ Gen.intraTaxableNoFee = false ∧ Gen.intraTaxableFee = true := Tables.intra_agree
end Rp2.C03
