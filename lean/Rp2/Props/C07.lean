import Rp2.Proofs.Flows
import Rp2.Proofs.HolderTotals
import Rp2.Proofs.BalanceColumns
/-! # C07 — account balances equal the flows of each account and reconcile with unsold lots -/
namespace Rp2.C07
open Rp2
/-- final = acquired + received − sent for every account, each term the plain sum over that account's transactions
    of the replayed prefix (with `-n`, or whenever the replay succeeds, the reported balance is `balAfter`) -/
theorem final_is_flows (p : List BTx) (b : Bal) (a : Nat) :
    balAfter b p a = b a + sumOf (acqOf a) p + sumOf (recvOf a) p - sumOf (sentOf a) p := balAfter_flows p b a
theorem reported_with_allow_negative (below : Int → Bool) (txs : List BTx) (b : Bal) :
    replay below true b txs = .ok (balAfter b txs) := replay_allow below txs b
/-- **on the executable model** (`balances` of `Model/Pipeline.lean`, the function the drivers run): acquired, sent and received
    of every account are the plain sums over that account's transactions up to the to-date -/
theorem model_flows (allowNeg : Bool) (to : Option Int) (ins : List InTx) (outs : List OutTx) (intras : List IntraTx) (bs : List BalRow)
    (h : balances allowNeg to ins outs intras = .ok bs) (a : Nat) :
    colOf (·.acq) bs a = sumD dAcq a (balanceOrder to ins outs intras) ∧
    colOf (·.sent) bs a = sumD dSent a (balanceOrder to ins outs intras) ∧
    colOf (·.recv) bs a = sumD dRecv a (balanceOrder to ins outs intras) := balances_flows allowNeg to ins outs intras bs h a
/-- final = acquired + received − sent -/
theorem model_final (allowNeg : Bool) (to : Option Int) (ins : List InTx) (outs : List OutTx) (intras : List IntraTx) (bs : List BalRow)
    (h : balances allowNeg to ins outs intras = .ok bs) (a : Nat) :
    finOf bs a = colOf (·.acq) bs a + colOf (·.recv) bs a - colOf (·.sent) bs a := balances_final allowNeg to ins outs intras bs h a
/-- every account touched appears exactly once; no other account appears -/
theorem model_accounts_once (allowNeg : Bool) (to : Option Int) (ins : List InTx) (outs : List OutTx) (intras : List IntraTx) (bs : List BalRow)
    (h : balances allowNeg to ins outs intras = .ok bs) :
    (bs.map (·.acct)).Nodup ∧ ∀ x, x ∈ bs.map (·.acct) ↔ ∃ t ∈ balanceOrder to ins outs intras, x ∈ touched t :=
  balances_accounts allowNeg to ins outs intras bs h
/-- non-vacuity / sanity: buy 5 on account 0, move 2 (1.5 arrive) to account 1, sell 1 from account 1 -/
example : balAfter (fun _ => 0) [.acq 0 50, .move 0 1 20 15, .out 1 10] 0 = 30 ∧
          balAfter (fun _ => 0) [.acq 0 50, .move 0 1 20 15, .out 1 10] 1 = 5 := by decide
/-- **per-holder totals on the full-report model** (the "Total <holder>" rows of the Account Balances table): exactly the holders that have a
    balance row, each once; a holder's total is the decimal sum of the final balances of that holder's accounts, in balance-row order —
    whether or not those accounts are adjacent in the table -/
theorem model_holder_totals (holderOf : Nat → String) (bals : List BalRow) :
    ((holderTotals holderOf bals).map (·.1)).Nodup ∧
    (∀ h, h ∈ (holderTotals holderOf bals).map (·.1) ↔ ∃ b ∈ bals, holderOf b.acct = h) ∧
    (∀ h, (∃ b ∈ bals, holderOf b.acct = h) → ∃ v, (h, v) ∈ holderTotals holderOf bals ∧
      v = (bals.filter (fun b => holderOf b.acct == h)).foldl (fun s b => dadd s (ofUnits b.fin)) 0) := holderTotals_spec holderOf bals
end Rp2.C07
