import Rp2.Proofs.Flows
/-! # C07 — account balances equal the flows of each account and reconcile with unsold lots -/
namespace Rp2.C07
open Rp2
/-- final = acquired + received − sent for every account, each term the plain sum over that account's transactions
    of the replayed prefix (with `-n`, or whenever the replay succeeds, the reported balance is `balAfter`) -/
theorem final_is_flows (p : List BTx) (b : Bal) (a : Nat) :
    balAfter b p a = b a + sumOf (acqOf a) p + sumOf (recvOf a) p - sumOf (sentOf a) p := balAfter_flows p b a
theorem reported_with_allow_negative (below : Int → Bool) (txs : List BTx) (b : Bal) :
    replay below true b txs = .ok (balAfter b txs) := replay_allow below txs b
/-- non-vacuity / sanity: buy 5 on account 0, move 2 (1.5 arrive) to account 1, sell 1 from account 1 -/
example : balAfter (fun _ => 0) [.acq 0 50, .move 0 1 20 15, .out 1 10] 0 = 30 ∧
          balAfter (fun _ => 0) [.acq 0 50, .move 0 1 20 15, .out 1 10] 1 = 5 := by decide
end Rp2.C07
