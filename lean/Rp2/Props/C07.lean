import Rp2.Props.Tables.Loops
import Rp2.Proofs.Flows
import Rp2.Proofs.Reconcile
import Rp2.Proofs.ReconcileToDate
import Rp2.Proofs.HolderTotals
import Rp2.Proofs.BalanceColumns
/-! # C07 — account balances equal the flows of each account and reconcile with unsold lots -/
namespace Rp2.C07
open Rp2
/-- final = acquired + received − sent for every account, each term the plain sum over that account's transactions
    of the replayed prefix (with `-n`, or whenever the replay succeeds, the reported balance is `balAfter`) -/
theorem final_is_flows (p : List BTx) (b : Bal) (a : Nat) :
    balAfter b p a = b a + sumOf (acqOf a) p + sumOf (recvOf a) p - sumOf (sentOf a) p := balAfter_flows p b a
theorem reported_with_allow_negative (below : Int → Bool) (txs : List BTx) (b : Bal) :
    replay below true b txs = .ok (balAfter b txs) := replay_allow below txs b
/-- **on the executable model** (`balances` of `Model/Pipeline.lean`, the function the drivers run): acquired, sent and received
    of every account are the plain sums over that account's transactions up to the to-date -/
theorem model_flows (allowNeg : Bool) (toD : Option Int) (ins : List InTx) (outs : List OutTx) (intras : List IntraTx) (bs : List BalRow)
    (h : balances allowNeg toD ins outs intras = .ok bs) (a : Nat) :
    colOf (·.acq) bs a = sumD dAcq a (balanceOrder toD ins outs intras) ∧
    colOf (·.sent) bs a = sumD dSent a (balanceOrder toD ins outs intras) ∧
    colOf (·.recv) bs a = sumD dRecv a (balanceOrder toD ins outs intras) := balances_flows allowNeg toD ins outs intras bs h a
/-- final = acquired + received − sent -/
theorem model_final (allowNeg : Bool) (toD : Option Int) (ins : List InTx) (outs : List OutTx) (intras : List IntraTx) (bs : List BalRow)
    (h : balances allowNeg toD ins outs intras = .ok bs) (a : Nat) :
    finOf bs a = colOf (·.acq) bs a + colOf (·.recv) bs a - colOf (·.sent) bs a := balances_final allowNeg toD ins outs intras bs h a
/-- every account touched appears exactly once; no other account appears -/
theorem model_accounts_once (allowNeg : Bool) (toD : Option Int) (ins : List InTx) (outs : List OutTx) (intras : List IntraTx) (bs : List BalRow)
    (h : balances allowNeg toD ins outs intras = .ok bs) :
    (bs.map (·.acct)).Nodup ∧ ∀ x, x ∈ bs.map (·.acct) ↔ ∃ t ∈ balanceOrder toD ins outs intras, x ∈ touched t :=
  balances_accounts allowNeg toD ins outs intras bs h
/-- non-vacuity / sanity: buy 5 on account 0, move 2 (1.5 arrive) to account 1, sell 1 from account 1 -/
example : balAfter (fun _ => 0) [.acq 0 50, .move 0 1 20 15, .out 1 10] 0 = 30 ∧
          balAfter (fun _ => 0) [.acq 0 50, .move 0 1 20 15, .out 1 10] 1 = 5 := by decide
/-- **per-holder totals on the full-report model** (the "Total <holder>" rows of the Account Balances table): exactly the holders that have a
    balance row, each once; a holder's total is the decimal sum of the final balances of that holder's accounts, in balance-row order —
    whether or not those accounts are adjacent in the table -/
theorem model_holder_totals (holderOf : Nat → String) (bals : List BalRow) :
    ((holderTotals holderOf bals).map (·.1)).Nodup ∧
    (∀ h, h ∈ (holderTotals holderOf bals).map (·.1) ↔ ∃ b ∈ bals, holderOf b.acct = h) ∧
    (∀ h, (∃ b ∈ bals, holderOf b.acct = h) → ∃ v, (h, v) ∈ holderTotals holderOf bals ∧
      v = (bals.filter (fun b => holderOf b.acct == h)).foldl (fun s b => dadd s (ofUnits b.fin)) 0) := holderTotals_spec holderOf bals
/-- **the final balances add up to what the tax computation leaves unconsumed in lots** (executable model, no to-date): when lot matching
    and the balance replay both succeed, Σ final balances = Σ acquired − Σ (amounts the fractions take out of lots), provided an
    exchange-supplied `crypto_out_with_fee` equals amount + fee and every fee-bearing transfer is taxable (its fiat fee does not vanish at
    13 decimals — finding F12 is what happens otherwise). This joins the two halves of the model: the engine (C01–C03) and the balance
    replay (C07/C08). -/
theorem model_balances_reconcile_with_lots (sched : List (Int × Method)) (allowNeg : Bool) (ins : List InTx) (outs : List OutTx) (intras : List IntraTx)
    (fs : List Fraction) (bs : List BalRow)
    (hord : SheetOrder ins) (hy : SameInstantSameYear (taxableEvents ins outs intras))
    (hf : computeFractions sched ins outs intras = .ok fs) (hb : balances allowNeg none ins outs intras = .ok bs)
    (hcons : ∀ o ∈ outs, o.outWithFee = o.outNoFee + o.fee)
    (hvis : ∀ x ∈ intras, gt13 x.fiatFee 0 = false → x.sent - x.recv = 0) :
    sumFin bs = (ins.map (·.amount)).sum - (fs.map (fun f => if f.lot.isSome then f.amt else (0 : Int))).sum :=
  balances_reconcile_with_lots sched allowNeg ins outs intras fs bs hord hy hf hb hcons hvis
/-- the sum of the final balances is the net flow of the replayed transactions (any to-date) -/
theorem model_sum_of_final_balances (allowNeg : Bool) (toD : Option Int) (ins : List InTx) (outs : List OutTx) (intras : List IntraTx) (bs : List BalRow)
    (h : balances allowNeg toD ins outs intras = .ok bs) : sumFin bs = ((balanceOrder toD ins outs intras).map netOf).sum :=
  balances_sumFin allowNeg toD ins outs intras bs h
/-- … and with a to-date `T`, under monotone local dates (hypothesis LocalDatesMonotone; finding F6 is its failure): the final balances
    reported for `T` add up to everything acquired up to `T` minus what the fractions dated up to `T` take out of lots -/
theorem model_balances_reconcile_with_lots_to_date (sched : List (Int × Method)) (allowNeg : Bool) (ins : List InTx) (outs : List OutTx)
    (intras : List IntraTx) (fs : List Fraction) (bs : List BalRow) (T : Int)
    (hord : SheetOrder ins) (hy : SameInstantSameYear (taxableEvents ins outs intras)) (hm : DatesMonotone ins outs intras)
    (hmb : (sortByTs (fun t : AnyTx => t.ts.us) (ins.map AnyTx.i ++ intras.map AnyTx.x ++ outs.map AnyTx.o)).Pairwise (fun a b => a.ts.day ≤ b.ts.day))
    (hf : computeFractions sched ins outs intras = .ok fs) (hb : balances allowNeg (some T) ins outs intras = .ok bs)
    (hcons : ∀ o ∈ outs, o.outWithFee = o.outNoFee + o.fee)
    (hvis : ∀ x ∈ intras, gt13 x.fiatFee 0 = false → x.sent - x.recv = 0) :
    sumFin bs = ((ins.filter (keepIn T)).map (·.amount)).sum -
      ((fs.filter (fun f => decide (f.ev.ts.day ≤ T))).map (fun f => if f.lot.isSome then f.amt else (0 : Int))).sum :=
  balances_reconcile_with_lots_to_date sched allowNeg ins outs intras fs bs T hord hy hm hmb hf hb hcons hvis

/-- **tie to the source (translator)**: the balance computation of the model is the replay loop of `BalanceSet.__init__` as translated from the
    Python source on this run (`Gen/Loops.lean`): when the model succeeds the Python dictionaries end up holding exactly the model's rows
    (account, final, acquired, sent, received — decimals equal to the model's integer grid units) in the same order, and when the model
    rejects, the Python loop raises.  The size hypothesis (all amounts together below 10¹⁸ coins) is what makes 31-digit decimal addition exact. -/
theorem source_balance_loop_is_model (allowNeg : Bool) (toD : Option Int) (ins : List InTx) (outs : List OutTx) (intras : List IntraTx)
    (hsmall : ((balanceOrder toD ins outs intras).map Tables.mass).sum < 10 ^ 29) :
    match balances allowNeg toD ins outs intras with
    | .ok bs => ∃ s, (balanceOrder toD ins outs intras).foldlM (Tables.stepAny allowNeg) {} = some s ∧ Gen.L.rows s = bs.map Tables.rowOf
    | .error _ => (balanceOrder toD ins outs intras).foldlM (Tables.stepAny allowNeg) {} = none :=
  Tables.balance_loop_is_model allowNeg toD ins outs intras hsmall
/-- the order in which the three tables enter the replay list, and the `break` at the to-date, as read from the source -/
theorem source_replay_order_and_cut : Gen.L.replayOrder = ["in", "intra", "out"] ∧ ∀ d t : Int, Gen.L.stops d t = !decide (d ≤ t) :=
  Tables.replay_order_and_cut
/-- non-vacuity: a purchase of 5 units followed by a transfer of 2 (1.5 received) satisfies the size hypothesis -/
example : (([AnyTx.i (mkIn 3 ⟨0, 0⟩ 0 .buy 100 500000000000 none none none), AnyTx.x (mkIntra 7 ⟨1, 0⟩ 0 1 100 200000000000 150000000000)]).map Tables.mass).sum < 10 ^ 29 := by
  decide


/-- the same with the loop's own `break`: the translated `stops` test decides where the replay ends — over the time-sorted concatenation of the
    three tables in the order the source concatenates them (`source_replay_order_and_cut`) -/
theorem source_balance_loop_with_break_is_model (allowNeg : Bool) (t : Int) (ins : List InTx) (outs : List OutTx) (intras : List IntraTx)
    (hsmall : ((balanceOrder (some t) ins outs intras).map Tables.mass).sum < 10 ^ 29) :
    match balances allowNeg (some t) ins outs intras with
    | .ok bs => ∃ s, Tables.forBreak (fun tx : AnyTx => Gen.L.stops tx.ts.day t) (Tables.stepAny allowNeg) {}
          (sortByTs (·.ts.us) (ins.map AnyTx.i ++ intras.map AnyTx.x ++ outs.map AnyTx.o)) = some s ∧ Gen.L.rows s = bs.map Tables.rowOf
    | .error _ => Tables.forBreak (fun tx : AnyTx => Gen.L.stops tx.ts.day t) (Tables.stepAny allowNeg) {}
          (sortByTs (·.ts.us) (ins.map AnyTx.i ++ intras.map AnyTx.x ++ outs.map AnyTx.o)) = none :=
  Tables.balance_loop_with_break_is_model allowNeg t ins outs intras hsmall
end Rp2.C07
