import Rp2.Model.Cli
namespace Rp2.Tables
open Rp2.Gen Rp2.Cli
/-- every entry point ships, for its default language, a usable template for each of its generators -/
def defaultsOk : Bool := countries.all fun c => c.2.2.2.2.2.1.all fun g => hasTemplate c.2.1 (genBase g) c.2.2.2.2.2.2
theorem templates_default : defaultsOk = true := by decide
/-- every language a country ships a full-report template for has templates for all of that country's generators -/
def langsOf (iso : String) : List String := (templateLangs.filter (·.1 == iso)).map (·.2)
def shippedOk : Bool := countries.all fun c => (langsOf c.2.1).all fun l => c.2.2.2.2.2.1.all fun g => hasTemplate c.2.1 (genBase g) l
theorem templates_shipped_languages : shippedOk = true := by decide
theorem links_resolve : (templates.all fun t => t.2.2.2) = true := by decide
end Rp2.Tables
