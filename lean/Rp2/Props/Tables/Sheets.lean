import Rp2.Gen.Sheets
import Rp2.Model.TaxReport
import Rp2.Props.Tables.Types
namespace Rp2.Tables
open Rp2
/-- the (type ↦ sheet) map of the tax-report model, as a table sorted by type name -/
def modelSheets : List (String × String) := allTypes.filterMap fun t => (sheetOf true t).map (fun s => (t.name, s))
/-- the table the property prescribes -/
def propertySheets : List (String × String) :=
  [("airdrop", "Airdrops"), ("donate", "Donations"), ("fee", "Investment Expenses"), ("gift", "Gifts"), ("hardfork", "Hard Forks"),
   ("income", "Income"), ("interest", "Interest"), ("lost", "Investment Expenses"), ("mining", "Mining"), ("move", "Investment Expenses"),
   ("sell", "Capital Gains"), ("staking", "Staking"), ("wages", "Wages")]
theorem sheets_us : Gen.typeToSheetUS = modelSheets := by decide
theorem sheets_ie : Gen.typeToSheetIE = modelSheets := by decide
theorem model_sheets_are_the_propertys : modelSheets = propertySheets := by decide
theorem header_rows : Gen.taxHeaderRows = 7 ∧ Gen.taxMinRows = 20 := by decide
/-- every type that can be a taxable event (earn types, OUT types, move) has a sheet -/
theorem taxable_types_mapped : ∀ t ∈ allTypes, (t.isEarn || outOk t || decide (t = .move)) = true → (sheetOf true t).isSome = true := by decide
end Rp2.Tables
