import Rp2.Gen.Loops
import Rp2.Proofs.DictLemmas
import Rp2.Proofs.QuantGrid
import Rp2.Model.Report
import Rp2.Props.Tables.Formulas
/-! # Translated loops = model
`Gen/Loops.lean` is produced on every run by `harness/gen_loops.py` from the Python AST of `EntrySetIterator.__next__` and of the replay loop of
`BalanceSet.__init__`.  The theorems say that what those loops compute is what the hand-written model computes: the window `viewOf` and the
balance step `balStep` on integer grid units. -/
namespace Rp2.Tables
open Rp2 Rp2.Gen.L

/-- **the entry-set iterator is the window**: a `for` loop over a filtered entry set sees exactly the entries up to the first one dated
after the to-date, without those dated before the from-date — the model's `viewOf`. -/
theorem iterator_is_window {α : Type} (day utcDay : α → Int) (fromD toD : Int) : ∀ (l : List α) (n : Nat), l.length < n →
    drain (iterNext day utcDay fromD toD) n l = viewOf day (some fromD) (some toD) l := by
  intro l
  induction l with
  | nil => intro n hn; cases n with
    | zero => simp at hn
    | succ n => simp [drain, iterNext, viewOf, cutAt]
  | cons x rest ih =>
    intro n hn
    cases n with
    | zero => simp at hn
    | succ m =>
      have hm : rest.length < m := by simp at hn; omega
      have ih1 := ih m hm
      have ih2 := ih (m + 1) (by omega)
      simp only [viewOf, cutAt] at ih1 ih2 ⊢
      by_cases h1 : day x ≤ toD
      · have h1' : ¬ toD < day x := by omega
        have h1'' : ¬ day x > toD := by omega
        by_cases h2 : fromD ≤ day x
        · have h2' : day x ≥ fromD := h2
          have e : iterNext day utcDay fromD toD (x :: rest) = some (x, rest) := by
            simp [iterNext, h1', h1'', h2, h2']
          simp only [drain, e, ih1]
          simp [List.takeWhile_cons, h1, List.filter_cons, h2]
        · have h2' : ¬ day x ≥ fromD := h2
          have e : iterNext day utcDay fromD toD (x :: rest) = iterNext day utcDay fromD toD rest := by
            simp [iterNext, h1', h1'', h2, h2']
          have e' : drain (iterNext day utcDay fromD toD) (m + 1) (x :: rest) = drain (iterNext day utcDay fromD toD) (m + 1) rest := by
            simp only [drain, e]
          rw [e', ih2]
          simp [List.takeWhile_cons, h1, List.filter_cons, h2]
      · have h1' : toD < day x := by omega
        have e : iterNext day utcDay fromD toD (x :: rest) = none := by
          simp [iterNext, h1']
        simp only [drain, e]
        simp [List.takeWhile_cons, h1]


/-! ## the replay loop of `BalanceSet.__init__` -/

/-- a model row as the tuple `rows` produces -/
def rowOf (b : BalRow) : Nat × Rat × Rat × Rat × Rat := (b.acct, ofUnits b.fin, ofUnits b.acq, ofUnits b.sent, ofUnits b.recv)

/-- the four Python dictionaries (decimals) against the model's rows (integer grid units): same keys in the same order, same figures -/
structure Rel (s : St) (bs : List BalRow) : Prop where
  keys : s.final_balances.keys = bs.map (·.acct)
  fin : ∀ a, s.final_balances.getD a 0 = ofUnits (finOf bs a)
  acq : ∀ a, s.acquired_balances.getD a 0 = ofUnits (colOf (·.acq) bs a)
  sent : ∀ a, s.sent_balances.getD a 0 = ofUnits (colOf (·.sent) bs a)
  recv : ∀ a, s.received_balances.getD a 0 = ofUnits (colOf (·.recv) bs a)

/-- every figure of every account is at most `M` grid units in absolute value -/
def Bnd (bs : List BalRow) (M : Nat) : Prop :=
  ∀ a, (finOf bs a).natAbs ≤ M ∧ (colOf (·.acq) bs a).natAbs ≤ M ∧ (colOf (·.sent) bs a).natAbs ≤ M ∧ (colOf (·.recv) bs a).natAbs ≤ M

/-- the grid units a transaction moves -/
def mass : AnyTx → Nat
  | .i t => t.amount.natAbs
  | .x t => t.sent.natAbs + t.recv.natAbs
  | .o t => t.outNoFee.natAbs + t.fee.natAbs

theorem bnd_step (bs : List BalRow) (t : AnyTx) (M : Nat) (h : Bnd bs M) : Bnd (balUpd bs t) (M + mass t) := by
  intro a
  obtain ⟨h1, h2, h3, h4⟩ := h a
  rw [fin_step, acq_step, sent_step, recv_step]
  cases t with
  | i t => simp only [dAcq, dSent, dRecv, mass]; split <;> omega
  | x t => simp only [dAcq, dSent, dRecv, mass]; split <;> split <;> omega
  | o t => simp only [dAcq, dSent, dRecv, mass]; split <;> omega

theorem stepIn_sim (allowNeg : Bool) (s : St) (bs : List BalRow) (t : InTx) (M : Nat) (h : Rel s bs) (hb : Bnd bs M)
    (hM : M + mass (.i t) < 10 ^ 29) : ∃ s', stepIn allowNeg s t = some s' ∧ Rel s' (balUpd bs (.i t)) := by
  refine ⟨_, rfl, ?_⟩
  obtain ⟨b1, b2, b3, b4⟩ := hb t.acct
  simp only [mass] at hM
  have hp : (10 : Nat) ^ 29 < 10 ^ 31 := by decide
  constructor
  · show (Dict.set _ _ _).keys = _
    rw [Dict.keys_set, h.keys, accts_balUpd]
  · intro a
    show Dict.getD (Dict.set _ _ _) a 0 = _
    rw [Dict.getD_set, h.fin, h.fin, fin_step, dadd_grid_exact _ _ (by omega)]
    simp only [dAcq, dSent, dRecv]
    split <;> rename_i ha
    · subst ha; congr 1; omega
    · congr 1; omega
  · intro a
    show Dict.getD (Dict.set _ _ _) a 0 = _
    rw [Dict.getD_set, h.acq, h.acq, acq_step, dadd_grid_exact _ _ (by omega)]
    simp only [dAcq]
    split <;> rename_i ha
    · subst ha; rfl
    · congr 1; omega
  · intro a; show Dict.getD s.sent_balances a 0 = _; rw [h.sent, sent_step]; simp [dSent]
  · intro a; show Dict.getD s.received_balances a 0 = _; rw [h.recv, recv_step]; simp [dRecv]


/-- the debit of an out-transaction, the way Python computes it (two decimal subtractions), is exact -/
theorem out_final_value (s : St) (bs : List BalRow) (t : OutTx) (M : Nat) (h : Rel s bs) (hb : Bnd bs M) (hM : M + mass (.o t) < 10 ^ 29) :
    dsub (dsub (s.final_balances.getD t.acct 0) (ofUnits t.outNoFee)) (ofUnits t.fee) = ofUnits (finOf (balUpd bs (.o t)) t.acct) ∧
    (finOf (balUpd bs (.o t)) t.acct).natAbs < 10 ^ 29 := by
  obtain ⟨b1, b2, b3, b4⟩ := hb t.acct
  simp only [mass] at hM
  have hp : (10 : Nat) ^ 29 < 10 ^ 31 := by decide
  rw [h.fin, dsub_grid_exact _ _ (by omega), dsub_grid_exact _ _ (by omega), fin_step]
  simp only [dAcq, dSent, dRecv, if_true]
  constructor
  · congr 1; omega
  · omega

theorem stepOut_sim (allowNeg : Bool) (s : St) (bs : List BalRow) (t : OutTx) (M : Nat) (h : Rel s bs) (hb : Bnd bs M)
    (hM : M + mass (.o t) < 10 ^ 29) :
    ((belowTol (finOf (balUpd bs (.o t)) t.acct) && !allowNeg) = true → stepOut allowNeg s t = none) ∧
    ((belowTol (finOf (balUpd bs (.o t)) t.acct) && !allowNeg) = false → ∃ s', stepOut allowNeg s t = some s' ∧ Rel s' (balUpd bs (.o t))) := by
  obtain ⟨hv, hu⟩ := out_final_value s bs t M h hb hM
  have hp : (10 : Nat) ^ 29 < 10 ^ 31 := by decide
  have hA : eq13 (quant 10 (dsub (ofUnits (finOf (balUpd bs (AnyTx.o t)) t.acct)) (0 : Rat))) (0 : Rat) =
      decide (quant 10 (ofUnits (finOf (balUpd bs (AnyTx.o t)) t.acct)) = 0) := by
    rw [dsub_zero_grid _ (by omega)]; exact eq13_quant10_zero _ hu
  have hB := lt13_ofUnits_zero (finOf (balUpd bs (AnyTx.o t)) t.acct) (by omega)
  obtain ⟨b1, b2, b3, b4⟩ := hb t.acct
  have hM' := hM
  simp only [mass] at hM'
  constructor
  · intro hc
    simp only [stepOut, Dict.get?_set, if_true, hv, hA, hB]
    by_cases hq : quant 10 (ofUnits (finOf (balUpd bs (AnyTx.o t)) t.acct)) = 0 <;>
      by_cases hn : finOf (balUpd bs (AnyTx.o t)) t.acct < 0 <;> cases allowNeg <;> simp [hq, hn, belowTol, hA, hB] at hc ⊢
  · intro hc
    refine ⟨{ s with sent_balances := s.sent_balances.set t.acct (dadd (dadd (s.sent_balances.getD t.acct 0) (ofUnits t.outNoFee)) (ofUnits t.fee)),
                      final_balances := s.final_balances.set t.acct (dsub (dsub (s.final_balances.getD t.acct 0) (ofUnits t.outNoFee)) (ofUnits t.fee)) }, ?_, ?_⟩
    · simp only [stepOut, Dict.get?_set, if_true, hv, hA, hB]
      by_cases hq : quant 10 (ofUnits (finOf (balUpd bs (AnyTx.o t)) t.acct)) = 0 <;>
        by_cases hn : finOf (balUpd bs (AnyTx.o t)) t.acct < 0 <;> cases allowNeg <;> simp [hq, hn, belowTol, hA, hB] at hc ⊢
    · constructor
      · show (Dict.set _ _ _).keys = _
        rw [Dict.keys_set, h.keys, accts_balUpd]
      · intro a
        show Dict.getD (Dict.set _ _ _) a 0 = _
        rw [Dict.getD_set, hv]
        split <;> rename_i ha
        · subst ha; rfl
        · rw [h.fin, fin_step]; simp only [dAcq, dSent, dRecv, ha, if_false]; congr 1; omega
      · intro a; show Dict.getD s.acquired_balances a 0 = _; rw [h.acq, acq_step]; simp [dAcq]
      · intro a
        show Dict.getD (Dict.set _ _ _) a 0 = _
        rw [Dict.getD_set, h.sent, h.sent, sent_step, dadd_grid_exact _ _ (by omega), dadd_grid_exact _ _ (by omega)]
        simp only [dSent]
        split <;> rename_i ha
        · subst ha; congr 1; omega
        · congr 1; omega
      · intro a; show Dict.getD s.received_balances a 0 = _; rw [h.recv, recv_step]; simp [dRecv]


/-- the two legs of a transfer, the way Python computes them, are exact -/
theorem intra_final_values (s : St) (bs : List BalRow) (t : IntraTx) (M : Nat) (h : Rel s bs) (hb : Bnd bs M) (hM : M + mass (.x t) < 10 ^ 29) :
    dsub (s.final_balances.getD t.src 0) (ofUnits t.sent) = ofUnits (finOf bs t.src - t.sent) ∧
    dadd (s.final_balances.getD t.dst 0) (ofUnits t.recv) = ofUnits (finOf bs t.dst + t.recv) ∧
    dadd (ofUnits (finOf bs t.src - t.sent)) (ofUnits t.recv) = ofUnits (finOf bs t.src - t.sent + t.recv) ∧
    (∀ a, (finOf (balUpd bs (.x t)) a).natAbs < 10 ^ 29) := by
  simp only [mass] at hM
  have hp : (10 : Nat) ^ 29 < 10 ^ 31 := by decide
  obtain ⟨b1, -, -, -⟩ := hb t.src
  obtain ⟨c1, -, -, -⟩ := hb t.dst
  refine ⟨?_, ?_, ?_, ?_⟩
  · rw [h.fin, dsub_grid_exact _ _ (by omega)]
  · rw [h.fin, dadd_grid_exact _ _ (by omega)]
  · rw [dadd_grid_exact _ _ (by omega)]
  · intro a
    obtain ⟨d1, -, -, -⟩ := bnd_step bs (.x t) M hb a
    simp only [mass] at d1
    omega


theorem stepIntra_sim (allowNeg : Bool) (s : St) (bs : List BalRow) (t : IntraTx) (M : Nat) (h : Rel s bs) (hb : Bnd bs M)
    (hM : M + mass (.x t) < 10 ^ 29) :
    ((belowTol (finOf (balUpd bs (.x t)) t.src) && !allowNeg) = true → stepIntra allowNeg s t = none) ∧
    ((belowTol (finOf (balUpd bs (.x t)) t.src) && !allowNeg) = false → ∃ s', stepIntra allowNeg s t = some s' ∧ Rel s' (balUpd bs (.x t))) := by
  obtain ⟨v1, v2, v3, hu⟩ := intra_final_values s bs t M h hb hM
  have hp : (10 : Nat) ^ 29 < 10 ^ 31 := by decide
  have hus := hu t.src
  have hA : eq13 (quant 10 (dsub (ofUnits (finOf (balUpd bs (AnyTx.x t)) t.src)) (0 : Rat))) (0 : Rat) =
      decide (quant 10 (ofUnits (finOf (balUpd bs (AnyTx.x t)) t.src)) = 0) := by
    rw [dsub_zero_grid _ (by omega)]; exact eq13_quant10_zero _ hus
  have hB := lt13_ofUnits_zero (finOf (balUpd bs (AnyTx.x t)) t.src) (by omega)
  have hM' := hM
  simp only [mass] at hM'
  -- the value the overdraft test reads: `final_balances[from_account]` after both legs
  have hval : (if t.src = t.dst then dadd (dsub (s.final_balances.getD t.src 0) (ofUnits t.sent)) (ofUnits t.recv)
      else dsub (s.final_balances.getD t.src 0) (ofUnits t.sent)) = ofUnits (finOf (balUpd bs (AnyTx.x t)) t.src) := by
    rw [fin_step]; simp only [dAcq, dSent, dRecv, if_true]
    split <;> rename_i hsd
    · rw [v1, v3]; congr 1; omega
    · rw [v1]; congr 1; omega
  -- the relation after the four dictionary updates
  have hrel : Rel { s with
        sent_balances := s.sent_balances.set t.src (dadd (s.sent_balances.getD t.src 0) (ofUnits t.sent)),
        received_balances := s.received_balances.set t.dst (dadd (s.received_balances.getD t.dst 0) (ofUnits t.recv)),
        final_balances := (s.final_balances.set t.src (dsub (s.final_balances.getD t.src 0) (ofUnits t.sent))).set t.dst
          (dadd ((s.final_balances.set t.src (dsub (s.final_balances.getD t.src 0) (ofUnits t.sent))).getD t.dst 0) (ofUnits t.recv)) }
      (balUpd bs (.x t)) := by
    obtain ⟨-, -, b3, -⟩ := hb t.src
    obtain ⟨-, -, -, c4⟩ := hb t.dst
    constructor
    · show (Dict.set (Dict.set _ _ _) _ _).keys = _
      rw [Dict.keys_set, Dict.keys_set, h.keys, accts_balUpd]
    · intro a
      show Dict.getD (Dict.set (Dict.set _ _ _) _ _) a 0 = _
      rw [Dict.getD_set, Dict.getD_set, Dict.getD_set, fin_step]
      simp only [dAcq, dSent, dRecv]
      by_cases h1 : a = t.dst
      · subst h1
        by_cases h2 : t.dst = t.src
        · simp only [h2, if_true]
          rw [v1, v3]; congr 1; omega
        · have h2' : ¬ t.src = t.dst := fun e => h2 e.symm
          simp only [h2, h2', if_true, if_false]
          rw [v2]; congr 1; omega
      · by_cases h3 : a = t.src
        · subst h3
          simp only [h1, if_true, if_false]
          rw [v1]; congr 1; omega
        · simp only [h1, h3, if_false]
          rw [h.fin]; congr 1; omega
    · intro a; show Dict.getD s.acquired_balances a 0 = _; rw [h.acq, acq_step]; simp [dAcq]
    · intro a
      show Dict.getD (Dict.set _ _ _) a 0 = _
      rw [Dict.getD_set, h.sent, h.sent, sent_step, dadd_grid_exact _ _ (by omega)]
      simp only [dSent]
      split <;> rename_i ha
      · subst ha; rfl
      · congr 1; omega
    · intro a
      show Dict.getD (Dict.set _ _ _) a 0 = _
      rw [Dict.getD_set, h.recv, h.recv, recv_step, dadd_grid_exact _ _ (by omega)]
      simp only [dRecv]
      split <;> rename_i ha
      · subst ha; rfl
      · congr 1; omega
  have hget : (Dict.set (Dict.set s.final_balances t.src (dsub (s.final_balances.getD t.src 0) (ofUnits t.sent))) t.dst
        (dadd ((s.final_balances.set t.src (dsub (s.final_balances.getD t.src 0) (ofUnits t.sent))).getD t.dst 0) (ofUnits t.recv))).get? t.src
      = some (ofUnits (finOf (balUpd bs (AnyTx.x t)) t.src)) := by
    rw [Dict.get?_set, Dict.get?_set, Dict.getD_set]
    by_cases hsd : t.src = t.dst
    · rw [if_pos hsd, if_pos hsd.symm]; rw [if_pos hsd] at hval; rw [hval]
    · rw [if_neg hsd, if_pos rfl]; rw [if_neg hsd] at hval; rw [hval]
  constructor
  · intro hc
    by_cases hq : quant 10 (ofUnits (finOf (balUpd bs (AnyTx.x t)) t.src)) = 0 <;>
      by_cases hn : finOf (balUpd bs (AnyTx.x t)) t.src < 0 <;> cases allowNeg <;>
      simp [stepIntra, hget, hq, hn, belowTol, hA, hB] at hc ⊢
  · intro hc
    refine ⟨_, ?_, hrel⟩
    by_cases hq : quant 10 (ofUnits (finOf (balUpd bs (AnyTx.x t)) t.src)) = 0 <;>
      by_cases hn : finOf (balUpd bs (AnyTx.x t)) t.src < 0 <;> cases allowNeg <;>
      simp [stepIntra, hget, hq, hn, belowTol, hA, hB] at hc ⊢


/-- the three `if isinstance(transaction, …)` blocks of the loop body: the classes are disjoint, so exactly one runs -/
def stepAny (allowNeg : Bool) (s : St) : AnyTx → Option St
  | .i t => stepIn allowNeg s t
  | .x t => stepIntra allowNeg s t
  | .o t => stepOut allowNeg s t

/-- one round of the loop: the translated body and the model's `balStep` agree on success / failure and stay related -/
theorem step_sim (allowNeg : Bool) (s : St) (bs : List BalRow) (t : AnyTx) (M : Nat) (h : Rel s bs) (hb : Bnd bs M) (hM : M + mass t < 10 ^ 29) :
    match balStep allowNeg bs t with
    | .ok bs' => ∃ s', stepAny allowNeg s t = some s' ∧ Rel s' bs' ∧ Bnd bs' (M + mass t)
    | .error _ => stepAny allowNeg s t = none := by
  rw [balStep_eq]
  have hb' := bnd_step bs t M hb
  cases t with
  | i t =>
    obtain ⟨s', h1, h2⟩ := stepIn_sim allowNeg s bs t M h hb hM
    exact ⟨s', h1, h2, hb'⟩
  | x t =>
    obtain ⟨h1, h2⟩ := stepIntra_sim allowNeg s bs t M h hb hM
    simp only [toBTx, debited, stepAny]
    cases hc : (belowTol (finOf (balUpd bs (.x t)) t.src) && !allowNeg)
    · obtain ⟨s', e1, e2⟩ := h2 hc
      simp only [Bool.false_eq_true, if_false]
      exact ⟨s', e1, e2, hb'⟩
    · simp only [if_true]; exact h1 hc
  | o t =>
    obtain ⟨h1, h2⟩ := stepOut_sim allowNeg s bs t M h hb hM
    simp only [toBTx, debited, stepAny]
    cases hc : (belowTol (finOf (balUpd bs (.o t)) t.acct) && !allowNeg)
    · obtain ⟨s', e1, e2⟩ := h2 hc
      simp only [Bool.false_eq_true, if_false]
      exact ⟨s', e1, e2, hb'⟩
    · simp only [if_true]; exact h1 hc

/-- **the replay loop of `BalanceSet.__init__`, as translated from the source, is the model's fold of `balStep`**: for every list of
transactions (whose amounts together stay below 10¹⁸ coins, far above what rp2's parser accepts) the Python loop raises exactly when the model
rejects, and otherwise ends in dictionaries that hold the model's rows. -/
theorem replay_sim (allowNeg : Bool) : ∀ (ts : List AnyTx) (s : St) (bs : List BalRow) (M : Nat), Rel s bs → Bnd bs M →
    M + (ts.map mass).sum < 10 ^ 29 →
    match ts.foldlM (balStep allowNeg) bs with
    | .ok bs' => ∃ s', ts.foldlM (stepAny allowNeg) s = some s' ∧ Rel s' bs'
    | .error _ => ts.foldlM (stepAny allowNeg) s = none := by
  intro ts
  induction ts with
  | nil => intro s bs M h _ _; exact ⟨s, rfl, h⟩
  | cons t ts ih =>
    intro s bs M h hb hM
    simp only [List.map_cons, List.sum_cons] at hM
    have hst := step_sim allowNeg s bs t M h hb (by omega)
    simp only [List.foldlM_cons]
    cases hbs : balStep allowNeg bs t with
    | error a =>
      rw [hbs] at hst
      simp only [bind, Except.bind]
      show (stepAny allowNeg s t).bind _ = none
      rw [hst]; rfl
    | ok bs' =>
      rw [hbs] at hst
      obtain ⟨s', e1, e2, e3⟩ := hst
      simp only [bind, Except.bind]
      have := ih s' bs' (M + mass t) e2 e3 (by omega)
      show match ts.foldlM (balStep allowNeg) bs' with
        | .ok bs'' => ∃ s'', (stepAny allowNeg s t).bind (fun s' => ts.foldlM (stepAny allowNeg) s') = some s'' ∧ Rel s'' bs''
        | .error _ => (stepAny allowNeg s t).bind (fun s' => ts.foldlM (stepAny allowNeg) s') = none
      rw [e1]; exact this

theorem rel_empty : Rel {} [] := by
  constructor
  · rfl
  all_goals (intro a; simp [Dict.getD, Dict.get?, finOf, colOf, ofUnits_zero])

theorem bnd_empty : Bnd [] 0 := by intro a; simp [finOf, colOf]

/-- the `Balance` rows built from the dictionaries are the model's rows -/
theorem rows_of_rel (s : St) (bs : List BalRow) (h : Rel s bs) (hnd : (bs.map (·.acct)).Nodup) : rows s = bs.map rowOf := by
  have hk := h.keys
  unfold rows
  apply List.ext_getElem
  · have := congrArg List.length hk; simpa [Dict.keys] using this
  · intro i h1 h2
    simp only [List.getElem_map]
    have hlen : i < bs.length := by simpa using h2
    have hlen' : i < s.final_balances.length := by simpa using h1
    have hki : (s.final_balances[i]).1 = (bs[i]).acct := by
      have := List.getElem_of_eq hk (by simpa [Dict.keys] using hlen')
      simpa [Dict.keys] using this
    -- the i-th row is the first (the only) one with its account, on both sides
    have hfind : bs.find? (·.acct == (bs[i]).acct) = some bs[i] := by
      rw [List.find?_eq_some_iff_getElem]
      refine ⟨by simp, i, hlen, rfl, ?_⟩
      intro j hj
      have hne : (bs.map (·.acct))[j]'(by simp; omega) ≠ (bs.map (·.acct))[i]'(by simpa using hlen) := by
        intro e
        have := (List.Nodup.getElem_inj_iff hnd).mp e
        omega
      simpa using hne
    have hfindd : s.final_balances.find? (fun p => p.1 == (bs[i]).acct) = some s.final_balances[i] := by
      rw [List.find?_eq_some_iff_getElem]
      refine ⟨by simp [hki], i, hlen', rfl, ?_⟩
      intro j hj
      have hkj : (s.final_balances[j]'(by omega)).1 = (bs[j]'(by omega)).acct := by
        have := List.getElem_of_eq hk (show j < s.final_balances.keys.length by simp [Dict.keys]; omega)
        simpa [Dict.keys] using this
      have hne : (bs.map (·.acct))[j]'(by simp; omega) ≠ (bs.map (·.acct))[i]'(by simpa using hlen) := by
        intro e
        have := (List.Nodup.getElem_inj_iff hnd).mp e
        omega
      simp only [hkj]
      simpa using hne
    have hfin := h.fin (bs[i]).acct
    have hacq := h.acq (bs[i]).acct
    have hsent := h.sent (bs[i]).acct
    have hrecv := h.recv (bs[i]).acct
    simp only [Dict.getD, Dict.get?, hfindd, Option.map_some, Option.getD_some] at hfin
    simp only [finOf, colOf, hfind, Option.map_some, Option.getD_some] at hfin hacq hsent hrecv
    simp only [rowOf, hki, hfin, hacq, hsent, hrecv]

/-- **C07 / C08, tie to the source**: the balance computation of the model (`balances`) is the replay loop of `BalanceSet.__init__` as translated
from the Python source on this run: same order of the three tables before the stable time sort, same `break` at the to-date, same rejection, same
rows (account, final, acquired, sent, received) in the same order. -/
theorem balance_loop_is_model (allowNeg : Bool) (toD : Option Int) (ins : List InTx) (outs : List OutTx) (intras : List IntraTx)
    (hsmall : ((balanceOrder toD ins outs intras).map mass).sum < 10 ^ 29) :
    match balances allowNeg toD ins outs intras with
    | .ok bs => ∃ s, (balanceOrder toD ins outs intras).foldlM (stepAny allowNeg) {} = some s ∧ rows s = bs.map rowOf
    | .error _ => (balanceOrder toD ins outs intras).foldlM (stepAny allowNeg) {} = none := by
  have h := replay_sim allowNeg (balanceOrder toD ins outs intras) {} [] 0 rel_empty bnd_empty (by omega)
  unfold balances
  cases hb : (balanceOrder toD ins outs intras).foldlM (balStep allowNeg) [] with
  | error a => rw [hb] at h; exact h
  | ok bs =>
    rw [hb] at h
    obtain ⟨s, e1, e2⟩ := h
    have hnd := (balances_accounts allowNeg toD ins outs intras bs hb).1
    exact ⟨s, e1, rows_of_rel s bs e2 hnd⟩

/-- the order of the three tables in the replay list and the `break` test are the model's (`balanceOrder`: in ++ intra ++ out, cut after the
last transaction dated ≤ to-date) -/
theorem replay_order_and_cut : replayOrder = ["in", "intra", "out"] ∧ ∀ d t : Int, stops d t = !decide (d ≤ t) := by
  refine ⟨by decide, fun d t => ?_⟩
  unfold stops
  by_cases h : d ≤ t
  · have : ¬ d > t := by omega
    simp [h, this]
  · have : d > t := by omega
    simp [h, this]


/-! ## the loop of `_create_yearly_gain_loss_list` -/

/-- **the key of a summary line, as the source computes it, is the model's `yearKey`**: local year of the taxable event, its type, long / short
(for every fraction the engine can produce: a lot-less fraction is an earning) -/
theorem yearly_key (period : Int) (f : Fraction) (h : lotlessDisposal f = false) : yearlyKey period f = some (yearKey period f) := by
  unfold yearlyKey
  rw [gainloss_long, h]
  rfl

/-- **the running sums of a summary line, as the source computes them, are the model's `YSums.add … (yearVal f)`** -/
theorem yearly_add (v : YSums) (f : Fraction) (h : lotlessDisposal f = false) : yearlyAdd v f = some (YSums.add v (yearVal f)) := by
  unfold yearlyAdd
  rw [gainloss_proceeds, gainloss_cost, gainloss_gain, h]
  rfl

theorem yearly_zero : yearlyZero = YSums.zero := rfl

theorem yearly_cut (d t : Int) : yearlyStops d t = !decide (d ≤ t) := by
  unfold yearlyStops
  by_cases h : d ≤ t
  · have : ¬ d > t := by omega
    simp [h, this]
  · have : d > t := by omega
    simp [h, this]

/-- `d[k] = v` on an insertion-ordered dictionary with arbitrary keys -/
def setKey {κ α : Type} [DecidableEq κ] : List (κ × α) → κ → α → List (κ × α)
  | [], k, v => [(k, v)]
  | (k', s) :: t, k, v => if k' = k then (k', v) :: t else (k', s) :: setKey t k v
/-- `d.get(k, dflt)` / the value `d.setdefault(k, dflt)` returns -/
def lookupD {κ α : Type} [DecidableEq κ] (d : List (κ × α)) (k : κ) (dflt : α) : α := ((d.find? (fun p => p.1 = k)).map (·.2)).getD dflt

/-- the model's `bump` is "read with a default, add, store" -/
theorem bump_eq_setKey {κ α : Type} [DecidableEq κ] (add : α → α → α) (zero : α) (acc : List (κ × α)) (k : κ) (x : α) :
    bump add zero acc k x = setKey acc k (add (lookupD acc k zero) x) := by
  induction acc with
  | nil => rfl
  | cons p t ih =>
    obtain ⟨k', s⟩ := p
    by_cases h : k' = k
    · simp [bump, setKey, lookupD, h]
    · simp only [bump, setKey, h, if_false]
      rw [ih]
      congr 2
      simp [lookupD, h]

/-- one round of the loop on the insertion-ordered dictionary `summaries`: `value = summaries.setdefault(key, zero)`, then
`summaries[key] = new amounts` (the statement shapes the translator insists on), with the key, the default and the new amounts as translated -/
def yearlyRound (period : Int) (acc : List (YKey × YSums)) (f : Fraction) : Option (List (YKey × YSums)) := do
  let key ← yearlyKey period f
  let value := lookupD acc key yearlyZero
  let new ← yearlyAdd value f
  pure (setKey acc key new)

theorem yearly_round (period : Int) (acc : List (YKey × YSums)) (f : Fraction) (h : lotlessDisposal f = false) :
    yearlyRound period acc f = some (bump YSums.add YSums.zero acc (yearKey period f) (yearVal f)) := by
  unfold yearlyRound
  rw [yearly_key period f h]
  simp only [Option.bind_eq_bind, Option.bind_some, bind, Option.bind]
  rw [yearly_add _ f h, bump_eq_setKey, yearly_zero]
  rfl

/-- **C06, tie to the source**: the loop of `_create_yearly_gain_loss_list`, with key, default and sums as translated from the Python source on
this run, computes the model's `yearly` (the insertion-ordered group-by whose lines `lines_are_sums` is about), for every list of fractions the
engine can produce (a fraction without a lot is an earning). -/
theorem yearly_loop_is_model (period : Int) : ∀ (fs : List Fraction) (acc : List (YKey × YSums)), (∀ f ∈ fs, lotlessDisposal f = false) →
    fs.foldlM (yearlyRound period) acc = some (fs.foldl (fun acc f => bump YSums.add YSums.zero acc (yearKey period f) (yearVal f)) acc) := by
  intro fs
  induction fs with
  | nil => intro acc _; rfl
  | cons f fs ih =>
    intro acc h
    simp only [List.foldlM_cons, List.foldl_cons]
    rw [yearly_round period acc f (h f List.mem_cons_self)]
    exact ih _ (fun g hg => h g (List.mem_cons_of_mem _ hg))

theorem yearly_loop_is_yearly (period : Int) (fs : List Fraction) (h : ∀ f ∈ fs, lotlessDisposal f = false) :
    fs.foldlM (yearlyRound period) [] = some (yearly period fs) := by
  rw [yearly_loop_is_model period fs [] h]
  unfold yearly group
  rw [List.foldl_map]


/-! ## `for … : if …: break` -/

/-- `for x in l: if stop(x): break; state = body(state, x)` (`none` = the body raised) -/
def forBreak {σ α : Type} (stop : α → Bool) (body : σ → α → Option σ) : σ → List α → Option σ
  | s, [] => some s
  | s, x :: t => if stop x then some s else (body s x).bind (fun s' => forBreak stop body s' t)

theorem forBreak_eq {σ α : Type} (stop : α → Bool) (body : σ → α → Option σ) : ∀ (l : List α) (s : σ),
    forBreak stop body s l = (l.takeWhile (fun x => !stop x)).foldlM body s := by
  intro l
  induction l with
  | nil => intro s; rfl
  | cons x t ih =>
    intro s
    by_cases h : stop x = true
    · simp [forBreak, h, List.takeWhile_cons]
    · have h' : stop x = false := by simpa using h
      simp only [forBreak, h', Bool.false_eq_true, if_false, List.takeWhile_cons, Bool.not_false, if_true, List.foldlM_cons]
      cases hb : body s x with
      | none => rfl
      | some s' => simp only [Option.bind_some, Option.bind_eq_bind]; exact ih s'

/-- **the whole replay loop with its `break`, as translated**: over the time-sorted concatenation of the three tables (in the order the source
concatenates them), stopping at the first transaction the translated `stops` test fires on, running the translated blocks — raises exactly when
the model's `balances` rejects and otherwise builds the model's rows. -/
theorem balance_loop_with_break_is_model (allowNeg : Bool) (t : Int) (ins : List InTx) (outs : List OutTx) (intras : List IntraTx)
    (hsmall : ((balanceOrder (some t) ins outs intras).map mass).sum < 10 ^ 29) :
    match balances allowNeg (some t) ins outs intras with
    | .ok bs => ∃ s, forBreak (fun tx : AnyTx => stops tx.ts.day t) (stepAny allowNeg) {}
          (sortByTs (·.ts.us) (ins.map AnyTx.i ++ intras.map AnyTx.x ++ outs.map AnyTx.o)) = some s ∧ rows s = bs.map rowOf
    | .error _ => forBreak (fun tx : AnyTx => stops tx.ts.day t) (stepAny allowNeg) {}
          (sortByTs (·.ts.us) (ins.map AnyTx.i ++ intras.map AnyTx.x ++ outs.map AnyTx.o)) = none := by
  have h := balance_loop_is_model allowNeg (some t) ins outs intras hsmall
  have e : (sortByTs (·.ts.us) (ins.map AnyTx.i ++ intras.map AnyTx.x ++ outs.map AnyTx.o)).takeWhile
      (fun tx : AnyTx => !stops tx.ts.day t) = balanceOrder (some t) ins outs intras := by
    unfold balanceOrder cutAt
    simp only
    congr 1
    funext tx
    rw [replay_order_and_cut.2]
    simp
  rw [forBreak_eq, e]
  exact h


/-- **the whole loop of `_create_yearly_gain_loss_list` with its `break`, as translated**: over all fractions (in the order of the gain / loss set),
stopping at the first one the translated test fires on — the model's `yearly` of the fractions cut at the to-date, which is what `compute` reports -/
theorem yearly_loop_with_break_is_model (period t : Int) (fs : List Fraction) (h : ∀ f ∈ fs, lotlessDisposal f = false) :
    forBreak (fun f : Fraction => yearlyStops f.ev.ts.day t) (yearlyRound period) [] fs =
      some (yearly period (cutAt (fun f : Fraction => f.ev.ts.day) (some t) fs)) := by
  have e : fs.takeWhile (fun f : Fraction => !yearlyStops f.ev.ts.day t) = cutAt (fun f : Fraction => f.ev.ts.day) (some t) fs := by
    unfold cutAt
    simp only
    congr 1
    funext f
    rw [yearly_cut]
    simp
  rw [forBreak_eq, e]
  apply yearly_loop_is_yearly
  intro f hf
  apply h
  rw [← e] at hf
  exact (List.takeWhile_sublist _).subset hf


/-- with the default bounds (`MIN_DATE`, `MAX_DATE`: no entry is dated outside them) the iterator yields every entry, in order -/
theorem iterator_default_window {α : Type} (day utcDay : α → Int) (fromD toD : Int) (l : List α)
    (hall : ∀ x ∈ l, fromD ≤ day x ∧ day x ≤ toD) : drain (iterNext day utcDay fromD toD) (l.length + 1) l = l := by
  rw [iterator_is_window day utcDay fromD toD l (l.length + 1) (by omega)]
  unfold viewOf cutAt
  simp only
  have h1 : ∀ (m : List α), (∀ x ∈ m, day x ≤ toD) → m.takeWhile (fun x => decide (day x ≤ toD)) = m := by
    intro m
    induction m with
    | nil => intro _; rfl
    | cons y t ih =>
      intro hm
      have hy : day y ≤ toD := hm y List.mem_cons_self
      simp only [List.takeWhile_cons, hy, decide_true, if_true]
      rw [ih (fun x hx => hm x (List.mem_cons_of_mem _ hx))]
  rw [h1 l (fun x hx => (hall x hx).2)]
  rw [List.filter_eq_self]
  intro x hx; simpa using (hall x hx).1

end Rp2.Tables
