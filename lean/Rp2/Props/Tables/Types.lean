import Rp2.Gen.Types
import Rp2.Model.Parser
/-! Tie: the transaction-type table regenerated from `/repo` (by constructing one transaction of every type in every
table through the real constructors) equals the table the model's own predicates define. -/
namespace Rp2.Tables
open Rp2

def allTypes : List TxType :=
  [.airdrop, .buy, .donate, .fee, .gift, .hardfork, .income, .interest, .lost, .mining, .move, .sell, .staking, .wages]
/-- accepted by the IN table — the very expression `mkInRow` checks -/
def inOk (t : TxType) : Bool := decide (t = .buy) || decide (t = .gift) || decide (t = .donate) || t.isEarn
/-- accepted by the OUT table — the very expression `mkOutRow` checks -/
def outOk (t : TxType) : Bool :=
  decide (t = .donate) || decide (t = .fee) || decide (t = .gift) || decide (t = .lost) || decide (t = .sell) || decide (t = .staking)
def modelRow (t : TxType) : String × Bool × (Bool × Bool × Bool) × (Bool × Bool × Bool) :=
  (t.name, t.isEarn, (inOk t, inOk t && t.isEarn, inOk t && t.isEarn), (outOk t, outOk t, false))

theorem types_agree : Gen.types = allTypes.map modelRow := by decide
theorem intra_agree : Gen.intraType = TxType.move.name ∧ Gen.intraTaxableNoFee = false ∧ Gen.intraTaxableFee = true := by decide
theorem allTypes_complete (t : TxType) : t ∈ allTypes := by cases t <;> decide
end Rp2.Tables
