import Rp2.Gen.Formulas
import Rp2.Proofs.RndExact
import Rp2.Proofs.Validation
/-! # Translated formulas = model formulas
`Gen/Formulas.lean` is produced on every run by `harness/gen_formulas.py` from the *bodies* of rp2's getters and predicates (Python AST →
Lean term; `none` = `raise`).  The theorems below say that what the Python code computes is what the hand-written model computes:
`Fraction.proceeds / cost / gain / isLong`, the event view `toEv` of the three transaction classes, and the `is_taxable` filters of
`taxableEvents`.  A change to one of those Python bodies changes the generated definition, and the equation is re-checked by the kernel. -/
namespace Rp2.Tables
open Rp2 Rp2.Gen.F

/-- an internal error of `GainLoss`: a fraction without a lot whose event is not an earning -/
def lotlessDisposal (f : Fraction) : Bool := f.lot.isNone && !f.ev.earn

theorem gainloss_proceeds (f : Fraction) : GainLoss_taxable_event_fiat_amount_with_fee_fraction f = some f.proceeds := by
  simp [GainLoss_taxable_event_fiat_amount_with_fee_fraction, Fraction.proceeds]
theorem gainloss_cost (f : Fraction) : GainLoss_fiat_cost_basis f = if lotlessDisposal f then none else some f.cost := by
  unfold GainLoss_fiat_cost_basis lotlessDisposal Fraction.cost
  cases f.lot <;> cases f.ev.earn <;> simp
theorem gainloss_lot_amount_fraction (f : Fraction) : GainLoss_acquired_lot_fiat_amount_with_fee_fraction f = some f.cost := by
  unfold GainLoss_acquired_lot_fiat_amount_with_fee_fraction Fraction.cost
  cases f.lot <;> simp
theorem gainloss_gain (f : Fraction) : GainLoss_fiat_gain f = if lotlessDisposal f then none else some f.gain := by
  unfold GainLoss_fiat_gain
  rw [gainloss_proceeds, gainloss_cost]
  cases h : lotlessDisposal f <;> simp [Fraction.gain]
theorem gainloss_long (period : Int) (f : Fraction) :
    GainLoss_is_long_term_capital_gains period f = if lotlessDisposal f then none else some (f.isLong period) := by
  unfold GainLoss_is_long_term_capital_gains lotlessDisposal Fraction.isLong
  cases f.lot <;> cases f.ev.earn <;> simp
theorem gainloss_event_percentage (f : Fraction) :
    GainLoss_taxable_event_fraction_percentage f = some (ddiv (ofUnits f.amt) (ofUnits f.ev.amount)) := by
  simp [GainLoss_taxable_event_fraction_percentage]

/-- the event view of the three transaction classes: amount to match, taxable fiat value, earning flag -/
theorem in_event_view (t : InTx) (h : t.typ.isEarn = true) :
    InTransaction_crypto_balance_change t = some (ofUnits t.toEv.amount) ∧
    InTransaction_fiat_taxable_amount t = some t.toEv.fiatTaxable ∧ InTransaction_is_earning t = some t.toEv.earn := by
  simp [InTransaction_crypto_balance_change, InTransaction_fiat_taxable_amount, InTransaction_is_earning, InTransaction_is_taxable, InTx.toEv, h]
theorem in_not_taxable_value_zero (t : InTx) (h : t.typ.isEarn = false) : InTransaction_fiat_taxable_amount t = some 0 := by
  simp [InTransaction_fiat_taxable_amount, InTransaction_is_taxable, h]
theorem out_event_view (t : OutTx) :
    OutTransaction_crypto_balance_change t = some (ofUnits t.toEv.amount) ∧
    OutTransaction_fiat_taxable_amount t = some t.toEv.fiatTaxable ∧ OutTransaction_is_earning t = some t.toEv.earn := by
  refine ⟨by simp [OutTransaction_crypto_balance_change, OutTx.toEv], ?_, by simp [OutTransaction_is_earning, OutTx.toEv]⟩
  unfold OutTransaction_fiat_taxable_amount OutTx.toEv
  by_cases h : t.typ = .fee <;> simp [h]
theorem intra_event_view (t : IntraTx) :
    IntraTransaction_crypto_balance_change t = some (ofUnits t.toEv.amount) ∧
    IntraTransaction_fiat_taxable_amount t = some t.toEv.fiatTaxable ∧ IntraTransaction_is_earning t = some t.toEv.earn := by
  simp [IntraTransaction_crypto_balance_change, IntraTransaction_fiat_taxable_amount, IntraTransaction_is_earning, IntraTx.toEv]

/-- `is_taxable` of the three classes, as translated, are exactly the filters of the model's `taxableEvents` -/
theorem taxable_filters (ins : List InTx) (outs : List OutTx) (intras : List IntraTx) :
    taxableEvents ins outs intras =
      sortByTs (·.ts.us)
        ((ins.filter (fun t => InTransaction_is_taxable t == some true)).map InTx.toEv ++
         (outs.filter (fun t => OutTransaction_is_taxable t == some true)).map OutTx.toEv ++
         (intras.filter (fun t => IntraTransaction_is_taxable t == some true)).map IntraTx.toEv) := by
  unfold taxableEvents
  have h1 : (fun t : InTx => InTransaction_is_taxable t == some true) = (fun t => t.typ.isEarn) := by
    funext t; simp [InTransaction_is_taxable]
  have h2 : (fun t : OutTx => OutTransaction_is_taxable t == some true) = (fun _ => true) := by
    funext t; simp [OutTransaction_is_taxable]
  have h3 : (fun t : IntraTx => IntraTransaction_is_taxable t == some true) = (fun t => gt13 t.fiatFee 0) := by
    funext t; simp [IntraTransaction_is_taxable]
  have h4 : ∀ l : List OutTx, l.filter (fun _ => true) = l := fun l => by induction l <;> simp_all
  rw [h1, h2, h3, h4]


/-! ## Constructors: the derived fields of `InTransaction / OutTransaction / IntraTransaction.__init__`, obtained by symbolic execution of
the Python constructor bodies, are the fields `mkIn / mkOut / mkIntra` compute (arguments on the 10⁻¹¹ grid, as the parser delivers them). -/
theorem ofUnits_zero : ofUnits 0 = 0 := by simp [ofUnits]
theorem ofUnits_ne_zero (v : Int) : ofUnits v ≠ 0 ↔ v ≠ 0 := by
  have hU : (U : ℚ) ≠ 0 := by unfold U; norm_num
  unfold ofUnits
  rw [Ne, div_eq_zero_iff]
  constructor
  · intro h hv; exact h (Or.inl (by simp [hv]))
  · intro h hc; rcases hc with hc | hc
    · exact h (by exact_mod_cast hc)
    · exact hU hc
/-- truthiness-guarded use of an optional decimal argument (`x if x else ZERO`) is `getD 0` -/
theorem truthy_getD (o : Option Int) :
    (if (o.map ofUnits).any (fun v => decide (v ≠ 0)) then (o.map ofUnits).getD 0 else (0 : Rat)) = ofUnits (o.getD 0) := by
  cases o with
  | none => simp [ofUnits_zero]
  | some v =>
    by_cases hv : v = 0
    · subst hv; simp [ofUnits_zero]
    · have := (ofUnits_ne_zero v).mpr hv
      simp [this]

/-- `InTransaction.__init__`, in full generality (crypto fee, fiat fee and both fiat values optional): the translated values are the
    ones the parser model's `mkInRow` computes for the first construction of a row … -/
theorem in_init_general (typ : TxType) (price amount : Int) (cf nf wf ff : Option Int) :
    let fiatFee : Rat := if cf.isSome && ff.isNone then dmul (ofUnits (cf.getD 0)) (ofUnits price) else ofUnits (ff.getD 0)
    let fiatNoFee : Rat := match nf with | some v => ofUnits v | none => dmul (ofUnits amount) (ofUnits price)
    let fiatWithFee : Rat := match wf with | some v => ofUnits v | none => dadd fiatNoFee fiatFee
    InTransaction_init_fiat_fee typ (ofUnits price) (ofUnits amount) (cf.map ofUnits) (nf.map ofUnits) (wf.map ofUnits) (ff.map ofUnits) = fiatFee ∧
    InTransaction_init_fiat_in_no_fee typ (ofUnits price) (ofUnits amount) (cf.map ofUnits) (nf.map ofUnits) (wf.map ofUnits) (ff.map ofUnits) = fiatNoFee ∧
    InTransaction_init_fiat_in_with_fee typ (ofUnits price) (ofUnits amount) (cf.map ofUnits) (nf.map ofUnits) (wf.map ofUnits) (ff.map ofUnits) = fiatWithFee ∧
    InTransaction_init_crypto_in typ (ofUnits price) (ofUnits amount) (cf.map ofUnits) (nf.map ofUnits) (wf.map ofUnits) (ff.map ofUnits) = ofUnits amount ∧
    InTransaction_init_crypto_fee typ (ofUnits price) (ofUnits amount) (cf.map ofUnits) (nf.map ofUnits) (wf.map ofUnits) (ff.map ofUnits) = ofUnits (cf.getD 0) := by
  intro fiatFee fiatNoFee fiatWithFee
  have hfee : InTransaction_init_fiat_fee typ (ofUnits price) (ofUnits amount) (cf.map ofUnits) (nf.map ofUnits) (wf.map ofUnits) (ff.map ofUnits) = fiatFee := by
    unfold InTransaction_init_fiat_fee
    rw [truthy_getD cf, truthy_getD ff]
    simp [fiatFee]
  have hnf : InTransaction_init_fiat_in_no_fee typ (ofUnits price) (ofUnits amount) (cf.map ofUnits) (nf.map ofUnits) (wf.map ofUnits) (ff.map ofUnits) = fiatNoFee := by
    unfold InTransaction_init_fiat_in_no_fee
    cases nf <;> simp [fiatNoFee]
  refine ⟨hfee, hnf, ?_, rfl, ?_⟩
  · unfold InTransaction_init_fiat_in_with_fee
    unfold InTransaction_init_fiat_fee at hfee
    unfold InTransaction_init_fiat_in_no_fee at hnf
    cases wf with
    | none => simp only [Option.map_none, Option.isNone_none, if_true]; rw [hfee, hnf]
    | some v => simp [fiatWithFee]
  · unfold InTransaction_init_crypto_fee; exact truthy_getD cf

/-- … and, without a crypto fee (the acquisition as re-created after the split), the fields of `mkIn` -/
theorem in_init_is_mkIn (row : Int) (ts : Stamp) (acct : Nat) (typ : TxType) (price amount : Int) (ff nf wf : Option Int) :
    let t := mkIn row ts acct typ price amount ff nf wf
    InTransaction_init_fiat_fee typ (ofUnits price) (ofUnits amount) none (nf.map ofUnits) (wf.map ofUnits) (ff.map ofUnits) = t.fiatFee ∧
    InTransaction_init_fiat_in_no_fee typ (ofUnits price) (ofUnits amount) none (nf.map ofUnits) (wf.map ofUnits) (ff.map ofUnits) = t.fiatNoFee ∧
    InTransaction_init_fiat_in_with_fee typ (ofUnits price) (ofUnits amount) none (nf.map ofUnits) (wf.map ofUnits) (ff.map ofUnits) = t.fiatWithFee := by
  have h := in_init_general typ price amount none nf wf ff
  simp only [Option.map_none, Option.isSome_none, Bool.false_and, Bool.false_eq_true, if_false] at h
  obtain ⟨h1, h2, h3, _, _⟩ := h
  refine ⟨?_, ?_, ?_⟩
  · rw [h1]; cases ff <;> simp [mkIn, ofUnits_zero]
  · rw [h2]; cases nf <;> simp [mkIn]
  · rw [h3]; cases wf <;> cases nf <;> cases ff <;> simp [mkIn, ofUnits_zero]

/-- `OutTransaction.__init__` = `mkOut` (amounts below 10²⁰ so that the decimal sum of the two crypto amounts is exact) -/
theorem out_init_is_mkOut (row : Int) (ts : Stamp) (acct : Nat) (typ : TxType) (price o fee : Int) (w nf ff : Option Int)
    (hsize : (o + fee).natAbs < 10 ^ 31) :
    let t := mkOut row ts acct typ price o fee w nf ff
    OutTransaction_init_crypto_out_no_fee typ (ofUnits price) (ofUnits o) (ofUnits fee) (w.map ofUnits) (nf.map ofUnits) (ff.map ofUnits) = ofUnits t.outNoFee ∧
    OutTransaction_init_crypto_fee typ (ofUnits price) (ofUnits o) (ofUnits fee) (w.map ofUnits) (nf.map ofUnits) (ff.map ofUnits) = ofUnits t.fee ∧
    OutTransaction_init_crypto_out_with_fee typ (ofUnits price) (ofUnits o) (ofUnits fee) (w.map ofUnits) (nf.map ofUnits) (ff.map ofUnits) = ofUnits t.outWithFee ∧
    OutTransaction_init_fiat_out_no_fee typ (ofUnits price) (ofUnits o) (ofUnits fee) (w.map ofUnits) (nf.map ofUnits) (ff.map ofUnits) = t.fiatNoFee ∧
    OutTransaction_init_fiat_fee typ (ofUnits price) (ofUnits o) (ofUnits fee) (w.map ofUnits) (nf.map ofUnits) (ff.map ofUnits) = t.fiatFee := by
  refine ⟨rfl, rfl, ?_, ?_, ?_⟩
  · unfold OutTransaction_init_crypto_out_with_fee
    cases w with
    | none => simp [mkOut, dadd_grid_exact o fee hsize]
    | some v => simp [mkOut]
  · unfold OutTransaction_init_fiat_out_no_fee; cases nf <;> simp [mkOut]
  · unfold OutTransaction_init_fiat_fee; cases ff <;> simp [mkOut]

/-- `IntraTransaction.__init__` = `mkIntra`: the fee is sent − received (exact on the grid) and its fiat value fee × spot price;
    an absent or zero spot price is only accepted with a zero fee, and then the value is 0 either way -/
theorem intra_init_is_mkIntra (row : Int) (ts : Stamp) (src dst : Nat) (price sent recv : Int)
    (hsize : (sent - recv).natAbs < 10 ^ 31) (hp : eq13 (ofUnits price) 0 = false) :
    let t := mkIntra row ts src dst price sent recv
    IntraTransaction_init_crypto_fee (some (ofUnits price)) (ofUnits sent) (ofUnits recv) = ofUnits (t.sent - t.recv) ∧
    IntraTransaction_init_spot_price (some (ofUnits price)) (ofUnits sent) (ofUnits recv) = ofUnits t.price ∧
    IntraTransaction_init_fiat_fee (some (ofUnits price)) (ofUnits sent) (ofUnits recv) = t.fiatFee := by
  have h1 : IntraTransaction_init_crypto_fee (some (ofUnits price)) (ofUnits sent) (ofUnits recv) = ofUnits (sent - recv) := by
    unfold IntraTransaction_init_crypto_fee; exact dsub_grid_exact sent recv hsize
  have h2 : IntraTransaction_init_spot_price (some (ofUnits price)) (ofUnits sent) (ofUnits recv) = ofUnits price := by
    unfold IntraTransaction_init_spot_price; simp [hp]
  refine ⟨h1, h2, ?_⟩
  unfold IntraTransaction_init_fiat_fee
  unfold IntraTransaction_init_crypto_fee at h1
  unfold IntraTransaction_init_spot_price at h2
  rw [h1, h2]; rfl
/-- fee-less transfer without a spot price: fiat fee 0 -/
theorem intra_init_no_price (sent : Int) (hsize : (sent - sent).natAbs < 10 ^ 31) :
    IntraTransaction_init_fiat_fee none (ofUnits sent) (ofUnits sent) = 0 := by
  unfold IntraTransaction_init_fiat_fee
  simp [dmul, rnd]

/-- the parser model's IN-row constructor computes its three fiat fields exactly as the translated `InTransaction.__init__` does from the
    numeric cells of the row (crypto fee, fiat fee, fiat values: each optional) -/
theorem mkInRow_fiat_fields_are_translated (cfg : Config) (asset : String) (acct : String → String → Nat) (r : Nat) (row : List Cell) (p : ParsedIn)
    (h : mkInRow cfg asset acct r row = .ok p) :
    ∃ cfee fnf fwf ffee,
      numArg cfg.inCols row "crypto_fee" = .ok cfee ∧ numArg cfg.inCols row "fiat_in_no_fee" = .ok fnf ∧
      numArg cfg.inCols row "fiat_in_with_fee" = .ok fwf ∧ numArg cfg.inCols row "fiat_fee" = .ok ffee ∧
      p.cryptoFee = (optNum cfee).getD 0 ∧
      p.tx.fiatFee = InTransaction_init_fiat_fee p.tx.typ (ofUnits p.tx.price) (ofUnits p.tx.amount)
        ((optNum cfee).map ofUnits) ((optNum fnf).map ofUnits) ((optNum fwf).map ofUnits) ((optNum ffee).map ofUnits) ∧
      p.tx.fiatNoFee = InTransaction_init_fiat_in_no_fee p.tx.typ (ofUnits p.tx.price) (ofUnits p.tx.amount)
        ((optNum cfee).map ofUnits) ((optNum fnf).map ofUnits) ((optNum fwf).map ofUnits) ((optNum ffee).map ofUnits) ∧
      p.tx.fiatWithFee = InTransaction_init_fiat_in_with_fee p.tx.typ (ofUnits p.tx.price) (ofUnits p.tx.amount)
        ((optNum cfee).map ofUnits) ((optNum fnf).map ofUnits) ((optNum fwf).map ofUnits) ((optNum ffee).map ofUnits) := by
  unfold mkInRow at h
  simp only [bind_eq_ok, ensure_ok, optAll_ok, known_ok, ofOpt_ok, needNum_ok, pure, Except.pure, Except.ok.injEq] at h
  obtain ⟨_, _, price, hprice, cin, hcin, cfee, hcfee, fnf, hfnf, fwf, hfwf, ffee, hffee, a, ha, _, hka, ts, hts, typS, htypS, typ, htyp,
    pv, hpv, _, hp0, _, hnotes, ex, hex, _, hkex, ho, hho, _, hkho, cv, hcv, _, hpos, _, hcf0, _, hff0, _, hpne, _, hboth, _, hfnf0, _, hfwf0,
    _, htypok, _, hasset, _, hsplit, hp⟩ := h
  subst hp
  refine ⟨cfee, fnf, fwf, ffee, hcfee, hfnf, hfwf, hffee, rfl, ?_, ?_, ?_⟩
  · exact ((in_init_general typ pv cv (optNum cfee) (optNum fnf) (optNum fwf) (optNum ffee)).1).symm
  · exact ((in_init_general typ pv cv (optNum cfee) (optNum fnf) (optNum fwf) (optNum ffee)).2.1).symm
  · exact ((in_init_general typ pv cv (optNum cfee) (optNum fnf) (optNum fwf) (optNum ffee)).2.2.1).symm

/-- every function of the list is accounted for: translated from its Python body, or — when the body has a shape the translator does
    not know — listed in `untranslated`, defined by the model's own term (its theorem above is then trivial) and tied to the source by the
    differential correspondence only; the check prints which and records it in the evidence -/
theorem formulas_accounted_for : (translated ++ untranslated).length = 37 := by decide
end Rp2.Tables
