import Rp2.Gen.Countries
namespace Rp2.Tables
open Rp2.Gen
def periodOf (script : String) : Option Nat := (countries.find? (·.1 == script)).map (·.2.2.1)
def methodsOf (script : String) : Option (List String) := (countries.find? (·.1 == script)).map (·.2.2.2.2.1)
theorem period_us : periodOf "rp2_us" = some 365 := by decide
theorem period_es : periodOf "rp2_es" = some 365 := by decide
/-- JP and IE: the threshold exceeds the number of days between year 1 and year 9999, so nothing is ever long-term -/
theorem period_jp_never : ∃ p, periodOf "rp2_jp" = some p ∧ 3652059 < p := ⟨9223372036854775807, by decide, by decide⟩
theorem period_ie_never : ∃ p, periodOf "rp2_ie" = some p ∧ 3652059 < p := ⟨9223372036854775807, by decide, by decide⟩
/-- the generic plugin takes the configured value (probed with LONG_TERM_CAPITAL_GAINS=123) -/
theorem period_generic_env : periodOf "rp2_generic" = some 123 := by decide
theorem entry_points : countries.map (·.1) = ["rp2_us", "rp2_jp", "rp2_es", "rp2_generic", "rp2_ie"] := by decide
theorem methods_known : (countries.all fun c => c.2.2.2.2.1.all fun m => ["fifo", "lifo", "hifo", "lofo"].contains m) = true := by decide
theorem default_method_allowed : (countries.all fun c => c.2.2.2.2.1.contains c.2.2.2.1) = true := by decide
/-- the generic plugin takes exactly the configured non-negative integer; negative, non-integer and empty values are rejected -/
theorem generic_period_is_the_configured_value : genericPeriodProbe =
    [("0", "0"), ("1", "1"), ("365", "365"), ("366", "366"), ("1000000000", "1000000000"), ("-1", "rejected"), ("-365", "rejected"),
     ("abc", "rejected"), ("1.5", "rejected"), ("", "rejected"), (" 12 ", "12")] := by decide
end Rp2.Tables
