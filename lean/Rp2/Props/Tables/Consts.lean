import Rp2.Gen.Consts
import Rp2.Model.Ini
namespace Rp2.Tables
open Rp2.Gen
/-- the decimal context and quantisation constants the model hard-codes (`rnd 31`, `quant 13`, `quant 10`, `quant 11`) -/
theorem consts_agree : prec = 31 ∧ rounding = "ROUND_HALF_EVEN" ∧ floatTrap = true ∧ cryptoDecimals = 13 ∧ balanceDecimals = 10 ∧
    tableEnd = "TABLE END" ∧ parserFormatSpecs = ["f'.11f'"] := by decide
/-- the column names the configuration model allows in each header section are those of `_HEADER_COLUMNS`, and the earliest year of an
    `[accounting_methods]` entry is `MIN_DATE.year` -/
theorem header_columns_agree :
    (headerColumns.map (·.1) == ["in_header", "intra_header", "out_header"] &&
     headerColumns.all (fun p =>
       let allowed := if p.1 == "in_header" then Ini.inAllowed else if p.1 == "out_header" then Ini.outAllowed else Ini.intraAllowed
       p.2.all allowed.contains && allowed.all p.2.contains) && decide (minYear = 1970)) = true := by decide
end Rp2.Tables
