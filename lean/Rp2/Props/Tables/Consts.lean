import Rp2.Gen.Consts
namespace Rp2.Tables
open Rp2.Gen
/-- the decimal context and quantisation constants the model hard-codes (`rnd 31`, `quant 13`, `quant 10`, `quant 11`) -/
theorem consts_agree : prec = 31 ∧ rounding = "ROUND_HALF_EVEN" ∧ floatTrap = true ∧ cryptoDecimals = 13 ∧ balanceDecimals = 10 ∧
    tableEnd = "TABLE END" ∧ parserFormatSpecs = ["f'.11f'"] := by decide
end Rp2.Tables
