import Rp2.Gen.Imports
namespace Rp2.Tables
open Rp2.Gen
/-- networking and process facilities (incl. stdlib modules that spawn a process when used: platform, uuid) -/
def forbidden : List String := ["socket", "ssl", "http", "urllib", "urllib3", "ftplib", "smtplib", "poplib", "imaplib", "telnetlib", "xmlrpc", "asyncio", "selectors",
  "socketserver", "requests", "httpx", "aiohttp", "websocket", "websockets", "paramiko", "subprocess", "multiprocessing", "pty", "ctypes", "webbrowser",
  "platform", "uuid", "pip", "ensurepip", "venv", "cgi", "nntplib", "smtpd", "pydoc", "antigravity", "concurrent"]
theorem no_network_import : (imports.all fun m => m.2.all fun i => !(forbidden.contains i)) = true := by decide +kernel
theorem no_dangerous_call : dangerousCalls = [] := by decide
/-- dynamic imports only load accounting-method and report-generator plugins of the rp2 package -/
theorem dynamic_imports_confined : dynamicImports =
    [("rp2/rp2_main.py", "_ACCOUNTING_METHOD_PACKAGE"), ("rp2/rp2_main.py", "package_path"), ("rp2/rp2_main.py", "plugin_name"),
     ("rp2/rp2_main.py", "f'{_ACCOUNTING_METHOD_PACKAGE}.{accounting_method_name}'")] := by decide
/-- rp2's own `open()` calls are all read-only (reports are written by ezodf into the output directory, logs by `logging` under ./log) -/
theorem opens_read_only : (opens.all fun o => o.2 == "r") = true := by decide
/-- every call that creates, changes or deletes a file or directory: the log directory, the output directory, the report about to be
    rewritten (unlink of that very path) and the `save` of each report generator — nothing touches the input or configuration file -/
theorem file_mutations_confined' : fileMutations =
    [("rp2/logger.py", "Path('./log').mkdir"), ("rp2/plugin/report/abstract_ods_generator.py", "output_file_path.unlink"),
     ("rp2/plugin/report/ie/tax_report_ie.py", "output_file.save"), ("rp2/plugin/report/jp/tax_report_jp.py", "output_file.save"),
     ("rp2/plugin/report/open_positions.py", "output_file.save"), ("rp2/plugin/report/rp2_full_report.py", "output_file.save"),
     ("rp2/plugin/report/us/tax_report_us.py", "output_file.save"), ("rp2/rp2_main.py", "output_dir_path.mkdir")] := by decide
end Rp2.Tables
