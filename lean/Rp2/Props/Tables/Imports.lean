import Rp2.Gen.Imports
namespace Rp2.Tables
open Rp2.Gen
/-- networking and process facilities (incl. stdlib modules that spawn a process when used: platform, uuid) -/
def forbidden : List String := ["socket", "ssl", "http", "urllib", "urllib3", "ftplib", "smtplib", "poplib", "imaplib", "telnetlib", "xmlrpc", "asyncio", "selectors",
  "socketserver", "requests", "httpx", "aiohttp", "websocket", "websockets", "paramiko", "subprocess", "multiprocessing", "pty", "ctypes", "webbrowser",
  "platform", "uuid", "pip", "ensurepip", "venv", "cgi", "nntplib", "smtpd", "pydoc", "antigravity", "concurrent"]
theorem no_network_import : (imports.all fun m => m.2.all fun i => !(forbidden.contains i)) = true := by decide +kernel
theorem no_dangerous_call : dangerousCalls = [] := by decide
/-- dynamic imports only load accounting-method and report-generator plugins of the rp2 package -/
theorem dynamic_imports_confined : dynamicImports =
    [("rp2/rp2_main.py", "_ACCOUNTING_METHOD_PACKAGE"), ("rp2/rp2_main.py", "package_path"), ("rp2/rp2_main.py", "plugin_name"),
     ("rp2/rp2_main.py", "f'{_ACCOUNTING_METHOD_PACKAGE}.{accounting_method_name}'")] := by decide
/-- rp2's own `open()` calls are all read-only (reports are written by ezodf into the output directory, logs by `logging` under ./log) -/
theorem opens_read_only : (opens.all fun o => o.2 == "r") = true := by decide
end Rp2.Tables
