import Rp2.Proofs.ReportLinks
import Rp2.Proofs.ReportProps
/-! # C19 — hyperlinks in the full report lead to the row of the same transaction -/
namespace Rp2.C19
open Rp2
theorem links_lead_to_own_row (ins outs intras : List Int) (hnd : (ins ++ outs ++ intras).Nodup) :
    (∀ p ∈ written ins outs intras, linkOf (written ins outs intras) p.1 = some p.2) ∧
    (∀ id, id ∉ ins ++ outs ++ intras → linkOf (written ins outs intras) id = none) := C19_tx_links ins outs intras hnd
/-- **on the full-report model** (`layoutAsset`, repaired): the dictionary used for an asset's links is built from that asset's
    own In-Out rows only … -/
theorem model_dictionary_is_per_asset (holderOf : Nat → String) (period : Int) (st : GenState) (c : Computed) :
    (layoutAsset true holderOf period st c).state.txRow = txRowFrom [] c := layout_txRow holderOf period st c
/-- … and it sends every shown transaction to the row it was written at, every hidden one to no link
    (the link cells of the detail table are look-ups in this dictionary) -/
theorem model_links_lead_to_own_row (c : Computed) (hnd : ((shownRows c).map (·.1)).Nodup) :
    (∀ p ∈ shownRows c, lookupI p.1 (txRowFrom [] c) = some p.2) ∧
    (∀ id, id ∉ (shownRows c).map (·.1) → lookupI id (txRowFrom [] c) = none) := txRow_spec c hnd
end Rp2.C19
