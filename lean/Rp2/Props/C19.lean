import Rp2.Proofs.ReportProps
/-! # C19 — hyperlinks in the full report lead to the row of the same transaction -/
namespace Rp2.C19
open Rp2
theorem links_lead_to_own_row (ins outs intras : List Int) (hnd : (ins ++ outs ++ intras).Nodup) :
    (∀ p ∈ written ins outs intras, linkOf (written ins outs intras) p.1 = some p.2) ∧
    (∀ id, id ∉ ins ++ outs ++ intras → linkOf (written ins outs intras) id = none) := C19_tx_links ins outs intras hnd
end Rp2.C19
