import Rp2.Proofs.ReportLinks
import Rp2.Proofs.ReportProps
import Rp2.Proofs.SummaryLinks
/-! # C19 — hyperlinks in the full report lead to the row of the same transaction -/
namespace Rp2.C19
open Rp2
theorem links_lead_to_own_row (ins outs intras : List Int) (hnd : (ins ++ outs ++ intras).Nodup) :
    (∀ p ∈ written ins outs intras, linkOf (written ins outs intras) p.1 = some p.2) ∧
    (∀ id, id ∉ ins ++ outs ++ intras → linkOf (written ins outs intras) id = none) := C19_tx_links ins outs intras hnd
/-- **on the full-report model** (`layoutAsset`, repaired): the dictionary used for an asset's links is built from that asset's
    own In-Out rows only … -/
theorem model_dictionary_is_per_asset (holderOf : Nat → String) (period : Int) (st : GenState) (c : Computed) :
    (layoutAsset true holderOf period st c).state.txRow = txRowFrom [] c := layout_txRow holderOf period st c
/-- … and it sends every shown transaction to the row it was written at, every hidden one to no link
    (the link cells of the detail table are look-ups in this dictionary) -/
theorem model_links_lead_to_own_row (c : Computed) (hnd : ((shownRows c).map (·.1)).Nodup) :
    (∀ p ∈ shownRows c, lookupI p.1 (txRowFrom [] c) = some p.2) ∧
    (∀ id, id ∉ (shownRows c).map (·.1) → lookupI id (txRowFrom [] c) = none) := txRow_spec c hnd
/-- **Summary clause, on the full-report model**: if the years of an asset's detail rows never go back (hypothesis LocalDatesMonotone —
    finding F15 is what happens otherwise) and the asset has not been written before, the (asset, year) dictionary from which the Summary
    links are taken sends every year that has a detail row to the first detail row of that year, and keeps the other assets' entries -/
theorem model_summary_links_first_row_of_year (cpa : Bool) (holderOf : Nat → String) (period : Int) (st : GenState) (c : Computed)
    (hmono : (detailYears c).Pairwise (· ≤ ·)) (hpos : ∀ y ∈ detailYears c, 0 < y)
    (hfresh : ∀ y, aget st.yearRow (c.asset, y) = none) :
    (∀ y ∈ detailYears c, aget (layoutAsset cpa holderOf period st c).state.yearRow (c.asset, y) =
        (firstIdx y (detailYears c)).map (fun i => (layoutAsset cpa holderOf period st c).dStart + i + 1)) ∧
    (∀ a y, a ≠ c.asset → aget (layoutAsset cpa holderOf period st c).state.yearRow (a, y) = aget st.yearRow (a, y)) :=
  layout_summary_links cpa holderOf period st c hmono hpos hfresh
/-- non-vacuity of the hypotheses and the shape of the conclusion on a concrete list of years: 2020, 2020, 2021, 2023 from row index 0 -/
example : (aget (yearRowsFrom "B1" 30 0 0 [] [2020, 2020, 2021, 2023]) ("B1", 2021), aget (yearRowsFrom "B1" 30 0 0 [] [2020, 2020, 2021, 2023]) ("B1", 2020),
    aget (yearRowsFrom "B1" 30 0 0 [] [2020, 2020, 2021, 2023]) ("B1", 2022)) = (some 33, some 31, none) := by decide
/-- … and what finding F15 looks like: years 2022, 2021, 2022 send 2022 to the third row, not the first -/
example : aget (yearRowsFrom "B1" 30 0 0 [] [2022, 2021, 2022]) ("B1", 2022) = some 33 := by decide
end Rp2.C19
