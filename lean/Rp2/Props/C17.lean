import Rp2.Proofs.SortPerm
/-! # C17 — results depend only on the input: deterministic, order- and asset-independent
The model is a pure function of its input by construction (every definition is a Lean function; no state, no I/O). What
needs proof is order- and asset-independence. -/
namespace Rp2.C17
open Rp2
/-- reordering the rows of a table does not change its time-sorted view when timestamps are distinct -/
theorem row_order_irrelevant {α} (ts : α → Int) (l₁ l₂ : List α) (hp : l₁.Perm l₂)
    (hinj : ∀ a ∈ l₁, ∀ b ∈ l₁, ts a = ts b → a = b) : sortByTs ts l₁ = sortByTs ts l₂ := sortByTs_perm_eq ts l₁ l₂ hp hinj
/-- the full-report rows of an asset do not depend on the rows other assets were written at -/
theorem asset_rows_independent_of_other_assets (sd : Bool) (h : Nat → String) (p : Int) (st st' : GenState) (c : Computed)
    (hy : st.yearRow = st'.yearRow) (hs : st.summaryRow = st'.summaryRow) :
    genAsset true sd h p st c = genAsset true sd h p st' c := genAsset_txRow_irrelevant sd h p st st' c hy hs
/-- non-vacuity: a permuted table with distinct timestamps meets the hypotheses -/
example : ([(3, 0), (1, 1), (2, 2)] : List (Int × Nat)).Perm [(2, 2), (3, 0), (1, 1)] ∧
    ∀ a ∈ ([(3, 0), (1, 1), (2, 2)] : List (Int × Nat)), ∀ b ∈ ([(3, 0), (1, 1), (2, 2)] : List (Int × Nat)), a.1 = b.1 → a = b := by
  constructor
  · decide
  · decide
end Rp2.C17
