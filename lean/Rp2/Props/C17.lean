import Rp2.Proofs.PermInvariance
import Rp2.Proofs.SheetOrder
import Rp2.Proofs.SortPerm
/-! # C17 — results depend only on the input: deterministic, order- and asset-independent
The model is a pure function of its input by construction (every definition is a Lean function; no state, no I/O). What
needs proof is order- and asset-independence. -/
namespace Rp2.C17
open Rp2
/-- reordering the rows of a table does not change its time-sorted view when timestamps are distinct -/
theorem row_order_irrelevant {α} (ts : α → Int) (l₁ l₂ : List α) (hp : l₁.Perm l₂)
    (hinj : ∀ a ∈ l₁, ∀ b ∈ l₁, ts a = ts b → a = b) : sortByTs ts l₁ = sortByTs ts l₂ := sortByTs_perm_eq ts l₁ l₂ hp hinj
/-- the full-report rows of an asset do not depend on the rows other assets were written at -/
theorem asset_rows_independent_of_other_assets (sd : Bool) (h : Nat → String) (p : Int) (st st' : GenState) (c : Computed)
    (hy : st.yearRow = st'.yearRow) (hs : st.summaryRow = st'.summaryRow) :
    genAsset true sd h p st c = genAsset true sd h p st' c := genAsset_txRow_irrelevant sd h p st st' c hy hs
/-- **on the executable pipeline**: permuting the rows of the IN, OUT and INTRA tables leaves `computeFractions` — pairing, amounts and
    every figure — unchanged, provided acquisitions have distinct timestamps and taxable events have distinct timestamps -/
theorem model_row_order_irrelevant (sched : List (Int × Method)) (ins ins' : List InTx) (outs outs' : List OutTx) (intras intras' : List IntraTx)
    (hi : ins.Perm ins') (ho : outs.Perm outs') (hx : intras.Perm intras')
    (hlots : ∀ a ∈ ins, ∀ b ∈ ins, a.ts.us = b.ts.us → a = b)
    (hevs : ∀ a ∈ (ins.filter (·.typ.isEarn)).map InTx.toEv ++ outs.map OutTx.toEv ++ (intras.filter (fun t => gt13 t.fiatFee 0)).map IntraTx.toEv,
            ∀ b ∈ (ins.filter (·.typ.isEarn)).map InTx.toEv ++ outs.map OutTx.toEv ++ (intras.filter (fun t => gt13 t.fiatFee 0)).map IntraTx.toEv,
            a.ts.us = b.ts.us → a = b) :
    computeFractions sched ins outs intras = computeFractions sched ins' outs' intras' :=
  computeFractions_perm sched ins ins' outs outs' intras intras' hi ho hx hlots hevs
/-- non-vacuity: a permuted table with distinct timestamps meets the hypotheses -/
example : ([(3, 0), (1, 1), (2, 2)] : List (Int × Nat)).Perm [(2, 2), (3, 0), (1, 1)] ∧
    ∀ a ∈ ([(3, 0), (1, 1), (2, 2)] : List (Int × Nat)), ∀ b ∈ ([(3, 0), (1, 1), (2, 2)] : List (Int × Nat)), a.1 = b.1 → a = b := by
  constructor
  · decide
  · decide
/-- **whole-run model: the order of the sheets in the workbook is irrelevant** (sheets are looked up by name; names are distinct): same exit
    status, same files, same reports cell for cell -/
theorem model_sheet_order_irrelevant (o : Cli.Options) (cfg : Config) (g₁ g₂ : List (String × List (List Cell)))
    (hp : g₁.Perm g₂) (hnd : (g₁.map (·.1)).Nodup) : Cli.runCells o cfg g₁ = Cli.runCells o cfg g₂ := Cli.runCells_sheet_order o cfg g₁ g₂ hp hnd
/-- **whole-run model: an asset's computed data depend on that asset's own sheet only**: in a run over any list of assets the k-th result
    is `compute` of the k-th asset's transactions under the run's options, whichever other assets are processed with it -/
theorem model_asset_results_independent_of_other_assets (o : Cli.Options) (acctName : Nat → String) (period : Nat) (sched : List (Int × Method))
    (names : List String) (sheets : List Cli.AssetIn) (cs : List Computed) (h : Cli.computeAll o acctName period sched names sheets = .ok cs) :
    ∀ p ∈ names.zip cs, ∃ s, sheets.find? (·.name == p.1) = some s ∧
      compute p.1 acctName (period : Int) o.allowNeg o.fromD o.toD sched s.ins s.outs s.intras = .ok p.2 :=
  Cli.computeAll_pointwise o acctName period sched names sheets cs h
end Rp2.C17
