import Rp2.Proofs.PropsA
/-! # C10 — date filters only hide rows; they never change the figures shown -/
namespace Rp2.C10
open Rp2
/-- under monotone local dates a window view is exactly the filter by `[from, to]`, both bounds inclusive -/
theorem view_is_filter {α} (day : α → Int) (fromD toD : Option Int) (l : List α)
    (hmono : l.Pairwise (fun a b => day a ≤ day b)) :
    viewOf day fromD toD l =
      l.filter (fun x => (match toD with | none => true | some t => decide (day x ≤ t)) &&
                         (match fromD with | none => true | some f => decide (f ≤ day x))) := viewOf_eq_filter day fromD toD l hmono
end Rp2.C10
