import Rp2.Proofs.ComputeYearly
import Rp2.Props.Tables.Loops
import Rp2.Proofs.ComputeWindow
import Rp2.Proofs.PropsA
/-! # C10 — date filters only hide rows; they never change the figures shown -/
namespace Rp2.C10
open Rp2
/-- under monotone local dates a window view is exactly the filter by `[from, to]`, both bounds inclusive -/
theorem view_is_filter {α} (day : α → Int) (fromD toD : Option Int) (l : List α)
    (hmono : l.Pairwise (fun a b => day a ≤ day b)) :
    viewOf day fromD toD l =
      l.filter (fun x => (match toD with | none => true | some t => decide (day x ≤ t)) &&
                         (match fromD with | none => true | some f => decide (f ≤ day x))) := viewOf_eq_filter day fromD toD l hmono
/-- **on the `compute` model (= ComputedData)**: the fractions shown for a window are the fractions of the one computation over the
    whole history — which does not take the window as an argument: lot matching always starts from the beginning — cut at the
    to-date and filtered by the from-date; pairing, amounts and figures are therefore identical to the unfiltered run -/
theorem model_window_only_hides (asset : String) (acctName : Nat → String) (period : Int) (allowNeg : Bool) (fromD toD : Option Int)
    (sched : List (Int × Method)) (ins : List InTx) (outs : List OutTx) (intras : List IntraTx) (cd : Computed)
    (h : compute asset acctName period allowNeg fromD toD sched ins outs intras = .ok cd) :
    ∃ fs, computeFractions sched ins outs intras = .ok fs ∧
      cd.fracs.map (·.f) = (cutAt (fun f : Fraction => f.ev.ts.day) toD fs).filter
        (fun f => match fromD with | none => true | some d => decide (d ≤ f.ev.ts.day)) :=
  compute_fracs asset acctName period allowNeg fromD toD sched ins outs intras cd h
/-- under `LocalDatesMonotone`: exactly the fractions whose own date lies in the window, both bounds inclusive -/
theorem model_window_is_filter (asset : String) (acctName : Nat → String) (period : Int) (allowNeg : Bool) (fromD : Option Int) (t : Int)
    (sched : List (Int × Method)) (ins : List InTx) (outs : List OutTx) (intras : List IntraTx) (cd : Computed)
    (h : compute asset acctName period allowNeg fromD (some t) sched ins outs intras = .ok cd)
    (hmono : ∀ fs, computeFractions sched ins outs intras = .ok fs → fs.Pairwise (fun a b => a.ev.ts.day ≤ b.ev.ts.day)) :
    ∃ fs, computeFractions sched ins outs intras = .ok fs ∧
      cd.fracs.map (·.f) = fs.filter (fun f => decide (f.ev.ts.day ≤ t) && (match fromD with | none => true | some d => decide (d ≤ f.ev.ts.day))) :=
  compute_fracs_window asset acctName period allowNeg fromD t sched ins outs intras cd h hmono
/-- **the from-date only hides** (on the `compute` model): with and without a from-date (same to-date) the balances, the average price and
    the running sums are identical, and the fractions shown — with their `k/n` numbering — are exactly those of the run without a
    from-date whose taxable event is dated on or after it: counts, balances and price reflect all history up to the to-date -/
theorem model_from_date_only_hides (asset : String) (acctName : Nat → String) (period : Int) (allowNeg : Bool) (d : Int) (toD : Option Int)
    (sched : List (Int × Method)) (ins : List InTx) (outs : List OutTx) (intras : List IntraTx) (cd cd0 : Computed)
    (h : compute asset acctName period allowNeg (some d) toD sched ins outs intras = .ok cd)
    (h0 : compute asset acctName period allowNeg none toD sched ins outs intras = .ok cd0) :
    cd.bals = cd0.bals ∧ cd.price = cd0.price ∧ cd.inRun = cd0.inRun ∧ cd.outRun = cd0.outRun ∧ cd.intraRun = cd0.intraRun ∧
    cd.fracs = cd0.fracs.filter (fun n => decide (d ≤ n.f.ev.ts.day)) :=
  compute_from_date_only_hides asset acctName period allowNeg d toD sched ins outs intras cd cd0 h h0

/-- **tie to the source (translator)**: `EntrySetIterator.__next__`, as translated from the Python source on this run, yields exactly the
    model's window `viewOf` — the entries up to (not including) the first one dated after the to-date, without those dated before the
    from-date; both bounds inclusive, dates being the entries' own local dates.  Every filtered table, summary and report is read through it. -/
theorem source_iterator_is_window {α : Type} (day utcDay : α → Int) (fromD toD : Int) (l : List α) :
    drain (Gen.L.iterNext day utcDay fromD toD) (l.length + 1) l = viewOf day (some fromD) (some toD) l :=
  Tables.iterator_is_window day utcDay fromD toD l (l.length + 1) (by omega)


/-- **yearly summary lines cover whole years starting with the from-date's year** (on the `compute` model = ComputedData): a line is reported
    exactly for the keys of the fractions dated up to the to-date — whether or not the from-date hides them — whose year is not before the
    from-date's year; the from-date's day within its year plays no role. -/
theorem model_yearly_lines_of_window (asset : String) (acctName : Nat → String) (period : Int) (allowNeg : Bool) (fromD toD : Option Int)
    (sched : List (Int × Method)) (ins : List InTx) (outs : List OutTx) (intras : List IntraTx) (cd : Computed)
    (h : compute asset acctName period allowNeg fromD toD sched ins outs intras = .ok cd) (line : YKey × YSums) :
    ∃ fs, computeFractions sched ins outs intras = .ok fs ∧
      (line ∈ cd.yearly ↔ line ∈ yearly period (cutAt (fun f : Fraction => f.ev.ts.day) toD fs) ∧
        (match fromYearOf fromD with | none => True | some y => y ≤ line.1.year)) :=
  compute_yearly_mem asset acctName period allowNeg fromD toD sched ins outs intras cd h line
/-- two from-dates in the same calendar year give the same yearly lines (same figures, same order) -/
theorem model_yearly_lines_depend_on_from_year_only (asset : String) (acctName : Nat → String) (period : Int) (allowNeg : Bool) (d1 d2 : Int)
    (toD : Option Int) (sched : List (Int × Method)) (ins : List InTx) (outs : List OutTx) (intras : List IntraTx) (cd1 cd2 : Computed)
    (h1 : compute asset acctName period allowNeg (some d1) toD sched ins outs intras = .ok cd1)
    (h2 : compute asset acctName period allowNeg (some d2) toD sched ins outs intras = .ok cd2)
    (hy : (civilFromDays d1).1 = (civilFromDays d2).1) : cd1.yearly = cd2.yearly :=
  compute_yearly_same_year asset acctName period allowNeg d1 d2 toD sched ins outs intras cd1 cd2 h1 h2 hy
/-- non-vacuity of the year hypothesis: 15 November 2021 and 1 January 2021 (days since the epoch) lie in the same civil year -/
example : (civilFromDays 18946).1 = (civilFromDays 18628).1 := by decide

/-- **the transaction tables of a windowed run are what the iterator translated from the source yields** over the time-sorted tables: the
    In-, Out- and Intra-Flow rows of `compute` (= ComputedData) for a window [from, to] -/
theorem source_iterator_yields_the_reported_tables (asset : String) (acctName : Nat → String) (period : Int) (allowNeg : Bool) (fromD toD : Int)
    (sched : List (Int × Method)) (ins : List InTx) (outs : List OutTx) (intras : List IntraTx) (cd : Computed) (utcDay : {α : Type} → α → Int)
    (h : compute asset acctName period allowNeg (some fromD) (some toD) sched ins outs intras = .ok cd) :
    cd.ins = drain (Gen.L.iterNext (·.ts.day) utcDay fromD toD) (ins.length + 1) (sortByTs (·.ts.us) ins) ∧
    cd.outs = drain (Gen.L.iterNext (·.ts.day) utcDay fromD toD) (outs.length + 1) (sortByTs (·.ts.us) outs) ∧
    cd.intras = drain (Gen.L.iterNext (·.ts.day) utcDay fromD toD) (intras.length + 1) (sortByTs (·.ts.us) intras) := by
  obtain ⟨h1, h2, h3⟩ := compute_views asset acctName period allowNeg (some fromD) (some toD) sched ins outs intras cd h
  have len : ∀ {α : Type} (ts : α → Int) (l : List α), (sortByTs ts l).length = l.length := fun ts l => by unfold sortByTs; simp
  refine ⟨?_, ?_, ?_⟩
  · rw [h1, Tables.iterator_is_window _ _ _ _ _ _ (by rw [len]; omega)]
  · rw [h2, Tables.iterator_is_window _ _ _ _ _ _ (by rw [len]; omega)]
  · rw [h3, Tables.iterator_is_window _ _ _ _ _ _ (by rw [len]; omega)]

/-- a run without date filters shows every entry: with bounds no entry lies outside (the defaults `MIN_DATE` / `MAX_DATE`) the translated
    iterator yields the whole list, in order -/
theorem source_iterator_without_filters_shows_everything {α : Type} (day utcDay : α → Int) (fromD toD : Int) (l : List α)
    (hall : ∀ x ∈ l, fromD ≤ day x ∧ day x ≤ toD) : drain (Gen.L.iterNext day utcDay fromD toD) (l.length + 1) l = l :=
  Tables.iterator_default_window day utcDay fromD toD l hall
end Rp2.C10
