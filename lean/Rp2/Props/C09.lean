import Rp2.Proofs.Prefix
/-! # C09 — later transactions never change results already computed for earlier periods -/
namespace Rp2.C09
open Rp2
theorem earlier_fractions_unchanged (c c' : Ctx) (N : Nat) (hc : SameBelow c c' N)
    (es₁ es₂ : List Event) (r r' : Nat → Nat) (k : Nat) (hag : AgreeBelow N r r')
    (hb : ∀ e ∈ es₁, c.bound e.ts = c'.bound e.ts ∧ c.bound e.ts ≤ N) :
    match runS c r k es₁ with
    | none => runS c' r' k (es₁ ++ es₂) = none
    | some o₁ => ∃ r1', AgreeBelow N r1' r1' ∧ runS c' r' k (es₁ ++ es₂) = (runS c' r1' (k + es₁.length) es₂).map (o₁ ++ ·) :=
  runS_prefix c c' N hc es₁ es₂ r r' k hag hb
end Rp2.C09
