import Rp2.Proofs.ComputeWindow
import Rp2.Proofs.Prefix
/-! # C09 — later transactions never change results already computed for earlier periods -/
namespace Rp2.C09
open Rp2
theorem earlier_fractions_unchanged (c c' : Ctx) (N : Nat) (hc : SameBelow c c' N)
    (es₁ es₂ : List Event) (r r' : Nat → Nat) (k : Nat) (hag : AgreeBelow N r r')
    (hb : ∀ e ∈ es₁, c.bound e.ts = c'.bound e.ts ∧ c.bound e.ts ≤ N) :
    match runS c r k es₁ with
    | none => runS c' r' k (es₁ ++ es₂) = none
    | some o₁ => ∃ r1', AgreeBelow N r1' r1' ∧ runS c' r' k (es₁ ++ es₂) = (runS c' r1' (k + es₁.length) es₂).map (o₁ ++ ·) :=
  runS_prefix c c' N hc es₁ es₂ r r' k hag hb
/-- **on the `compute` model**: a run limited by a to-date shows the fractions of the unlimited computation dated up to it
    (under `LocalDatesMonotone`); together with `earlier_fractions_unchanged` — those fractions do not depend on what comes later —
    this is the to-date form of the property -/
theorem model_to_date_run_is_prefix_of_full_run (asset : String) (acctName : Nat → String) (period : Int) (allowNeg : Bool) (t : Int)
    (sched : List (Int × Method)) (ins : List InTx) (outs : List OutTx) (intras : List IntraTx) (cd : Computed)
    (h : compute asset acctName period allowNeg none (some t) sched ins outs intras = .ok cd)
    (hmono : ∀ fs, computeFractions sched ins outs intras = .ok fs → fs.Pairwise (fun a b => a.ev.ts.day ≤ b.ev.ts.day)) :
    ∃ fs, computeFractions sched ins outs intras = .ok fs ∧ cd.fracs.map (·.f) = fs.filter (fun f => decide (f.ev.ts.day ≤ t) && true) :=
  compute_fracs_window asset acctName period allowNeg none t sched ins outs intras cd h hmono
end Rp2.C09
