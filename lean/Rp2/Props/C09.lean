import Rp2.Props.Tables.Loops
import Rp2.Proofs.Schedule2
import Rp2.Proofs.Truncate
import Rp2.Proofs.ComputeWindow
import Rp2.Proofs.Prefix
import Rp2.Proofs.ReconcileToDate
/-! # C09 — later transactions never change results already computed for earlier periods -/
namespace Rp2.C09
open Rp2
theorem earlier_fractions_unchanged (c c' : Ctx) (N : Nat) (hc : SameBelow c c' N)
    (es₁ es₂ : List Event) (r r' : Nat → Nat) (k : Nat) (hag : AgreeBelow N r r')
    (hb : ∀ e ∈ es₁, c.bound e.ts = c'.bound e.ts ∧ c.bound e.ts ≤ N) :
    match runS c r k es₁ with
    | none => runS c' r' k (es₁ ++ es₂) = none
    | some o₁ => ∃ r1', AgreeBelow N r1' r1' ∧ runS c' r' k (es₁ ++ es₂) = (runS c' r1' (k + es₁.length) es₂).map (o₁ ++ ·) :=
  runS_prefix c c' N hc es₁ es₂ r r' k hag hb
/-- **on the `compute` model**: a run limited by a to-date shows the fractions of the unlimited computation dated up to it
    (under `LocalDatesMonotone`); together with `earlier_fractions_unchanged` — those fractions do not depend on what comes later —
    this is the to-date form of the property -/
theorem model_to_date_run_is_prefix_of_full_run (asset : String) (acctName : Nat → String) (period : Int) (allowNeg : Bool) (t : Int)
    (sched : List (Int × Method)) (ins : List InTx) (outs : List OutTx) (intras : List IntraTx) (cd : Computed)
    (h : compute asset acctName period allowNeg none (some t) sched ins outs intras = .ok cd)
    (hmono : ∀ fs, computeFractions sched ins outs intras = .ok fs → fs.Pairwise (fun a b => a.ev.ts.day ≤ b.ev.ts.day)) :
    ∃ fs, computeFractions sched ins outs intras = .ok fs ∧ cd.fracs.map (·.f) = fs.filter (fun f => decide (f.ev.ts.day ≤ t) && true) :=
  compute_fracs_window asset acctName period allowNeg none t sched ins outs intras cd h hmono
/-- **C09 on the executable pipeline, full statement**: computing on the history truncated at date `T` (every transaction dated after
    `T` removed) yields exactly the fractions of the full computation whose taxable event is dated up to `T` — same lot pairing, same
    amounts, and (the figures being functions of event, lot and amount) same proceeds, cost bases, gains and long/short flags.
    Equivalently: adding transactions dated after `T` changes nothing computed for events up to `T`.
    Hypotheses: table in sheet order; `SameInstantSameYear` (F7); `DatesMonotone` = `LocalDatesMonotone` (F6) for lots, events and
    lot/event pairs. Uses `filter_mergeSort` (a stable sort commutes with filtering), the specification's prefix theorem and the
    engine refinement on both histories. -/
theorem model_truncated_history_same_fractions (sched : List (Int × Method)) (ins : List InTx) (outs : List OutTx) (intras : List IntraTx)
    (fs : List Fraction) (T : Int)
    (hord : SheetOrder ins) (hy : SameInstantSameYear (taxableEvents ins outs intras)) (hm : DatesMonotone ins outs intras)
    (h : computeFractions sched ins outs intras = .ok fs) :
    computeFractions sched (ins.filter (keepIn T)) (outs.filter (keepOut T)) (intras.filter (keepIntra T)) =
      .ok (fs.filter (fun f => decide (f.ev.ts.day ≤ T))) := computeFractions_truncate sched ins outs intras fs T hord hy hm h
/-- a stable sort commutes with filtering (used to relate the sorted views of a history and of its truncation) -/
theorem stable_sort_commutes_with_filter {α : Type} (le : α → α → Bool) (trans : ∀ (a b c : α), le a b → le b c → le a c)
    (total : ∀ (a b : α), le a b || le b a) (q : α → Bool) (l : List α) :
    (l.mergeSort le).filter q = (l.filter q).mergeSort le := filter_mergeSort le trans total q l
/-- **C09 on the `compute` model, the whole computation** ("a run limited by to-date T reports the same figures as a run on the history
    truncated at T"): the run with to-date `T` and the run on the truncated history (no date filter) produce the same numbered fractions —
    pairing, amounts, `k/n` labels —, the same yearly summary lines, the same account balances and the same average price. Hypotheses:
    table in sheet order; `SameInstantSameYear` (F7); monotone local dates (F6) for lots, events, lot/event pairs, fractions and the
    replayed transactions. -/
theorem model_to_date_run_equals_truncated_run (asset : String) (acctName : Nat → String) (period : Int) (allowNeg : Bool) (T : Int)
    (sched : List (Int × Method)) (ins : List InTx) (outs : List OutTx) (intras : List IntraTx) (cd : Computed)
    (hord : SheetOrder ins) (hy : SameInstantSameYear (taxableEvents ins outs intras)) (hm : DatesMonotone ins outs intras)
    (hmb : (sortByTs (fun t : AnyTx => t.ts.us) (ins.map AnyTx.i ++ intras.map AnyTx.x ++ outs.map AnyTx.o)).Pairwise (fun a b => a.ts.day ≤ b.ts.day))
    (hmf : ∀ fs, computeFractions sched ins outs intras = .ok fs → fs.Pairwise (fun a b => a.ev.ts.day ≤ b.ev.ts.day))
    (h : compute asset acctName period allowNeg none (some T) sched ins outs intras = .ok cd) :
    ∃ cd', compute asset acctName period allowNeg none none sched (ins.filter (keepIn T)) (outs.filter (keepOut T)) (intras.filter (keepIntra T)) = .ok cd' ∧
      cd'.fracs = cd.fracs ∧ cd'.yearly = cd.yearly ∧ cd'.bals = cd.bals ∧ cd'.price = cd.price :=
  compute_to_date_eq_truncated asset acctName period allowNeg T sched ins outs intras cd hord hy hm hmb hmf h
/-- entries of the method schedule that start after year `Y` have no influence on the method in force in any year up to `Y`: a run limited
    by a to-date, and a configuration extended by later years, pair earlier disposals by the same methods -/
theorem schedule_entries_after_the_to_date_are_irrelevant (sched : List (Int × Method)) (hnd : (sched.map (·.1)).Nodup) (Y y : Int) (hy : y ≤ Y) :
    methodFor (sched.filter (fun p => decide (p.1 ≤ Y))) y = methodFor sched y := methodFor_drop_later sched hnd Y y hy

/-- **tie to the source (translator)**: `EntrySetIterator.__next__`, as translated from the Python source on this run, yields exactly the
    model's window `viewOf` — the entries up to (not including) the first one dated after the to-date, without those dated before the
    from-date; both bounds inclusive, dates being the entries' own local dates.  A later entry can only be cut off, never change what is yielded before it. -/
theorem source_iterator_is_window {α : Type} (day utcDay : α → Int) (fromD toD : Int) (l : List α) :
    drain (Gen.L.iterNext day utcDay fromD toD) (l.length + 1) l = viewOf day (some fromD) (some toD) l :=
  Tables.iterator_is_window day utcDay fromD toD l (l.length + 1) (by omega)

end Rp2.C09
