import Rp2.Proofs.ReportTotal
import Rp2.Props.Tables.Templates
import Rp2.Props.Tables.Countries
import Rp2.Props.Tables.Sheets
import Rp2.Proofs.CliFiles
import Rp2.Proofs.FracTypes
import Rp2.Proofs.GenTotal
/-! # C16 — every supported option combination runs to completion on every valid input
Table-level obligations (decided over the tables regenerated from the source) and the structure of the CLI model. -/
namespace Rp2.C16
open Rp2 Rp2.Tables
theorem default_options_have_templates : defaultsOk = true := templates_default
theorem shipped_languages_have_all_templates : shippedOk = true := templates_shipped_languages
theorem template_links_resolve : (Gen.templates.all fun t => t.2.2.2) = true := links_resolve
theorem every_accepted_method_exists : (Gen.countries.all fun c => c.2.2.2.2.1.all fun m => ["fifo", "lifo", "hifo", "lofo"].contains m) = true := methods_known
theorem default_method_is_accepted : (Gen.countries.all fun c => c.2.2.2.2.1.contains c.2.2.2.1) = true := default_method_allowed
/-- every type that can occur as a taxable event has a sheet in the tax reports (no missing key) -/
theorem taxable_types_have_a_sheet : ∀ t ∈ allTypes, (t.isEarn || outOk t || decide (t = .move)) = true → (sheetOf true t).isSome = true := taxable_types_mapped
/-- the only ways the CLI model ends with a non-zero status before the generators are the documented rejections -/
theorem files_are_reports (o : Cli.Options) (acctName holderOf : Nat → String) (cfgAssets : List String) (sheets : List Cli.AssetIn) :
    ∀ f ∈ (Cli.run o acctName holderOf cfgAssets sheets).files, ∃ m base, f.1 = Cli.fileName o.pfx m base := Cli.run_files o acctName holderOf cfgAssets sheets
/-- the full-report generator model (with the repairs of F2, F4, F10) never ends in an internal error: the Tax sheet is always
    large enough and a Summary line without detail rows carries no link -/
theorem full_report_total (holderOf : Nat → String) (period : Int) (cs : List Computed) :
    ∃ rows, genFull true true holderOf period cs = .ok rows := genFull_total holderOf period cs
theorem tax_sheet_fits (cpa : Bool) (holderOf : Nat → String) (period : Int) (st : GenState) (c : Computed) :
    (layoutAsset cpa holderOf period st c).dStart + c.fracs.length ≤ (layoutAsset cpa holderOf period st c).capacity := layout_fits cpa holderOf period st c
/-- the tax-report generator model (US map; IE map after the repair of F11) can only fail when some fraction's transaction type has no
    sheet; in particular the `IndexError` branch (sheet too small) is unreachable: every `append_rows` call adds 21 rows more than the
    fractions of its type, whatever the number of assets sharing the sheet -/
theorem tax_report_fails_only_on_unmapped_type (lm : Bool) (period : Int) (templateRows : Nat) (cs : List Computed) (ht : 7 ≤ templateRows)
    (hty : ∀ p ∈ allFracs cs, (sheetOf lm p.2.f.ev.typ).isSome) : ∃ r, taxReport lm period templateRows cs = .ok r :=
  taxReport_total lm period templateRows cs ht hty
/-- … and on computed data of accepted input (OUT rows carry disposal types, which is what the parser model accepts, `mkOutRow_ok`) every
    fraction's type has a sheet: the tax report model never ends in an internal error -/
theorem tax_report_total (period : Int) (cs : List Computed)
    (hc : ∀ c ∈ cs, ∃ asset acctName per allowNeg fromD toD sched ins outs intras,
      compute asset acctName per allowNeg fromD toD sched ins outs intras = .ok c ∧ ∀ o ∈ outs, ValidOutType o.typ) :
    ∃ r, taxReport true period 102 cs = .ok r := taxReport_total_on_computed period cs hc
/-- **whole-run model**: a valid invocation (no option fault, the input computes) for which every generator of the country has a template
    in the chosen language and its generator model succeeds exits with status 0 and writes exactly one report per generator, named
    `<prefix><method or "mixed">_<generator>.ods`, in execution order. The generator hypotheses are discharged by the table theorems
    (templates), `full_report_total`, `generator_tax_total`, `generator_jp_total`, `generator_open_positions_total` — see `valid_run_writes_every_report`. -/
theorem valid_run_completes (o : Cli.Options) (acctName holderOf : Nat → String) (cfgAssets : List String) (sheets : List Cli.AssetIn)
    (iso : String) (period : Nat) (defMethod : String) (methods gens : List String) (defLang : String) (sched : List (Int × Method)) (cs : List Computed)
    (v : Cli.Valid o acctName cfgAssets sheets iso period defMethod methods gens defLang sched cs)
    (hg : ∀ g ∈ Cli.ordered gens, Cli.hasTemplate iso (Cli.genBase g) (o.lang.getD defLang) = true ∧ ∃ rep, Cli.genReport o (Cli.genBase g) period holderOf cs = .ok rep) :
    (Cli.run o acctName holderOf cfgAssets sheets).exit = 0 ∧
    (Cli.run o acctName holderOf cfgAssets sheets).files.map (·.1) =
      (Cli.ordered gens).map (fun g => Cli.fileName o.pfx (Cli.methodName (Cli.scheduleOf o defMethod)) (Cli.genBase g)) :=
  Cli.run_complete o acctName holderOf cfgAssets sheets iso period defMethod methods gens defLang sched cs v hg
theorem generator_full_total (o : Cli.Options) (period : Nat) (holderOf : Nat → String) (cs : List Computed) :
    ∃ rep, Cli.genReport o "rp2_full_report" period holderOf cs = .ok rep := Cli.genReport_full o period holderOf cs
theorem generator_tax_total (o : Cli.Options) (base : String) (period : Nat) (holderOf : Nat → String) (cs : List Computed)
    (hb : base ≠ "rp2_full_report" ∧ base ≠ "open_positions" ∧ base ≠ "tax_report_jp")
    (hc : ∀ c ∈ cs, ∃ asset acctName per allowNeg fromD toD sched ins outs intras,
      compute asset acctName per allowNeg fromD toD sched ins outs intras = .ok c ∧ ∀ o ∈ outs, ValidOutType o.typ) :
    ∃ rep, Cli.genReport o base period holderOf cs = .ok rep := Cli.genReport_tax o base period holderOf cs hb hc
/-- the JP generator model succeeds unless both a from- and a to-date are given (finding F8) or a fee-bearing transfer's yen fee vanishes at
    13 decimals (finding F13) -/
theorem generator_jp_total (o : Cli.Options) (period : Nat) (holderOf : Nat → String) (cs : List Computed)
    (hw : (o.fromD.isSome && o.toD.isSome) = false)
    (hv : ∀ c ∈ cs, ∀ x ∈ c.intras, gt13 (dsub (ofUnits x.sent) (ofUnits x.recv)) 0 = true → gt13 (dmul (dsub (ofUnits x.sent) (ofUnits x.recv)) (ofUnits x.price)) 0 = true) :
    ∃ rep, Cli.genReport o "tax_report_jp" period holderOf cs = .ok rep := Cli.genReport_jp o period holderOf cs hw hv
/-- the open-positions generator model has no failure branch (after the repair of F16: an asset whose residual cost is rounding noise of
    the sold percentages while nothing is held any longer is skipped instead of raising `KeyError`) -/
theorem generator_open_positions_total (o : Cli.Options) (period : Nat) (holderOf : Nat → String) (cs : List Computed) :
    ∃ rep, Cli.genReport o "open_positions" period holderOf cs = .ok rep := Cli.genReport_open o period holderOf cs
/-- **whole-run model, every generator hypothesis discharged**: no option fault + the input computes + OUT rows carry disposal types +
    templates exist for the language (table theorems) + for the Japanese report neither F8 (both dates) nor F13 (invisible yen fee)
    ⇒ exit status 0 and exactly one report per generator of the country, in execution order -/
theorem valid_run_writes_every_report (o : Cli.Options) (acctName holderOf : Nat → String) (cfgAssets : List String) (sheets : List Cli.AssetIn)
    (iso : String) (period : Nat) (defMethod : String) (methods gens : List String) (defLang : String) (sched : List (Int × Method)) (cs : List Computed)
    (v : Cli.Valid o acctName cfgAssets sheets iso period defMethod methods gens defLang sched cs)
    (hout : ∀ s ∈ sheets, ∀ t ∈ s.outs, ValidOutType t.typ)
    (ht : ∀ g ∈ Cli.ordered gens, Cli.hasTemplate iso (Cli.genBase g) (o.lang.getD defLang) = true)
    (hjp : ∀ g ∈ Cli.ordered gens, Cli.genBase g = "tax_report_jp" → (o.fromD.isSome && o.toD.isSome) = false ∧
      ∀ c ∈ cs, ∀ x ∈ c.intras, gt13 (dsub (ofUnits x.sent) (ofUnits x.recv)) 0 = true → gt13 (dmul (dsub (ofUnits x.sent) (ofUnits x.recv)) (ofUnits x.price)) 0 = true) :
    (Cli.run o acctName holderOf cfgAssets sheets).exit = 0 ∧
    (Cli.run o acctName holderOf cfgAssets sheets).files.map (·.1) =
      (Cli.ordered gens).map (fun g => Cli.fileName o.pfx (Cli.methodName (Cli.scheduleOf o defMethod)) (Cli.genBase g)) :=
  Cli.run_complete_on_computed o acctName holderOf cfgAssets sheets iso period defMethod methods gens defLang sched cs v hout ht hjp
/-- **what "valid input" means for one asset**: `compute` succeeds exactly when lot matching succeeds (C02: every disposal covered) and the
    balance replay is not rejected (C08: no overdrawn account, or `-n`) — no other failure exists in the computation model -/
theorem input_computes_iff (asset : String) (acctName : Nat → String) (period : Int) (allowNeg : Bool) (fromD toD : Option Int)
    (sched : List (Int × Method)) (ins : List InTx) (outs : List OutTx) (intras : List IntraTx) :
    (∃ cd, compute asset acctName period allowNeg fromD toD sched ins outs intras = .ok cd) ↔
      (∃ fs, computeFractions sched ins outs intras = .ok fs) ∧ (∃ bs, balances allowNeg toD ins outs intras = .ok bs) :=
  compute_ok_iff asset acctName period allowNeg fromD toD sched ins outs intras
end Rp2.C16
