import Rp2.Proofs.ReportTotal
import Rp2.Props.Tables.Templates
import Rp2.Props.Tables.Countries
import Rp2.Props.Tables.Sheets
import Rp2.Proofs.CliFiles
/-! # C16 — every supported option combination runs to completion on every valid input
Table-level obligations (decided over the tables regenerated from the source) and the structure of the CLI model. -/
namespace Rp2.C16
open Rp2 Rp2.Tables
theorem default_options_have_templates : defaultsOk = true := templates_default
theorem shipped_languages_have_all_templates : shippedOk = true := templates_shipped_languages
theorem template_links_resolve : (Gen.templates.all fun t => t.2.2.2) = true := links_resolve
theorem every_accepted_method_exists : (Gen.countries.all fun c => c.2.2.2.2.1.all fun m => ["fifo", "lifo", "hifo", "lofo"].contains m) = true := methods_known
theorem default_method_is_accepted : (Gen.countries.all fun c => c.2.2.2.2.1.contains c.2.2.2.1) = true := default_method_allowed
/-- every type that can occur as a taxable event has a sheet in the tax reports (no missing key) -/
theorem taxable_types_have_a_sheet : ∀ t ∈ allTypes, (t.isEarn || outOk t || decide (t = .move)) = true → (sheetOf true t).isSome = true := taxable_types_mapped
/-- the only ways the CLI model ends with a non-zero status before the generators are the documented rejections -/
theorem files_are_reports (o : Cli.Options) (acctName holderOf : Nat → String) (cfgAssets : List String) (sheets : List Cli.AssetIn) :
    ∀ f ∈ (Cli.run o acctName holderOf cfgAssets sheets).files, ∃ m base, f.1 = Cli.fileName o.pfx m base := Cli.run_files o acctName holderOf cfgAssets sheets
/-- the full-report generator model (with the repairs of F2, F4, F10) never ends in an internal error: the Tax sheet is always
    large enough and a Summary line without detail rows carries no link -/
theorem full_report_total (holderOf : Nat → String) (period : Int) (cs : List Computed) :
    ∃ rows, genFull true true holderOf period cs = .ok rows := genFull_total holderOf period cs
theorem tax_sheet_fits (cpa : Bool) (holderOf : Nat → String) (period : Int) (st : GenState) (c : Computed) :
    (layoutAsset cpa holderOf period st c).dStart + c.fracs.length ≤ (layoutAsset cpa holderOf period st c).capacity := layout_fits cpa holderOf period st c
end Rp2.C16
