import Rp2.Proofs.OpenPos
import Rp2.Proofs.OpenPosModel
import Rp2.Proofs.HolderTotals
/-! # C15 — open-positions report matches balances and the cost of unsold lot parts (exact-arithmetic laws) -/
namespace Rp2.C15
open Rp2
theorem realized_plus_unrealized_is_acquired (lots : List (ℚ × ℚ × List ℚ)) (hA : ∀ l ∈ lots, l.2.1 ≠ 0) :
    (lots.map (fun l => (l.2.2.map (fun a => l.1 * a / l.2.1)).sum)).sum + (lots.map (fun l => l.1 * (1 - l.2.2.sum / l.2.1))).sum
      = (lots.map (·.1)).sum := conservation lots hA
theorem weights_add_to_one (cs : List ℚ) (T : ℚ) (hT : T ≠ 0) (h : cs.sum = T) : (cs.map (· / T)).sum = 1 := weights_sum_one cs T hT h
theorem unit_cost_is_cost_over_balance (bs : List ℚ) (C : ℚ) (hB : bs.sum ≠ 0) : (bs.map (fun b => b * (C / bs.sum))).sum = C :=
  unit_cost_distributes bs C hB
/-- non-vacuity: one lot of cost 100 and amount 4, pieces 1 and 2 consumed -/
example : ∀ l ∈ [((100 : ℚ), (4 : ℚ), [(1 : ℚ), 2])], l.2.1 ≠ 0 := by simp

/-- **model level (the executable `openPositions` that the correspondence check runs against open_positions.ods)**: for every list of
    computed assets, with `per` = the assets that have unsold cost and a positive balance, in processing order:
    the "Asset" sheet has exactly one row per (asset, holder with a positive final balance) and the "Asset - Exchange" sheet exactly one row
    per (asset, holder, account) with a positive final balance, carrying that very balance (a rearrangement of `posBalances`, grouped by
    holder); rows are numbered 4, 5, … without gaps or repeats. -/
theorem model_lists_positive_balances (holderOf : Nat → String) (cs : List Computed) (ars : List OARow) (ers : List OERow) (hs : List String)
    (h : openPositions holderOf cs = .ok (ars, ers, hs)) :
    (ars.map (fun x => (x.asset, x.holder, x.bal)) =
      ((cs.map (opAsset holderOf)).filter (fun p => p.cost.isSome && !p.holders.isEmpty)).flatMap (fun p => p.holders.map (fun h => (p.asset, h.1, h.2)))) ∧
    (ers.map (fun x => (x.asset, x.holder, x.acct, x.bal)) =
      ((cs.map (opAsset holderOf)).filter (fun p => p.cost.isSome && !p.holders.isEmpty)).flatMap (fun p => (opGrouped p).map (fun g => (p.asset, g.1, g.2.1, g.2.2)))) ∧
    (∀ c ∈ cs, (((opAsset holderOf c).holders).map (·.1)).Nodup ∧
      (∀ h, h ∈ ((opAsset holderOf c).holders).map (·.1) ↔ ∃ x ∈ posBalances holderOf c, x.1 = h) ∧
      (opGrouped (opAsset holderOf c)).Perm (posBalances holderOf c)) ∧
    ars.map (·.row) = List.range' 4 ars.length ∧ ers.map (·.row) = List.range' 4 ers.length := by
  obtain ⟨h1, h2, h3, h4⟩ := openPositions_rows holderOf cs ars ers hs h
  exact ⟨h1, h2, fun c _ => opAsset_spec holderOf c, h3, h4⟩
/-- a holder's crypto balance on the "Asset" sheet is the decimal sum of that holder's positive account balances, in balance order -/
theorem model_holder_balance_is_sum (holderOf : Nat → String) (c : Computed) (h : String) :
    aget (opAsset holderOf c).holders h =
      if (c.bals.filter (fun b => gt13 (ofUnits b.fin) 0)).filter (fun b => holderOf b.acct == h) = [] then none
      else some (((c.bals.filter (fun b => gt13 (ofUnits b.fin) 0)).filter (fun b => holderOf b.acct == h)).foldl (fun s b => dadd s (ofUnits b.fin)) 0) := by
  have := fold_addS_value (fun b : BalRow => holderOf b.acct) (fun b => ofUnits b.fin) (c.bals.filter (fun b => gt13 (ofUnits b.fin) 0)) [] h
  simpa [opAsset, aget] using this
/-- the cost columns of a row: cost = balance × per-unit cost and weight = cost / total, in the report's 31-digit decimal arithmetic -/
theorem model_row_columns (p : OPAsset) (unit total : Rat) (ai : Nat) :
    ∀ x ∈ opARows p unit total ai, x.unit = unit ∧ x.cost = dmul x.bal unit ∧ x.weight = ddiv x.cost total := opARows_fields p unit total ai
/-- non-vacuity: one asset, one lot (cost 300) not sold at all, two accounts of two holders with positive balances and one emptied account:
    the model generates the report with two holder rows and two account rows -/
def exComputed : Computed :=
  { asset := "B1", ins := [{ row := 4, ts := ⟨0, 0⟩, acct := 0, typ := .buy, price := 0, amount := 300, fiatFee := 0, fiatNoFee := 300, fiatWithFee := 300 }],
    outs := [], intras := [], inRun := [], outRun := [], intraRun := [], sold := [], fracs := [], fracRun := [], yearly := [],
    bals := [{ acct := 0, fin := 100 }, { acct := 1, fin := 200 }, { acct := 2, fin := 0 }], price := 0 }
example : (match openPositions (fun a => if a == 0 then "Alice" else "Bob") [exComputed] with
    | .ok (a, e, hs) => a.length == 2 && e.length == 2 && hs == ["Alice", "Bob"] | .error _ => false) = true := by decide +kernel
end Rp2.C15
