import Rp2.Proofs.OpenPos
/-! # C15 — open-positions report matches balances and the cost of unsold lot parts (exact-arithmetic laws) -/
namespace Rp2.C15
open Rp2
theorem realized_plus_unrealized_is_acquired (lots : List (ℚ × ℚ × List ℚ)) (hA : ∀ l ∈ lots, l.2.1 ≠ 0) :
    (lots.map (fun l => (l.2.2.map (fun a => l.1 * a / l.2.1)).sum)).sum + (lots.map (fun l => l.1 * (1 - l.2.2.sum / l.2.1))).sum
      = (lots.map (·.1)).sum := conservation lots hA
theorem weights_add_to_one (cs : List ℚ) (T : ℚ) (hT : T ≠ 0) (h : cs.sum = T) : (cs.map (· / T)).sum = 1 := weights_sum_one cs T hT h
theorem unit_cost_is_cost_over_balance (bs : List ℚ) (C : ℚ) (hB : bs.sum ≠ 0) : (bs.map (fun b => b * (C / bs.sum))).sum = C :=
  unit_cost_distributes bs C hB
/-- non-vacuity: one lot of cost 100 and amount 4, pieces 1 and 2 consumed -/
example : ∀ l ∈ [((100 : ℚ), (4 : ℚ), [(1 : ℚ), 2])], l.2.1 ≠ 0 := by simp
end Rp2.C15
