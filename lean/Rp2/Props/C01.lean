import Rp2.Proofs.Schedule
import Rp2.Proofs.Final
import Rp2.Proofs.PipelineEngine
import Rp2.Gen.Methods
/-!
# C01 — disposals consume lots in the order the accounting method prescribes
Property theorems (statements only; proofs live in `Rp2/Proofs`). Nothing here may weaken them.
-/
namespace Rp2.C01
open Rp2 Rp2.Gen

/-- tie to the source: the four `sort_key` expressions and plugin kinds regenerated from `/repo` are the ones the
    model's `key` implements (`fifo`: chronological scan, i.e. key (ts,row)). -/
theorem methods_agree : methods =
    [("fifo", "chronological", "OLDER_TO_NEWER", []), ("hifo", "feature", "", [.neg .price, .pos .ts, .pos .row]),
     ("lifo", "feature", "", [.pos .zero, .neg .ts, .neg .row]), ("lofo", "feature", "", [.pos .price, .pos .ts, .pos .row])] := by decide

/-- the engine (heaps, partial-amount cache, index windows, in-flight lot) equals the greedy specification -/
theorem engine_refines_spec (ctx : Ctx) (N : Nat) (hs : SortedLots ctx N) (hinj : LotInj ctx.L N) (hN : ∀ t, ctx.bound t ≤ N)
    (hbm : ∀ a b : Int, a ≤ b → ctx.bound a ≤ ctx.bound b) (es : List Event) (hev : EvOK none es) :
    runM ctx MSt.init none 0 es = runS ctx (fun i => (ctx.L i).amount) 0 es :=
  engine_eq_spec ctx N hs hinj hN hbm es hev

/-- history-level statement: every piece is taken from the lot the method ranks first among the lots acquired at
    or before the disposal that still have balance, given everything consumed before it -/
theorem best_lot (acqs : List Acq) (meth : Nat → Method) (es : List Event) (out : List Frac)
    (hrows : (acqs.map (·.row)).Nodup) (hev : EvOK none es) (hpos : ∀ e ∈ es, ¬ e.earn → 0 < e.amount)
    (hrun : runM (mkCtx acqs meth) MSt.init none 0 es = some out) :
    ∀ pre f post i, out = pre ++ f :: post → f.lot = some i →
      ∃ e, es[f.ev]? = some e ∧ ((mkCtx acqs meth).L i).ts ≤ e.ts ∧ taken pre i < ((mkCtx acqs meth).L i).amount ∧
        ∀ j, j < (sortedLots acqs).length → ((mkCtx acqs meth).L j).ts ≤ e.ts → taken pre j < ((mkCtx acqs meth).L j).amount →
          ¬ better (meth e.slot) ((mkCtx acqs meth).L j) ((mkCtx acqs meth).L i) :=
  (engine_C01_C02 acqs meth es out hrows hev hpos hrun).2.2.2

/-- the same for `computeFractions` — the executable pipeline function that `compute`, the compiled drivers and every
    correspondence stream run — on a table in sheet order (`SheetOrder`: what the parser produces, `C11.ids_are_row_numbers`)
    and under `SameInstantSameYear` (finding F7): its output is the decoding of an engine run `out` in which every piece is
    taken from the lot the method of the event's year ranks first among the lots acquired at or before the event that still
    have balance given everything consumed before it (4th conjunct; the first three are C02's) -/
theorem pipeline_best_lot (sched : List (Int × Method)) (ins : List InTx) (outs : List OutTx) (intras : List IntraTx) (fs : List Fraction)
    (hord : SheetOrder ins) (hy : SameInstantSameYear (taxableEvents ins outs intras))
    (h : computeFractions sched ins outs intras = .ok fs) :
    ∃ es out, engineEvents sched (taxableEvents ins outs intras) = some es ∧
      fs = decodeFracs (sortByTs (·.ts.us) ins) (taxableEvents ins outs intras) out ∧
      (∀ i, taken out i ≤ ((lotCtx sched (sortByTs (·.ts.us) ins)).L i).amount) ∧
      (∀ j e, es[j]? = some e → total (out.filter (fun f => f.ev = j)) = e.amount) ∧
      (∀ f ∈ out, ∃ e, es[f.ev]? = some e ∧ (e.earn → f = ⟨f.ev, none, e.amount⟩) ∧
          (¬ e.earn → 0 < f.amt ∧ ∃ i, f.lot = some i ∧ i < (sortByTs (·.ts.us) ins).length ∧
            ((lotCtx sched (sortByTs (·.ts.us) ins)).L i).ts ≤ e.ts)) ∧
      (∀ pre f post i, out = pre ++ f :: post → f.lot = some i →
          ∃ e, es[f.ev]? = some e ∧ ((lotCtx sched (sortByTs (·.ts.us) ins)).L i).ts ≤ e.ts ∧
            taken pre i < ((lotCtx sched (sortByTs (·.ts.us) ins)).L i).amount ∧
            ∀ j, j < (sortByTs (·.ts.us) ins).length → ((lotCtx sched (sortByTs (·.ts.us) ins)).L j).ts ≤ e.ts →
              taken pre j < ((lotCtx sched (sortByTs (·.ts.us) ins)).L j).amount →
              ¬ better ((lotCtx sched (sortByTs (·.ts.us) ins)).meth e.slot) ((lotCtx sched (sortByTs (·.ts.us) ins)).L j)
                  ((lotCtx sched (sortByTs (·.ts.us) ins)).L i)) :=
  computeFractions_sound sched ins outs intras fs hord hy h

/-- the time-sorted lot list is ordered by (instant, sheet row): `list.sort(key=timestamp)` is stable -/
theorem lots_sorted_by_instant_then_row (ins : List InTx) (h : SheetOrder ins) :
    (sortByTs (·.ts.us) ins).Pairwise (fun a b => a.ts.us < b.ts.us ∨ (a.ts.us = b.ts.us ∧ a.row < b.row)) := sortedIns_lex ins h

/-- non-vacuity: a concrete history meets the hypotheses (two lots, an income event, two disposals at one instant) -/
example : EvOK none [⟨10, 0, 2, true⟩, ⟨20, 0, 3, false⟩, ⟨20, 0, 1, false⟩] := by
  simp [EvOK]
/-- year-over-year method changes: the method in force in a year is the one of the schedule entry with the greatest year not after it … -/
theorem method_in_force_iff (sched : List (Int × Method)) (hnd : (sched.map (·.1)).Nodup) (year : Int) (m : Method) :
    methodFor sched year = some m ↔ ∃ y, (y, m) ∈ sched ∧ y ≤ year ∧ ∀ p ∈ sched, p.1 ≤ year → p.1 ≤ y := methodFor_iff sched hnd year m
/-- … whatever the order in which the `[accounting_methods]` section lists its entries (`methodFor` is what the pipeline's `engineEvents` /
    `lotCtx` look up: slot of the event's local year, method of that slot) -/
theorem method_in_force_independent_of_line_order (s1 s2 : List (Int × Method)) (hp : s1.Perm s2) (hnd : (s1.map (·.1)).Nodup) (year : Int) :
    methodFor s1 year = methodFor s2 year := methodFor_perm s1 s2 hp hnd year
example : methodFor [(2021, .fifo), (2024, .fifo), (2022, .hifo)] 2025 = some .fifo ∧ methodFor [(2021, .fifo), (2024, .fifo), (2022, .hifo)] 2023 = some .hifo := by decide
end Rp2.C01
