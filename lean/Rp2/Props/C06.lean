import Rp2.Props.Tables.Loops
import Rp2.Proofs.Yearly
import Rp2.Proofs.YearlyModel
/-! # C06 — yearly summary equals the sum of its detail fractions -/
namespace Rp2.C06
open Rp2
/-- the insertion-ordered group-by has one line per key that occurs, no other line, and each line is the in-order
    running sum of exactly the entries with that key -/
theorem lines_are_sums {κ : Type} [DecidableEq κ] {α : Type} (add : α → α → α) (zero : α) (fs : List (κ × α)) :
    ((group add zero fs).map (·.1)).Nodup ∧
    (∀ k, k ∈ (group add zero fs).map (·.1) ↔ k ∈ fs.map (·.1)) ∧
    (∀ k, k ∈ fs.map (·.1) → lookup k (group add zero fs) = some (sumKey add k zero fs)) := group_spec add zero fs
/-- **on the executable model** (`yearly` of `Model/Pipeline.lean`): one line per key that has fractions, no other line, each
    line the in-order decimal sums of its fractions; the key's year is that of the taxable event -/
theorem model_lines_are_sums (period : Int) (fs : List Fraction) :
    ((yearly period fs).map (·.1)).Nodup ∧
    (∀ k, k ∈ (yearly period fs).map (·.1) ↔ ∃ f ∈ fs, yearKey period f = k) ∧
    (∀ k, (∃ f ∈ fs, yearKey period f = k) →
      lookup k (yearly period fs) = some (((fs.filter (fun f => yearKey period f = k)).map yearVal).foldl YSums.add YSums.zero)) := yearly_spec period fs
theorem key_uses_event_year (period : Int) (f : Fraction) : (yearKey period f).year = f.ev.ts.year := rfl
/-- under `LocalDatesMonotone` the fractions summarised for a to-date are exactly those dated up to it -/
theorem to_date_cut_is_filter {α} (day : α → Int) (t : Int) (l : List α) (hmono : l.Pairwise (fun a b => day a ≤ day b)) :
    cutAt day (some t) l = l.filter (fun x => decide (day x ≤ t)) := cutAt_eq_filter day t l hmono

/-- **tie to the source (translator)**: `EntrySetIterator.__next__`, as translated from the Python source on this run, yields exactly the
    model's window `viewOf` — the entries up to (not including) the first one dated after the to-date, without those dated before the
    from-date; both bounds inclusive, dates being the entries' own local dates.  Every filtered table, summary and report is read through it. -/
theorem source_iterator_is_window {α : Type} (day utcDay : α → Int) (fromD toD : Int) (l : List α) :
    drain (Gen.L.iterNext day utcDay fromD toD) (l.length + 1) l = viewOf day (some fromD) (some toD) l :=
  Tables.iterator_is_window day utcDay fromD toD l (l.length + 1) (by omega)


/-- **tie to the source (translator)**: the loop of `ComputedData._create_yearly_gain_loss_list` — key, default amounts, the four running sums
    and the `break` at the to-date as translated from the Python source on this run (`Gen/Loops.lean`), the dictionary discipline
    (`setdefault`, then assignment) as the translator insists on — computes the model's `yearly`, the very function `model_lines_are_sums` is
    about.  Hypothesis: no fraction is a lot-less disposal (the engine never produces one: a fraction without a lot is an earning). -/
theorem source_yearly_loop_is_model (period : Int) (fs : List Fraction) (h : ∀ f ∈ fs, Tables.lotlessDisposal f = false) :
    fs.foldlM (Tables.yearlyRound period) [] = some (yearly period fs) := Tables.yearly_loop_is_yearly period fs h
theorem source_yearly_cut (d t : Int) : Gen.L.yearlyStops d t = !decide (d ≤ t) := Tables.yearly_cut d t

/-- the same with the loop's own `break`: over all fractions in the order of the gain / loss set, stopping where the translated to-date test
    fires — the lines `compute` (= ComputedData) reports before the from-year filter (`C10.model_yearly_lines_of_window`) -/
theorem source_yearly_loop_with_break_is_model (period t : Int) (fs : List Fraction) (h : ∀ f ∈ fs, Tables.lotlessDisposal f = false) :
    Tables.forBreak (fun f : Fraction => Gen.L.yearlyStops f.ev.ts.day t) (Tables.yearlyRound period) [] fs =
      some (yearly period (cutAt (fun f : Fraction => f.ev.ts.day) (some t) fs)) :=
  Tables.yearly_loop_with_break_is_model period t fs h
end Rp2.C06
