import Rp2.Proofs.Yearly
/-! # C06 — yearly summary equals the sum of its detail fractions -/
namespace Rp2.C06
open Rp2
/-- the insertion-ordered group-by has one line per key that occurs, no other line, and each line is the in-order
    running sum of exactly the entries with that key -/
theorem lines_are_sums {κ : Type} [DecidableEq κ] {α : Type} (add : α → α → α) (zero : α) (fs : List (κ × α)) :
    ((group add zero fs).map (·.1)).Nodup ∧
    (∀ k, k ∈ (group add zero fs).map (·.1) ↔ k ∈ fs.map (·.1)) ∧
    (∀ k, k ∈ fs.map (·.1) → lookup k (group add zero fs) = some (sumKey add k zero fs)) := group_spec add zero fs
end Rp2.C06
