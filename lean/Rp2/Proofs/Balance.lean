namespace Rp2

/-- a transaction as the balance replay sees it; accounts are numbered, amounts are in grid units -/
inductive BTx
  | acq (acct : Nat) (amt : Nat)
  | move (src dst : Nat) (sent recv : Nat)
  | out (acct : Nat) (amt : Nat)

abbrev Bal := Nat → Int

def upd (b : Bal) (a : Nat) (d : Int) : Bal := fun x => if x = a then b x + d else b x

def applyTx (b : Bal) : BTx → Bal
  | .acq a n => upd b a n
  | .move s d sent recv => upd (upd b s (-(sent : Int))) d recv
  | .out a n => upd b a (-(n : Int))

/-- the account that the code checks after the transaction -/
def debited : BTx → Option Nat
  | .acq _ _ => none
  | .move s _ _ _ => some s
  | .out a _ => some a

/-- `BalanceSet.__init__` replay; `Except.error a` = "balance of account a went negative" -/
def replay (below : Int → Bool) (allowNeg : Bool) : Bal → List BTx → Except Nat Bal
  | b, [] => .ok b
  | b, t :: ts =>
    let b' := applyTx b t
    match debited t with
    | some a => if below (b' a) && !allowNeg then .error a else replay below allowNeg b' ts
    | none => replay below allowNeg b' ts

def balAfter (b : Bal) (p : List BTx) : Bal := p.foldl applyTx b

theorem applyTx_ge (b : Bal) (t : BTx) (a : Nat) (h : debited t ≠ some a) : b a ≤ applyTx b t a := by
  cases t with
  | acq x n => simp only [applyTx, upd]; split <;> omega
  | move s d sent recv =>
    simp only [debited, ne_eq, Option.some.injEq] at h
    simp only [applyTx, upd]
    have : ¬ a = s := fun h' => h h'.symm
    simp only [this, if_false]
    split <;> omega
  | out x n =>
    simp only [debited, ne_eq, Option.some.injEq] at h
    have : ¬ a = x := fun h' => h h'.symm
    simp [applyTx, upd, this]

/-- **C08**: with negative balances not allowed, the replay fails iff after some chronological prefix some
    account is below the tolerance — although the code looks only at the debited account, only after debits. -/
theorem replay_error_iff (below : Int → Bool) (hanti : ∀ x y : Int, x ≤ y → below y = true → below x = true) :
    ∀ (txs : List BTx) (b : Bal), (∀ a, below (b a) = false) →
      ((∃ a, replay below false b txs = .error a) ↔ ∃ p a, p <+: txs ∧ below (balAfter b p a) = true) := by
  intro txs
  induction txs with
  | nil =>
    intro b hb
    constructor
    · rintro ⟨a, h⟩; simp [replay] at h
    · rintro ⟨p, a, hp, h⟩
      have : p = [] := List.prefix_nil.mp hp
      subst this
      simp [balAfter, hb a] at h
  | cons t ts ih =>
    intro b hb
    -- after `t`, only the debited account can have dropped
    have hothers : ∀ a, debited t ≠ some a → below (applyTx b t a) = false := by
      intro a ha
      cases hx : below (applyTx b t a) with
      | false => rfl
      | true => have := hanti _ _ (applyTx_ge b t a ha) hx; rw [hb a] at this; cases this
    constructor
    · rintro ⟨a, h⟩
      unfold replay at h
      simp only at h
      split at h
      · rename_i d hd
        split at h
        · rename_i hbel
          simp only [Bool.not_false, Bool.and_true] at hbel
          exact ⟨[t], d, by simp, by simpa [balAfter] using hbel⟩
        · rename_i hbel
          have hb' : ∀ a, below (applyTx b t a) = false := by
            intro a'
            by_cases ha' : debited t = some a'
            · rw [hd] at ha'; cases ha'
              simp only [Bool.not_false, Bool.and_true] at hbel
              simpa using hbel
            · exact hothers a' ha'
          obtain ⟨p, a', hp, hbel'⟩ := (ih (applyTx b t) hb').mp ⟨a, h⟩
          exact ⟨t :: p, a', List.cons_prefix_cons.mpr ⟨rfl, hp⟩, by simpa [balAfter] using hbel'⟩
      · rename_i hd
        have hb' : ∀ a, below (applyTx b t a) = false := fun a' => hothers a' (by rw [hd]; simp)
        obtain ⟨p, a', hp, hbel'⟩ := (ih (applyTx b t) hb').mp ⟨a, h⟩
        exact ⟨t :: p, a', List.cons_prefix_cons.mpr ⟨rfl, hp⟩, by simpa [balAfter] using hbel'⟩
    · rintro ⟨p, a, hp, hbel⟩
      cases p with
      | nil => simp [balAfter, hb a] at hbel
      | cons t' p' =>
        obtain ⟨rfl, hp'⟩ := List.cons_prefix_cons.mp hp
        unfold replay
        simp only
        split
        · rename_i d hd
          split
          · exact ⟨d, rfl⟩
          · rename_i hbel'
            have hb' : ∀ a, below (applyTx b t' a) = false := by
              intro a'
              by_cases ha' : debited t' = some a'
              · rw [hd] at ha'; cases ha'
                simp only [Bool.not_false, Bool.and_true] at hbel'
                simpa using hbel'
              · exact hothers a' ha'
            exact (ih (applyTx b t') hb').mpr ⟨p', a, hp', by simpa [balAfter] using hbel⟩
        · rename_i hd
          have hb' : ∀ a, below (applyTx b t' a) = false := fun a' => hothers a' (by rw [hd]; simp)
          exact (ih (applyTx b t') hb').mpr ⟨p', a, hp', by simpa [balAfter] using hbel⟩

/-- with `-n` the guard never fires -/
theorem replay_allow (below : Int → Bool) : ∀ (txs : List BTx) (b : Bal), replay below true b txs = .ok (balAfter b txs) := by
  intro txs
  induction txs with
  | nil => intro b; rfl
  | cons t ts ih =>
    intro b
    unfold replay
    simp only [Bool.not_true, Bool.and_false]
    split <;> simpa [balAfter] using ih (applyTx b t)

end Rp2
