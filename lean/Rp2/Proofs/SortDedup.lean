import Rp2.Model.OtherReports
namespace Rp2

theorem insertBy_perm {α} (lt : α → α → Bool) (x : α) (l : List α) : (insertBy lt x l).Perm (x :: l) := by
  induction l with
  | nil => simp [insertBy]
  | cons y t ih =>
    simp only [insertBy]
    split
    · exact List.Perm.refl _
    · exact (List.Perm.cons y ih).trans (List.Perm.swap x y t)

theorem sortBy_perm {α} (lt : α → α → Bool) (l : List α) : (sortBy lt l).Perm l := by
  induction l with
  | nil => simp [sortBy]
  | cons x t ih =>
    simp only [sortBy, List.foldr_cons]
    exact (insertBy_perm lt x _).trans (List.Perm.cons x ih)

theorem insertBy_sorted (x : Int) (l : List Int) (h : l.Pairwise (· ≤ ·)) :
    (insertBy (fun a b => decide (a < b)) x l).Pairwise (· ≤ ·) := by
  induction l with
  | nil => simp [insertBy]
  | cons y t ih =>
    simp only [insertBy]
    split
    · rename_i hlt
      simp only [decide_eq_true_eq] at hlt
      rw [List.pairwise_cons] at h ⊢
      refine ⟨?_, List.pairwise_cons.mpr h⟩
      intro z hz
      rcases List.mem_cons.mp hz with rfl | hz
      · omega
      · have := h.1 z hz; omega
    · rename_i hlt
      simp only [decide_eq_true_eq, Int.not_lt] at hlt
      rw [List.pairwise_cons] at h ⊢
      refine ⟨?_, ih h.2⟩
      intro z hz
      have hz' := (insertBy_perm _ x t).subset hz
      rcases List.mem_cons.mp hz' with rfl | hz'
      · exact hlt
      · exact h.1 z hz'

/-- the year list the repaired JP generator iterates over is in ascending order … -/
theorem sortBy_sorted (l : List Int) : (sortBy (fun a b => decide (a < b)) l).Pairwise (· ≤ ·) := by
  induction l with
  | nil => simp [sortBy]
  | cons x t ih => simp only [sortBy, List.foldr_cons]; exact insertBy_sorted x _ ih

theorem dedup_aux (l : List Int) : ∀ acc : List Int, acc.Nodup →
    (l.foldl (fun ys y => if ys.contains y then ys else ys ++ [y]) acc).Nodup ∧
    ∀ y, y ∈ l.foldl (fun ys y => if ys.contains y then ys else ys ++ [y]) acc ↔ y ∈ acc ∨ y ∈ l := by
  induction l with
  | nil => intro acc h; simp [h]
  | cons x t ih =>
    intro acc h
    simp only [List.foldl_cons]
    by_cases hx : acc.contains x = true
    · simp only [hx, if_true]
      have := ih acc h
      refine ⟨this.1, fun y => ?_⟩
      rw [this.2 y]
      have hx' : x ∈ acc := by simpa using hx
      constructor
      · rintro (h1 | h1); exact Or.inl h1; exact Or.inr (List.mem_cons_of_mem _ h1)
      · rintro (h1 | h1)
        · exact Or.inl h1
        · rcases List.mem_cons.mp h1 with rfl | h2
          · exact Or.inl hx'
          · exact Or.inr h2
    · simp only [hx, Bool.false_eq_true, if_false]
      have hx' : x ∉ acc := by simpa using hx
      have hnd : (acc ++ [x]).Nodup := by
        rw [List.nodup_append]; refine ⟨h, by simp, ?_⟩
        intro a ha b hb; simp at hb; subst hb; intro hab; subst hab; exact hx' ha
      have := ih (acc ++ [x]) hnd
      refine ⟨this.1, fun y => ?_⟩
      rw [this.2 y]
      simp only [List.mem_append, List.mem_cons, List.not_mem_nil, or_false]
      constructor
      · rintro ((h1 | h1) | h1)
        · exact Or.inl h1
        · exact Or.inr (Or.inl h1)
        · exact Or.inr (Or.inr h1)
      · rintro (h1 | h1 | h1)
        · exact Or.inl (Or.inl h1)
        · exact Or.inl (Or.inr h1)
        · exact Or.inr h1

/-- … contains every year that has a transaction, and each exactly once -/
theorem dedup_spec (l : List Int) : (dedup l).Nodup ∧ ∀ y, y ∈ dedup l ↔ y ∈ l := by
  have := dedup_aux l [] List.nodup_nil
  exact ⟨this.1, fun y => by rw [dedup, this.2 y]; simp⟩

theorem sorted_years_spec (l : List Int) :
    (sortBy (fun a b => decide (a < b)) (dedup l)).Pairwise (· < ·) ∧
    ∀ y, y ∈ sortBy (fun a b => decide (a < b)) (dedup l) ↔ y ∈ l := by
  have hp := sortBy_perm (fun a b : Int => decide (a < b)) (dedup l)
  have hs := sortBy_sorted (dedup l)
  have hd := dedup_spec l
  refine ⟨?_, fun y => by rw [hp.mem_iff, hd.2]⟩
  have hnd : (sortBy (fun a b : Int => decide (a < b)) (dedup l)).Nodup := hp.nodup_iff.mpr hd.1
  generalize sortBy (fun a b : Int => decide (a < b)) (dedup l) = s at *
  clear hp
  induction s with
  | nil => simp
  | cons a t ih =>
    rw [List.pairwise_cons] at hs ⊢
    rw [List.nodup_cons] at hnd
    refine ⟨fun z hz => ?_, ih hs.2 hnd.2⟩
    have := hs.1 z hz
    have hne : a ≠ z := fun h => hnd.1 (h ▸ hz)
    omega

end Rp2
