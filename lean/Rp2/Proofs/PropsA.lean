import Rp2.Model.Report
namespace Rp2

/-! ### C05 -/
theorem isLong_iff (period : Int) (f : Fraction) :
    f.isLong period = true ↔ ∃ l, f.lot = some l ∧ period * 86400000000 ≤ f.ev.ts.us - l.ts.us := by
  unfold Fraction.isLong
  cases h : f.lot with
  | none => simp
  | some l =>
    simp only [decide_eq_true_eq, Option.some.injEq, exists_eq_left']
    rw [Int.fdiv_eq_ediv_of_nonneg _ (by decide), Int.le_ediv_iff_mul_le (by decide)]

theorem isLong_earn (period : Int) (f : Fraction) (h : f.lot = none) : f.isLong period = false := by
  simp [Fraction.isLong, h]

/-- never long-term when the period exceeds any representable span (JP, IE: `sys.maxsize`) -/
theorem isLong_never (period : Int) (f : Fraction) (l : InTx) (hl : f.lot = some l)
    (hspan : f.ev.ts.us - l.ts.us < period * 86400000000) : f.isLong period = false := by
  cases h : f.isLong period with
  | false => rfl
  | true =>
    obtain ⟨l', hl', hle⟩ := (isLong_iff period f).mp h
    rw [hl] at hl'; cases hl'; omega

/-! ### C03: the taxable events are exactly the taxable transactions, each once -/
theorem taxableEvents_perm (ins : List InTx) (outs : List OutTx) (intras : List IntraTx) :
    (taxableEvents ins outs intras).Perm
      ((ins.filter (·.typ.isEarn)).map InTx.toEv ++ outs.map OutTx.toEv ++
       (intras.filter (fun t => gt13 t.fiatFee 0)).map IntraTx.toEv) := by
  unfold taxableEvents sortByTs
  exact List.mergeSort_perm _ _

theorem taxableEvents_sorted (ins : List InTx) (outs : List OutTx) (intras : List IntraTx) :
    (taxableEvents ins outs intras).Pairwise (fun a b => a.ts.us ≤ b.ts.us) := by
  unfold taxableEvents sortByTs
  have := List.pairwise_mergeSort (le := fun a b : TaxEv => decide (a.ts.us ≤ b.ts.us))
    (by intro a b c; simp only [decide_eq_true_eq]; omega)
    (by intro a b; simp only [Bool.or_eq_true, decide_eq_true_eq]; omega)
    ((ins.filter (·.typ.isEarn)).map InTx.toEv ++ outs.map OutTx.toEv ++ (intras.filter (fun t => gt13 t.fiatFee 0)).map IntraTx.toEv)
  exact this.imp (by intro a b h; simpa using h)

theorem mem_taxableEvents (ins : List InTx) (outs : List OutTx) (intras : List IntraTx) (e : TaxEv) :
    e ∈ taxableEvents ins outs intras ↔
      (∃ t ∈ ins, t.typ.isEarn = true ∧ e = t.toEv) ∨ (∃ t ∈ outs, e = t.toEv) ∨
      (∃ t ∈ intras, gt13 t.fiatFee 0 = true ∧ e = t.toEv) := by
  rw [(taxableEvents_perm ins outs intras).mem_iff]
  simp only [List.mem_append, List.mem_map, List.mem_filter]
  constructor
  · rintro ((⟨t, ⟨h1, h2⟩, rfl⟩ | ⟨t, h1, rfl⟩) | ⟨t, ⟨h1, h2⟩, rfl⟩)
    · exact Or.inl ⟨t, h1, h2, rfl⟩
    · exact Or.inr (Or.inl ⟨t, h1, rfl⟩)
    · exact Or.inr (Or.inr ⟨t, h1, h2, rfl⟩)
  · rintro (⟨t, h1, h2, rfl⟩ | ⟨t, h1, rfl⟩ | ⟨t, h1, h2, rfl⟩)
    · exact Or.inl (Or.inl ⟨t, ⟨h1, h2⟩, rfl⟩)
    · exact Or.inl (Or.inr ⟨t, h1, rfl⟩)
    · exact Or.inr ⟨t, ⟨h1, h2⟩, rfl⟩

/-! ### C10: a date window only hides rows (under monotone local dates) -/
theorem takeWhile_eq_filter_of_sorted {α} (day : α → Int) (t : Int) :
    ∀ (l : List α), l.Pairwise (fun a b => day a ≤ day b) →
      l.takeWhile (fun x => decide (day x ≤ t)) = l.filter (fun x => decide (day x ≤ t)) := by
  intro l
  induction l with
  | nil => intro _; rfl
  | cons a l ih =>
    intro hp
    rw [List.pairwise_cons] at hp
    by_cases ha : day a ≤ t
    · simp only [List.takeWhile_cons, List.filter_cons, ha, decide_true, if_true]
      rw [ih hp.2]
    · simp only [List.takeWhile_cons, List.filter_cons, ha, decide_false, Bool.false_eq_true, if_false]
      symm
      apply List.filter_eq_nil_iff.mpr
      intro b hb
      have := hp.1 b hb
      simp only [decide_eq_true_eq]; omega

theorem viewOf_eq_filter {α} (day : α → Int) (fromD toD : Option Int) (l : List α)
    (hmono : l.Pairwise (fun a b => day a ≤ day b)) :
    viewOf day fromD toD l =
      l.filter (fun x => (match toD with | none => true | some t => decide (day x ≤ t)) &&
                         (match fromD with | none => true | some f => decide (f ≤ day x))) := by
  unfold viewOf cutAt
  cases toD with
  | none =>
    simp only
    congr 1
  | some t =>
    simp only
    rw [takeWhile_eq_filter_of_sorted day t l hmono, List.filter_filter]
    congr 1
    funext x
    exact Bool.and_comm _ _

end Rp2
