import Rp2.Proofs.SortDedup
namespace Rp2

/-- consecutive sheets are chained: each opening balance refers to the closing cells of the sheet before it -/
def Chained : Option (String × Nat) → List JSheet → Prop
  | _, [] => True
  | prev, s :: rest => s.prevRef = prev ∧ Chained (some (s.name, s.closeRow)) rest

theorem jpSheets_spec (asset : String) (all : List JTx) : ∀ (ys : List Int) (prevOff : Nat) (prevYear : Int) (shs : List JSheet),
    jpSheets true asset all ys prevOff prevYear = .ok shs →
    shs.map (·.name) = ys.map (jpSheetName asset) ∧
    Chained (if prevOff = 0 then none else some (jpSheetName asset prevYear, prevOff)) shs ∧
    ∀ s ∈ shs, 30 ≤ s.closeRow := by
  intro ys
  induction ys with
  | nil => intro p py shs h; simp [jpSheets, pure, Except.pure] at h; subst h; simp [Chained]
  | cons y t ih =>
    intro p py shs h
    simp only [jpSheets, bind, Except.bind] at h
    split at h
    · cases h
    · rename_i rows hrows
      split at h
      · cases h
      · rename_i rest hrest
        simp only [pure, Except.pure, Except.ok.injEq] at h
        subst h
        have := ih _ _ _ hrest
        refine ⟨by simp [this.1], ?_, ?_⟩
        · refine ⟨by simp, ?_⟩
          have h2 := this.2.1
          simpa using h2
        · intro s hs
          rcases List.mem_cons.mp hs with rfl | hs
          · simp
          · exact this.2.2 s hs

/-- **C20 (sheets and chain)** for the repaired generator: one calculation sheet per year that has a transaction, each
    once, in ascending year order; the first has no opening reference; every later sheet's opening balance refers to
    the closing-balance row of the same asset's most recent earlier year sheet -/
theorem jpAsset_spec (c : Computed) (shs : List JSheet) (h : jpAsset true c = .ok shs) :
    let all : List JTx := c.ins.map JTx.i ++ c.outs.map JTx.o ++ c.intras.map JTx.x
    let ys := jpYears true all
    shs.map (·.name) = ys.map (jpSheetName c.asset) ∧ ys.Pairwise (· < ·) ∧
    (∀ y, y ∈ ys ↔ ∃ t ∈ all, t.ts.year = y) ∧ Chained none shs := by
  intro all ys
  have := jpSheets_spec c.asset all ys 0 0 shs h
  have hy := sorted_years_spec (all.map (·.ts.year))
  refine ⟨this.1, ?_, ?_, by simpa using this.2.1⟩
  · simpa [ys, jpYears] using hy.1
  · intro y
    have := hy.2 y
    simp only [ys, jpYears, if_true]
    rw [this]; simp

end Rp2
