import Rp2.Proofs.ComputeWindow
import Rp2.Proofs.SortDedup
/-! The yearly summary lines of the `compute` model (= `ComputedData.yearly_gain_loss_list`): built from *all* fractions dated up to the
to-date — the from-date's *day* plays no role, only its year — so the lines cover whole years starting with the from-date's year (C10). -/
namespace Rp2

/-- the year of the from-date (`from_date.year`) -/
def fromYearOf (fromD : Option Int) : Option Int := fromD.map (fun d => (civilFromDays d).1)

theorem compute_yearly (asset : String) (acctName : Nat → String) (period : Int) (allowNeg : Bool) (fromD toD : Option Int)
    (sched : List (Int × Method)) (ins : List InTx) (outs : List OutTx) (intras : List IntraTx) (cd : Computed)
    (h : compute asset acctName period allowNeg fromD toD sched ins outs intras = .ok cd) :
    ∃ fs, computeFractions sched ins outs intras = .ok fs ∧
      cd.yearly = sortBy (fun a b => decide (yearlyKeyStr asset b.1 < yearlyKeyStr asset a.1))
        ((yearly period (cutAt (fun f : Fraction => f.ev.ts.day) toD fs)).filter
          (fun (k, _) => match fromYearOf fromD with | none => true | some y => decide (y ≤ k.year))) := by
  unfold compute at h
  split at h
  · cases h
  · rename_i fs hfs
    split at h
    · cases h
    · simp only [Except.ok.injEq] at h
      subst h
      exact ⟨fs, hfs, rfl⟩

/-- the yearly lines depend on the from-date only through its year -/
theorem compute_yearly_same_year (asset : String) (acctName : Nat → String) (period : Int) (allowNeg : Bool) (d1 d2 : Int) (toD : Option Int)
    (sched : List (Int × Method)) (ins : List InTx) (outs : List OutTx) (intras : List IntraTx) (cd1 cd2 : Computed)
    (h1 : compute asset acctName period allowNeg (some d1) toD sched ins outs intras = .ok cd1)
    (h2 : compute asset acctName period allowNeg (some d2) toD sched ins outs intras = .ok cd2)
    (hy : (civilFromDays d1).1 = (civilFromDays d2).1) : cd1.yearly = cd2.yearly := by
  obtain ⟨fs1, e1, y1⟩ := compute_yearly asset acctName period allowNeg (some d1) toD sched ins outs intras cd1 h1
  obtain ⟨fs2, e2, y2⟩ := compute_yearly asset acctName period allowNeg (some d2) toD sched ins outs intras cd2 h2
  rw [e1] at e2
  cases e2
  rw [y1, y2]
  simp only [fromYearOf, Option.map_some, hy]

/-- a line is reported exactly for the keys of fractions dated up to the to-date whose year is not before the from-date's year -/
theorem compute_yearly_mem (asset : String) (acctName : Nat → String) (period : Int) (allowNeg : Bool) (fromD toD : Option Int)
    (sched : List (Int × Method)) (ins : List InTx) (outs : List OutTx) (intras : List IntraTx) (cd : Computed)
    (h : compute asset acctName period allowNeg fromD toD sched ins outs intras = .ok cd) (line : YKey × YSums) :
    ∃ fs, computeFractions sched ins outs intras = .ok fs ∧
      (line ∈ cd.yearly ↔ line ∈ yearly period (cutAt (fun f : Fraction => f.ev.ts.day) toD fs) ∧
        (match fromYearOf fromD with | none => True | some y => y ≤ line.1.year)) := by
  obtain ⟨fs, e, y⟩ := compute_yearly asset acctName period allowNeg fromD toD sched ins outs intras cd h
  refine ⟨fs, e, ?_⟩
  rw [y, (sortBy_perm _ _).mem_iff, List.mem_filter]
  cases fromYearOf fromD <;> simp


/-- the three transaction tables `compute` reports are the windows of the time-sorted tables -/
theorem compute_views (asset : String) (acctName : Nat → String) (period : Int) (allowNeg : Bool) (fromD toD : Option Int)
    (sched : List (Int × Method)) (ins : List InTx) (outs : List OutTx) (intras : List IntraTx) (cd : Computed)
    (h : compute asset acctName period allowNeg fromD toD sched ins outs intras = .ok cd) :
    cd.ins = viewOf (·.ts.day) fromD toD (sortByTs (·.ts.us) ins) ∧ cd.outs = viewOf (·.ts.day) fromD toD (sortByTs (·.ts.us) outs) ∧
    cd.intras = viewOf (·.ts.day) fromD toD (sortByTs (·.ts.us) intras) := by
  unfold compute at h
  split at h
  · cases h
  · split at h
    · cases h
    · simp only [Except.ok.injEq] at h
      subst h
      exact ⟨rfl, rfl, rfl⟩

end Rp2
