import Rp2.Proofs.PipelineEngine
import Rp2.Proofs.StableFilter
import Rp2.Proofs.Prefix
/-! C09 on the executable pipeline: computing on the history truncated at a date gives exactly the fractions of the full computation
dated up to it — later transactions never change what was computed for earlier ones. -/
namespace Rp2
open List

/-- a list sorted by `day` splits into the part up to `T` (which is its filter) and a rest entirely after `T` -/
theorem filter_prefix_of_sorted {α} (day : α → Int) (T : Int) : ∀ (l : List α), l.Pairwise (fun a b => day a ≤ day b) →
    ∃ post, l = l.filter (fun x => decide (day x ≤ T)) ++ post ∧ ∀ x ∈ post, T < day x := by
  intro l
  induction l with
  | nil => intro _; exact ⟨[], by simp, by simp⟩
  | cons a t ih =>
    intro hp
    rw [pairwise_cons] at hp
    by_cases ha : day a ≤ T
    · obtain ⟨post, h1, h2⟩ := ih hp.2
      refine ⟨post, ?_, h2⟩
      simp only [filter_cons, ha, decide_true, if_true, cons_append]
      rw [← h1]
    · refine ⟨a :: t, ?_, ?_⟩
      · have : (a :: t).filter (fun x => decide (day x ≤ T)) = [] := by
          apply filter_eq_nil_iff.mpr
          intro x hx
          rcases mem_cons.mp hx with rfl | hx'
          · simpa using ha
          · have := hp.1 x hx'; simp; omega
        rw [this]; rfl
      · intro x hx
        rcases mem_cons.mp hx with rfl | hx'
        · omega
        · have := hp.1 x hx'; omega

theorem engineEvents_append (sched : List (Int × Method)) : ∀ (a b : List TaxEv) (es : List Event), engineEvents sched (a ++ b) = some es →
    ∃ ea eb, engineEvents sched a = some ea ∧ engineEvents sched b = some eb ∧ es = ea ++ eb := by
  intro a
  induction a with
  | nil => intro b es h; exact ⟨[], es, rfl, by simpa using h, rfl⟩
  | cons e t ih =>
    intro b es h
    simp only [cons_append, engineEvents] at h
    split at h
    · rename_i s r hs hr
      obtain ⟨ea, eb, h1, h2, h3⟩ := ih b r hr
      simp only [Option.some.injEq] at h
      refine ⟨(⟨e.ts.us, s, e.amount.toNat, e.earn⟩ : Event) :: ea, eb, ?_, h2, ?_⟩
      · simp only [engineEvents, hs, h1]
      · rw [← h, h3]; rfl
    · cases h

/-- what the truncation keeps -/
def keepIn (T : Int) (l : InTx) : Bool := decide (l.ts.day ≤ T)
def keepOut (T : Int) (l : OutTx) : Bool := decide (l.ts.day ≤ T)
def keepIntra (T : Int) (l : IntraTx) : Bool := decide (l.ts.day ≤ T)
def keepEv (T : Int) (e : TaxEv) : Bool := decide (e.ts.day ≤ T)

theorem sortByTs_filter {α : Type} (ts : α → Int) (q : α → Bool) (l : List α) : (sortByTs ts l).filter q = sortByTs ts (l.filter q) := by
  unfold sortByTs
  apply filter_mergeSort
  · intro a b c h1 h2
    have h1' : ts a ≤ ts b := by simpa using h1
    have h2' : ts b ≤ ts c := by simpa using h2
    simp; omega
  · intro a b
    simp only [Bool.or_eq_true, decide_eq_true_eq]; omega

/-- the taxable events of the truncated history are the taxable events of the full history dated up to `T`, in the same order -/
theorem taxableEvents_truncate (T : Int) (ins : List InTx) (outs : List OutTx) (intras : List IntraTx) :
    taxableEvents (ins.filter (keepIn T)) (outs.filter (keepOut T)) (intras.filter (keepIntra T)) =
      (taxableEvents ins outs intras).filter (keepEv T) := by
  unfold taxableEvents
  rw [sortByTs_filter]
  have hA : ((ins.filter (·.typ.isEarn)).map InTx.toEv).filter (keepEv T) = ((ins.filter (keepIn T)).filter (·.typ.isEarn)).map InTx.toEv := by
    rw [filter_map, filter_filter, filter_filter]
    congr 1
    apply filter_congr
    intro x _
    simp [Function.comp, keepEv, keepIn, InTx.toEv, Bool.and_comm] <;> rfl
  have hB : (outs.map OutTx.toEv).filter (keepEv T) = (outs.filter (keepOut T)).map OutTx.toEv := by
    rw [filter_map]
    congr 1
  have hC : ((intras.filter (fun t => gt13 t.fiatFee 0)).map IntraTx.toEv).filter (keepEv T) =
      ((intras.filter (keepIntra T)).filter (fun t => gt13 t.fiatFee 0)).map IntraTx.toEv := by
    rw [filter_map, filter_filter, filter_filter]
    congr 1
    apply filter_congr
    intro x _
    simp [Function.comp, keepEv, keepIntra, IntraTx.toEv, Bool.and_comm] <;> rfl
  rw [filter_append, filter_append, hA, hB, hC]

end Rp2

namespace Rp2
open List

theorem lotCtx_sameBelow (sched : List (Int × Method)) (pre post : List InTx) :
    SameBelow (lotCtx sched pre) (lotCtx sched (pre ++ post)) pre.length := by
  constructor
  · intro i hi
    simp only [lotCtx, getElem?_append_left hi]
  · intro s; rfl

theorem lotCtx_bound_prefix (sched : List (Int × Method)) (pre post : List InTx) (t : Int) (h : ∀ l ∈ post, t < l.ts.us) :
    (lotCtx sched (pre ++ post)).bound t = (lotCtx sched pre).bound t := by
  simp only [lotCtx, filter_append, length_append]
  have : post.filter (fun l => decide (l.ts.us ≤ t)) = [] := by
    apply filter_eq_nil_iff.mpr
    intro l hl
    have := h l hl
    simp; omega
  simp [this]

theorem sheetOrder_filter (ins : List InTx) (q : InTx → Bool) (h : SheetOrder ins) : SheetOrder (ins.filter q) :=
  ⟨h.1.sublist (filter_sublist), fun l hl => h.2 l (mem_filter.mp hl).1⟩

/-- what a successful `computeFractions` consists of -/
theorem computeFractions_ok (sched : List (Int × Method)) (ins : List InTx) (outs : List OutTx) (intras : List IntraTx) (fs : List Fraction)
    (h : computeFractions sched ins outs intras = .ok fs) :
    (∀ l ∈ sortByTs (·.ts.us) ins, 0 < l.amount) ∧ (∀ e ∈ taxableEvents ins outs intras, 0 < e.amount) ∧
    ∃ es out, engineEvents sched (taxableEvents ins outs intras) = some es ∧
      runM (lotCtx sched (sortByTs (·.ts.us) ins)) MSt.init none 0 es = some out ∧
      fs = decodeFracs (sortByTs (·.ts.us) ins) (taxableEvents ins outs intras) out := by
  unfold computeFractions at h
  simp only at h
  split at h
  · cases h
  · rename_i hbad
    simp only [Bool.or_eq_true, any_eq_true, decide_eq_true_eq, not_or, not_exists, not_and] at hbad
    split at h
    · cases h
    · rename_i es hes
      split at h
      · cases h
      · rename_i out hout
        simp only [Except.ok.injEq] at h
        exact ⟨fun l hl => by have := hbad.1 l hl; omega, fun e he => by have := hbad.2 e he; omega, es, out, hes, hout, h.symm⟩

theorem computeFractions_of (sched : List (Int × Method)) (ins : List InTx) (outs : List OutTx) (intras : List IntraTx)
    (hl : ∀ l ∈ sortByTs (·.ts.us) ins, 0 < l.amount) (he : ∀ e ∈ taxableEvents ins outs intras, 0 < e.amount)
    (es : List Event) (out : List Frac) (hes : engineEvents sched (taxableEvents ins outs intras) = some es)
    (hrun : runM (lotCtx sched (sortByTs (·.ts.us) ins)) MSt.init none 0 es = some out) :
    computeFractions sched ins outs intras = .ok (decodeFracs (sortByTs (·.ts.us) ins) (taxableEvents ins outs intras) out) := by
  unfold computeFractions
  simp only
  have hbad : ¬ ((sortByTs (·.ts.us) ins).any (fun l => decide (l.amount ≤ 0)) || (taxableEvents ins outs intras).any (fun e => decide (e.amount ≤ 0))) = true := by
    simp only [Bool.or_eq_true, any_eq_true, decide_eq_true_eq, not_or, not_exists, not_and]
    exact ⟨fun l hl' => by have := hl l hl'; omega, fun e he' => by have := he e he'; omega⟩
  simp [hbad, hes, hrun]
end Rp2

namespace Rp2
open List

theorem decodeFracs_append (lots : List InTx) (evs : List TaxEv) (a b : List Frac) :
    decodeFracs lots evs (a ++ b) = decodeFracs lots evs a ++ decodeFracs lots evs b := by
  simp [decodeFracs, filterMap_append]

/-- decoding only looks at the events and lots the fractions mention -/
theorem decodeFracs_congr (lots lots' : List InTx) (evs evs' : List TaxEv) (fs : List Frac)
    (h : ∀ f ∈ fs, evs[f.ev]? = evs'[f.ev]? ∧ ∀ i, f.lot = some i → lots[i]? = lots'[i]?) :
    decodeFracs lots evs fs = decodeFracs lots' evs' fs := by
  unfold decodeFracs
  induction fs with
  | nil => rfl
  | cons f t ih =>
    obtain ⟨h1, h2⟩ := h f (mem_cons_self)
    have iht := ih (fun g hg => h g (mem_cons_of_mem _ hg))
    simp only [filterMap_cons, h1]
    cases hl : f.lot with
    | none => simp only [Option.bind_none, iht]
    | some i => simp only [Option.bind_some, h2 i hl, iht]

/-- hypothesis `LocalDatesMonotone`, spelled out for the pieces the truncation theorem needs -/
structure DatesMonotone (ins : List InTx) (outs : List OutTx) (intras : List IntraTx) : Prop where
  lots : (sortByTs (·.ts.us) ins).Pairwise (fun a b => a.ts.day ≤ b.ts.day)
  events : (taxableEvents ins outs intras).Pairwise (fun a b => a.ts.day ≤ b.ts.day)
  cross : ∀ l ∈ ins, ∀ e ∈ taxableEvents ins outs intras, l.ts.us ≤ e.ts.us → l.ts.day ≤ e.ts.day

/-- **C09 on the executable pipeline**: computing on the history truncated at date `T` yields exactly the fractions of the full
    computation whose taxable event is dated up to `T` — same pairing, same amounts, hence same figures. -/
theorem computeFractions_truncate (sched : List (Int × Method)) (ins : List InTx) (outs : List OutTx) (intras : List IntraTx) (fs : List Fraction) (T : Int)
    (hord : SheetOrder ins) (hy : SameInstantSameYear (taxableEvents ins outs intras)) (hm : DatesMonotone ins outs intras)
    (h : computeFractions sched ins outs intras = .ok fs) :
    computeFractions sched (ins.filter (keepIn T)) (outs.filter (keepOut T)) (intras.filter (keepIntra T)) =
      .ok (fs.filter (fun f => decide (f.ev.ts.day ≤ T))) := by
  obtain ⟨hlpos, hepos, es, out, hes0, hrun, hfs⟩ := computeFractions_ok sched ins outs intras fs h
  have hevsorted : (taxableEvents ins outs intras).Pairwise (fun a b => a.ts.us ≤ b.ts.us) := taxableEvents_sorted ins outs intras
  have hev_full : EvOK none es := engineEvents_evok sched _ es hes0 hevsorted hy
  -- the truncated inputs give prefixes of the sorted lots and of the sorted events
  have hlots' : sortByTs (·.ts.us) (ins.filter (keepIn T)) = (sortByTs (·.ts.us) ins).filter (keepIn T) := (sortByTs_filter _ _ _).symm
  have hevs' := taxableEvents_truncate T ins outs intras
  obtain ⟨postL, hL, hpostL⟩ := filter_prefix_of_sorted (fun l : InTx => l.ts.day) T (sortByTs (·.ts.us) ins) hm.lots
  obtain ⟨postE, hE, hpostE⟩ := filter_prefix_of_sorted (fun e : TaxEv => e.ts.day) T (taxableEvents ins outs intras) hm.events
  have hL' : sortByTs (·.ts.us) ins = sortByTs (·.ts.us) (ins.filter (keepIn T)) ++ postL := by rw [hlots']; exact hL
  have hE' : taxableEvents ins outs intras =
      taxableEvents (ins.filter (keepIn T)) (outs.filter (keepOut T)) (intras.filter (keepIntra T)) ++ postE := by rw [hevs']; exact hE
  generalize hlp : sortByTs (·.ts.us) (ins.filter (keepIn T)) = lots' at *
  generalize hep : taxableEvents (ins.filter (keepIn T)) (outs.filter (keepOut T)) (intras.filter (keepIntra T)) = evs' at *
  -- events split accordingly
  have hes : engineEvents sched (evs' ++ postE) = some es := by rw [← hE']; exact hes0
  obtain ⟨ea, eb, hea, heb, hsplit⟩ := engineEvents_append sched evs' postE es hes
  obtain ⟨hlenA, hspecA⟩ := engineEvents_spec sched evs' ea hea
  obtain ⟨hlenB, hspecB⟩ := engineEvents_spec sched postE eb heb
  -- both engine runs are runs of the greedy specification
  have hord' : SheetOrder (ins.filter (keepIn T)) := sheetOrder_filter ins _ hord
  have hsubE : ∀ e ∈ evs', e ∈ taxableEvents ins outs intras := by intro e he; rw [hE']; exact mem_append_left _ he
  have hev_tr : EvOK none ea := by
    apply engineEvents_evok sched evs' ea hea
    · rw [hE'] at hevsorted; exact (pairwise_append.mp hevsorted).1
    · intro a ha b hb hab; exact hy a (hsubE a ha) b (hsubE b hb) hab
  have hctx_full := engine_eq_spec (lotCtx sched (sortByTs (·.ts.us) ins)) _ (lotCtx_sorted sched ins hord) (lotCtx_inj sched ins hord)
    (lotCtx_bound_le sched _) (lotCtx_bound_mono sched _) es hev_full
  have hctx_tr := engine_eq_spec (lotCtx sched (sortByTs (·.ts.us) (ins.filter (keepIn T)))) _ (lotCtx_sorted sched _ hord') (lotCtx_inj sched _ hord')
    (lotCtx_bound_le sched _) (lotCtx_bound_mono sched _) ea hev_tr
  rw [hlp] at hctx_tr
  rw [hctx_full] at hrun
  rw [hL', hsplit] at hrun
  -- prefix theorem of the specification
  have hsame := lotCtx_sameBelow sched lots' postL
  have hbound : ∀ e ∈ ea, (lotCtx sched lots').bound e.ts = (lotCtx sched (lots' ++ postL)).bound e.ts ∧ (lotCtx sched lots').bound e.ts ≤ lots'.length := by
    intro e he
    obtain ⟨j, hj, hje⟩ := getElem_of_mem he
    have hj' : j < evs'.length := by omega
    obtain ⟨s, _, hs⟩ := hspecA j evs'[j] (getElem?_eq_getElem hj')
    rw [getElem?_eq_getElem hj, hje] at hs
    have hee := Option.some.inj hs
    subst hee
    simp only
    refine ⟨(lotCtx_bound_prefix sched lots' postL _ ?_).symm, lotCtx_bound_le sched lots' _⟩
    intro l hl
    have hday := hpostL l hl
    have hlin : l ∈ ins := by
      have : l ∈ sortByTs (·.ts.us) ins := by rw [hL']; exact mem_append_right _ hl
      exact (sortedIns_mem ins l).mp this
    have hekeep : evs'[j].ts.day ≤ T := by
      have : evs'[j] ∈ (taxableEvents ins outs intras).filter (keepEv T) := by rw [← hevs']; exact getElem_mem hj'
      have := (mem_filter.mp this).2
      simpa [keepEv] using this
    apply Classical.byContradiction
    intro hnot
    have hle : l.ts.us ≤ evs'[j].ts.us := by omega
    have := hm.cross l hlin evs'[j] (hsubE _ (getElem_mem hj')) hle
    omega
  have hagree : AgreeBelow lots'.length (fun i => ((lotCtx sched lots').L i).amount) (fun i => ((lotCtx sched (lots' ++ postL)).L i).amount) := by
    intro i hi; simp only [hsame.lots i hi]
  have hpre := runS_prefix (lotCtx sched lots') (lotCtx sched (lots' ++ postL)) lots'.length hsame ea eb _ _ 0 hagree hbound
  cases htr : runS (lotCtx sched lots') (fun i => ((lotCtx sched lots').L i).amount) 0 ea with
  | none => rw [htr] at hpre; simp only at hpre; rw [hpre] at hrun; cases hrun
  | some o₁ =>
    rw [htr] at hpre
    simp only at hpre
    obtain ⟨r1', _, hfull⟩ := hpre
    rw [hfull] at hrun
    cases ho2 : runS (lotCtx sched (lots' ++ postL)) r1' (0 + ea.length) eb with
    | none => rw [ho2] at hrun; cases hrun
    | some o₂ =>
      rw [ho2] at hrun
      simp only [Option.map_some, Option.some.injEq] at hrun
      -- the truncated computation succeeds with the decoding of o₁
      have hposA : ∀ e ∈ ea, ¬ e.earn → 0 < e.amount := by
        intro e he _
        obtain ⟨j, hj, hje⟩ := getElem_of_mem he
        have hj' : j < evs'.length := by omega
        obtain ⟨s, _, hs⟩ := hspecA j evs'[j] (getElem?_eq_getElem hj')
        rw [getElem?_eq_getElem hj, hje] at hs
        have hee := Option.some.inj hs
        subst hee
        have := hepos _ (hsubE _ (getElem_mem hj'))
        simp only; omega
      have hposB : ∀ e ∈ eb, ¬ e.earn → 0 < e.amount := by
        intro e he _
        obtain ⟨j, hj, hje⟩ := getElem_of_mem he
        have hj' : j < postE.length := by omega
        obtain ⟨s, _, hs⟩ := hspecB j postE[j] (getElem?_eq_getElem hj')
        rw [getElem?_eq_getElem hj, hje] at hs
        have hee := Option.some.inj hs
        subst hee
        have : postE[j] ∈ taxableEvents ins outs intras := by rw [hE']; exact mem_append_right _ (getElem_mem hj')
        have := hepos _ this
        simp only; omega
      have hrun_tr : runM (lotCtx sched lots') MSt.init none 0 ea = some o₁ := by rw [hctx_tr, htr]
      have hres := computeFractions_of sched (ins.filter (keepIn T)) (outs.filter (keepOut T)) (intras.filter (keepIntra T))
        (by rw [hlp]; intro l hl; apply hlpos; rw [hL']; exact mem_append_left _ hl)
        (by rw [hep]; intro e he; exact hepos e (hsubE e he)) ea o₁ (by rw [hep]; exact hea) (by rw [hlp]; exact hrun_tr)
      rw [hres, hlp, hep, hfs, hL', hE', ← hrun, decodeFracs_append, filter_append]
      -- fractions of o₁ are decoded alike and all kept; fractions of o₂ are all dropped
      have hspec1 := (runS_spec (lotCtx sched lots') ea _ 0 o₁ hposA htr).2.1
      have hspec2 := (runS_spec (lotCtx sched (lots' ++ postL)) eb _ (0 + ea.length) o₂ hposB ho2).2.1
      have hdec1 : decodeFracs (lots' ++ postL) (evs' ++ postE) o₁ = decodeFracs lots' evs' o₁ := by
        apply decodeFracs_congr
        intro f hf
        obtain ⟨j, e, hj, hfe, he1, he2⟩ := hspec1 f hf
        have hjl : j < ea.length := by
          apply Nat.lt_of_not_le; intro hle; rw [getElem?_eq_none hle] at hj; cases hj
        refine ⟨by rw [hfe]; simp only [Nat.zero_add]; exact getElem?_append_left (by omega), ?_⟩
        intro i hi
        by_cases hearn : e.earn = true
        · have := he1 hearn; rw [this] at hi; cases hi
        · obtain ⟨_, i', hi', hib⟩ := he2 hearn
          rw [hi] at hi'; cases hi'
          have : i < lots'.length := Nat.lt_of_lt_of_le hib (lotCtx_bound_le sched lots' _)
          exact getElem?_append_left this
      have hkeep1 : (decodeFracs lots' evs' o₁).filter (fun f => decide (f.ev.ts.day ≤ T)) = decodeFracs lots' evs' o₁ := by
        apply filter_eq_self.mpr
        intro f hf
        simp only [decodeFracs, mem_filterMap] at hf
        obtain ⟨g, _, hg⟩ := hf
        cases hev : evs'[g.ev]? with
        | none => simp [hev] at hg
        | some e =>
          simp only [hev, Option.some.injEq] at hg
          subst hg
          have : e ∈ (taxableEvents ins outs intras).filter (keepEv T) := by rw [← hevs']; exact mem_of_getElem? hev
          simpa [keepEv] using (mem_filter.mp this).2
      have hdrop2 : (decodeFracs (lots' ++ postL) (evs' ++ postE) o₂).filter (fun f => decide (f.ev.ts.day ≤ T)) = [] := by
        apply filter_eq_nil_iff.mpr
        intro f hf
        simp only [decodeFracs, mem_filterMap] at hf
        obtain ⟨g, hgm, hg⟩ := hf
        obtain ⟨j, e, hj, hfe, _, _⟩ := hspec2 g hgm
        have hidx : g.ev = evs'.length + j := by omega
        cases hev : (evs' ++ postE)[g.ev]? with
        | none => simp [hev] at hg
        | some e' =>
          simp only [hev, Option.some.injEq] at hg
          subst hg
          have : e' ∈ postE := by
            rw [hidx, getElem?_append_right (by omega)] at hev
            exact mem_of_getElem? hev
          have := hpostE e' this
          simp; omega
      rw [hdec1, hkeep1, hdrop2, append_nil]
end Rp2
