import Rp2.Proofs.PipelineEngine
import Rp2.Proofs.StableFilter
import Rp2.Proofs.Prefix
/-! C09 on the executable pipeline: computing on the history truncated at a date gives exactly the fractions of the full computation
dated up to it — later transactions never change what was computed for earlier ones. -/
namespace Rp2
open List

/-- a list sorted by `day` splits into the part up to `T` (which is its filter) and a rest entirely after `T` -/
theorem filter_prefix_of_sorted {α} (day : α → Int) (T : Int) : ∀ (l : List α), l.Pairwise (fun a b => day a ≤ day b) →
    ∃ post, l = l.filter (fun x => decide (day x ≤ T)) ++ post ∧ ∀ x ∈ post, T < day x := by
  intro l
  induction l with
  | nil => intro _; exact ⟨[], by simp, by simp⟩
  | cons a t ih =>
    intro hp
    rw [pairwise_cons] at hp
    by_cases ha : day a ≤ T
    · obtain ⟨post, h1, h2⟩ := ih hp.2
      refine ⟨post, ?_, h2⟩
      simp only [filter_cons, ha, decide_true, if_true, cons_append]
      rw [← h1]
    · refine ⟨a :: t, ?_, ?_⟩
      · have : (a :: t).filter (fun x => decide (day x ≤ T)) = [] := by
          apply filter_eq_nil_iff.mpr
          intro x hx
          rcases mem_cons.mp hx with rfl | hx'
          · simpa using ha
          · have := hp.1 x hx'; simp; omega
        rw [this]; rfl
      · intro x hx
        rcases mem_cons.mp hx with rfl | hx'
        · omega
        · have := hp.1 x hx'; omega

theorem engineEvents_append (sched : List (Int × Method)) : ∀ (a b : List TaxEv) (es : List Event), engineEvents sched (a ++ b) = some es →
    ∃ ea eb, engineEvents sched a = some ea ∧ engineEvents sched b = some eb ∧ es = ea ++ eb := by
  intro a
  induction a with
  | nil => intro b es h; exact ⟨[], es, rfl, by simpa using h, rfl⟩
  | cons e t ih =>
    intro b es h
    simp only [cons_append, engineEvents] at h
    split at h
    · rename_i s r hs hr
      obtain ⟨ea, eb, h1, h2, h3⟩ := ih b r hr
      simp only [Option.some.injEq] at h
      refine ⟨(⟨e.ts.us, s, e.amount.toNat, e.earn⟩ : Event) :: ea, eb, ?_, h2, ?_⟩
      · simp only [engineEvents, hs, h1]
      · rw [← h, h3]; rfl
    · cases h

/-- what the truncation keeps -/
def keepIn (T : Int) (l : InTx) : Bool := decide (l.ts.day ≤ T)
def keepOut (T : Int) (l : OutTx) : Bool := decide (l.ts.day ≤ T)
def keepIntra (T : Int) (l : IntraTx) : Bool := decide (l.ts.day ≤ T)
def keepEv (T : Int) (e : TaxEv) : Bool := decide (e.ts.day ≤ T)

theorem sortByTs_filter {α : Type} (ts : α → Int) (q : α → Bool) (l : List α) : (sortByTs ts l).filter q = sortByTs ts (l.filter q) := by
  unfold sortByTs
  apply filter_mergeSort
  · intro a b c h1 h2
    have h1' : ts a ≤ ts b := by simpa using h1
    have h2' : ts b ≤ ts c := by simpa using h2
    simp; omega
  · intro a b
    simp only [Bool.or_eq_true, decide_eq_true_eq]; omega

/-- the taxable events of the truncated history are the taxable events of the full history dated up to `T`, in the same order -/
theorem taxableEvents_truncate (T : Int) (ins : List InTx) (outs : List OutTx) (intras : List IntraTx) :
    taxableEvents (ins.filter (keepIn T)) (outs.filter (keepOut T)) (intras.filter (keepIntra T)) =
      (taxableEvents ins outs intras).filter (keepEv T) := by
  unfold taxableEvents
  rw [sortByTs_filter]
  have hA : ((ins.filter (·.typ.isEarn)).map InTx.toEv).filter (keepEv T) = ((ins.filter (keepIn T)).filter (·.typ.isEarn)).map InTx.toEv := by
    rw [filter_map, filter_filter, filter_filter]
    congr 1
    apply filter_congr
    intro x _
    simp [Function.comp, keepEv, keepIn, InTx.toEv, Bool.and_comm] <;> rfl
  have hB : (outs.map OutTx.toEv).filter (keepEv T) = (outs.filter (keepOut T)).map OutTx.toEv := by
    rw [filter_map]
    congr 1
  have hC : ((intras.filter (fun t => gt13 t.fiatFee 0)).map IntraTx.toEv).filter (keepEv T) =
      ((intras.filter (keepIntra T)).filter (fun t => gt13 t.fiatFee 0)).map IntraTx.toEv := by
    rw [filter_map, filter_filter, filter_filter]
    congr 1
    apply filter_congr
    intro x _
    simp [Function.comp, keepEv, keepIntra, IntraTx.toEv, Bool.and_comm] <;> rfl
  rw [filter_append, filter_append, hA, hB, hC]

end Rp2
