namespace Rp2

/-! ### C19: hyperlinks lead to the row of the same transaction (repaired model: dictionary per asset) -/

def numberFrom {α} (start : Nat) : List α → List (α × Nat)
  | [] => []
  | x :: t => (x, start + 1) :: numberFrom (start + 1) t

/-- rows at which the transactions of one asset are written in its In-Out sheet (1-based) -/
def written (ins outs intras : List Int) : List (Int × Nat) :=
  numberFrom 3 ins ++ numberFrom (8 + ins.length) outs ++ numberFrom (13 + ins.length + outs.length) intras

def linkOf (m : List (Int × Nat)) (id : Int) : Option Nat := (m.find? (·.1 == id)).map (·.2)

theorem numberFrom_keys {α} (start : Nat) (l : List α) : (numberFrom start l).map (·.1) = l := by
  induction l generalizing start with
  | nil => rfl
  | cons x t ih => simp [numberFrom, ih]

theorem written_keys (ins outs intras : List Int) : (written ins outs intras).map (·.1) = ins ++ outs ++ intras := by
  simp [written, numberFrom_keys]

theorem find_of_mem_nodup (m : List (Int × Nat)) (hnd : (m.map (·.1)).Nodup) (k : Int) (v : Nat) (h : (k, v) ∈ m) :
    linkOf m k = some v := by
  unfold linkOf
  induction m with
  | nil => cases h
  | cons p t ih =>
    simp only [List.map_cons, List.nodup_cons] at hnd
    simp only [List.find?_cons]
    cases h with
    | head => simp
    | tail _ h' =>
      have hne : ¬ (p.1 == k) = true := by
        intro e
        have : p.1 = k := by simpa using e
        apply hnd.1
        rw [this]
        exact List.mem_map.mpr ⟨(k, v), h', rfl⟩
      simp only [hne]
      exact ih hnd.2 h'

theorem find_none_of_not_mem (m : List (Int × Nat)) (k : Int) (h : k ∉ m.map (·.1)) : linkOf m k = none := by
  unfold linkOf
  induction m with
  | nil => rfl
  | cons p t ih =>
    simp only [List.map_cons, List.mem_cons, not_or] at h
    have hne : ¬ (p.1 == k) = true := by
      intro e
      have : p.1 = k := by simpa using e
      exact h.1 this.symm
    simp only [List.find?_cons, hne]
    exact ih h.2

/-- **C19**: every transaction shown in the sheet is linked to exactly the row it was written at; a transaction
    the date filter hides carries no link. -/
theorem C19_tx_links (ins outs intras : List Int) (hnd : (ins ++ outs ++ intras).Nodup) :
    (∀ p ∈ written ins outs intras, linkOf (written ins outs intras) p.1 = some p.2) ∧
    (∀ id, id ∉ ins ++ outs ++ intras → linkOf (written ins outs intras) id = none) := by
  have hk := written_keys ins outs intras
  constructor
  · intro p hp
    exact find_of_mem_nodup _ (by rw [hk]; exact hnd) p.1 p.2 hp
  · intro id hid
    exact find_none_of_not_mem _ id (by rw [hk]; exact hid)

/-! ### C14: every fraction on exactly one row of the sheet of its type; no row written twice -/

/-- row assignment of the tax report: one counter per sheet, shared by all assets -/
def route (idx : String → Nat) : List String → List (String × Nat)
  | [] => []
  | s :: t => (s, idx s + 1) :: route (fun x => if x = s then idx s + 1 else idx x) t

theorem route_sheets (idx : String → Nat) (ss : List String) : (route idx ss).map (·.1) = ss := by
  induction ss generalizing idx with
  | nil => rfl
  | cons s t ih => simp [route, ih]

theorem route_gt (idx : String → Nat) (ss : List String) : ∀ p ∈ route idx ss, idx p.1 < p.2 := by
  induction ss generalizing idx with
  | nil => intro p hp; cases hp
  | cons s t ih =>
    intro p hp
    simp only [route, List.mem_cons] at hp
    rcases hp with rfl | hp
    · exact Nat.lt_succ_self _
    · have := ih _ p hp
      by_cases hps : p.1 = s
      · simp only [hps, if_true] at this
        rw [hps]; omega
      · simp only [hps, if_false] at this
        exact this

/-- no (sheet, row) is used twice — nothing is overwritten, whatever the number of assets sharing a sheet -/
theorem route_nodup (idx : String → Nat) (ss : List String) : (route idx ss).Nodup := by
  induction ss generalizing idx with
  | nil => exact List.nodup_nil
  | cons s t ih =>
    simp only [route, List.nodup_cons]
    refine ⟨?_, ih _⟩
    intro hmem
    have := route_gt _ t _ hmem
    simp at this

/-- each fraction gets exactly one row, on the sheet the type map assigns (`ss` = sheets of the fractions in order) -/
theorem C14_routing (idx : String → Nat) (ss : List String) :
    (route idx ss).length = ss.length ∧ (route idx ss).map (·.1) = ss ∧ (route idx ss).Nodup := by
  refine ⟨?_, route_sheets idx ss, route_nodup idx ss⟩
  have := congrArg List.length (route_sheets idx ss)
  simpa using this

end Rp2
