import Rp2.Model.Report
/-! C19 on the full-report model: the transaction → row dictionary of an asset maps every shown transaction to the row it was
written at and nothing else, so the links of the detail table (which are dictionary look-ups) lead to the row of the same
transaction or are absent. -/
namespace Rp2

theorem lookupI_setI_same {β} (k : Int) (v : β) (l : List (Int × β)) : lookupI k (setI k v l) = some v := by
  unfold setI lookupI
  by_cases h : l.any (·.1 == k) = true
  · simp only [h, if_true]
    rw [List.find?_map]
    obtain ⟨p, hp, hpk⟩ := List.any_eq_true.mp h
    cases hf : l.find? ((fun p : Int × β => p.1 == k) ∘ fun p => if (p.1 == k) = true then (k, v) else p) with
    | none =>
      have := List.find?_eq_none.mp hf p hp
      simp [Function.comp, hpk] at this
    | some q =>
      have hq := List.find?_some hf
      simp only [Function.comp] at hq
      simp only [Option.map_some]
      by_cases hqk : (q.1 == k) = true
      · simp [hqk]
      · simp [hqk] at hq
  · simp only [h, Bool.false_eq_true, if_false]
    rw [List.find?_append]
    have : l.find? (·.1 == k) = none := by
      apply List.find?_eq_none.mpr; intro p hp hpk; exact h (List.any_eq_true.mpr ⟨p, hp, hpk⟩)
    simp [this]

theorem lookupI_setI_other {β} (k k' : Int) (v : β) (l : List (Int × β)) (hne : k' ≠ k) : lookupI k' (setI k v l) = lookupI k' l := by
  unfold setI lookupI
  by_cases h : l.any (·.1 == k) = true
  · simp only [h, if_true]
    rw [List.find?_map]
    have hpred : ((fun p : Int × β => p.1 == k') ∘ fun p => if (p.1 == k) = true then (k, v) else p) = fun p => p.1 == k' := by
      funext p; simp only [Function.comp]
      by_cases hp : (p.1 == k) = true
      · simp only [hp, if_true]
        have : p.1 = k := by simpa using hp
        simp [this, hne, Ne.symm hne]
      · simp [hp]
    rw [hpred]
    cases hf : l.find? (·.1 == k') with
    | none => rfl
    | some q =>
      have hq := List.find?_some hf
      have hq' : q.1 = k' := by simpa using hq
      have hqk : ¬ q.1 = k := by rw [hq']; exact hne
      simp [hqk]
  · simp only [h, Bool.false_eq_true, if_false]
    rw [List.find?_append]
    cases hf : l.find? (·.1 == k') with
    | some q => simp
    | none => simp [List.find?_cons, hne, Ne.symm hne]

/-- folding `setI` over pairs with distinct keys gives a dictionary that returns exactly those pairs -/
theorem lookup_fold_setI : ∀ (ps : List (Int × Nat)) (d0 : List (Int × Nat)), (ps.map (·.1)).Nodup →
    ∀ k, lookupI k (ps.foldl (fun d p => setI p.1 p.2 d) d0) =
      match ps.find? (·.1 == k) with
      | some p => some p.2
      | none => lookupI k d0 := by
  intro ps
  induction ps with
  | nil => intro d0 _ k; simp
  | cons p t ih =>
    intro d0 hnd k
    rw [List.map_cons, List.nodup_cons] at hnd
    simp only [List.foldl_cons]
    rw [ih _ hnd.2 k]
    by_cases hk : (p.1 == k) = true
    · have hpk : p.1 = k := by simpa using hk
      have hnone : t.find? (·.1 == k) = none := by
        apply List.find?_eq_none.mpr
        intro q hq hqk
        have : q.1 = k := by simpa using hqk
        exact hnd.1 (List.mem_map.mpr ⟨q, hq, by rw [this, hpk]⟩)
      simp only [hnone, List.find?_cons, hk]
      rw [← hpk]; exact lookupI_setI_same _ _ _
    · have hpk : k ≠ p.1 := by intro h; exact hk (by simp [h])
      simp only [List.find?_cons, hk]
      cases t.find? (·.1 == k) with
      | some q => rfl
      | none => exact lookupI_setI_other _ _ _ _ hpk

/-- **C19 (transaction links) on the model**: with the per-asset dictionary, a transaction shown in the asset's In-Out sheet is
    linked to exactly the row it was written at, and a transaction the date filter hides carries no link -/
theorem txRow_spec (c : Computed) (hnd : ((shownRows c).map (·.1)).Nodup) :
    (∀ p ∈ shownRows c, lookupI p.1 (txRowFrom [] c) = some p.2) ∧
    (∀ id, id ∉ (shownRows c).map (·.1) → lookupI id (txRowFrom [] c) = none) := by
  unfold txRowFrom
  constructor
  · intro p hp
    rw [lookup_fold_setI _ _ hnd]
    -- the first pair with key p.1 is p itself, keys being distinct
    have : ∀ (l : List (Int × Nat)), (l.map (·.1)).Nodup → p ∈ l → l.find? (·.1 == p.1) = some p := by
      intro l
      induction l with
      | nil => intro _ h; cases h
      | cons q t ih =>
        intro hn hm
        rw [List.map_cons, List.nodup_cons] at hn
        rcases List.mem_cons.mp hm with rfl | hm'
        · simp
        · have hne : (q.1 == p.1) = false := by
            have : q.1 ≠ p.1 := by intro h; exact hn.1 (List.mem_map.mpr ⟨p, hm', h.symm⟩)
            simp [this]
          simp only [List.find?_cons, hne]; exact ih hn.2 hm'
    rw [this _ hnd hp]
  · intro id hid
    rw [lookup_fold_setI _ _ hnd]
    have : (shownRows c).find? (·.1 == id) = none := by
      apply List.find?_eq_none.mpr
      intro q hq hqk
      have : q.1 = id := by simpa using hqk
      exact hid (List.mem_map.mpr ⟨q, hq, this⟩)
    rw [this]; rfl

/-- the dictionary the repaired generator uses for an asset is the one built from that asset alone -/
theorem layout_txRow (holderOf : Nat → String) (period : Int) (st : GenState) (c : Computed) :
    (layoutAsset true holderOf period st c).state.txRow = txRowFrom [] c := by
  unfold layoutAsset; rfl

end Rp2

namespace Rp2
theorem zip_range_map {α β} (l : List α) (f : α → β) (g : Nat → Nat) :
    (((List.range l.length).zip l).map (fun (p : Nat × α) => (f p.2, g p.1))).map (fun x => x.1) = l.map f := by
  rw [List.map_map]
  have : ((fun (x : β × Nat) => x.1) ∘ fun (p : Nat × α) => (f p.2, g p.1)) = f ∘ Prod.snd := by funext p; rfl
  rw [this, ← List.map_map, List.map_snd_zip (by simp)]

/-- every transaction of the window appears exactly once in the In-Out sheet, table by table, in the order of the computed
    (time-sorted) sets -/
theorem shownRows_keys (c : Computed) :
    (shownRows c).map (·.1) = c.ins.map (·.row) ++ c.outs.map (·.row) ++ c.intras.map (·.row) := by
  unfold shownRows
  simp only [List.map_append]
  rw [zip_range_map c.ins (fun t => t.row) (fun k => 3 + k + 1), zip_range_map c.outs (fun t => t.row) (fun k => 8 + c.ins.length + k + 1),
      zip_range_map c.intras (fun t => t.row) (fun k => 13 + c.ins.length + c.outs.length + k + 1)]
end Rp2
