import Rp2.Proofs.RndErr
import Rp2.Proofs.BelowTol
/-! The 31-digit decimal model is *exact* on the 10⁻¹¹ grid: a value `u / 10¹¹` with `|u| < 10³¹` is its own rounding.  This is why the
model keeps crypto amounts as integers (grid units): sums and differences of amounts below 10²⁰ never round. -/
namespace Rp2

theorem roundHalfEvenNat_dvd (n d : Nat) (hd : 0 < d) (h : d ∣ n) : roundHalfEvenNat n d = n / d := by
  unfold roundHalfEvenNat
  have : n % d = 0 := Nat.mod_eq_zero_of_dvd h
  simp only [this]
  simp [hd]

/-- a positive `n/d` whose denominator divides `10^j` and which is below `10^(p-j)` has at most `p` significant digits -/
theorem rndMag_exact (p j n d : Nat) (hn : 0 < n) (hd : 0 < d) (hj : d ∣ 10 ^ j) (hjp : j ≤ p)
    (hb : (n : ℚ) / d < 10 ^ (p - j)) : rndMag p n d = (n : ℚ) / d := by
  have hL := chosen_exponent_le n d hn hd
  simp only at hL
  unfold rndMag
  simp only
  generalize hE : (if geP n d ((ndigits (n+1) n : Int) - (ndigits (d+1) d : Int)) then
      (if geP n d ((ndigits (n+1) n : Int) - (ndigits (d+1) d : Int) + 1) then (ndigits (n+1) n : Int) - (ndigits (d+1) d : Int) + 1
       else (ndigits (n+1) n : Int) - (ndigits (d+1) d : Int)) else (ndigits (n+1) n : Int) - (ndigits (d+1) d : Int) - 1) = e at hL ⊢
  have hlt : (10 : ℚ) ^ e < (10 : ℚ) ^ (((p - j : Nat) : Int)) := by
    rw [zpow_natCast]; exact lt_of_le_of_lt hL hb
  have he : e < ((p - j : Nat) : Int) := (zpow_lt_zpow_iff_right₀ (by norm_num : (1 : ℚ) < 10)).mp hlt
  have hk : (p : Int) - 1 - e ≥ 0 := by omega
  rw [if_pos hk]
  obtain ⟨k, hkk⟩ := Int.eq_ofNat_of_zero_le hk
  rw [hkk]
  simp only [Int.toNat_natCast]
  have hjk : j ≤ k := by omega
  have hdk : d ∣ n * 10 ^ k := Dvd.dvd.mul_left (dvd_trans hj (Nat.pow_dvd_pow 10 hjk)) n
  rw [roundHalfEvenNat_dvd _ _ hd hdk]
  have hdq : (d : ℚ) ≠ 0 := by exact_mod_cast (Nat.pos_iff_ne_zero.mp hd)
  have h10 : ((10 : ℚ) ^ k) ≠ 0 := by positivity
  obtain ⟨c, hc⟩ := hdk
  rw [hc, Nat.mul_div_cancel_left c hd]
  have hcq : (n : ℚ) * 10 ^ k = d * c := by exact_mod_cast hc
  push_cast
  rw [div_eq_div_iff h10 hdq]
  linarith

/-- denominators on the grid divide 10¹¹ -/
theorem ofUnits_den_dvd (u : Int) : (ofUnits u).den ∣ 10 ^ 11 := by
  have h := ofUnits_num_den u
  have hcop : Nat.Coprime (ofUnits u).num.natAbs (ofUnits u).den := (ofUnits u).reduced
  have hnat : (ofUnits u).num.natAbs * 100000000000 = u.natAbs * (ofUnits u).den := by
    have := congrArg Int.natAbs h
    simpa [Int.natAbs_mul] using this
  have h2 : (ofUnits u).den ∣ 100000000000 * (ofUnits u).num.natAbs := ⟨u.natAbs, by rw [Nat.mul_comm, hnat, Nat.mul_comm]⟩
  have h3 : (ofUnits u).den ∣ 100000000000 := (Nat.Coprime.symm hcop).dvd_of_dvd_mul_right h2
  simpa using h3

/-- **exactness on the grid**: `u / 10¹¹` with `|u| < 10³¹` is a 31-digit decimal, so rounding to 31 digits leaves it unchanged -/
theorem rnd31_grid_exact (u : Int) (hu : u.natAbs < 10 ^ 31) : rnd 31 (ofUnits u) = ofUnits u := by
  rw [rnd_eq_mag]
  by_cases h0 : ofUnits u = 0
  · simp [h0]
  rw [if_neg h0]
  have hden : 0 < (ofUnits u).den := (ofUnits u).den_pos
  have hnum : 0 < (ofUnits u).num.natAbs := by
    rw [Int.natAbs_pos]; intro hz; exact h0 (Rat.zero_of_num_zero hz)
  have habs : ((ofUnits u).num.natAbs : ℚ) / ((ofUnits u).den : ℚ) < 10 ^ (31 - 11) := by
    rw [← abs_eq_natAbs_div]
    have : |ofUnits u| = (u.natAbs : ℚ) / 100000000000 := by
      unfold ofUnits U; rw [abs_div]
      have h1 : |(u : ℚ)| = (u.natAbs : ℚ) := by rw [← Int.cast_abs, Int.abs_eq_natAbs]; simp
      rw [h1]; norm_num
    rw [this, div_lt_iff₀ (by norm_num)]
    have : ((u.natAbs : Nat) : ℚ) < ((10 ^ 31 : Nat) : ℚ) := by exact_mod_cast hu
    push_cast at this
    have h20 : (10 : ℚ) ^ (31 - 11) * 100000000000 = 10 ^ 31 := by norm_num
    rw [h20]; exact this
  have hm := rndMag_exact 31 11 _ _ hnum hden (ofUnits_den_dvd u) (by norm_num) habs
  rw [hm]
  by_cases hneg : (ofUnits u).num < 0
  · rw [if_pos hneg]
    have := abs_eq_natAbs_div (ofUnits u)
    rw [← this, abs_of_neg (Rat.num_neg.mp hneg)]; ring
  · rw [if_neg hneg]
    have := abs_eq_natAbs_div (ofUnits u)
    rw [← this, abs_of_nonneg (Rat.num_nonneg.mp (not_lt.mp hneg))]

theorem ofUnits_add (a b : Int) : ofUnits a + ofUnits b = ofUnits (a + b) := by unfold ofUnits U; push_cast; ring
theorem ofUnits_sub (a b : Int) : ofUnits a - ofUnits b = ofUnits (a - b) := by unfold ofUnits U; push_cast; ring

/-- sums and differences of grid amounts are exact in the decimal model (the sizes rp2 accepts are far below the bound) -/
theorem dadd_grid_exact (a b : Int) (h : (a + b).natAbs < 10 ^ 31) : dadd (ofUnits a) (ofUnits b) = ofUnits (a + b) := by
  unfold dadd; rw [ofUnits_add]; exact rnd31_grid_exact _ h
theorem dsub_grid_exact (a b : Int) (h : (a - b).natAbs < 10 ^ 31) : dsub (ofUnits a) (ofUnits b) = ofUnits (a - b) := by
  unfold dsub; rw [ofUnits_sub]; exact rnd31_grid_exact _ h

end Rp2
