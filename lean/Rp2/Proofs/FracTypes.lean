import Rp2.Proofs.ComputeWindow
import Rp2.Proofs.TaxTotal
/-! The transaction type of every fraction that `compute` produces is a taxable type (an earn-typed acquisition, a disposal type, or MOVE),
so it has a sheet in the tax reports: the `KeyError` branch of `taxReport` is unreachable on computed data of accepted input. -/
namespace Rp2

theorem mem_sortByTs {α} (ts : α → Int) (l : List α) (x : α) : x ∈ sortByTs ts l ↔ x ∈ l := by
  unfold sortByTs; exact (List.mergeSort_perm l _).mem_iff

theorem decodeFracs_ev_mem (lots : List InTx) (evs : List TaxEv) (fs : List Frac) : ∀ f ∈ decodeFracs lots evs fs, f.ev ∈ evs := by
  intro f hf
  unfold decodeFracs at hf
  obtain ⟨g, _, hg⟩ := List.mem_filterMap.mp hf
  split at hg
  · cases hg
  · rename_i e he
    simp only [Option.some.injEq] at hg
    subst hg
    exact List.mem_of_getElem? he

/-- the disposal types the parser accepts in an OUT table (`mkOutRow_ok`) -/
def ValidOutType (t : TxType) : Prop := t = .donate ∨ t = .fee ∨ t = .gift ∨ t = .lost ∨ t = .sell ∨ t = .staking

theorem taxableEvents_types (ins : List InTx) (outs : List OutTx) (intras : List IntraTx) (hout : ∀ o ∈ outs, ValidOutType o.typ) :
    ∀ e ∈ taxableEvents ins outs intras, (sheetOf true e.typ).isSome = true := by
  intro e he
  unfold taxableEvents at he
  rw [mem_sortByTs] at he
  simp only [List.mem_append, List.mem_map, List.mem_filter] at he
  rcases he with (⟨t, ⟨_, hearn⟩, rfl⟩ | ⟨o, ho, rfl⟩) | ⟨x, _, rfl⟩
  · simp only [InTx.toEv]
    cases hty : t.typ <;> simp [hty, TxType.isEarn] at hearn <;> simp [sheetOf]
  · simp only [OutTx.toEv]
    rcases hout o ho with h | h | h | h | h | h <;> simp [h, sheetOf]
  · simp [IntraTx.toEv, sheetOf]

theorem compute_frac_types (asset : String) (acctName : Nat → String) (period : Int) (allowNeg : Bool) (fromD toD : Option Int)
    (sched : List (Int × Method)) (ins : List InTx) (outs : List OutTx) (intras : List IntraTx) (cd : Computed)
    (h : compute asset acctName period allowNeg fromD toD sched ins outs intras = .ok cd) (hout : ∀ o ∈ outs, ValidOutType o.typ) :
    ∀ n ∈ cd.fracs, (sheetOf true n.f.ev.typ).isSome = true := by
  obtain ⟨fs, hfs, hcd⟩ := compute_fracs asset acctName period allowNeg fromD toD sched ins outs intras cd h
  intro n hn
  have h1 : n.f ∈ cd.fracs.map (·.f) := List.mem_map.mpr ⟨n, hn, rfl⟩
  rw [hcd] at h1
  have h2 : n.f ∈ fs := by
    have := (List.mem_filter.mp h1).1
    unfold cutAt at this
    cases toD with
    | none => exact this
    | some t => exact (List.takeWhile_sublist _).subset this
  unfold computeFractions at hfs
  simp only at hfs
  split at hfs
  · cases hfs
  · split at hfs
    · cases hfs
    · split at hfs
      · cases hfs
      · simp only [Except.ok.injEq] at hfs
        subst hfs
        exact taxableEvents_types ins outs intras hout _ (decodeFracs_ev_mem _ _ _ _ h2)

/-- **C16 on the tax-report model**: on the computed data of any list of assets whose OUT rows carry disposal types (what the parser
    accepts), the US / IE tax report model never fails -/
theorem taxReport_total_on_computed (period : Int) (cs : List Computed)
    (hc : ∀ c ∈ cs, ∃ asset acctName per allowNeg fromD toD sched ins outs intras,
      compute asset acctName per allowNeg fromD toD sched ins outs intras = .ok c ∧ ∀ o ∈ outs, ValidOutType o.typ) :
    ∃ r, taxReport true period 102 cs = .ok r := by
  apply taxReport_total true period 102 cs (by omega)
  intro p hp
  unfold allFracs at hp
  obtain ⟨c, hcm, hpm⟩ := List.mem_flatMap.mp hp
  obtain ⟨n, hn, rfl⟩ := List.mem_map.mp hpm
  obtain ⟨asset, acctName, per, allowNeg, fromD, toD, sched, ins, outs, intras, hcomp, hout⟩ := hc c hcm
  exact compute_frac_types asset acctName per allowNeg fromD toD sched ins outs intras c hcomp hout n hn

end Rp2
