import Mathlib.Tactic.Ring
import Mathlib.Tactic.Linarith
import Mathlib.Tactic.FieldSimp
import Mathlib.Tactic.NormNum
import Mathlib.Tactic.Positivity
import Mathlib.Algebra.Order.Field.Rat
import Mathlib.Data.Rat.Cast.Order
import Rp2.Model.Pipeline
/-! The overdraft tolerance of `BalanceSet` (`quantize` to 10 decimals is non-zero and the balance is negative), on the
10⁻¹¹ grid: an account is "below tolerance" exactly from −6·10⁻¹¹ downwards (−5·10⁻¹¹ rounds, half-even, to 0). -/
namespace Rp2

theorem roundHalfEvenNat_eq_zero_iff (n d : Nat) (hd : 0 < d) : roundHalfEvenNat n d = 0 ↔ 2 * n ≤ d := by
  unfold roundHalfEvenNat
  simp only
  have hdm := Nat.div_add_mod n d
  have hml := Nat.mod_lt n hd
  generalize hq : n / d = q at *
  generalize hr : n % d = r at *
  by_cases h0 : q = 0
  · subst h0
    have hn : n = r := by simpa using hdm.symm
    subst hn
    by_cases h1 : 2 * n < d
    · simp [h1]
      try omega
    · by_cases h2 : 2 * n > d
      · simp [h1, h2]
        try omega
      · simp [h1, h2]
        try omega
  · have hqd : d ≤ d * q := Nat.le_mul_of_pos_right d (Nat.pos_of_ne_zero h0)
    have hn : d ≤ n := by omega
    constructor
    · intro h
      by_cases h1 : 2 * r < d
      · simp [h1] at h; exact absurd h h0
      · by_cases h2 : 2 * r > d
        · simp [h1, h2] at h
        · simp only [h1, h2, if_false] at h
          split at h
          · exact absurd h h0
          · omega
    · intro h; omega

/-- the reduced fraction of `u / 10¹¹` -/
theorem ofUnits_num_den (u : Int) : (ofUnits u).num * 100000000000 = u * (ofUnits u).den := by
  have h1 : (ofUnits u) * ((ofUnits u).den : ℚ) = ((ofUnits u).num : ℚ) := Rat.mul_den_eq_num _
  have h2 : (ofUnits u) * (100000000000 : ℚ) = (u : ℚ) := by
    unfold ofUnits U; push_cast; field_simp
  have : ((ofUnits u).num : ℚ) * 100000000000 = (u : ℚ) * ((ofUnits u).den : ℚ) := by
    rw [← h1, ← h2]; ring
  exact_mod_cast this

theorem quant10_ne_zero_iff (u : Int) : quant 10 (ofUnits u) ≠ 0 ↔ 5 < u.natAbs := by
  have hden : 0 < (ofUnits u).den := (ofUnits u).den_pos
  have hnd := ofUnits_num_den u
  have hnat : (ofUnits u).num.natAbs * 100000000000 = u.natAbs * (ofUnits u).den := by
    have := congrArg Int.natAbs hnd
    simpa [Int.natAbs_mul] using this
  unfold quant
  simp only
  have hr : roundHalfEvenNat ((ofUnits u).num.natAbs * 10 ^ 10) (ofUnits u).den ≠ 0 ↔ 5 < u.natAbs := by
    rw [Ne, roundHalfEvenNat_eq_zero_iff _ _ hden]
    constructor
    · intro h
      by_contra hle
      apply h
      have : u.natAbs ≤ 5 := by omega
      nlinarith
    · intro h hle
      nlinarith
  have hs : ((10 ^ 10 : Nat) : ℚ) ≠ 0 := by positivity
  constructor
  · intro h
    apply hr.mp
    intro h0
    apply h
    rw [h0]; split <;> simp
  · intro h
    have h0 := hr.mpr h
    have hpos : (0 : ℚ) < ((roundHalfEvenNat ((ofUnits u).num.natAbs * 10 ^ 10) (ofUnits u).den : Nat) : ℚ) / ((10 ^ 10 : Nat) : ℚ) := by
      apply div_pos
      · exact_mod_cast Nat.pos_of_ne_zero h0
      · positivity
    split
    · intro hc; linarith [neg_eq_zero.mp hc]
    · exact ne_of_gt hpos

/-- **the tolerance, on the grid**: a balance of `u`·10⁻¹¹ is below tolerance iff `u ≤ −6` -/
theorem belowTol_iff (u : Int) : belowTol u = true ↔ u ≤ -6 := by
  unfold belowTol
  simp only [Bool.and_eq_true, decide_eq_true_eq]
  rw [quant10_ne_zero_iff]
  omega

theorem belowTol_antitone (x y : Int) (h : x ≤ y) (hy : belowTol y = true) : belowTol x = true := by
  rw [belowTol_iff] at *; omega

theorem belowTol_zero : belowTol 0 = false := by
  have := (belowTol_iff 0).not
  simp at this
  cases h : belowTol 0
  · rfl
  · exact absurd ((belowTol_iff 0).mp h) (by omega)

end Rp2
