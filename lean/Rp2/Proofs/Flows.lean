import Rp2.Proofs.Balance
namespace Rp2

def acqOf (a : Nat) : BTx → Int
  | .acq x n => if x = a then (n : Int) else 0
  | _ => 0
def recvOf (a : Nat) : BTx → Int
  | .move _ d _ r => if d = a then (r : Int) else 0
  | _ => 0
def sentOf (a : Nat) : BTx → Int
  | .move s _ sent _ => if s = a then (sent : Int) else 0
  | .out x n => if x = a then (n : Int) else 0
  | _ => 0

def sumOf (f : BTx → Int) (p : List BTx) : Int := (p.map f).sum

theorem applyTx_flow (b : Bal) (t : BTx) (a : Nat) :
    applyTx b t a = b a + acqOf a t + recvOf a t - sentOf a t := by
  cases t with
  | acq x n => simp only [applyTx, upd, acqOf, recvOf, sentOf]; split <;> (rename_i h; simp [h, eq_comm]) <;> omega
  | move s d sent recv =>
    simp only [applyTx, upd, acqOf, recvOf, sentOf]
    by_cases h1 : a = d <;> by_cases h2 : a = s <;> simp [h1, h2, eq_comm] <;> omega
  | out x n => simp only [applyTx, upd, acqOf, recvOf, sentOf]; split <;> (rename_i h; simp [h, eq_comm]) <;> omega

/-- **C07 (flows)**: after any list of transactions the balance of every account is
    initial + acquired + received − sent, each a plain sum over that account's transactions -/
theorem balAfter_flows (p : List BTx) : ∀ (b : Bal) (a : Nat),
    balAfter b p a = b a + sumOf (acqOf a) p + sumOf (recvOf a) p - sumOf (sentOf a) p := by
  induction p with
  | nil => intro b a; simp [balAfter, sumOf]
  | cons t ts ih =>
    intro b a
    have := ih (applyTx b t) a
    simp only [balAfter, List.foldl_cons, sumOf, List.map_cons, List.sum_cons] at *
    rw [this, applyTx_flow]; omega

end Rp2
