import Rp2.Model.Group
namespace Rp2

variable {κ : Type} [DecidableEq κ] {α : Type}

def lookup (k : κ) : List (κ × α) → Option α
  | [] => none
  | (k', s) :: t => if k' = k then some s else lookup k t

/-- running sum of the entries with key `k`, in order -/
def sumKey (add : α → α → α) (k : κ) (init : α) (fs : List (κ × α)) : α :=
  (fs.filter (fun f => f.1 = k)).foldl (fun s f => add s f.2) init

theorem lookup_bump_same (add : α → α → α) (zero : α) (acc : List (κ × α)) (k : κ) (x : α) :
    lookup k (bump add zero acc k x) = some (add ((lookup k acc).getD zero) x) := by
  induction acc with
  | nil => simp [bump, lookup]
  | cons h t ih =>
    obtain ⟨k', s⟩ := h
    by_cases hk : k' = k
    · simp [bump, lookup, hk]
    · simp [bump, lookup, hk, ih]

theorem lookup_bump_other (add : α → α → α) (zero : α) (acc : List (κ × α)) (k k2 : κ) (x : α) (h : k2 ≠ k) :
    lookup k2 (bump add zero acc k x) = lookup k2 acc := by
  induction acc with
  | nil => simp [bump, lookup, Ne.symm h]
  | cons hd t ih =>
    obtain ⟨k', s⟩ := hd
    by_cases hk : k' = k
    · subst hk
      have : ¬ k' = k2 := fun e => h e.symm
      simp [bump, lookup, this]
    · by_cases hk2 : k' = k2
      · subst hk2; simp [bump, lookup, hk]
      · simp [bump, lookup, hk, hk2, ih]

theorem keys_bump (add : α → α → α) (zero : α) (acc : List (κ × α)) (k : κ) (x : α) :
    (bump add zero acc k x).map (·.1) = if k ∈ acc.map (·.1) then acc.map (·.1) else acc.map (·.1) ++ [k] := by
  induction acc with
  | nil => simp [bump]
  | cons hd t ih =>
    obtain ⟨k', s⟩ := hd
    by_cases hk : k' = k
    · subst hk; simp [bump]
    · have hk' : ¬ k = k' := fun e => hk e.symm
      simp only [bump, hk, if_false, List.map_cons, ih, List.mem_cons, hk', false_or]
      split <;> simp

/-- generalised fold invariant -/
theorem group_aux (add : α → α → α) (zero : α) : ∀ (fs : List (κ × α)) (acc : List (κ × α)),
    (acc.map (·.1)).Nodup →
    let res := fs.foldl (fun acc f => bump add zero acc f.1 f.2) acc
    (res.map (·.1)).Nodup ∧
    (∀ k, k ∈ res.map (·.1) ↔ k ∈ acc.map (·.1) ∨ k ∈ fs.map (·.1)) ∧
    (∀ k, k ∈ res.map (·.1) → lookup k res = some (sumKey add k ((lookup k acc).getD zero) fs)) := by
  intro fs
  induction fs with
  | nil =>
    intro acc hnd
    refine ⟨hnd, by intro k; simp, ?_⟩
    intro k hk
    simp only [List.foldl_nil] at hk
    simp only [List.foldl_nil, sumKey, List.filter_nil]
    induction acc with
    | nil => simp at hk
    | cons hd t ih =>
      obtain ⟨k', s⟩ := hd
      by_cases e : k' = k
      · simp [lookup, e]
      · simp only [lookup, e, if_false]
        simp only [List.map_cons, List.mem_cons] at hk
        rcases hk with hk | hk
        · exact absurd hk.symm e
        · exact ih (List.nodup_cons.mp hnd).2 hk
  | cons f fs ih =>
    intro acc hnd
    simp only [List.foldl_cons]
    have hnd' : ((bump add zero acc f.1 f.2).map (·.1)).Nodup := by
      rw [keys_bump]
      split
      · exact hnd
      · rename_i hnot
        rw [List.nodup_append]
        refine ⟨hnd, by simp, ?_⟩
        intro a ha b hb
        simp only [List.mem_singleton] at hb
        subst hb
        intro e; subst e; exact hnot ha
    obtain ⟨h1, h2, h3⟩ := ih (bump add zero acc f.1 f.2) hnd'
    refine ⟨h1, ?_, ?_⟩
    · intro k
      rw [h2 k, keys_bump]
      simp only [List.map_cons, List.mem_cons]
      split
      · rename_i hin
        constructor
        · rintro (h | h)
          · exact Or.inl h
          · exact Or.inr (Or.inr h)
        · rintro (h | h | h)
          · exact Or.inl h
          · subst h; exact Or.inl hin
          · exact Or.inr h
      · simp only [List.mem_append, List.mem_singleton]
        constructor
        · rintro ((h | h) | h)
          · exact Or.inl h
          · exact Or.inr (Or.inl h)
          · exact Or.inr (Or.inr h)
        · rintro (h | h | h)
          · exact Or.inl (Or.inl h)
          · exact Or.inl (Or.inr h)
          · exact Or.inr h
    · intro k hk
      rw [h3 k hk]
      by_cases e : f.1 = k
      · subst e
        rw [lookup_bump_same]
        simp [sumKey, List.filter_cons]
      · have e' : k ≠ f.1 := fun h => e h.symm
        rw [lookup_bump_other _ _ _ _ _ _ e']
        simp [sumKey, List.filter_cons, e]

/-- **C06**: the grouped list has one line per key that occurs, no other line, and each line is the running sum,
    in order, of exactly the entries with that key. -/
theorem group_spec (add : α → α → α) (zero : α) (fs : List (κ × α)) :
    ((group add zero fs).map (·.1)).Nodup ∧
    (∀ k, k ∈ (group add zero fs).map (·.1) ↔ k ∈ fs.map (·.1)) ∧
    (∀ k, k ∈ fs.map (·.1) → lookup k (group add zero fs) = some (sumKey add k zero fs)) := by
  obtain ⟨h1, h2, h3⟩ := group_aux add zero fs [] (by simp)
  unfold group
  refine ⟨h1, by intro k; simpa using h2 k, ?_⟩
  intro k hk
  have := h3 k ((h2 k).mpr (Or.inr hk))
  simpa [lookup] using this

end Rp2
