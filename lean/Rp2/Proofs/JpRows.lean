import Rp2.Model.OtherReports
/-! C20 rows: an asset-year sheet of the JP report lists every in- and out-transaction and every fee-bearing transfer of that year
exactly once, in time order, on consecutive rows from row 22; fee-less transfers have no row. -/
namespace Rp2

/-- transactions that get a row: everything except transfers without a (13-decimal visible) fee -/
def jListed : JTx → Bool
  | .x t => gt13 (dsub (ofUnits t.sent) (ofUnits t.recv)) 0
  | _ => true

def jDate (t : JTx) : Int × Int := let d := civilFromDays t.ts.day; (d.2.1, d.2.2)

theorem jRowOf_spec (name : String) (row : Nat) (t : JTx) (r : Option JRow) (h : jRowOf name row t = .ok r) :
    (jListed t = false → r = none) ∧
    (jListed t = true → ∃ jr, r = some jr ∧ jr.row = row ∧ jr.sheet = name ∧ (jr.month, jr.day) = jDate t) := by
  cases t with
  | i t => simp [jRowOf, jListed, jDate] at h ⊢; subst h; simp [JTx.ts]
  | o t => simp [jRowOf, jListed, jDate] at h ⊢; subst h; simp [JTx.ts]
  | x t =>
    simp only [jRowOf, jListed, jDate] at h ⊢
    by_cases h1 : gt13 (dsub (ofUnits t.sent) (ofUnits t.recv)) 0 = true
    · simp only [h1, Bool.not_true, Bool.false_eq_true, if_false] at h
      by_cases h2 : gt13 (dmul (dsub (ofUnits t.sent) (ofUnits t.recv)) (ofUnits t.price)) 0 = true
      · simp only [h2, Bool.not_true, Bool.false_eq_true, if_false, Except.ok.injEq] at h
        subst h; simp [h1, JTx.ts]
      · simp [h2] at h
    · simp only [h1, Bool.not_false, if_true, Except.ok.injEq] at h
      subst h; simp [h1]

/-- rows of one sheet: one per listed transaction, in order, numbered consecutively from `k + 1`, carrying its month and day -/
theorem jpRows_spec (name : String) : ∀ (ts : List JTx) (k : Nat) (rows : List JRow), jpRows name ts k = .ok rows →
    rows.map (fun r => (r.month, r.day)) = (ts.filter jListed).map jDate ∧
    rows.map (·.row) = List.range' (k + 1) rows.length ∧ ∀ r ∈ rows, r.sheet = name := by
  intro ts
  induction ts with
  | nil => intro k rows h; simp [jpRows, pure, Except.pure] at h; subst h; simp
  | cons t ts ih =>
    intro k rows h
    simp only [jpRows, bind, Except.bind] at h
    split at h
    · cases h
    · rename_i r hr
      have hspec := jRowOf_spec name (k + 1) t r hr
      cases r with
      | none =>
        simp only at h
        have hl : jListed t = false := by
          cases hjl : jListed t
          · rfl
          · obtain ⟨jr, hjr, _⟩ := hspec.2 hjl; cases hjr
        have := ih k rows h
        simp only [List.filter_cons, hl, Bool.false_eq_true, if_false]
        exact this
      | some jr =>
        simp only at h
        split at h
        · cases h
        · rename_i rest hrest
          simp only [pure, Except.pure, Except.ok.injEq] at h
          subst h
          have hl : jListed t = true := by
            cases hjl : jListed t
            · have := hspec.1 hjl; cases this
            · rfl
          obtain ⟨jr', hjr', h1, h2, h3⟩ := hspec.2 hl
          simp only [Option.some.injEq] at hjr'
          subst hjr'
          obtain ⟨i1, i2, i3⟩ := ih (k + 1) rest hrest
          refine ⟨?_, ?_, ?_⟩
          · simp only [List.map_cons, List.filter_cons, hl, if_true, i1, h3]
          · simp only [List.map_cons, List.length_cons, i2, h1]
            rw [List.range'_succ]
          · intro r hr'
            rcases List.mem_cons.mp hr' with rfl | hr''
            · exact h2
            · exact i3 r hr''

end Rp2
