import Rp2.Model.Pipeline
namespace Rp2

/-- the label record `numberFractions` attaches to `f` when `p` is the list of fractions before it -/
def labelOf (fs p : List Fraction) (f : Fraction) : Numbered :=
  let sameLot (g : Fraction) : Bool := match g.lot, f.lot with
    | some a, some b => a.row == b.row
    | _, _ => false
  ⟨f, (p.filter (fun g => g.ev.row == f.ev.row)).length, (fs.filter (fun g => g.ev.row == f.ev.row)).length,
    f.lot.map (fun _ => (p.filter sameLot).length), f.lot.map (fun _ => (fs.filter sameLot).length)⟩

theorem go_spec (fs : List Fraction) : ∀ (rest pre : List Fraction) (i : Nat),
    (numberFractions.go fs pre rest)[i]? = rest[i]?.map (fun f => labelOf fs (pre ++ rest.take i) f) := by
  intro rest
  induction rest with
  | nil => intro pre i; simp [numberFractions.go]
  | cons f t ih =>
    intro pre i
    cases i with
    | zero => simp only [numberFractions.go, List.getElem?_cons_zero, Option.map_some, List.take_zero, List.append_nil]; rfl
    | succ j =>
      simp only [numberFractions.go, List.getElem?_cons_succ, List.take_succ_cons]
      rw [ih (pre ++ [f]) j]
      simp [List.append_assoc]

/-- every fraction is numbered exactly once, in order -/
theorem numberFractions_get (fs : List Fraction) (i : Nat) :
    (numberFractions fs)[i]? = fs[i]?.map (fun f => labelOf fs (fs.take i) f) := by
  have := go_spec fs fs [] i
  simpa [numberFractions] using this

theorem numberFractions_length (fs : List Fraction) : (numberFractions fs).length = fs.length := by
  apply Nat.le_antisymm
  · apply Nat.le_of_not_lt; intro h
    have h1 := numberFractions_get fs fs.length
    have : (numberFractions fs)[fs.length]? ≠ none := by
      simp only [ne_eq, List.getElem?_eq_none_iff, Nat.not_le]; exact h
    simp at h1; exact this (by simpa using h1)
  · apply Nat.le_of_not_lt; intro h
    have h1 := numberFractions_get fs (numberFractions fs).length
    have h2 : fs[(numberFractions fs).length]? ≠ none := by
      simp only [ne_eq, List.getElem?_eq_none_iff, Nat.not_le]; exact h
    rw [List.getElem?_eq_none (Nat.le_refl _)] at h1
    cases hf : fs[(numberFractions fs).length]? with
    | none => exact h2 hf
    | some f => rw [hf] at h1; simp at h1

theorem numberFractions_map (fs : List Fraction) : (numberFractions fs).map (·.f) = fs := by
  apply List.ext_getElem?
  intro i
  rw [List.getElem?_map, numberFractions_get]
  cases fs[i]? <;> simp [labelOf]

/-- the label k of an event's fraction is the number of earlier fractions of the same event, n their total number:
    so the fractions of one event are labelled 1/n, 2/n, …, n/n in order (k is 0-based here; the report prints k+1) -/
theorem label_event (fs : List Fraction) (i : Nat) (n : Numbered) (h : (numberFractions fs)[i]? = some n) :
    n.evK = ((fs.take i).filter (fun g => g.ev.row == n.f.ev.row)).length ∧
    n.evN = (fs.filter (fun g => g.ev.row == n.f.ev.row)).length ∧ n.evK < n.evN := by
  rw [numberFractions_get] at h
  cases hf : fs[i]? with
  | none => rw [hf] at h; simp at h
  | some f =>
    rw [hf] at h
    simp only [Option.map_some, Option.some.injEq] at h
    subst h
    refine ⟨rfl, rfl, ?_⟩
    simp only [labelOf]
    have hi : i < fs.length := by
      apply Nat.lt_of_not_le; intro hle
      rw [List.getElem?_eq_none hle] at hf; cases hf
    have hsplit : fs = fs.take i ++ f :: fs.drop (i + 1) := by
      have := List.getElem?_eq_some_iff.mp hf
      obtain ⟨_, hget⟩ := this
      rw [← hget]; simp
    conv => rhs; rw [hsplit]
    simp [List.filter_append]

/-- two fractions come from the same acquired lot (compared by row, as the code's dictionaries do) -/
def sameLotAs (f : Fraction) (g : Fraction) : Bool := match g.lot, f.lot with
  | some a, some b => a.row == b.row
  | _, _ => false

/-- the acquired-lot label: for a fraction with a lot, k = number of earlier fractions (of the list that is numbered, i.e. the history cut
    at the to-date) from the same lot, n = their total number in that list — so a lot's fractions are labelled 1/n … n/n in order and later
    transactions (beyond the cut) never enter n; an income fraction has no lot label -/
theorem label_lot (fs : List Fraction) (i : Nat) (n : Numbered) (h : (numberFractions fs)[i]? = some n) :
    (n.f.lot = none → n.lotK = none ∧ n.lotN = none) ∧
    (∀ l, n.f.lot = some l →
      n.lotK = some ((fs.take i).filter (sameLotAs n.f)).length ∧ n.lotN = some (fs.filter (sameLotAs n.f)).length ∧
      ((fs.take i).filter (sameLotAs n.f)).length < (fs.filter (sameLotAs n.f)).length) := by
  rw [numberFractions_get] at h
  cases hf : fs[i]? with
  | none => rw [hf] at h; simp at h
  | some f =>
    rw [hf] at h
    simp only [Option.map_some, Option.some.injEq] at h
    subst h
    have hK : (labelOf fs (fs.take i) f).lotK = f.lot.map (fun _ => ((fs.take i).filter (sameLotAs f)).length) := rfl
    have hN : (labelOf fs (fs.take i) f).lotN = f.lot.map (fun _ => (fs.filter (sameLotAs f)).length) := rfl
    have hF : (labelOf fs (fs.take i) f).f = f := rfl
    rw [hK, hN, hF]
    constructor
    · intro hn; simp [hn]
    · intro l hl
      refine ⟨by simp [hl], by simp [hl], ?_⟩
      have hi : i < fs.length := by
        apply Nat.lt_of_not_le; intro hle
        rw [List.getElem?_eq_none hle] at hf; cases hf
      have hsplit : fs = fs.take i ++ f :: fs.drop (i + 1) := by
        have := List.getElem?_eq_some_iff.mp hf
        obtain ⟨_, hget⟩ := this
        rw [← hget]; simp
      have hself : sameLotAs f f = true := by simp [sameLotAs, hl]
      conv => rhs; rw [hsplit]
      simp [List.filter_append, List.filter_cons, hself]

end Rp2
