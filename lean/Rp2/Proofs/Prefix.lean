import Rp2.Proofs.Props2
namespace Rp2

def AgreeBelow (N : Nat) (r r' : Nat → Nat) : Prop := ∀ i, i < N → r i = r' i

theorem pick_congr {m : Method} {L L' : Nat → Lot} {rem rem' : Nat → Nat} :
    ∀ n, (∀ i, i < n → L i = L' i) → (∀ i, i < n → rem i = rem' i) → pick m L rem n = pick m L' rem' n := by
  intro n
  induction n with
  | zero => intro _ _; rfl
  | succ n ih =>
    intro hL hr
    have ih' := ih (fun i hi => hL i (Nat.lt_succ_of_lt hi)) (fun i hi => hr i (Nat.lt_succ_of_lt hi))
    unfold pick
    rw [← ih', ← hr n (Nat.lt_succ_self n), ← hL n (Nat.lt_succ_self n)]
    cases hp : pick m L rem n with
    | none => rfl
    | some j =>
      have hj : j < n := (pick_some n j hp).1.1
      simp only
      rw [← hL j (Nat.lt_succ_of_lt hj)]

theorem updRem_agree {N : Nat} {r r' : Nat → Nat} (h : AgreeBelow N r r') (i v : Nat) :
    AgreeBelow N (updRem r i v) (updRem r' i v) := by
  intro j hj; simp only [updRem]; split
  · rfl
  · exact h j hj

/-- the two contexts see the same lots below `N` -/
structure SameBelow (c c' : Ctx) (N : Nat) : Prop where
  lots : ∀ i, i < N → c.L i = c'.L i
  meth : ∀ s, c.meth s = c'.meth s

theorem specConsume_congr (c c' : Ctx) (N : Nat) (hc : SameBelow c c' N) (m : Method) (n k : Nat) (hn : n ≤ N) :
    ∀ (fuel : Nat) (r r' : Nat → Nat) (need : Nat), AgreeBelow N r r' →
      match specConsume c m n k fuel r need with
      | none => specConsume c' m n k fuel r' need = none
      | some (fs, r1) => ∃ r1', specConsume c' m n k fuel r' need = some (fs, r1') ∧ AgreeBelow N r1 r1' := by
  intro fuel
  induction fuel with
  | zero => intro r r' need _; simp [specConsume]
  | succ f ih =>
    intro r r' need hag
    have hpk : pick m c.L r n = pick m c'.L r' n :=
      pick_congr n (fun i hi => hc.lots i (by omega)) (fun i hi => hag i (by omega))
    unfold specConsume
    rw [← hpk]
    cases hp : pick m c.L r n with
    | none => simp
    | some i =>
      have hi : i < N := Nat.lt_of_lt_of_le (pick_some n i hp).1.1 hn
      simp only
      rw [← hag i hi]
      by_cases hle : need ≤ r i
      · simp only [hle, if_true]
        exact ⟨_, rfl, updRem_agree hag _ _⟩
      · simp only [hle, if_false]
        have := ih (updRem r i 0) (updRem r' i 0) (need - r i) (updRem_agree hag _ _)
        cases hrec : specConsume c m n k f (updRem r i 0) (need - r i) with
        | none => rw [hrec] at this; simp only at this ⊢; rw [this]
        | some res =>
          obtain ⟨fs, r1⟩ := res
          rw [hrec] at this
          simp only at this ⊢
          obtain ⟨r1', h1, h2⟩ := this
          rw [h1]
          exact ⟨r1', rfl, h2⟩

theorem specEvent_congr (c c' : Ctx) (N : Nat) (hc : SameBelow c c' N) (k : Nat) (e : Event)
    (hb : c.bound e.ts = c'.bound e.ts) (hn : c.bound e.ts ≤ N) (r r' : Nat → Nat) (hag : AgreeBelow N r r') :
    match specEvent c r k e with
    | none => specEvent c' r' k e = none
    | some (fs, r1) => ∃ r1', specEvent c' r' k e = some (fs, r1') ∧ AgreeBelow N r1 r1' := by
  unfold specEvent
  simp only
  rw [← hb, ← hc.meth]
  have hpk : pick (c.meth e.slot) c.L r (c.bound e.ts) = pick (c.meth e.slot) c'.L r' (c.bound e.ts) :=
    pick_congr _ (fun i hi => hc.lots i (by omega)) (fun i hi => hag i (by omega))
  rw [← hpk]
  cases hp : pick (c.meth e.slot) c.L r (c.bound e.ts) with
  | none => simp
  | some i =>
    simp only
    by_cases he : e.earn
    · simp only [he, if_true]; exact ⟨r', rfl, hag⟩
    · simp only [he]
      exact specConsume_congr c c' N hc _ _ k hn _ r r' e.amount hag

theorem runS_cons (c : Ctx) (r : Nat → Nat) (k : Nat) (e : Event) (es : List Event) :
    runS c r k (e :: es) = match specEvent c r k e with
      | none => none
      | some (fs, r') => (runS c r' (k+1) es).map (fs ++ ·) := by
  rw [runS]
  cases specEvent c r k e with
  | none => rfl
  | some res =>
    obtain ⟨fs, r'⟩ := res
    simp only
    cases runS c r' (k+1) es <;> rfl

/-- **C09 (engine part)**: whatever is appended after the cut — later events `es₂`, and lots that only a
    larger context `c'` knows (index ≥ N, not visible to any event of `es₁`) — the fractions of the events up to
    the cut are unchanged, and a failure before the cut stays a failure. -/
theorem runS_prefix (c c' : Ctx) (N : Nat) (hc : SameBelow c c' N) :
    ∀ (es₁ : List Event) (es₂ : List Event) (r r' : Nat → Nat) (k : Nat), AgreeBelow N r r' →
      (∀ e ∈ es₁, c.bound e.ts = c'.bound e.ts ∧ c.bound e.ts ≤ N) →
      match runS c r k es₁ with
      | none => runS c' r' k (es₁ ++ es₂) = none
      | some o₁ => ∃ r1', AgreeBelow N r1' r1' ∧
          runS c' r' k (es₁ ++ es₂) = (runS c' r1' (k + es₁.length) es₂).map (o₁ ++ ·) := by
  intro es₁
  induction es₁ with
  | nil =>
    intro es₂ r r' k _ _
    simp only [runS, List.nil_append, List.length_nil, Nat.add_zero]
    refine ⟨r', fun _ _ => rfl, ?_⟩
    cases runS c' r' k es₂ <;> simp
  | cons e es ih =>
    intro es₂ r r' k hag hb
    have he := hb e List.mem_cons_self
    have hev := specEvent_congr c c' N hc k e he.1 he.2 r r' hag
    simp only [List.cons_append]
    rw [runS_cons c r k e es, runS_cons c' r' k e (es ++ es₂)]
    cases h1 : specEvent c r k e with
    | none => rw [h1] at hev; simp only at hev ⊢; rw [hev]
    | some res =>
      obtain ⟨fs, r1⟩ := res
      rw [h1] at hev
      simp only at hev ⊢
      obtain ⟨r1', h2, hag1⟩ := hev
      rw [h2]
      simp only
      have := ih es₂ r1 r1' (k+1) hag1 (fun e' he' => hb e' (List.mem_cons_of_mem _ he'))
      cases h3 : runS c r1 (k+1) es with
      | none => rw [h3] at this; simp only at this ⊢; rw [this]; rfl
      | some rest =>
        rw [h3] at this
        simp only [Option.map_some] at this ⊢
        obtain ⟨r2', hr2, h4⟩ := this
        refine ⟨r2', hr2, ?_⟩
        rw [h4]
        have hk : k + 1 + es.length = k + (es.length + 1) := by omega
        simp only [List.length_cons, hk]
        cases runS c' r2' (k + (es.length + 1)) es₂ <;> simp

end Rp2
