import Rp2.Model.Pipeline
/-! The accounting method in force in a year depends only on the *set* of (year, method) entries of the schedule — not on the order in
which the `[accounting_methods]` section lists them: `slotOf` picks the entry with the greatest year not after the event's year. -/
namespace Rp2

/-- the method in force in `year` under a schedule -/
def methodFor (sched : List (Int × Method)) (year : Int) : Option Method :=
  (slotOf sched year).map (fun i => (sched.getD i (0, .fifo)).2)

/-- the fold of `slotOf`, on an arbitrary index list -/
def pickSlot (sched : List (Int × Method)) (acc : Option Nat) (idx : List Nat) : Option Nat :=
  idx.foldl (fun acc i => match acc with
    | none => some i
    | some j => if (sched.getD j (0, .fifo)).1 < (sched.getD i (0, .fifo)).1 then some i else some j) acc

theorem slotOf_eq (sched : List (Int × Method)) (year : Int) :
    slotOf sched year = pickSlot sched none ((List.range sched.length).filter (fun i => decide ((sched.getD i (0, .fifo)).1 ≤ year))) := rfl

theorem pickSlot_cons_some (sched : List (Int × Method)) (j i : Nat) (rest : List Nat) :
    pickSlot sched (some j) (i :: rest) =
      pickSlot sched (if (sched.getD j (0, .fifo)).1 < (sched.getD i (0, .fifo)).1 then some i else some j) rest := rfl
theorem pickSlot_cons_none (sched : List (Int × Method)) (i : Nat) (rest : List Nat) :
    pickSlot sched none (i :: rest) = pickSlot sched (some i) rest := rfl

/-- the fold returns an index of the list (or the start value) whose year is maximal among them -/
theorem pickSlot_spec (sched : List (Int × Method)) : ∀ (idx : List Nat) (acc : Option Nat),
    (acc = none ∧ idx = [] ∧ pickSlot sched acc idx = none) ∨
    (∃ k, pickSlot sched acc idx = some k ∧ (k ∈ idx ∨ acc = some k) ∧
      (∀ i ∈ idx, (sched.getD i (0, .fifo)).1 ≤ (sched.getD k (0, .fifo)).1) ∧
      (∀ j, acc = some j → (sched.getD j (0, .fifo)).1 ≤ (sched.getD k (0, .fifo)).1)) := by
  intro idx
  induction idx with
  | nil =>
    intro acc
    cases acc with
    | none => exact Or.inl ⟨rfl, rfl, rfl⟩
    | some j => exact Or.inr ⟨j, rfl, Or.inr rfl, by simp, by intro j' h; cases h; exact Int.le_refl _⟩
  | cons i rest ih =>
    intro acc
    right
    cases acc with
    | none =>
      have h := ih (some i)
      rcases h with ⟨h, _, _⟩ | ⟨k, hk, hmem, hmax, hacc⟩
      · cases h
      · refine ⟨k, by rw [pickSlot_cons_none]; exact hk, ?_, ?_, by intro j h; cases h⟩
        · rcases hmem with h | h
          · exact Or.inl (List.mem_cons_of_mem _ h)
          · cases h; exact Or.inl (List.mem_cons_self)
        · intro i' hi'
          rcases List.mem_cons.mp hi' with h | h
          · subst h; exact hacc _ rfl
          · exact hmax _ h
    | some j =>
      by_cases hlt : (sched.getD j (0, .fifo)).1 < (sched.getD i (0, .fifo)).1
      · have h := ih (some i)
        rcases h with ⟨h, _, _⟩ | ⟨k, hk, hmem, hmax, hacc⟩
        · cases h
        · refine ⟨k, by rw [pickSlot_cons_some, if_pos hlt]; exact hk, ?_, ?_, ?_⟩
          · rcases hmem with h | h
            · exact Or.inl (List.mem_cons_of_mem _ h)
            · cases h; exact Or.inl (List.mem_cons_self)
          · intro i' hi'
            rcases List.mem_cons.mp hi' with h | h
            · subst h; exact hacc _ rfl
            · exact hmax _ h
          · intro j' hj'; cases hj'
            exact Int.le_trans (Int.le_of_lt hlt) (hacc _ rfl)
      · have h := ih (some j)
        rcases h with ⟨h, _, _⟩ | ⟨k, hk, hmem, hmax, hacc⟩
        · cases h
        · refine ⟨k, by rw [pickSlot_cons_some, if_neg hlt]; exact hk, ?_, ?_, ?_⟩
          · rcases hmem with h | h
            · exact Or.inl (List.mem_cons_of_mem _ h)
            · exact Or.inr h
          · intro i' hi'
            rcases List.mem_cons.mp hi' with h | h
            · subst h; exact Int.le_trans (Int.not_lt.mp hlt) (hacc _ rfl)
            · exact hmax _ h
          · intro j' hj'; cases hj'; exact hacc _ rfl

theorem getD_eq_getElem' {α} (l : List α) (d : α) (i : Nat) (h : i < l.length) : l.getD i d = l[i] := by
  simp [List.getD, h]

/-- **characterisation**: the method in force in `year` is `m` iff the schedule has an entry `(y, m)` with `y ≤ year` such that no entry
    has a year in `(y, year]` — provided the years of the schedule are distinct (the configuration model rejects duplicates) -/
theorem methodFor_iff (sched : List (Int × Method)) (hnd : (sched.map (·.1)).Nodup) (year : Int) (m : Method) :
    methodFor sched year = some m ↔
      ∃ y, (y, m) ∈ sched ∧ y ≤ year ∧ ∀ p ∈ sched, p.1 ≤ year → p.1 ≤ y := by
  unfold methodFor
  rw [slotOf_eq]
  have hspec := pickSlot_spec sched ((List.range sched.length).filter (fun i => decide ((sched.getD i (0, .fifo)).1 ≤ year))) none
  have hget : ∀ i, i < sched.length → sched.getD i (0, .fifo) ∈ sched := by
    intro i hi; rw [getD_eq_getElem' _ _ _ hi]; exact List.getElem_mem hi
  constructor
  · intro h
    rcases hspec with ⟨_, _, hnone⟩ | ⟨k, hk, hmem, hmax, _⟩
    · rw [hnone] at h; cases h
    · rw [hk] at h
      simp only [Option.map_some, Option.some.injEq] at h
      rcases hmem with hmem | hmem
      · simp only [List.mem_filter, List.mem_range, decide_eq_true_eq] at hmem
        refine ⟨(sched.getD k (0, .fifo)).1, ?_, hmem.2, ?_⟩
        · have := hget k hmem.1; rw [← h]; exact this
        · intro p hp hpy
          obtain ⟨i, hi, hpi⟩ := List.getElem_of_mem hp
          have : i ∈ (List.range sched.length).filter (fun i => decide ((sched.getD i (0, .fifo)).1 ≤ year)) := by
            simp only [List.mem_filter, List.mem_range, decide_eq_true_eq]
            refine ⟨hi, ?_⟩; rw [getD_eq_getElem' _ _ _ hi, hpi]; exact hpy
          have := hmax i this
          rw [getD_eq_getElem' _ _ _ hi, hpi] at this; exact this
      · cases hmem
  · rintro ⟨y, hym, hyle, hmaxy⟩
    obtain ⟨i, hi, hpi⟩ := List.getElem_of_mem hym
    have himem : i ∈ (List.range sched.length).filter (fun i => decide ((sched.getD i (0, .fifo)).1 ≤ year)) := by
      simp only [List.mem_filter, List.mem_range, decide_eq_true_eq]
      refine ⟨hi, ?_⟩; rw [getD_eq_getElem' _ _ _ hi, hpi]; exact hyle
    rcases hspec with ⟨_, hnil, _⟩ | ⟨k, hk, hmem, hmax, _⟩
    · rw [hnil] at himem; cases himem
    · rw [hk]
      simp only [Option.map_some, Option.some.injEq]
      rcases hmem with hmem | hmem
      · simp only [List.mem_filter, List.mem_range, decide_eq_true_eq] at hmem
        -- the year at k is ≥ y (maximality of k) and ≤ y (maximality of y): equal years, hence the same entry
        have h1 := hmax i himem
        rw [getD_eq_getElem' _ _ _ hi, hpi] at h1
        have h2 := hmaxy _ (hget k hmem.1) hmem.2
        have hyeq : (sched.getD k (0, .fifo)).1 = y := Int.le_antisymm h2 h1
        -- distinct years: index k = index i
        have hki : k = i := by
          have hk' : k < (sched.map (·.1)).length := by simpa using hmem.1
          have hi' : i < (sched.map (·.1)).length := by simpa using hi
          have e1 : (sched.map (·.1))[k]'hk' = y := by
            rw [List.getElem_map]; rw [getD_eq_getElem' _ _ _ hmem.1] at hyeq; exact hyeq
          have e2 : (sched.map (·.1))[i]'hi' = y := by rw [List.getElem_map, hpi]
          exact (List.getElem_inj hnd).mp (e1.trans e2.symm)
        subst hki
        rw [getD_eq_getElem' _ _ _ hi, hpi]
      · cases hmem

/-- **the order of the schedule's lines is irrelevant**: two schedules with the same entries put the same method in force in every year -/
theorem methodFor_perm (s1 s2 : List (Int × Method)) (hp : s1.Perm s2) (hnd : (s1.map (·.1)).Nodup) (year : Int) :
    methodFor s1 year = methodFor s2 year := by
  have hnd2 : (s2.map (·.1)).Nodup := (hp.map _).nodup_iff.mp hnd
  have key : ∀ m, methodFor s1 year = some m ↔ methodFor s2 year = some m := by
    intro m
    rw [methodFor_iff s1 hnd, methodFor_iff s2 hnd2]
    constructor
    · rintro ⟨y, h1, h2, h3⟩; exact ⟨y, hp.mem_iff.mp h1, h2, fun p hp' => h3 p (hp.mem_iff.mpr hp')⟩
    · rintro ⟨y, h1, h2, h3⟩; exact ⟨y, hp.mem_iff.mpr h1, h2, fun p hp' => h3 p (hp.mem_iff.mp hp')⟩
  cases h1 : methodFor s1 year with
  | none =>
    cases h2 : methodFor s2 year with
    | none => rfl
    | some m => have := (key m).mpr h2; rw [h1] at this; cases this
  | some m => exact ((key m).mp h1).symm

end Rp2
