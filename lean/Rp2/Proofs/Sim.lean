import Rp2.Proofs.Refine
namespace Rp2

/-- distinct lot indices (among the first `N`) have distinct (ts,row) -/
def LotInj (L : Nat → Lot) (N : Nat) : Prop :=
  ∀ i j, i < N → j < N → (L i).ts = (L j).ts → (L i).row = (L j).row → i = j

theorem isBest_unique {m L rem n N i j} (hinj : LotInj L N) (hn : n ≤ N)
    (hi : IsBest m L rem n i) (hj : IsBest m L rem n j) : i = j := by
  have h1 := hi.2 j hj.1
  have h2 := hj.2 i hi.1
  rcases lexLt_total (key m (L i)) (key m (L j)) with h | h | h
  · exact absurd h h2
  · obtain ⟨ht, hr⟩ := key_inj m _ _ h
    exact hinj i j (Nat.lt_of_lt_of_le hi.1.1 hn) (Nat.lt_of_lt_of_le hj.1.1 hn) ht hr
  · exact absurd h h1

theorem pick_of_isBest {m L rem n N i} (hinj : LotInj L N) (hn : n ≤ N)
    (hi : IsBest m L rem n i) : pick m L rem n = some i := by
  cases hp : pick m L rem n with
  | none => exact absurd hi.1 (pick_none n hp i)
  | some j => rw [isBest_unique hinj hn hi (pick_some n j hp)]

theorem updRem_le {rem : Nat → Nat} {l v : Nat} (h : v ≤ rem l) (j : Nat) : updRem rem l v j ≤ rem j := by
  simp only [updRem]; split
  · rename_i hjl; subst hjl; exact h
  · exact Nat.le_refl _

/-- what holds between two events -/
structure Between (ctx : Ctx) (st : MSt) (rem : Nat → Nat) (prevN : Nat) (prevM : Method) : Prop where
  inv : Inv ctx st rem prevN
  best : ∀ l r, st.cur = some (l, r) → 0 < r → IsBest prevM ctx.L rem prevN l

section
variable (ctx : Ctx) (N : Nat) (hs : SortedLots ctx N) (hinj : LotInj ctx.L N) (hN : ∀ t, ctx.bound t ≤ N)
include hs hinj hN

theorem consume_sim (e : Event) (k : Nat) :
    ∀ (fuel : Nat) (st : MSt) (rem : Nat → Nat) (need : Nat),
      Inv ctx st rem (ctx.bound e.ts) →
      (∃ l r, st.cur = some (l, r) ∧ 0 < r ∧ IsBest (ctx.meth e.slot) ctx.L rem (ctx.bound e.ts) l) →
      match consume ctx e k fuel st need with
      | none => specConsume ctx (ctx.meth e.slot) (ctx.bound e.ts) k fuel rem need = none
      | some (fs, st') => ∃ rem', specConsume ctx (ctx.meth e.slot) (ctx.bound e.ts) k fuel rem need = some (fs, rem') ∧
          Between ctx st' rem' (ctx.bound e.ts) (ctx.meth e.slot) := by
  intro fuel
  induction fuel with
  | zero => intro st rem need _ _; simp [consume, specConsume]
  | succ f ih =>
    intro st rem need hinv ⟨l, r, hcur, hr, hbest⟩
    have hpick := pick_of_isBest hinj (hN e.ts) hbest
    have hreml : rem l = r := by rw [hinv.rem_eq l]; simp [curAmt, hcur]
    unfold consume specConsume
    simp only [hcur, hpick, hreml]
    by_cases hle : need ≤ r
    · simp only [hle, if_true]
      have hle' : r - need ≤ rem l := by omega
      refine ⟨_, rfl, ⟨?_, ?_⟩⟩
      · constructor
        · intro j
          simp only [curAmt, updRem]
          by_cases hjl : j = l
          · simp [hjl]
          · simp only [hjl, if_false]
            rw [hinv.rem_eq j]; simp [curAmt, hcur, hjl]
        · intro l' r' h'
          simp only [Option.some.injEq, Prod.mk.injEq] at h'
          obtain ⟨rfl, rfl⟩ := h'
          exact hinv.cur_p _ r hcur
        · intro s hsm j hj
          have := hinv.fifo s hsm j hj
          have := updRem_le hle' j
          omega
        · intro s hsm j hj hpos
          apply hinv.heap1 s hsm j hj
          have := updRem_le hle' j
          omega
        · exact hinv.heap2
        · exact hinv.toIdx
      · intro l' r' h' hr'
        simp only [Option.some.injEq, Prod.mk.injEq] at h'
        obtain ⟨rfl, rfl⟩ := h'
        refine ⟨⟨hbest.1.1, by simp [updRem]; omega⟩, ?_⟩
        intro j hj
        apply hbest.2 j
        refine ⟨hj.1, ?_⟩
        have := hj.2
        have := updRem_le hle' j
        omega
    · simp only [hle, if_false]
      -- lot `l` is exhausted, seek the next one
      have hinv0 : Inv ctx { st with cur := none } (updRem rem l 0) (ctx.bound e.ts) := by
        constructor
        · intro j
          simp only [curAmt, updRem]
          by_cases hjl : j = l
          · subst hjl
            simp [Partial.amt, (hinv.cur_p _ r hcur).1]
          · simp only [hjl, if_false]
            rw [hinv.rem_eq j]; simp [curAmt, hcur, hjl]
        · intro l' r' h'; simp at h'
        · intro s hsm j hj
          have := hinv.fifo s hsm j hj
          have := updRem_le (Nat.zero_le (rem l)) j
          omega
        · intro s hsm j hj hpos
          apply hinv.heap1 s hsm j hj
          have := updRem_le (Nat.zero_le (rem l)) j
          omega
        · exact hinv.heap2
        · exact hinv.toIdx
      cases hseek : seekFor ctx { st with cur := none } e with
      | none =>
        simp only
        have hnone := seekFor_none ctx _ _ _ e hinv0 rfl (Nat.le_refl _) hseek
        -- spec: pick on updated rem is none, whatever the fuel
        cases f with
        | zero => simp [specConsume]
        | succ f' =>
          unfold specConsume
          cases hp : pick (ctx.meth e.slot) ctx.L (updRem rem l 0) (ctx.bound e.ts) with
          | none => rfl
          | some i => exact absurd (pick_some _ i hp).1 (hnone i)
      | some st1 =>
        simp only
        obtain ⟨i, a, hc1, ha, _, hb1, hinv1⟩ := seekFor_some ctx N hs hN _ _ _ e hinv0 rfl (Nat.le_refl _) st1 hseek
        have := ih st1 (updRem rem l 0) (need - r) hinv1 ⟨i, a, hc1, ha, hb1⟩
        cases hcons : consume ctx e k f st1 (need - r) with
        | none =>
          rw [hcons] at this
          simp only at this ⊢
          rw [this]
        | some res =>
          obtain ⟨fs, st2⟩ := res
          rw [hcons] at this
          simp only at this ⊢
          obtain ⟨rem', hspec, hbetween⟩ := this
          rw [hspec]
          exact ⟨rem', rfl, hbetween⟩

end
end Rp2
