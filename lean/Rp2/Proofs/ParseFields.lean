import Rp2.Proofs.Validation
/-! C11: the fields of an accepted IN row are the cells the header map points at (amounts read at 11 decimals), and the three derived fiat
fields follow the documented defaults — supplied value if the cell is filled, else computed from the other fields of the same row. -/
namespace Rp2

theorem numArg_num {cols row name} {u : Int} (h : numArg cols row name = .ok (some (some u))) :
    ∃ q, field cols row name = some (.num q) ∧ u = toUnits q := by
  unfold numArg at h
  split at h
  · cases h
  · cases h
  · rename_i q hq
    simp only at h
    split at h
    · cases h
    · simp only [Except.ok.injEq, Option.some.injEq] at h
      exact ⟨q, hq, h.symm⟩
  · cases h

theorem numArg_absent {cols row name} {o : Option (Option Int)} (h : numArg cols row name = .ok o) (hn : optNum o = none) :
    field cols row name = none ∨ field cols row name = some .empty := by
  unfold numArg at h
  split at h
  · rename_i hf; exact Or.inl hf
  · rename_i hf; exact Or.inr hf
  · simp only at h
    split at h
    · cases h
    · simp only [Except.ok.injEq] at h; subst h; simp [optNum] at hn
  · cases h

/-- **C11 for an IN row**: spot price and amount are the cells `spot_price` and `crypto_in` read at 11 decimals; the crypto fee is the
    `crypto_fee` cell (0 when absent or empty); the fiat fee is the `fiat_fee` cell, or the crypto fee valued at the spot price when only
    that is given; `fiat_in_no_fee` is its cell when filled, else amount × price; `fiat_in_with_fee` is its cell when filled, else
    `fiat_in_no_fee + fiat_fee` — whatever columns the header map assigns to the names -/
theorem mkInRow_fields (cfg : Config) (asset : String) (acct : String → String → Nat) (r : Nat) (row : List Cell) (p : ParsedIn)
    (h : mkInRow cfg asset acct r row = .ok p) :
    ∃ cfee fnf fwf ffee,
      numArg cfg.inCols row "crypto_fee" = .ok cfee ∧ numArg cfg.inCols row "fiat_in_no_fee" = .ok fnf ∧
      numArg cfg.inCols row "fiat_in_with_fee" = .ok fwf ∧ numArg cfg.inCols row "fiat_fee" = .ok ffee ∧
      (∃ q, field cfg.inCols row "spot_price" = some (.num q) ∧ p.tx.price = toUnits q) ∧
      (∃ q, field cfg.inCols row "crypto_in" = some (.num q) ∧ p.tx.amount = toUnits q) ∧
      p.cryptoFee = (optNum cfee).getD 0 ∧
      p.tx.fiatFee = (if (optNum cfee).isSome && (optNum ffee).isNone then dmul (ofUnits ((optNum cfee).getD 0)) (ofUnits p.tx.price)
                      else ofUnits ((optNum ffee).getD 0)) ∧
      p.tx.fiatNoFee = (match optNum fnf with | some v => ofUnits v | none => dmul (ofUnits p.tx.amount) (ofUnits p.tx.price)) ∧
      p.tx.fiatWithFee = (match optNum fwf with | some v => ofUnits v | none => dadd p.tx.fiatNoFee p.tx.fiatFee) := by
  unfold mkInRow at h
  simp only [bind_eq_ok, ensure_ok, optAll_ok, known_ok, ofOpt_ok, needNum_ok, pure, Except.pure, Except.ok.injEq] at h
  obtain ⟨_, _, price, hprice, cin, hcin, cfee, hcfee, fnf, hfnf, fwf, hfwf, ffee, hffee, a, ha, _, hka, ts, hts, typS, htypS, typ, htyp,
    pv, hpv, _, hp0, _, hnotes, ex, hex, _, hkex, ho, hho, _, hkho, cv, hcv, _, hpos, _, hcf0, _, hff0, _, hpne, _, hboth, _, hfnf0, _, hfwf0,
    _, htypok, _, hasset, _, hsplit, hp⟩ := h
  subst hp
  subst hpv
  subst hcv
  exact ⟨cfee, fnf, fwf, ffee, hcfee, hfnf, hfwf, hffee, numArg_num hprice, numArg_num hcin, rfl, rfl, rfl, rfl⟩

/-- **C11 for an OUT row**: the transaction is `mkOut` of the cells: spot price, amount and crypto fee are the `spot_price`, `crypto_out_no_fee`
    and `crypto_fee` cells read at 11 decimals; the three optional fields are passed on exactly when their cells are filled -/
theorem mkOutRow_fields (cfg : Config) (asset : String) (acct : String → String → Nat) (r : Nat) (row : List Cell) (t : OutTx)
    (h : mkOutRow cfg asset acct r row = .ok t) :
    ∃ price onf fee owf fnf ffee ts ex ho typ,
      (∃ q, field cfg.outCols row "spot_price" = some (.num q) ∧ price = toUnits q) ∧
      (∃ q, field cfg.outCols row "crypto_out_no_fee" = some (.num q) ∧ onf = toUnits q) ∧
      (∃ q, field cfg.outCols row "crypto_fee" = some (.num q) ∧ fee = toUnits q) ∧
      numArg cfg.outCols row "crypto_out_with_fee" = .ok owf ∧ numArg cfg.outCols row "fiat_out_no_fee" = .ok fnf ∧
      numArg cfg.outCols row "fiat_fee" = .ok ffee ∧
      t = mkOut r ts (acct ex ho) typ price onf fee (optNum owf) (optNum fnf) (optNum ffee) := by
  unfold mkOutRow at h
  simp only [bind_eq_ok, ensure_ok, optAll_ok, known_ok, ofOpt_ok, needNum_ok, pure, Except.pure, Except.ok.injEq] at h
  obtain ⟨_, _, price, hprice, onf, honf, fee, hfee, owf, howf, fnf, hfnf, ffee, hffee, a, ha, _, hka, ts, hts, typS, htypS, typ, htyp,
    pv, hpv, _, hp0, _, hnotes, ex, hex, _, hkex, ho, hho, _, hkho, ov, hov, fv, hfv, _, hamts, _, h1, _, h2, _, h3, _, htypok, _, hasset, hp⟩ := h
  subst hpv; subst hov; subst hfv
  exact ⟨pv, ov, fv, owf, fnf, ffee, ts, ex, ho, typ, numArg_num hprice, numArg_num honf, numArg_num hfee, howf, hfnf, hffee, hp.symm⟩

/-- **C11 for an INTRA row**: sent and received amounts are the `crypto_sent` and `crypto_received` cells read at 11 decimals, the spot
    price is its cell when filled and 0 otherwise -/
theorem mkIntraRow_fields (cfg : Config) (asset : String) (acct : String → String → Nat) (r : Nat) (row : List Cell) (t : IntraTx)
    (h : mkIntraRow cfg asset acct r row = .ok t) :
    ∃ price sent recv ts fe fh te th,
      numArg cfg.intraCols row "spot_price" = .ok price ∧
      (∃ q, field cfg.intraCols row "crypto_sent" = some (.num q) ∧ sent = toUnits q) ∧
      (∃ q, field cfg.intraCols row "crypto_received" = some (.num q) ∧ recv = toUnits q) ∧
      t = mkIntra r ts (acct fe fh) (acct te th) ((optNum price).getD 0) sent recv := by
  unfold mkIntraRow at h
  simp only [bind_eq_ok, ensure_ok, optAll_ok, known_ok, ofOpt_ok, needNum_ok, pure, Except.pure, Except.ok.injEq] at h
  obtain ⟨_, _, price, hprice, sent, hsent, recv, hrecv, sv, hsv, _, hs0, rv, hrv, _, hr0, _, hfee, a, ha, _, hka, ts, hts, _, hp0, _, hnotes,
    fe, hfe, _, hkfe, fh, hfh, _, hkfh, te, hte, _, hkte, th, hth, _, hkth, _, hle, _, hasset, hp⟩ := h
  subst hsv; subst hrv
  exact ⟨price, sv, rv, ts, fe, fh, te, th, hprice, numArg_num hsent, numArg_num hrecv, hp.symm⟩

end Rp2
