import Rp2.Model.TaxReport
/-! C14 on the tax-report model: routing with one row counter per sheet (shared by all assets) gives every fraction whose type has
a sheet exactly one row, on that sheet, below the header, and never the same (sheet, row) twice. -/
namespace Rp2

theorem setS_keys (l : List (String × Nat)) (k : String) (v : Nat) : (setS l k v).map (·.1) = l.map (·.1) := by
  unfold setS; rw [List.map_map]; apply List.map_congr_left; intro p _; simp only [Function.comp]; split
  · rename_i h; simp at h; simp [h]
  · rfl

theorem getS_setS_same (l : List (String × Nat)) (k : String) (v : Nat) (hk : k ∈ l.map (·.1)) : getS (setS l k v) k = v := by
  unfold getS setS
  rw [List.find?_map]
  obtain ⟨p, hp, hpk⟩ := List.mem_map.mp hk
  cases hf : l.find? ((fun p : String × Nat => p.1 == k) ∘ fun p => if (p.1 == k) = true then (k, v) else p) with
  | none =>
    have := List.find?_eq_none.mp hf p hp
    simp [Function.comp, hpk] at this
  | some q =>
    have hq := List.find?_some hf
    simp only [Function.comp] at hq
    by_cases hqk : q.1 = k
    · simp [hqk]
    · simp [hqk] at hq

theorem getS_setS_other (l : List (String × Nat)) (k k' : String) (v : Nat) (hne : k' ≠ k) : getS (setS l k v) k' = getS l k' := by
  unfold getS setS
  rw [List.find?_map]
  have hpred : ((fun p : String × Nat => p.1 == k') ∘ fun p => if (p.1 == k) = true then (k, v) else p) = fun p => p.1 == k' := by
    funext p; simp only [Function.comp]
    by_cases hp : (p.1 == k) = true
    · have : p.1 = k := by simpa using hp
      simp [hp, this, hne, Ne.symm hne]
    · simp [hp]
  rw [hpred]
  cases hf : l.find? (·.1 == k') with
  | none => rfl
  | some q =>
    have hq' : q.1 = k' := by simpa using List.find?_some hf
    have hqk : ¬ q.1 = k := by rw [hq']; exact hne
    simp [hqk]

/-- every row produced lies strictly below the counter its sheet started with, rows are pairwise distinct places, and each is on
    the sheet of its fraction's type -/
theorem routeFracs_spec (lm : Bool) (period : Int) : ∀ (fs : List (String × Numbered)) (idx : List (String × Nat)),
    (∀ t s, sheetOf lm t = some s → s ∈ idx.map (·.1)) →
    let rows := (routeFracs lm period idx fs).1
    (∀ r ∈ rows, getS idx r.sheet < r.row) ∧
    (rows.map (fun r => (r.sheet, r.row))).Nodup ∧
    rows.length = (fs.filter (fun p => (sheetOf lm p.2.f.ev.typ).isSome)).length ∧
    (∀ s, getS idx s ≤ getS (routeFracs lm period idx fs).2 s) ∧
    (∀ r ∈ rows, r.row ≤ getS (routeFracs lm period idx fs).2 r.sheet) := by
  intro fs
  induction fs with
  | nil => intro idx _; simp [routeFracs]
  | cons p t ih =>
    intro idx hk
    obtain ⟨a, n⟩ := p
    simp only [routeFracs]
    cases hs : sheetOf lm n.f.ev.typ with
    | none =>
      try simp only [hs]
      have := ih idx hk
      simpa [List.filter_cons, hs] using this
    | some s =>
      try simp only [hs]
      have hsk : s ∈ idx.map (·.1) := hk _ _ hs
      have hk' : ∀ t s', sheetOf lm t = some s' → s' ∈ (setS idx s (getS idx s + 1)).map (·.1) := by
        intro t s' h; rw [setS_keys]; exact hk t s' h
      obtain ⟨h1, h2, h3, h4, h5⟩ := ih (setS idx s (getS idx s + 1)) hk'
      have hstep : ∀ s', getS idx s' ≤ getS (setS idx s (getS idx s + 1)) s' := by
        intro s'
        by_cases he : s' = s
        · subst he; rw [getS_setS_same _ _ _ hsk]; omega
        · rw [getS_setS_other _ _ _ _ he]; exact Nat.le_refl _
      refine ⟨?_, ?_, ?_, ?_, ?_⟩
      · intro r hr
        rcases List.mem_cons.mp hr with rfl | hr'
        · simp [mkTRow]
        · exact Nat.lt_of_le_of_lt (hstep r.sheet) (h1 r hr')
      · simp only [List.map_cons, List.nodup_cons]
        refine ⟨?_, h2⟩
        intro hmem
        obtain ⟨r, hr, hre⟩ := List.mem_map.mp hmem
        simp only [mkTRow, Prod.mk.injEq] at hre
        have := h1 r hr
        rw [hre.1, getS_setS_same _ _ _ hsk] at this
        omega
      · simp only [List.length_cons, List.filter_cons, hs, Option.isSome_some, if_true, h3]
      · intro s'; exact Nat.le_trans (hstep s') (h4 s')
      · intro r hr
        rcases List.mem_cons.mp hr with rfl | hr'
        · simp only [mkTRow]
          have := h4 s
          rw [getS_setS_same _ _ _ hsk] at this
          exact this
        · exact h5 r hr'

theorem sheetOf_in_allSheets (lm : Bool) (t : TxType) (s : String) (h : sheetOf lm t = some s) : s ∈ allSheets := by
  cases t <;> cases lm <;> simp [sheetOf] at h <;> subst h <;> decide

end Rp2

namespace Rp2
/-- the rows come in fraction order, each on the sheet of its fraction's type and carrying its asset; a sheet's counter advances by
    exactly the number of rows written on it -/
theorem routeFracs_sheets (lm : Bool) (period : Int) : ∀ (fs : List (String × Numbered)) (idx : List (String × Nat)),
    (∀ t s, sheetOf lm t = some s → s ∈ idx.map (·.1)) →
    ((routeFracs lm period idx fs).1.map (fun r => (r.asset, r.sheet))) = fs.filterMap (fun p => (sheetOf lm p.2.f.ev.typ).map (fun s => (p.1, s))) ∧
    ∀ s, s ∈ idx.map (·.1) → getS (routeFracs lm period idx fs).2 s = getS idx s + ((routeFracs lm period idx fs).1.filter (fun r => r.sheet == s)).length := by
  intro fs
  induction fs with
  | nil => intro idx _; simp [routeFracs]
  | cons p t ih =>
    intro idx hk
    obtain ⟨a, n⟩ := p
    simp only [routeFracs]
    cases hs : sheetOf lm n.f.ev.typ with
    | none =>
      have := ih idx hk
      simpa [List.filterMap_cons, hs] using this
    | some s =>
      have hsk : s ∈ idx.map (·.1) := hk _ _ hs
      have hk' : ∀ t s', sheetOf lm t = some s' → s' ∈ (setS idx s (getS idx s + 1)).map (·.1) := by
        intro t s' h; rw [setS_keys]; exact hk t s' h
      obtain ⟨h1, h2⟩ := ih (setS idx s (getS idx s + 1)) hk'
      refine ⟨?_, ?_⟩
      · simp only [List.map_cons, List.filterMap_cons, hs, Option.map_some, h1, mkTRow]
      · intro s' hs'
        have := h2 s' (by rw [setS_keys]; exact hs')
        rw [this]
        by_cases he : s' = s
        · subst he
          rw [getS_setS_same _ _ _ hsk]
          simp [List.filter_cons, mkTRow]; omega
        · rw [getS_setS_other _ _ _ _ he]
          have : (s == s') = false := by simp [Ne.symm he]
          simp [List.filter_cons, mkTRow, this]

/-- **C14 on the tax-report model** (US and IE share it): if the report is generated then every fraction of every asset has exactly
    one row; the rows come in fraction order, each on the sheet of its transaction type; all rows are below the 7 header rows; no
    (sheet, row) is used twice, whatever the number of assets sharing a sheet; and a sheet is kept iff it received a row -/
theorem taxReport_spec (period : Int) (templateRows : Nat) (cs : List Computed) (rows : List TRow) (sheets : List String)
    (h : taxReport true period templateRows cs = .ok (rows, sheets)) :
    rows.length = (allFracs cs).length ∧
    rows.map (fun r => (r.asset, r.sheet)) = (allFracs cs).filterMap (fun p => (sheetOf true p.2.f.ev.typ).map (fun s => (p.1, s))) ∧
    (∀ r ∈ rows, 7 < r.row) ∧ (rows.map (fun r => (r.sheet, r.row))).Nodup ∧
    (∀ s, s ∈ sheets ↔ s ∈ allSheets ∧ ∃ r ∈ rows, r.sheet = s) := by
  unfold taxReport at h
  split at h
  · cases h
  · rename_i hall
    simp only at h
    split at h
    · cases h
    · simp only [Except.ok.injEq, Prod.mk.injEq] at h
      obtain ⟨hr, hsh⟩ := h
      have hk : ∀ t s, sheetOf true t = some s → s ∈ (allSheets.map (·, 7)).map (·.1) := by
        intro t s hts
        have := sheetOf_in_allSheets true t s hts
        simpa [List.map_map, Function.comp_def] using this
      have hget7 : ∀ s ∈ allSheets, getS (allSheets.map (·, 7)) s = 7 := by decide
      obtain ⟨h1, h2, h3, _, _⟩ := routeFracs_spec true period (allFracs cs) (allSheets.map (·, 7)) hk
      obtain ⟨h6, h7⟩ := routeFracs_sheets true period (allFracs cs) (allSheets.map (·, 7)) hk
      rw [hr] at h1 h2 h3 h6 h7
      have hfilter : (allFracs cs).filter (fun p => (sheetOf true p.2.f.ev.typ).isSome) = allFracs cs := by
        apply List.filter_eq_self.mpr
        intro p hp
        simp only [Bool.not_eq_true, List.any_eq_true, not_exists, not_and] at hall
        have := hall p hp
        cases hso : sheetOf true p.2.f.ev.typ with
        | none => simp [hso] at this
        | some s => rfl
      refine ⟨by rw [h3, hfilter], h6, ?_, h2, ?_⟩
      · intro r hr'
        have := h1 r hr'
        have hs : r.sheet ∈ allSheets := by
          have : (r.asset, r.sheet) ∈ rows.map (fun r => (r.asset, r.sheet)) := List.mem_map.mpr ⟨r, hr', rfl⟩
          rw [h6] at this
          obtain ⟨p, _, hp⟩ := List.mem_filterMap.mp this
          cases hso : sheetOf true p.2.f.ev.typ with
          | none => simp [hso] at hp
          | some s =>
            simp [hso] at hp
            rw [← hp.2]; exact sheetOf_in_allSheets true _ _ hso
        rw [hget7 _ hs] at this; exact this
      · intro s
        rw [← hsh, List.mem_filter]
        constructor
        · rintro ⟨hs, hne⟩
          refine ⟨hs, ?_⟩
          have hcnt := h7 s (by simpa [List.map_map, Function.comp_def] using hs)
          rw [hget7 s hs] at hcnt
          have hne' : getS (routeFracs true period (allSheets.map (·, 7)) (allFracs cs)).2 s ≠ 7 := by simpa using hne
          have hpos : 0 < (rows.filter (fun r => r.sheet == s)).length := by omega
          obtain ⟨r, hr'⟩ := List.exists_mem_of_length_pos hpos
          have := List.mem_filter.mp hr'
          exact ⟨r, this.1, by simpa using this.2⟩
        · rintro ⟨hs, r, hr', hrs⟩
          refine ⟨hs, ?_⟩
          have hcnt := h7 s (by simpa [List.map_map, Function.comp_def] using hs)
          rw [hget7 s hs] at hcnt
          have : 0 < (rows.filter (fun r => r.sheet == s)).length :=
            List.length_pos_of_mem (List.mem_filter.mpr ⟨hr', by simp [hrs]⟩)
          simp; omega
end Rp2
