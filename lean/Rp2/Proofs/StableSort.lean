import Rp2.Model.Tx
/-! `list.sort(key=timestamp)` is stable: on a table whose rows are in sheet order (strictly increasing row numbers) the
time-sorted list is ordered by (instant, row). This is what ties the model's `sortByTs` to the (instant, row) order the engine
theorems use. -/
namespace Rp2
open List

theorem no_two_orders {α} : ∀ (l : List α), l.Nodup → ∀ a b, a ≠ b → [a, b] <+ l → [b, a] <+ l → False
  | [], _, _, _, _, h1, _ => by cases h1
  | x :: t, hnd, a, b, hab, h1, h2 => by
    rw [List.nodup_cons] at hnd
    cases h1 with
    | cons _ h1' =>
      cases h2 with
      | cons _ h2' => exact no_two_orders t hnd.2 a b hab h1' h2'
      | cons_cons _ h2' =>
        -- b = x, but b ∈ t
        exact hnd.1 (h1'.subset (by simp))
    | cons_cons _ h1' =>
      cases h2 with
      | cons _ h2' =>
        exact hnd.1 (h2'.subset (by simp))
      | cons_cons _ h2' => exact hab rfl

/-- stable sort by `ts` of a list that is strictly increasing in `row` is sorted by `(ts, row)` -/
theorem sortByTs_lex {α} (ts : α → Int) (row : α → Int) (l : List α) (hrow : l.Pairwise (fun a b => row a < row b)) :
    (sortByTs ts l).Pairwise (fun a b => ts a < ts b ∨ (ts a = ts b ∧ row a < row b)) := by
  unfold sortByTs
  have tr : ∀ (a b c : α), decide (ts a ≤ ts b) = true → decide (ts b ≤ ts c) = true → decide (ts a ≤ ts c) = true := by
    intro a b c h1 h2; simp only [decide_eq_true_eq] at *; omega
  have tot : ∀ (a b : α), (decide (ts a ≤ ts b) || decide (ts b ≤ ts a)) = true := by
    intro a b; simp only [Bool.or_eq_true, decide_eq_true_eq]; omega
  have hs := List.pairwise_mergeSort tr tot l
  have hp := List.mergeSort_perm l (fun a b => decide (ts a ≤ ts b))
  have hnd : l.Nodup := hrow.imp (by intro a b h heq; subst heq; omega)
  have hnd' : (l.mergeSort (fun a b => decide (ts a ≤ ts b))).Nodup := hp.nodup_iff.mpr hnd
  rw [List.pairwise_iff_forall_sublist]
  intro a b hab
  have hle : ts a ≤ ts b := by
    have := (List.pairwise_iff_forall_sublist.mp hs) hab
    simpa using this
  by_cases hlt : ts a < ts b
  · exact Or.inl hlt
  · right
    have heq : ts a = ts b := by omega
    refine ⟨heq, ?_⟩
    -- a and b both occur in l; their order in l decides their rows
    have ha : a ∈ l := hp.subset (hab.subset (by simp))
    have hb : b ∈ l := hp.subset (hab.subset (by simp))
    have hne : a ≠ b := by
      intro h; subst h
      have : [a, a].Nodup := hnd'.sublist hab
      simp at this
    apply Classical.byContradiction
    intro hnlt
    -- then row b < row a (rows are distinct), so b precedes a in l, and stability keeps [b, a] in the result
    have hrne : row a ≠ row b := by
      intro h
      -- two distinct members of a strictly increasing list cannot share a row
      have : ∀ (l : List α), l.Pairwise (fun a b => row a < row b) → ∀ a ∈ l, ∀ b ∈ l, row a = row b → a = b := by
        intro l hl
        induction l with
        | nil => intro a ha; cases ha
        | cons x t ih =>
          rw [List.pairwise_cons] at hl
          intro a ha b hb hr
          rcases List.mem_cons.mp ha with rfl | ha'
          · rcases List.mem_cons.mp hb with rfl | hb'
            · rfl
            · have := hl.1 b hb'; omega
          · rcases List.mem_cons.mp hb with rfl | hb'
            · have := hl.1 a ha'; omega
            · exact ih hl.2 a ha' b hb' hr
      exact hne (this l hrow a ha b hb h)
    have hba : row b < row a := by omega
    have hsub : [b, a] <+ l := by
      -- in a strictly increasing list the element with the smaller row comes first
      have : ∀ (l : List α), l.Pairwise (fun a b => row a < row b) → ∀ a ∈ l, ∀ b ∈ l, row b < row a → [b, a] <+ l := by
        intro l hl
        induction l with
        | nil => intro a ha; cases ha
        | cons x t ih =>
          rw [List.pairwise_cons] at hl
          intro a ha b hb hr
          rcases List.mem_cons.mp hb with rfl | hb'
          · rcases List.mem_cons.mp ha with rfl | ha'
            · omega
            · exact List.Sublist.cons_cons _ (List.singleton_sublist.mpr ha')
          · rcases List.mem_cons.mp ha with rfl | ha'
            · have := hl.1 b hb'; omega
            · exact List.Sublist.cons _ (ih hl.2 a ha' b hb' hr)
      exact this l hrow a ha b hb hba
    have hstable := List.pair_sublist_mergeSort tr tot (by simp; omega : decide (ts b ≤ ts a) = true) hsub
    exact no_two_orders _ hnd' a b hne hab hstable

end Rp2
