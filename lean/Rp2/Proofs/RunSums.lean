import Rp2.Model.Report
/-! C13: the running-sum columns. `runSums f l` has one entry per element; entry k is the decimal sum (`dadd`, left to right, starting from 0)
of `f` over the first k+1 elements — over the whole unfiltered set, so a date window never restarts it. -/
namespace Rp2

theorem runSums_foldl {α : Type} (f : α → Rat) : ∀ (l : List α) (s0 : Rat) (acc : List Rat),
    (l.foldl (fun (a : Rat × List Rat) x => let s := dadd a.1 (f x); (s, a.2 ++ [s])) (s0, acc)).2 =
      acc ++ (List.range l.length).map (fun k => (l.take (k + 1)).foldl (fun s x => dadd s (f x)) s0) := by
  intro l
  induction l with
  | nil => intro s0 acc; simp
  | cons x t ih =>
    intro s0 acc
    simp only [List.foldl_cons, List.length_cons]
    rw [ih (dadd s0 (f x)) (acc ++ [dadd s0 (f x)])]
    rw [List.range_succ_eq_map, List.map_cons, List.map_map, List.append_assoc]
    simp only [List.singleton_append, List.take_succ_cons, List.foldl_cons, List.take_zero, List.foldl_nil, Function.comp_def]

/-- entry k of a running-sum column is the sum of the first k+1 values -/
theorem runSums_spec {α : Type} (f : α → Rat) (l : List α) :
    runSums f l = (List.range l.length).map (fun k => (l.take (k + 1)).foldl (fun s x => dadd s (f x)) 0) := by
  unfold runSums
  have := runSums_foldl f l 0 []
  simpa using this

theorem runSums_length {α : Type} (f : α → Rat) (l : List α) : (runSums f l).length = l.length := by
  rw [runSums_spec]; simp

end Rp2

namespace Rp2
/-- **C13, running-sum columns on the `compute` model**: the in / out / out-fee / transfer-fee running sums attached to a transaction are the
    decimal sums over the *whole* time-sorted history up to and including that transaction — they do not depend on the from/to window -/
theorem compute_running_sums (asset : String) (acctName : Nat → String) (period : Int) (allowNeg : Bool) (fromD toD : Option Int)
    (sched : List (Int × Method)) (ins : List InTx) (outs : List OutTx) (intras : List IntraTx) (cd : Computed)
    (h : compute asset acctName period allowNeg fromD toD sched ins outs intras = .ok cd) :
    cd.inRun = ((sortByTs (·.ts.us) ins).map (·.row)).zip
      ((List.range (sortByTs (·.ts.us) ins).length).map fun k => ((sortByTs (·.ts.us) ins).take (k + 1)).foldl (fun s t => dadd s (ofUnits t.amount)) 0) ∧
    cd.outRun = ((sortByTs (·.ts.us) outs).map (·.row)).zip
      (((List.range (sortByTs (·.ts.us) outs).length).map fun k => ((sortByTs (·.ts.us) outs).take (k + 1)).foldl (fun s t => dadd s (ofUnits t.outNoFee)) 0).zip
       ((List.range (sortByTs (·.ts.us) outs).length).map fun k => ((sortByTs (·.ts.us) outs).take (k + 1)).foldl (fun s t => dadd s (ofUnits t.fee)) 0)) ∧
    cd.intraRun = ((sortByTs (·.ts.us) intras).map (·.row)).zip
      ((List.range (sortByTs (·.ts.us) intras).length).map fun k => ((sortByTs (·.ts.us) intras).take (k + 1)).foldl (fun s t => dadd s (ofUnits (t.sent - t.recv))) 0) := by
  unfold compute at h
  split at h
  · cases h
  · split at h
    · cases h
    · simp only [Except.ok.injEq] at h
      subst h
      simp only [runSums_spec]
      exact ⟨trivial, trivial, trivial⟩
end Rp2
