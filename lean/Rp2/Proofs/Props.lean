import Rp2.Proofs.Run
namespace Rp2

/-- amount taken from lot `i` by a list of fractions -/
def taken (fs : List Frac) (i : Nat) : Nat :=
  ((fs.filter (fun f => f.lot = some i)).map (·.amt)).sum

def total (fs : List Frac) : Nat := (fs.map (·.amt)).sum

@[simp] theorem taken_nil (i) : taken [] i = 0 := rfl
@[simp] theorem total_nil : total [] = 0 := rfl
theorem taken_cons (f : Frac) (fs i) : taken (f :: fs) i = (if f.lot = some i then f.amt else 0) + taken fs i := by
  unfold taken
  by_cases h : f.lot = some i <;> simp [List.filter_cons, h]
theorem total_cons (f : Frac) (fs) : total (f :: fs) = f.amt + total fs := by simp [total]
theorem taken_append (a b : List Frac) (i) : taken (a ++ b) i = taken a i + taken b i := by
  simp [taken, List.filter_append, List.map_append, List.sum_append]
theorem total_append (a b : List Frac) : total (a ++ b) = total a + total b := by
  simp [total, List.map_append, List.sum_append]

/-- One disposal under the greedy rule: covered in full, positive pieces, only candidate lots,
    conservation of every lot's balance, and every piece comes from the best-ranked available lot
    w.r.t. the balances left by the pieces before it. -/
theorem specConsume_spec (ctx : Ctx) (m : Method) (n k : Nat) :
    ∀ (fuel : Nat) (rem : Nat → Nat) (need : Nat) (fs : List Frac) (rem' : Nat → Nat),
      0 < need → specConsume ctx m n k fuel rem need = some (fs, rem') →
      total fs = need ∧
      (∀ f ∈ fs, 0 < f.amt ∧ f.ev = k ∧ ∃ i, f.lot = some i ∧ i < n) ∧
      (∀ i, rem' i + taken fs i = rem i) ∧
      (∀ pre f post i, fs = pre ++ f :: post → f.lot = some i →
          IsBest m ctx.L (fun j => rem j - taken pre j) n i) := by
  intro fuel
  induction fuel with
  | zero => intro rem need fs rem' _ h; simp [specConsume] at h
  | succ fu ih =>
    intro rem need fs rem' hneed h
    unfold specConsume at h
    split at h
    · cases h
    · rename_i i hp
      have hbest := pick_some n i hp
      split at h
      · rename_i hle
        simp only [Option.some.injEq, Prod.mk.injEq] at h
        obtain ⟨rfl, rfl⟩ := h
        refine ⟨by simp [total], ?_, ?_, ?_⟩
        · intro f hf
          simp only [List.mem_singleton] at hf
          subst hf
          exact ⟨hneed, rfl, i, rfl, hbest.1.1⟩
        · intro j
          simp only [taken_cons, taken_nil, updRem]
          by_cases hj : j = i
          · subst hj; simp; omega
          · have : ¬ (some i = some j) := by intro h; cases h; exact hj rfl
            simp [hj, this]
        · intro pre f post j hfs hlot
          cases pre with
          | nil =>
            simp only [List.nil_append, List.cons.injEq] at hfs
            obtain ⟨rfl, _⟩ := hfs
            simp only at hlot
            cases hlot
            simpa using hbest
          | cons a t =>
            simp only [List.cons_append, List.cons.injEq] at hfs
            obtain ⟨_, h2⟩ := hfs
            cases t <;> simp at h2
      · rename_i hgt
        split at h
        · cases h
        · rename_i fs1 rem1 hrec
          simp only [Option.some.injEq, Prod.mk.injEq] at h
          obtain ⟨rfl, rfl⟩ := h
          have hpos : 0 < rem i := hbest.1.2
          obtain ⟨h1, h2, h3, h4⟩ := ih (updRem rem i 0) (need - rem i) fs1 _ (by omega) hrec
          refine ⟨by rw [total_cons, h1]; simp; omega, ?_, ?_, ?_⟩
          · intro f hf
            cases hf with
            | head => exact ⟨hpos, rfl, i, rfl, hbest.1.1⟩
            | tail _ hf' => exact h2 f hf'
          · intro j
            have := h3 j
            simp only [taken_cons, updRem] at this ⊢
            by_cases hj : j = i
            · subst hj; simp at this ⊢; omega
            · have hne : ¬ (some i = some j) := by intro h; cases h; exact hj rfl
              simp [hj, hne] at this ⊢; omega
          · intro pre f post j hfs hlot
            cases pre with
            | nil =>
              simp only [List.nil_append, List.cons.injEq] at hfs
              obtain ⟨rfl, _⟩ := hfs
              simp only at hlot
              cases hlot
              simpa using hbest
            | cons a t =>
              simp only [List.cons_append, List.cons.injEq] at hfs
              obtain ⟨rfl, h2'⟩ := hfs
              have := h4 t f post j h2' hlot
              -- balances after `a :: t` = balances of the recursive call after `t`
              have heq : (fun x => rem x - taken (⟨k, some i, rem i⟩ :: t) x) = (fun x => updRem rem i 0 x - taken t x) := by
                funext x
                simp only [taken_cons, updRem]
                by_cases hx : x = i
                · subst hx; simp
                · have hne : ¬ (some i = some x) := by intro h; cases h; exact hx rfl
                  simp [hx, hne]
              rw [heq]; exact this

end Rp2
