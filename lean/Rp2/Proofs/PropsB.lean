import Rp2.Model.Parser
namespace Rp2

/-- two (header map, row) pairs present the same logical record -/
def SameRecord (cols cols' : List (String × Nat)) (row row' : List Cell) : Prop :=
  (∀ name, field cols row name = field cols' row' name) ∧
  (decide (row.length ≤ maxCol cols) = decide (row'.length ≤ maxCol cols'))

theorem numArg_congr {cols cols' row row'} (h : ∀ name, field cols row name = field cols' row' name) (name : String) :
    numArg cols row name = numArg cols' row' name := by simp only [numArg, h]
theorem strArg_congr {cols cols' row row'} (h : ∀ name, field cols row name = field cols' row' name) (name : String) :
    strArg cols row name = strArg cols' row' name := by simp only [strArg, h]
theorem tsArg_congr {cols cols' row row'} (h : ∀ name, field cols row name = field cols' row' name) :
    tsArg cols row = tsArg cols' row' := by simp only [tsArg, h]
theorem notesOk_congr {cols cols' row row'} (h : ∀ name, field cols row name = field cols' row' name) :
    notesOk cols row = notesOk cols' row' := by simp only [notesOk, h]

/-- **C11 (layout independence, IN table)**: the transaction built from a row depends on the row only through the
    fields the header map assigns — whatever the column order, whatever unmapped columns sit in between. -/
theorem mkInRow_layout (cfg cfg' : Config) (asset : String) (acct : String → String → Nat) (r : Nat) (row row' : List Cell)
    (hnames : cfg.assets = cfg'.assets ∧ cfg.exchanges = cfg'.exchanges ∧ cfg.holders = cfg'.holders)
    (h : SameRecord cfg.inCols cfg'.inCols row row') :
    (mkInRow cfg asset acct r row).toOption.map (fun p => (p.tx.row, p.tx.ts.us, p.tx.ts.off, p.tx.acct, p.tx.typ, p.tx.price, p.tx.amount,
        p.tx.fiatFee, p.tx.fiatNoFee, p.tx.fiatWithFee, p.cryptoFee)) =
    (mkInRow cfg' asset acct r row').toOption.map (fun p => (p.tx.row, p.tx.ts.us, p.tx.ts.off, p.tx.acct, p.tx.typ, p.tx.price, p.tx.amount,
        p.tx.fiatFee, p.tx.fiatNoFee, p.tx.fiatWithFee, p.cryptoFee)) := by
  obtain ⟨h1, h2, h3⟩ := hnames
  obtain ⟨hf, hl⟩ := h
  unfold mkInRow
  simp only [numArg_congr hf, strArg_congr hf, tsArg_congr hf, notesOk_congr hf, h1, h2, h3]
  have hl' : decide (maxCol cfg.inCols < row.length) = decide (maxCol cfg'.inCols < row'.length) := by
    have : (row.length ≤ maxCol cfg.inCols) ↔ (row'.length ≤ maxCol cfg'.inCols) := by simpa using hl
    by_cases h1 : maxCol cfg.inCols < row.length <;> by_cases h2 : maxCol cfg'.inCols < row'.length <;> simp [h1, h2] <;> omega
  simp only [hl']

/-- a concrete instance of `SameRecord`: permuting the columns of the row and of the header map alike -/
theorem field_perm (cols : List (String × Nat)) (row : List Cell) (π : Nat → Nat) (row' : List Cell)
    (hrow : ∀ p ∈ cols, row'.getD (π p.2) .empty = row.getD p.2 .empty) (name : String) :
    field (cols.map (fun p => (p.1, π p.2))) row' name = field cols row name := by
  unfold field
  induction cols with
  | nil => rfl
  | cons p t ih =>
    simp only [List.map_cons, List.find?_cons]
    by_cases hp : (p.1 == name) = true
    · have := hrow p List.mem_cons_self
      simp only [hp, if_true, Option.map_some]
      rw [this]
    · simp only [hp]
      exact ih (fun q hq => hrow q (List.mem_cons_of_mem _ hq))

end Rp2
