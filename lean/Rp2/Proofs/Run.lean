import Rp2.Proofs.Sim
namespace Rp2

/-- events are in chronological order, and events at the same instant use the same schedule slot -/
def EvOK : Option (Int × Nat) → List Event → Prop
  | _, [] => True
  | prev, e :: es =>
    (∀ t s, prev = some (t, s) → t ≤ e.ts ∧ (t = e.ts → s = e.slot)) ∧ EvOK (some (e.ts, e.slot)) es

def Pre (ctx : Ctx) (st : MSt) (rem : Nat → Nat) : Option (Int × Nat) → Prop
  | none => Inv ctx st rem 0 ∧ st.cur = none
  | some (t, s) => Between ctx st rem (ctx.bound t) (ctx.meth s)

theorem inv_mono {ctx st rem a b} (h : Inv ctx st rem a) (hab : a ≤ b) : Inv ctx st rem b := by
  constructor
  · exact h.rem_eq
  · intro l r hc; have := h.cur_p l r hc; exact ⟨this.1, by omega⟩
  · exact h.fifo
  · exact h.heap1
  · exact h.heap2
  · intro s; rcases h.toIdx s with h' | h'
    · left; omega
    · right; exact h'

section
variable (ctx : Ctx) (N : Nat) (hs : SortedLots ctx N) (hinj : LotInj ctx.L N) (hN : ∀ t, ctx.bound t ≤ N)
  (hbm : ∀ a b : Int, a ≤ b → ctx.bound a ≤ ctx.bound b)
include hs hinj hN hbm

theorem arrive_sim (st : MSt) (rem : Nat → Nat) (prev : Option (Int × Nat)) (e : Event)
    (hpre : Pre ctx st rem prev)
    (hev : ∀ t s, prev = some (t, s) → t ≤ e.ts ∧ (t = e.ts → s = e.slot)) :
    match arrive ctx st (prev.map (·.1)) e with
    | none => pick (ctx.meth e.slot) ctx.L rem (ctx.bound e.ts) = none
    | some st1 => Inv ctx st1 rem (ctx.bound e.ts) ∧
        ∃ l r, st1.cur = some (l, r) ∧ 0 < r ∧ IsBest (ctx.meth e.slot) ctx.L rem (ctx.bound e.ts) l := by
  -- generic consequence of a seek from a state with no current lot
  have seek_case : ∀ (st0 : MSt) (prevN : Nat), Inv ctx st0 rem prevN → st0.cur = none → prevN ≤ ctx.bound e.ts →
      match seekFor ctx st0 e with
      | none => pick (ctx.meth e.slot) ctx.L rem (ctx.bound e.ts) = none
      | some st1 => Inv ctx st1 rem (ctx.bound e.ts) ∧
          ∃ l r, st1.cur = some (l, r) ∧ 0 < r ∧ IsBest (ctx.meth e.slot) ctx.L rem (ctx.bound e.ts) l := by
    intro st0 prevN hinv0 hc0 hle
    cases hseek : seekFor ctx st0 e with
    | none =>
      simp only
      have hnone := seekFor_none ctx st0 rem prevN e hinv0 hc0 hle hseek
      cases hp : pick (ctx.meth e.slot) ctx.L rem (ctx.bound e.ts) with
      | none => rfl
      | some i => exact absurd (pick_some _ i hp).1 (hnone i)
    | some st1 =>
      simp only
      obtain ⟨i, a, hc1, ha, _, hb1, hinv1⟩ := seekFor_some ctx N hs hN st0 rem prevN e hinv0 hc0 hle st1 hseek
      exact ⟨hinv1, i, a, hc1, ha, hb1⟩
  cases prev with
  | none =>
    obtain ⟨hinv, hcur⟩ := hpre
    simp only [arrive, Option.map, hcur]
    exact seek_case st 0 hinv hcur (Nat.zero_le _)
  | some ts =>
    obtain ⟨t, s⟩ := ts
    obtain ⟨hle, hsame⟩ := hev t s rfl
    have hb : Between ctx st rem (ctx.bound t) (ctx.meth s) := hpre
    simp only [arrive, Option.map]
    by_cases hadv : t < e.ts
    · simp only [hadv, decide_true, if_true]
      -- restore the in-flight lot, then seek
      have hinv0 : Inv ctx { st with p := restore st.p st.cur, cur := none } rem (ctx.bound t) := by
        constructor
        · intro j
          rw [hb.inv.rem_eq j]
          simp only [curAmt]
          cases hc : st.cur with
          | none => simp [restore]
          | some lr =>
            obtain ⟨l, r⟩ := lr
            simp only [restore]
            by_cases hjl : j = l
            · subst hjl; simp [amt_set_eq]
            · simp [hjl, amt_set_ne hjl]
        · intro l r h; simp at h
        · exact hb.inv.fifo
        · exact hb.inv.heap1
        · exact hb.inv.heap2
        · exact hb.inv.toIdx
      exact seek_case _ _ hinv0 rfl (hbm _ _ hle)
    · simp only [hadv, decide_false]
      have hts : t = e.ts := by omega
      have hslot := hsame hts
      cases hc : st.cur with
      | none =>
        simp only
        exact seek_case st _ hb.inv hc (hbm _ _ hle)
      | some lr =>
        obtain ⟨l, r⟩ := lr
        simp only
        by_cases hr : r = 0
        · simp only [hr, if_true]
          have hinv0 : Inv ctx { st with cur := none } rem (ctx.bound t) := by
            constructor
            · intro j
              rw [hb.inv.rem_eq j]
              simp only [curAmt, hc]
              by_cases hjl : j = l
              · subst hjl
                simp [hr, Partial.amt, (hb.inv.cur_p _ r hc).1]
              · simp [hjl]
            · intro l' r' h; simp at h
            · exact hb.inv.fifo
            · exact hb.inv.heap1
            · exact hb.inv.heap2
            · exact hb.inv.toIdx
          exact seek_case _ _ hinv0 rfl (hbm _ _ hle)
        · simp only [hr, if_false]
          have := hb.best l r hc (Nat.pos_of_ne_zero hr)
          rw [hts, hslot] at this
          refine ⟨?_, l, r, hc, Nat.pos_of_ne_zero hr, this⟩
          have := hb.inv
          rw [hts] at this
          exact this

theorem step_sim (st : MSt) (rem : Nat → Nat) (prev : Option (Int × Nat)) (k : Nat) (e : Event)
    (hpre : Pre ctx st rem prev)
    (hev : ∀ t s, prev = some (t, s) → t ≤ e.ts ∧ (t = e.ts → s = e.slot)) :
    match stepEvent ctx st (prev.map (·.1)) k e with
    | none => specEvent ctx rem k e = none
    | some (fs, st') => ∃ rem', specEvent ctx rem k e = some (fs, rem') ∧ Pre ctx st' rem' (some (e.ts, e.slot)) := by
  have harr := arrive_sim ctx N hs hinj hN hbm st rem prev e hpre hev
  unfold stepEvent specEvent
  cases ha : arrive ctx st (prev.map (·.1)) e with
  | none =>
    rw [ha] at harr
    simp only at harr ⊢
    rw [harr]
  | some st1 =>
    rw [ha] at harr
    simp only at harr ⊢
    obtain ⟨hinv1, l, r, hc, hr, hbest⟩ := harr
    rw [pick_of_isBest hinj (hN e.ts) hbest]
    simp only
    by_cases hearn : e.earn
    · simp only [hearn, if_true]
      refine ⟨rem, rfl, ⟨hinv1, ?_⟩⟩
      intro l' r' hc' _
      rw [hc] at hc'
      simp only [Option.some.injEq, Prod.mk.injEq] at hc'
      obtain ⟨rfl, rfl⟩ := hc'
      exact hbest
    · simp only [hearn]
      have := consume_sim ctx N hs hinj hN e k (ctx.bound e.ts + 1) st1 rem e.amount hinv1 ⟨l, r, hc, hr, hbest⟩
      cases hcons : consume ctx e k (ctx.bound e.ts + 1) st1 e.amount with
      | none =>
        rw [hcons] at this
        simp only [Bool.false_eq_true, if_false] at this ⊢
        exact this
      | some res =>
        obtain ⟨fs, st2⟩ := res
        rw [hcons] at this
        simp only [Bool.false_eq_true, if_false] at this ⊢
        obtain ⟨rem', h1, h2⟩ := this
        exact ⟨rem', h1, h2⟩

/-- **Refinement**: the engine (heaps, partial-amount cache, index windows, in-flight lot) produces
    exactly the fractions of the greedy specification, and fails exactly when it fails. -/
theorem run_refines : ∀ (es : List Event) (st : MSt) (rem : Nat → Nat) (prev : Option (Int × Nat)) (k : Nat),
    Pre ctx st rem prev → EvOK prev es →
    runM ctx st (prev.map (·.1)) k es = runS ctx rem k es := by
  intro es
  induction es with
  | nil => intro st rem prev k _ _; simp [runM, runS]
  | cons e es ih =>
    intro st rem prev k hpre hev
    obtain ⟨hev1, hev2⟩ := hev
    have hstep := step_sim ctx N hs hinj hN hbm st rem prev k e hpre hev1
    unfold runM runS
    cases hm : stepEvent ctx st (prev.map (·.1)) k e with
    | none =>
      rw [hm] at hstep
      simp only at hstep ⊢
      rw [hstep]
    | some res =>
      obtain ⟨fs, st'⟩ := res
      rw [hm] at hstep
      simp only at hstep ⊢
      obtain ⟨rem', h1, h2⟩ := hstep
      rw [h1]
      simp only
      have := ih st' rem' (some (e.ts, e.slot)) (k+1) h2 hev2
      simp only [Option.map] at this
      rw [this]

end

theorem init_pre (ctx : Ctx) : Pre ctx MSt.init (fun i => (ctx.L i).amount) none := by
  refine ⟨⟨?_, ?_, ?_, ?_, ?_, ?_⟩, rfl⟩
  · intro i; simp [curAmt, MSt.init, Partial.amt]
  · intro l r h; simp [MSt.init] at h
  · intro s _ i hi; simp [MSt.init] at hi
  · intro s _ i hi; simp [MSt.init] at hi
  · intro s _ i hi; simp [MSt.init] at hi
  · intro s; right; rfl

theorem engine_eq_spec (ctx : Ctx) (N : Nat) (hs : SortedLots ctx N) (hinj : LotInj ctx.L N) (hN : ∀ t, ctx.bound t ≤ N)
    (hbm : ∀ a b : Int, a ≤ b → ctx.bound a ≤ ctx.bound b) (es : List Event) (hev : EvOK none es) :
    runM ctx MSt.init none 0 es = runS ctx (fun i => (ctx.L i).amount) 0 es :=
  run_refines ctx N hs hinj hN hbm es MSt.init _ none 0 (init_pre ctx) hev

end Rp2
