import Rp2.Model.Engine
namespace Rp2

def curAmt (L : Nat → Lot) (st : MSt) (i : Nat) : Nat :=
  match st.cur with
  | some (l, r) => if i = l then r else st.p.amt L i
  | none => st.p.amt L i

structure Inv (ctx : Ctx) (st : MSt) (rem : Nat → Nat) (prevN : Nat) : Prop where
  rem_eq : ∀ i, rem i = curAmt ctx.L st i
  cur_p : ∀ l r, st.cur = some (l, r) → st.p l = some 0 ∧ l < prevN
  fifo : ∀ s, ctx.meth s = .fifo → ∀ i, i < (st.cands s).fromIdx → rem i = 0
  heap1 : ∀ s, ctx.meth s ≠ .fifo → ∀ i, i < (st.cands s).toIdx → 0 < rem i → i ∈ (st.cands s).heap
  heap2 : ∀ s, ctx.meth s ≠ .fifo → ∀ i ∈ (st.cands s).heap, i ≤ (st.cands s).toIdx
  toIdx : ∀ s, (st.cands s).toIdx < prevN ∨ (st.cands s).toIdx = 0

/-- lots are listed in chronological (ts,row) order -/
def SortedLots (ctx : Ctx) (N : Nat) : Prop := ∀ i j, i < j → j < N → ¬ better .fifo (ctx.L j) (ctx.L i)

theorem amt_set_ne {p : Partial} {L i j v} (h : j ≠ i) : (p.set i v).amt L j = p.amt L j := by
  simp [Partial.amt, Partial.set, h]

theorem amt_set_eq {p : Partial} {L i v} : (p.set i v).amt L i = v := by
  simp [Partial.amt, Partial.set]

theorem mem_range'_iff {s n i : Nat} : i ∈ List.range' s n ↔ s ≤ i ∧ i < s + n := by
  simp [List.mem_range'_1]


section
variable (ctx : Ctx) (N : Nat) (hs : SortedLots ctx N) (hN : ∀ t, ctx.bound t ≤ N) (st : MSt) (rem : Nat → Nat) (prevN : Nat) (e : Event)
  (hinv : Inv ctx st rem prevN) (hcur : st.cur = none) (hmono : prevN ≤ ctx.bound e.ts)
include hinv hcur

theorem rem_eq_amt : ∀ i, rem i = st.p.amt ctx.L i := by
  intro i; rw [hinv.rem_eq i]; simp [curAmt, hcur]

include hmono

theorem heap_cover (hmne : ctx.meth e.slot ≠ .fifo) : ∀ j, Avail rem (ctx.bound e.ts) j →
    j ∈ List.range' (st.cands e.slot).toIdx (ctx.bound e.ts - 1 + 1 - (st.cands e.slot).toIdx) ++ (st.cands e.slot).heap := by
  intro j hj
  by_cases hjt : j < (st.cands e.slot).toIdx
  · exact List.mem_append_right _ (hinv.heap1 e.slot hmne j hjt hj.2)
  · apply List.mem_append_left
    rw [mem_range'_iff]
    have := hj.1
    omega

theorem heap_bound (hmne : ctx.meth e.slot ≠ .fifo) (hnpos : 0 < ctx.bound e.ts) :
    ∀ j ∈ List.range' (st.cands e.slot).toIdx (ctx.bound e.ts - 1 + 1 - (st.cands e.slot).toIdx) ++ (st.cands e.slot).heap,
      j ≤ ctx.bound e.ts - 1 := by
  intro j hj
  rcases List.mem_append.mp hj with h | h
  · rw [mem_range'_iff] at h; omega
  · have := hinv.heap2 e.slot hmne j h
    rcases hinv.toIdx e.slot with h' | h' <;> omega

theorem seekFor_none (hres : seekFor ctx st e = none) : ∀ j, ¬ Avail rem (ctx.bound e.ts) j := by
  have hrem := rem_eq_amt ctx st rem prevN hinv hcur
  unfold seekFor at hres
  simp only at hres
  split at hres
  · rename_i hn
    intro j hj; rw [hn] at hj; exact absurd hj.1 (Nat.not_lt_zero _)
  · rename_i hn
    have hnpos : 0 < ctx.bound e.ts := Nat.pos_of_ne_zero hn
    split at hres
    · rename_i hm
      split at hres
      · cases hres
      · rename_i f' p' hseek
        obtain ⟨h1, _⟩ := seekFifo_none _ _ _ _ _ (Nat.le_refl _) hseek
        intro j hj
        by_cases hjf : j < (st.cands e.slot).fromIdx
        · have := hinv.fifo e.slot hm j hjf
          have := hj.2; omega
        · have := h1 j (by omega) (by have := hj.1; omega)
          rw [← hrem] at this; exact this hj.2
    · rename_i m hm
      have hmne : ctx.meth e.slot ≠ .fifo := by intro h; exact hm h
      split at hres
      · cases hres
      · rename_i h' p' hseek
        obtain ⟨h1, _⟩ := seekHeap_none _ _ _ _ (Nat.le_refl _) hseek
        intro j hj
        have := h1 j (heap_cover ctx st rem prevN e hinv hcur hmono hmne j hj)
        rw [← hrem] at this
        exact this hj.2

include hs hN

theorem seekFor_some (st' : MSt) (hres : seekFor ctx st e = some st') :
    ∃ i a, st'.cur = some (i, a) ∧ 0 < a ∧ a = rem i ∧
        IsBest (ctx.meth e.slot) ctx.L rem (ctx.bound e.ts) i ∧ Inv ctx st' rem (ctx.bound e.ts) := by
  have hrem := rem_eq_amt ctx st rem prevN hinv hcur
  unfold seekFor at hres
  simp only at hres
  split at hres
  · cases hres
  · rename_i hn
    have hnpos : 0 < ctx.bound e.ts := Nat.pos_of_ne_zero hn
    split at hres
    · -- FIFO
      rename_i hm
      split at hres
      · rename_i ia f' p' hseek
        obtain ⟨i, a⟩ := ia
        cases hres
        obtain ⟨h1, h2, h3, h4, h5, h6, h7⟩ := seekFifo_some _ _ _ _ _ _ _ hseek
        refine ⟨i, a, rfl, h4, by rw [h3, hrem], ⟨⟨by omega, by rw [hrem, ← h3]; exact h4⟩, ?_⟩, ?_⟩
        · intro j hj
          rw [hm]
          by_cases hji : j < i
          · exfalso
            by_cases hjf : j < (st.cands e.slot).fromIdx
            · have := hinv.fifo e.slot hm j hjf
              have := hj.2; omega
            · have := h7 j (by omega) hji
              rw [← hrem] at this; exact this hj.2
          · by_cases hji' : j = i
            · subst hji'; exact lexLt_irrefl _
            · exact hs i j (by omega) (Nat.lt_of_lt_of_le hj.1 (hN e.ts))
        · constructor
          · intro j
            simp only [curAmt]
            by_cases hji : j = i
            · subst hji; simp [h3, hrem]
            · simp [hji, h5, amt_set_ne hji, hrem]
          · intro l r hlr
            simp only [Option.some.injEq, Prod.mk.injEq] at hlr
            obtain ⟨rfl, rfl⟩ := hlr
            exact ⟨by simp [h5, Partial.set], by omega⟩
          · intro s hsm j hj
            simp only [updCand] at hj
            split at hj
            · rename_i hse
              simp only at hj
              subst hse
              rw [h6] at hj
              by_cases hjf : j < (st.cands e.slot).fromIdx
              · exact hinv.fifo e.slot hm j hjf
              · have := h7 j (by omega) hj
                rw [← hrem] at this; omega
            · exact hinv.fifo s hsm j hj
          · intro s hsm j hj hpos
            simp only [updCand] at hj ⊢
            split
            · rename_i hse; subst hse; exact absurd hm hsm
            · rename_i hse; simp only [hse, if_false] at hj; exact hinv.heap1 s hsm j hj hpos
          · intro s hsm j hj
            simp only [updCand] at hj ⊢
            split
            · rename_i hse; subst hse; exact absurd hm hsm
            · rename_i hse; simp only [hse, if_false] at hj; exact hinv.heap2 s hsm j hj
          · intro s
            simp only [updCand]
            split
            · left; simp only; omega
            · rcases hinv.toIdx s with h | h
              · left; omega
              · right; exact h
      · cases hres
    · -- heap-based methods
      rename_i m hm
      have hmne : ctx.meth e.slot ≠ .fifo := by intro h; exact hm h
      have hcover := heap_cover ctx st rem prevN e hinv hcur hmono hmne
      have hbound := heap_bound ctx st rem prevN e hinv hcur hmono hmne hnpos
      split at hres
      · rename_i ia h' p' hseek
        obtain ⟨i, a⟩ := ia
        cases hres
        obtain ⟨h1, h2, h3, h4, h5, h6, h7⟩ := seekHeap_some _ _ _ _ _ _ hseek
        have hib := hbound i h1
        refine ⟨i, a, rfl, h3, by rw [h2, hrem], ⟨⟨by omega, by rw [hrem, ← h2]; exact h3⟩, ?_⟩, ?_⟩
        · intro j hj
          exact h5 j (hcover j hj) (by rw [← hrem]; exact hj.2)
        · constructor
          · intro j
            simp only [curAmt]
            by_cases hji : j = i
            · subst hji; simp [h2, hrem]
            · simp [hji, h4, amt_set_ne hji, hrem]
          · intro l r hlr
            simp only [Option.some.injEq, Prod.mk.injEq] at hlr
            obtain ⟨rfl, rfl⟩ := hlr
            exact ⟨by simp [h4, Partial.set], by omega⟩
          · intro s hsm j hj
            simp only [updCand] at hj
            split at hj
            · rename_i hse; subst hse; exact absurd hsm hmne
            · exact hinv.fifo s hsm j hj
          · intro s hsm j hj hpos
            simp only [updCand] at hj ⊢
            split
            · rename_i hse
              subst hse
              simp only [if_true] at hj
              simp only
              exact h6 j (hcover j ⟨by omega, hpos⟩) (by rw [← hrem]; exact hpos)
            · rename_i hse; simp only [hse, if_false] at hj; exact hinv.heap1 s hsm j hj hpos
          · intro s hsm j hj
            simp only [updCand] at hj ⊢
            split
            · rename_i hse
              subst hse
              simp only [if_true] at hj
              simp only
              exact hbound j (h7 j hj)
            · rename_i hse; simp only [hse, if_false] at hj; exact hinv.heap2 s hsm j hj
          · intro s
            simp only [updCand]
            split
            · left; simp only; omega
            · rcases hinv.toIdx s with h | h
              · left; omega
              · right; exact h
      · cases hres
end

end Rp2
