import Rp2.Proofs.IniValid
import Rp2.Model.Cli
import Rp2.Proofs.CliFiles
/-! The configuration file in the whole-run model: a file that `configparser` refuses or that `Configuration.__init__` rejects ends the run
with a non-zero status before anything is read or written; the early rejections agree with `Cli.run`. -/
namespace Rp2.Cli
open Rp2

theorem preConfig_rejects (o : Options) (r : Outcome) (h : preConfig o = some r) : r.exit ≠ 0 ∧ r.files = [] := by
  unfold preConfig at h
  split at h
  · simp only [Option.some.injEq] at h; subst h; simp [reject]
  · split at h
    · simp only [Option.some.injEq] at h; subst h; simp [reject]
    · split at h
      · simp only [Option.some.injEq] at h; subst h; simp [reject]
      · split at h
        · simp only [Option.some.injEq] at h; subst h; simp [reject]
        · cases h

/-- the early rejections are those of `run` (same outcome whatever the configuration and the sheets) -/
theorem preConfig_eq_run (o : Options) (r : Outcome) (h : preConfig o = some r) (acctName holderOf : Nat → String) (cfgAssets : List String)
    (sheets : List AssetIn) : run o acctName holderOf cfgAssets sheets = r := by
  unfold preConfig at h
  unfold run
  split at h
  · rename_i hc; simp only [Option.some.injEq] at h; subst h; simp only [hc]
  · rename_i hc
    simp only [hc]
    split at h
    · rename_i hb; simp only [Option.some.injEq] at h; subst h; simp only [hb, if_true]
    · rename_i hb
      split at h
      · rename_i hl; simp only [Option.some.injEq] at h; subst h; simp only [hb, hl, if_true]; simp
      · rename_i hl
        split at h
        · rename_i hw; simp only [Option.some.injEq] at h; subst h; simp only [hb, hl, hw, if_true]; simp
        · cases h

/-- **configuration faults are rejected**: when `configparser` refuses the file (`ini = none`) or `Configuration.__init__` rejects its
    sections, the run ends with a non-zero exit status and writes nothing -/
theorem runIni_bad_config (o : Options) (ini : Option (List Ini.Section)) (grids : List (String × List (List Cell)))
    (h : ini = none ∨ ∃ secs e, ini = some secs ∧ Ini.ofIni secs = .error e) :
    (runIni o ini grids).exit ≠ 0 ∧ (runIni o ini grids).files = [] := by
  unfold runIni
  cases hp : preConfig o with
  | some r => exact preConfig_rejects o r hp
  | none =>
    simp only
    rcases h with rfl | ⟨secs, e, rfl, he⟩
    · simp [reject]
    · simp only [he]; simp [reject]

/-- an invocation that gets past the configuration stage runs `runCells` on a configuration that satisfies `Ini.ofIni_ok` -/
theorem runIni_accepted (o : Options) (secs : List Ini.Section) (grids : List (String × List (List Cell))) (hp : preConfig o = none)
    (c : Ini.IniConfig) (hc : Ini.ofIni secs = .ok c) : runIni o (some secs) grids = runCells { o with cfgSched := c.methods } c.cfg grids := by
  unfold runIni; simp only [hp, hc]

end Rp2.Cli

namespace Rp2.Cli
open Rp2

theorem runCellsWith_files (o : Options) (cfg : Config) (lookup : String → Option (List (List Cell))) :
    ∀ f ∈ (runCellsWith o cfg lookup).files, ∃ m base, f.1 = fileName o.pfx m base := by
  unfold runCellsWith
  simp only
  split
  · split
    · intro f hf; simp [reject] at hf
    · exact run_files o _ _ _ _
  · exact run_files o _ _ _ _

/-- **C18 (writes) for the run from the configuration file and the workbook**: whatever the configuration, the options and the cells, every
    file the model writes is named `<prefix><method or "mixed">_<generator>.ods` -/
theorem runIni_files (o : Options) (ini : Option (List Ini.Section)) (grids : List (String × List (List Cell))) :
    ∀ f ∈ (runIni o ini grids).files, ∃ m base, f.1 = fileName o.pfx m base := by
  unfold runIni
  cases hp : preConfig o with
  | some r => intro f hf; rw [(preConfig_rejects o r hp).2] at hf; cases hf
  | none =>
    simp only
    cases ini with
    | none => intro f hf; simp [reject] at hf
    | some secs =>
      simp only
      cases hc : Ini.ofIni secs with
      | error e => intro f hf; simp [reject] at hf
      | ok c =>
        simp only
        have := runCellsWith_files { o with cfgSched := c.methods } c.cfg (fun a => (grids.find? (·.1 == a)).map (·.2))
        exact this

end Rp2.Cli

namespace Rp2.Cli
open Rp2

theorem computeAll_no_sheets (o : Options) (acctName : Nat → String) (period : Nat) (sched : List (Int × Method)) (names : List String)
    (hn : names ≠ []) : ∃ e, computeAll o acctName period sched names [] = .error e := by
  cases names with
  | nil => exact absurd rfl hn
  | cons a t => exact ⟨s!"sheet {a} missing", by simp [computeAll, List.mapM_cons, bind, Except.bind]⟩

theorem foldlM_nil_names_ok (cfg : Config) (lookup : String → Option (List (List Cell))) (names : List String) (e : String)
    (h : names.foldlM (parseStep cfg lookup) ([], 0) = .error e) : names ≠ [] := by
  intro hn; subst hn; simp [pure, Except.pure] at h

/-- **C12 for the workbook**: if any sheet to process is missing or fails to parse (any documented row or structure fault), the run ends
    with a non-zero exit status and writes nothing -/
theorem runCellsWith_bad_sheet (o : Options) (cfg : Config) (lookup : String → Option (List (List Cell))) (e : String)
    (h : parseAll o cfg lookup = .error e) :
    (runCellsWith o cfg lookup).exit ≠ 0 ∧ (runCellsWith o cfg lookup).files = [] := by
  have hnames : assetNames o cfg.assets ≠ [] := by
    unfold parseAll at h
    cases hf : (assetNames o cfg.assets).foldlM (parseStep cfg lookup) ([], 0) with
    | ok r => rw [hf] at h; simp [Except.map] at h
    | error e' => exact foldlM_nil_names_ok cfg lookup _ e' hf
  have hfault : OptionFault o (acctNameOf cfg) cfg.assets [] := by
    unfold OptionFault
    split
    · trivial
    · rename_i name iso period defMethod methods gens defLang hc
      refine Or.inr (Or.inr (Or.inr (Or.inr ?_)))
      split
      · trivial
      · rename_i sched hs
        exact Or.inr (Or.inr (computeAll_no_sheets o (acctNameOf cfg) period sched _ hnames))
  have hpre := run_fault_rejected o (acctNameOf cfg) (holderOfAcct cfg) cfg.assets [] hfault
  unfold runCellsWith
  rw [h]
  simp only
  split
  · exact ⟨by simp [reject], rfl⟩
  · exact hpre

end Rp2.Cli

namespace Rp2.Cli
open Rp2

theorem foldlM_error_of_bad_member {σ : Type} (step : σ → String → Except String σ) (a : String)
    (hbad : ∀ acc, ∃ e, step acc a = .error e) : ∀ (names : List String) (acc : σ), a ∈ names → ∃ e, names.foldlM step acc = .error e := by
  intro names
  induction names with
  | nil => intro acc h; cases h
  | cons x t ih =>
    intro acc h
    simp only [List.foldlM_cons, bind, Except.bind]
    cases hs : step acc x with
    | error e => exact ⟨e, rfl⟩
    | ok acc' =>
      rcases List.mem_cons.mp h with rfl | h'
      · obtain ⟨e, he⟩ := hbad acc; rw [he] at hs; cases hs
      · exact ih acc' h'

/-- a sheet that is missing, or that `parseSheet` rejects (whatever the artificial-id counter), among the assets to process makes the
    whole run fail before anything is computed or written -/
theorem bad_sheet_rejected (o : Options) (cfg : Config) (lookup : String → Option (List (List Cell))) (a : String)
    (ha : a ∈ assetNames o cfg.assets)
    (hbad : lookup a = none ∨ ∃ g, lookup a = some g ∧ ∀ base, ∃ e, parseSheet cfg a (acctOf cfg) g base = .error e) :
    (runCellsWith o cfg lookup).exit ≠ 0 ∧ (runCellsWith o cfg lookup).files = [] := by
  have hstep : ∀ acc, ∃ e, parseStep cfg lookup acc a = .error e := by
    intro acc
    unfold parseStep
    rcases hbad with h | ⟨g, hg, hp⟩
    · simp only [h]; exact ⟨_, rfl⟩
    · simp only [hg]
      obtain ⟨e, he⟩ := hp acc.2
      simp only [he]; exact ⟨_, rfl⟩
  obtain ⟨e, he⟩ := foldlM_error_of_bad_member (parseStep cfg lookup) a hstep _ ([], 0) ha
  exact runCellsWith_bad_sheet o cfg lookup e (by unfold parseAll; rw [he]; rfl)

end Rp2.Cli
