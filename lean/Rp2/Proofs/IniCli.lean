import Rp2.Proofs.IniValid
import Rp2.Model.Cli
/-! The configuration file in the whole-run model: a file that `configparser` refuses or that `Configuration.__init__` rejects ends the run
with a non-zero status before anything is read or written; the early rejections agree with `Cli.run`. -/
namespace Rp2.Cli
open Rp2

theorem preConfig_rejects (o : Options) (r : Outcome) (h : preConfig o = some r) : r.exit ≠ 0 ∧ r.files = [] := by
  unfold preConfig at h
  split at h
  · simp only [Option.some.injEq] at h; subst h; simp [reject]
  · split at h
    · simp only [Option.some.injEq] at h; subst h; simp [reject]
    · split at h
      · simp only [Option.some.injEq] at h; subst h; simp [reject]
      · split at h
        · simp only [Option.some.injEq] at h; subst h; simp [reject]
        · cases h

/-- the early rejections are those of `run` (same outcome whatever the configuration and the sheets) -/
theorem preConfig_eq_run (o : Options) (r : Outcome) (h : preConfig o = some r) (acctName holderOf : Nat → String) (cfgAssets : List String)
    (sheets : List AssetIn) : run o acctName holderOf cfgAssets sheets = r := by
  unfold preConfig at h
  unfold run
  split at h
  · rename_i hc; simp only [Option.some.injEq] at h; subst h; simp only [hc]
  · rename_i hc
    simp only [hc]
    split at h
    · rename_i hb; simp only [Option.some.injEq] at h; subst h; simp only [hb, if_true]
    · rename_i hb
      split at h
      · rename_i hl; simp only [Option.some.injEq] at h; subst h; simp only [hb, hl, if_true]; simp
      · rename_i hl
        split at h
        · rename_i hw; simp only [Option.some.injEq] at h; subst h; simp only [hb, hl, hw, if_true]; simp
        · cases h

/-- **configuration faults are rejected**: when `configparser` refuses the file (`ini = none`) or `Configuration.__init__` rejects its
    sections, the run ends with a non-zero exit status and writes nothing -/
theorem runIni_bad_config (o : Options) (ini : Option (List Ini.Section)) (grids : List (String × List (List Cell)))
    (h : ini = none ∨ ∃ secs e, ini = some secs ∧ Ini.ofIni secs = .error e) :
    (runIni o ini grids).exit ≠ 0 ∧ (runIni o ini grids).files = [] := by
  unfold runIni
  cases hp : preConfig o with
  | some r => exact preConfig_rejects o r hp
  | none =>
    simp only
    rcases h with rfl | ⟨secs, e, rfl, he⟩
    · simp [reject]
    · simp only [he]; simp [reject]

/-- an invocation that gets past the configuration stage runs `runCells` on a configuration that satisfies `Ini.ofIni_ok` -/
theorem runIni_accepted (o : Options) (secs : List Ini.Section) (grids : List (String × List (List Cell))) (hp : preConfig o = none)
    (c : Ini.IniConfig) (hc : Ini.ofIni secs = .ok c) : runIni o (some secs) grids = runCells { o with cfgSched := c.methods } c.cfg grids := by
  unfold runIni; simp only [hp, hc]

end Rp2.Cli
