import Rp2.Proofs.BalanceColumns
import Rp2.Proofs.BelowTol
namespace Rp2

theorem finOf_nil : finOf [] = fun _ => 0 := by funext a; rfl

/-- **C08 on the executable model**: without `-n` the balance computation is rejected iff after some chronological prefix of the
    transactions (up to the to-date) some account is at or below −6·10⁻¹¹ — although the code looks only at the debited account,
    only after debits -/
theorem balances_rejected_iff (toD : Option Int) (ins : List InTx) (outs : List OutTx) (intras : List IntraTx)
    (hnn : ∀ t ∈ balanceOrder toD ins outs intras, t.NonNeg) :
    (∃ a, balances false toD ins outs intras = .error a) ↔
      ∃ p a, p <+: (balanceOrder toD ins outs intras).map toBTx ∧ balAfter (fun _ => 0) p a ≤ -6 := by
  have hsim := foldlM_balStep_replay false (balanceOrder toD ins outs intras) [] hnn
  have hrep := replay_error_iff belowTol belowTol_antitone ((balanceOrder toD ins outs intras).map toBTx) (fun _ => 0) (fun _ => belowTol_zero)
  rw [finOf_nil] at hsim
  unfold balances
  constructor
  · rintro ⟨a, ha⟩
    rw [ha] at hsim
    obtain ⟨p, a', hp, hb⟩ := hrep.mp ⟨a, hsim⟩
    exact ⟨p, a', hp, (belowTol_iff _).mp hb⟩
  · rintro ⟨p, a', hp, hb⟩
    obtain ⟨a, ha⟩ := hrep.mpr ⟨p, a', hp, (belowTol_iff _).mpr hb⟩
    cases hres : (balanceOrder toD ins outs intras).foldlM (balStep false) [] with
    | error e => exact ⟨e, rfl⟩
    | ok bs => rw [hres] at hsim; simp only at hsim; rw [hsim] at ha; cases ha

/-- with `-n` the computation is never rejected for a negative balance -/
theorem balances_allow_negative (toD : Option Int) (ins : List InTx) (outs : List OutTx) (intras : List IntraTx)
    (hnn : ∀ t ∈ balanceOrder toD ins outs intras, t.NonNeg) :
    ∃ bs, balances true toD ins outs intras = .ok bs := by
  have hsim := foldlM_balStep_replay true (balanceOrder toD ins outs intras) [] hnn
  unfold balances
  cases hres : (balanceOrder toD ins outs intras).foldlM (balStep true) [] with
  | ok bs => exact ⟨bs, rfl⟩
  | error e =>
    rw [hres] at hsim
    simp only at hsim
    rw [replay_allow] at hsim
    cases hsim

/-- a history in which no account ever goes negative is never rejected for this reason -/
theorem balances_never_negative_ok (toD : Option Int) (ins : List InTx) (outs : List OutTx) (intras : List IntraTx)
    (hnn : ∀ t ∈ balanceOrder toD ins outs intras, t.NonNeg)
    (hpos : ∀ p a, p <+: (balanceOrder toD ins outs intras).map toBTx → 0 ≤ balAfter (fun _ => 0) p a) :
    ∃ bs, balances false toD ins outs intras = .ok bs := by
  cases hres : balances false toD ins outs intras with
  | ok bs => exact ⟨bs, rfl⟩
  | error e =>
    obtain ⟨p, a, hp, hb⟩ := (balances_rejected_iff toD ins outs intras hnn).mp ⟨e, hres⟩
    have := hpos p a hp
    omega

end Rp2
