import Rp2.Proofs.SortDedup
import Rp2.Proofs.OpenPosModel
/-! C07 on the full-report model: the "Total <holder>" rows of the Account Balances table. -/
namespace Rp2

theorem addS_pred (k : String) (v : Rat) (k' : String) :
    ((fun p : String × Rat => p.1 == k') ∘ fun p => if (p.1 == k) = true then (k, dadd p.2 v) else p) = fun p => p.1 == k' := by
  funext p; simp only [Function.comp]
  by_cases hp : (p.1 == k) = true
  · have : p.1 = k := by simpa using hp
    simp [hp, this]
  · simp [hp]

theorem aget_addS_same (l : List (String × Rat)) (k : String) (v : Rat) : aget (addS l k v) k = some (dadd ((aget l k).getD 0) v) := by
  unfold aget addS
  by_cases h : l.any (·.1 == k) = true
  · rw [if_pos h, List.find?_map, addS_pred]
    obtain ⟨p, hp, hpk⟩ := List.any_eq_true.mp h
    cases hf : l.find? (fun p => p.1 == k) with
    | none => exact absurd hpk (by simpa using List.find?_eq_none.mp hf p hp)
    | some q =>
      have hq : (q.1 == k) = true := @List.find?_some _ (fun p : String × Rat => p.1 == k) q l hf
      have hq' : q.1 = k := by simpa using hq
      simp [hq']
  · rw [if_neg h, List.find?_append]
    have hnone : l.find? (fun p => p.1 == k) = none := by
      apply List.find?_eq_none.mpr
      intro x hx hxk
      exact h (List.any_eq_true.mpr ⟨x, hx, hxk⟩)
    simp [hnone]

theorem aget_addS_other (l : List (String × Rat)) (k k' : String) (v : Rat) (hne : k' ≠ k) : aget (addS l k v) k' = aget l k' := by
  unfold aget addS
  by_cases h : l.any (·.1 == k) = true
  · rw [if_pos h, List.find?_map, addS_pred]
    cases hf : l.find? (fun p => p.1 == k') with
    | none => rfl
    | some q =>
      have hq' : q.1 = k' := by simpa using List.find?_some hf
      have hqk : ¬ q.1 = k := by rw [hq']; exact hne
      simp [hqk]
  · rw [if_neg h, List.find?_append]
    cases hf : l.find? (fun p => p.1 == k') with
    | none =>
      have : ¬ (k == k') = true := by simp; exact fun e => hne e.symm
      simp [this]
    | some q => simp

/-- the value a `setdefault … +=` dictionary holds for key `h` after a pass over `l`: the decimal sum, in order, of the contributions of
    the elements whose key is `h` (on top of what it held before); untouched when no element has that key -/
theorem fold_addS_value {α : Type} (f : α → String) (g : α → Rat) : ∀ (l : List α) (init : List (String × Rat)) (h : String),
    aget (l.foldl (fun acc b => addS acc (f b) (g b)) init) h =
      if l.filter (fun b => f b == h) = [] then aget init h
      else some ((l.filter (fun b => f b == h)).foldl (fun s b => dadd s (g b)) ((aget init h).getD 0)) := by
  intro l
  induction l with
  | nil => intro init h; simp
  | cons b t ih =>
    intro init h
    simp only [List.foldl_cons]
    rw [ih (addS init (f b) (g b)) h]
    by_cases hb : f b = h
    · subst hb
      have hfil : (b :: t).filter (fun x => f x == f b) = b :: t.filter (fun x => f x == f b) := by simp [List.filter_cons]
      rw [hfil, aget_addS_same]
      simp only [reduceCtorEq, if_false, List.foldl_cons, Option.getD_some]
      split
      · rename_i hnil; rw [hnil]; rfl
      · rfl
    · have hfil : (b :: t).filter (fun x => f x == h) = t.filter (fun x => f x == h) := by simp [List.filter_cons, hb]
      rw [hfil, aget_addS_other _ _ _ _ (fun e => hb e.symm)]

/-- **C07, per-holder totals of the full-report model**: the Total rows list exactly the holders that have a balance row, each once (in
    alphabetical order is a rearrangement of first-seen order), and the total of a holder is the decimal sum of the final balances of that
    holder's accounts, in balance-row order -/
theorem holderTotals_spec (holderOf : Nat → String) (bals : List BalRow) :
    ((holderTotals holderOf bals).map (·.1)).Nodup ∧
    (∀ h, h ∈ (holderTotals holderOf bals).map (·.1) ↔ ∃ b ∈ bals, holderOf b.acct = h) ∧
    (∀ h, (∃ b ∈ bals, holderOf b.acct = h) → ∃ v, (h, v) ∈ holderTotals holderOf bals ∧
      v = (bals.filter (fun b => holderOf b.acct == h)).foldl (fun s b => dadd s (ofUnits b.fin)) 0) := by
  unfold holderTotals
  have hperm := sortBy_perm (fun a b : String × Rat => decide (a.1 < b.1)) (bals.foldl (fun acc b => addS acc (holderOf b.acct) (ofUnits b.fin)) [])
  obtain ⟨h1, h2⟩ := holders_fold_keys (fun b : BalRow => holderOf b.acct) (fun b => ofUnits b.fin) bals [] (by simp)
  have hkeys : ∀ h, h ∈ (bals.foldl (fun acc b => addS acc (holderOf b.acct) (ofUnits b.fin)) []).map (·.1) ↔ ∃ b ∈ bals, holderOf b.acct = h := by
    intro h
    rw [h2 h]
    simp only [List.map_nil, List.not_mem_nil, false_or, List.mem_map]
  refine ⟨(hperm.map (·.1)).nodup_iff.mpr h1, ?_, ?_⟩
  · intro h
    rw [(hperm.map (·.1)).mem_iff]
    exact hkeys h
  · intro h hex
    have hv := fold_addS_value (fun b : BalRow => holderOf b.acct) (fun b => ofUnits b.fin) bals [] h
    have hne : bals.filter (fun b => holderOf b.acct == h) ≠ [] := by
      obtain ⟨b, hb, hbh⟩ := hex
      intro hnil
      have : b ∈ bals.filter (fun b => holderOf b.acct == h) := List.mem_filter.mpr ⟨hb, by simp [hbh]⟩
      rw [hnil] at this; cases this
    rw [if_neg hne] at hv
    simp only [aget, List.find?_nil, Option.map_none, Option.getD_none] at hv
    refine ⟨_, ?_, rfl⟩
    rw [hperm.mem_iff]
    cases hf : (bals.foldl (fun acc b => addS acc (holderOf b.acct) (ofUnits b.fin)) []).find? (fun p => p.1 == h) with
    | none => rw [hf] at hv; cases hv
    | some q =>
      rw [hf] at hv
      simp only [Option.map_some, Option.some.injEq] at hv
      have hq : q.1 = h := by simpa using List.find?_some hf
      have hmem := List.mem_of_find?_eq_some hf
      rw [← hv, ← hq]
      exact hmem

end Rp2
