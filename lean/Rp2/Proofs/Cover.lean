import Rp2.Proofs.Props2
namespace Rp2

def sumTo (f : Nat → Nat) : Nat → Nat
  | 0 => 0
  | n+1 => sumTo f n + f n

def posCount (f : Nat → Nat) : Nat → Nat
  | 0 => 0
  | n+1 => posCount f n + (if 0 < f n then 1 else 0)

theorem posCount_le (f : Nat → Nat) : ∀ n, posCount f n ≤ n := by
  intro n; induction n with
  | zero => simp [posCount]
  | succ n ih => simp only [posCount]; split <;> omega

theorem sumTo_congr {f g : Nat → Nat} : ∀ n, (∀ i, i < n → f i = g i) → sumTo f n = sumTo g n := by
  intro n; induction n with
  | zero => intro _; rfl
  | succ n ih => intro h; simp only [sumTo]; rw [ih (fun i hi => h i (by omega)), h n (by omega)]

theorem sumTo_upd (f : Nat → Nat) (i v : Nat) : ∀ n, i < n → sumTo (updRem f i v) n + f i = sumTo f n + v := by
  intro n; induction n with
  | zero => intro h; omega
  | succ n ih =>
    intro h
    simp only [sumTo]
    by_cases hin : i = n
    · subst hin
      have : sumTo (updRem f i v) i = sumTo f i := sumTo_congr i (fun j hj => by simp [updRem]; intro e; omega)
      simp [this, updRem]; omega
    · have := ih (by omega)
      have hn : updRem f i v n = f n := by simp [updRem]; intro e; omega
      rw [hn]; omega

theorem posCount_upd_zero (f : Nat → Nat) (i : Nat) (hpos : 0 < f i) : ∀ n, i < n →
    posCount (updRem f i 0) n + 1 = posCount f n := by
  intro n; induction n with
  | zero => intro h; omega
  | succ n ih =>
    intro h
    simp only [posCount]
    by_cases hin : i = n
    · subst hin
      have : posCount (updRem f i 0) i = posCount f i := by
        clear ih h
        have : ∀ m, m ≤ i → posCount (updRem f i 0) m = posCount f m := by
          intro m; induction m with
          | zero => intro _; rfl
          | succ m ihm =>
            intro hm
            simp only [posCount]
            have hne : updRem f i 0 m = f m := by simp [updRem]; intro e; omega
            rw [ihm (by omega), hne]
        exact this i (Nat.le_refl _)
      simp [this, updRem, hpos]
    · have := ih (by omega)
      have hn : updRem f i 0 n = f n := by simp [updRem]; intro e; omega
      rw [hn]; omega

theorem sumTo_pos_of {f : Nat → Nat} : ∀ n i, i < n → 0 < f i → 0 < sumTo f n := by
  intro n; induction n with
  | zero => intro i h; omega
  | succ n ih =>
    intro i hi hp
    simp only [sumTo]
    by_cases hin : i = n
    · subst hin; omega
    · have := ih i (by omega) hp; omega

theorem sumTo_zero_of {f : Nat → Nat} : ∀ n, (∀ i, i < n → f i = 0) → sumTo f n = 0 := by
  intro n; induction n with
  | zero => intro _; rfl
  | succ n ih => intro h; simp only [sumTo]; rw [ih (fun i hi => h i (by omega)), h n (by omega)]

theorem le_sumTo {f : Nat → Nat} : ∀ n i, i < n → f i ≤ sumTo f n := by
  intro n; induction n with
  | zero => intro i h; omega
  | succ n ih =>
    intro i hi
    simp only [sumTo]
    by_cases hin : i = n
    · subst hin; omega
    · have := ih i (by omega); omega

theorem pick_none_iff {m L rem} (n : Nat) : pick m L rem n = none ↔ sumTo rem n = 0 := by
  constructor
  · intro h
    apply sumTo_zero_of
    intro i hi
    have := pick_none n h i
    unfold Avail at this
    omega
  · intro h
    cases hp : pick m L rem n with
    | none => rfl
    | some i =>
      have := pick_some n i hp
      have := sumTo_pos_of n i this.1.1 this.1.2
      omega

/-- one disposal succeeds iff the lots in the window hold at least the amount needed -/
theorem specConsume_some_iff (ctx : Ctx) (m : Method) (n k : Nat) :
    ∀ (fuel : Nat) (rem : Nat → Nat) (need : Nat), posCount rem n < fuel → 0 < need →
      ((∃ r, specConsume ctx m n k fuel rem need = some r) ↔ need ≤ sumTo rem n) := by
  intro fuel
  induction fuel with
  | zero => intro rem need h; omega
  | succ f ih =>
    intro rem need hfuel hneed
    unfold specConsume
    cases hp : pick m ctx.L rem n with
    | none =>
      have := (pick_none_iff n).mp hp
      simp only
      constructor
      · rintro ⟨r, h⟩; cases h
      · intro h; omega
    | some i =>
      have hb := pick_some n i hp
      simp only
      by_cases hle : need ≤ rem i
      · simp only [hle, if_true]
        have := le_sumTo (f := rem) n i hb.1.1
        exact ⟨fun _ => by omega, fun _ => ⟨_, rfl⟩⟩
      · simp only [hle, if_false]
        have hs := sumTo_upd rem i 0 n hb.1.1
        have hc := posCount_upd_zero rem i hb.1.2 n hb.1.1
        have := ih (updRem rem i 0) (need - rem i) (by omega) (by omega)
        constructor
        · rintro ⟨r, h⟩
          split at h
          · cases h
          · rename_i fs r' hrec
            have := this.mp ⟨_, hrec⟩
            omega
        · intro h
          obtain ⟨r, hr⟩ := this.mpr (by omega)
          obtain ⟨fs, r'⟩ := r
          rw [hr]
          exact ⟨_, rfl⟩

/-- effect of a successful disposal on the window total; lots outside the window are untouched -/
theorem specConsume_effect (ctx : Ctx) (m : Method) (n k : Nat) :
    ∀ (fuel : Nat) (rem : Nat → Nat) (need : Nat) (fs : List Frac) (rem' : Nat → Nat),
      specConsume ctx m n k fuel rem need = some (fs, rem') →
      sumTo rem' n + need = sumTo rem n ∧ (∀ i, n ≤ i → rem' i = rem i) := by
  intro fuel
  induction fuel with
  | zero => intro rem need fs rem' h; simp [specConsume] at h
  | succ f ih =>
    intro rem need fs rem' h
    unfold specConsume at h
    split at h
    · cases h
    · rename_i i hp
      have hb := pick_some n i hp
      split at h
      · rename_i hle
        simp only [Option.some.injEq, Prod.mk.injEq] at h
        obtain ⟨_, rfl⟩ := h
        have := sumTo_upd rem i (rem i - need) n hb.1.1
        refine ⟨by omega, ?_⟩
        intro j hj; simp [updRem]; intro e; have := hb.1.1; omega
      · rename_i hgt
        split at h
        · cases h
        · rename_i fs1 r1 hrec
          simp only [Option.some.injEq, Prod.mk.injEq] at h
          obtain ⟨_, rfl⟩ := h
          obtain ⟨h1, h2⟩ := ih _ _ _ _ hrec
          have := sumTo_upd rem i 0 n hb.1.1
          refine ⟨by omega, ?_⟩
          intro j hj
          rw [h2 j hj]; simp [updRem]; intro e; have := hb.1.1; omega

/-- closed-form feasibility of a history: cumulative disposals never exceed cumulative acquisitions in the
    window of each disposal (and an income event finds at least one lot with balance) -/
def Feasible (ctx : Ctx) (amount : Nat → Nat) : Nat → List Event → Prop
  | _, [] => True
  | d, e :: es =>
    if e.earn then d < sumTo amount (ctx.bound e.ts) ∧ Feasible ctx amount d es
    else d + e.amount ≤ sumTo amount (ctx.bound e.ts) ∧ Feasible ctx amount (d + e.amount) es

theorem sumTo_split (f g : Nat → Nat) : ∀ n m, n ≤ m → (∀ i, n ≤ i → f i = g i) → sumTo f m + sumTo g n = sumTo g m + sumTo f n := by
  intro n m h
  induction m with
  | zero => intro _; have : n = 0 := by omega
            subst this; simp [sumTo]
  | succ m ih =>
    intro hfg
    by_cases hnm : n = m + 1
    · subst hnm; omega
    · have := ih (by omega) hfg
      simp only [sumTo]
      rw [hfg m (by omega)]; omega

/-- **C02 (failure criterion)**: the greedy run succeeds iff the history is feasible — a condition on
    cumulative amounts only, the same for every accounting method. -/
theorem runS_some_iff (ctx : Ctx) (amount : Nat → Nat)
    (hbm : ∀ a b : Int, a ≤ b → ctx.bound a ≤ ctx.bound b) :
    ∀ (es : List Event) (rem : Nat → Nat) (k d nprev : Nat) (prev : Option (Int × Nat)),
      EvOK prev es → (∀ t s, prev = some (t, s) → nprev = ctx.bound t) → (prev = none → nprev = 0) →
      (∀ e ∈ es, ¬ e.earn → 0 < e.amount) →
      (∀ i, nprev ≤ i → rem i = amount i) → sumTo rem nprev + d = sumTo amount nprev →
      ((∃ out, runS ctx rem k es = some out) ↔ Feasible ctx amount d es) := by
  intro es
  induction es with
  | nil => intro rem k d nprev prev _ _ _ _ _ _; simp [runS, Feasible]
  | cons e es ih =>
    intro rem k d nprev prev hev hprev hprev0 hpos hout hsum
    obtain ⟨hev1, hev2⟩ := hev
    have hn : nprev ≤ ctx.bound e.ts := by
      cases prev with
      | none => rw [hprev0 rfl]; omega
      | some ts => obtain ⟨t, s⟩ := ts; rw [hprev t s rfl]; exact hbm _ _ (hev1 t s rfl).1
    -- window total in terms of cumulative amounts
    have hwin : sumTo rem (ctx.bound e.ts) + d = sumTo amount (ctx.bound e.ts) := by
      have := sumTo_split rem amount nprev (ctx.bound e.ts) hn hout
      omega
    have hpos' : ∀ e' ∈ es, ¬ e'.earn → 0 < e'.amount := fun e' he' => hpos e' (List.mem_cons_of_mem _ he')
    unfold runS Feasible
    unfold specEvent
    simp only
    cases hp : pick (ctx.meth e.slot) ctx.L rem (ctx.bound e.ts) with
    | none =>
      have hz := (pick_none_iff _).mp hp
      simp only
      constructor
      · rintro ⟨out, h⟩; cases h
      · intro h
        have hp' := hpos e List.mem_cons_self
        split at h
        · have := h.1; omega
        · rename_i hne
          have := h.1; have := hp' hne; omega
    | some i0 =>
      have hnz : sumTo rem (ctx.bound e.ts) ≠ 0 := fun h => by
        have := (pick_none_iff (m := ctx.meth e.slot) (L := ctx.L) _).mpr h; rw [hp] at this; cases this
      simp only
      by_cases hearn : e.earn
      · simp only [hearn, if_true]
        have := ih rem (k+1) d (ctx.bound e.ts) (some (e.ts, e.slot)) hev2
          (by intro t s h; cases h; rfl) (by intro h; cases h) hpos'
          (fun i hi => hout i (by omega)) hwin
        constructor
        · rintro ⟨out, h⟩
          refine ⟨by omega, this.mp ?_⟩
          cases hr : runS ctx rem (k+1) es with
          | none => rw [hr] at h; cases h
          | some rest => exact ⟨rest, rfl⟩
        · rintro ⟨_, h⟩
          obtain ⟨rest, hr⟩ := this.mpr h
          rw [hr]; exact ⟨_, rfl⟩
      · simp only [hearn]
        have hiff := specConsume_some_iff ctx (ctx.meth e.slot) (ctx.bound e.ts) k (ctx.bound e.ts + 1) rem e.amount
          (by have := posCount_le rem (ctx.bound e.ts); omega) (hpos e List.mem_cons_self hearn)
        constructor
        · rintro ⟨out, h⟩
          cases hc : specConsume ctx (ctx.meth e.slot) (ctx.bound e.ts) k (ctx.bound e.ts + 1) rem e.amount with
          | none => rw [hc] at h; simp at h
          | some res =>
            obtain ⟨fs, rem'⟩ := res
            rw [hc] at h
            simp only [Bool.false_eq_true, if_false] at h
            have hle := hiff.mp ⟨_, hc⟩
            obtain ⟨he1, he2⟩ := specConsume_effect ctx _ _ k _ rem e.amount fs rem' hc
            have := ih rem' (k+1) (d + e.amount) (ctx.bound e.ts) (some (e.ts, e.slot)) hev2
              (by intro t s h; cases h; rfl) (by intro h; cases h) hpos'
              (fun i hi => by rw [he2 i hi]; exact hout i (by omega)) (by omega)
            refine ⟨by omega, this.mp ?_⟩
            cases hr : runS ctx rem' (k+1) es with
            | none => rw [hr] at h; cases h
            | some rest => exact ⟨rest, rfl⟩
        · rintro ⟨hle, h⟩
          obtain ⟨res, hc⟩ := hiff.mpr (by omega)
          obtain ⟨fs, rem'⟩ := res
          obtain ⟨he1, he2⟩ := specConsume_effect ctx _ _ k _ rem e.amount fs rem' hc
          have := ih rem' (k+1) (d + e.amount) (ctx.bound e.ts) (some (e.ts, e.slot)) hev2
            (by intro t s h; cases h; rfl) (by intro h; cases h) hpos'
            (fun i hi => by rw [he2 i hi]; exact hout i (by omega)) (by omega)
          obtain ⟨rest, hr⟩ := this.mpr h
          simp only [Bool.false_eq_true, if_false]
          rw [hc]; simp only; rw [hr]; exact ⟨_, rfl⟩

end Rp2
