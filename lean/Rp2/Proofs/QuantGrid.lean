import Rp2.Proofs.RndExact
import Rp2.Model.Dict
/-! Quantisation on the 10⁻¹¹ grid: a grid value is its own 13-decimal quantisation, so `RP2Decimal`'s tolerant comparisons are exact
comparisons there, and the overdraft test that `BalanceSet.__init__` spells with `is_equal_within_precision(…, 10 decimals)` and `<`
is the model's `belowTol`. -/
namespace Rp2

theorem roundHalfEvenNat_le (n d : Nat) : roundHalfEvenNat n d ≤ n / d + 1 := by
  unfold roundHalfEvenNat
  simp only
  split
  · omega
  · split
    · omega
    · split <;> omega

/-- a value whose denominator divides `10^k` is its own quantisation to `k` decimals -/
theorem quant_exact (k : Nat) (x : ℚ) (h : x.den ∣ 10 ^ k) : quant k x = x := by
  have hden : 0 < x.den := x.den_pos
  unfold quant
  simp only
  have hdvd : x.den ∣ x.num.natAbs * 10 ^ k := Dvd.dvd.mul_left h _
  rw [roundHalfEvenNat_dvd _ _ hden hdvd]
  have hd0' : (x.den : ℚ) ≠ 0 := by exact_mod_cast hden.ne'
  have hcast : (((x.num.natAbs * 10 ^ k / x.den : Nat)) : ℚ) = ((x.num.natAbs * 10 ^ k : Nat) : ℚ) / (x.den : ℚ) := by
    obtain ⟨c, hc⟩ := hdvd
    rw [hc, Nat.mul_div_cancel_left _ hden]; push_cast; field_simp
  have h10 : ((10 ^ k : Nat) : ℚ) ≠ 0 := by positivity
  have hd0 : (x.den : ℚ) ≠ 0 := by exact_mod_cast hden.ne'
  have hv : (((x.num.natAbs * 10 ^ k / x.den : Nat)) : ℚ) / ((10 ^ k : Nat) : ℚ) = |x| := by
    rw [hcast, abs_eq_natAbs_div]; push_cast; field_simp
  rw [hv]
  by_cases hneg : x.num < 0
  · rw [if_pos hneg, abs_of_neg (Rat.num_neg.mp hneg)]; ring
  · rw [if_neg hneg, abs_of_nonneg (Rat.num_nonneg.mp (not_lt.mp hneg))]

theorem quant13_ofUnits (u : Int) : quant 13 (ofUnits u) = ofUnits u :=
  quant_exact 13 _ (Dvd.dvd.trans (ofUnits_den_dvd u) ⟨100, by norm_num⟩)

theorem ofUnits_zero : ofUnits 0 = 0 := by unfold ofUnits; simp
theorem ofUnits_nonneg_iff (u : Int) : 0 ≤ ofUnits u ↔ 0 ≤ u := by
  unfold ofUnits U
  rw [div_nonneg_iff]
  constructor
  · rintro (⟨h, _⟩ | ⟨_, h⟩)
    · exact_mod_cast h
    · norm_num at h
  · intro h; left; exact ⟨by exact_mod_cast h, by norm_num⟩
theorem ofUnits_eq_zero_iff (u : Int) : ofUnits u = 0 ↔ u = 0 := by
  unfold ofUnits U
  rw [div_eq_zero_iff]
  constructor
  · rintro (h | h)
    · exact_mod_cast h
    · norm_num at h
  · intro h; left; exact_mod_cast h

theorem dsub_zero_grid (u : Int) (h : u.natAbs < 10 ^ 31) : dsub (ofUnits u) 0 = ofUnits u := by
  have := dsub_grid_exact u 0 (by simpa using h)
  simpa [ofUnits_zero] using this

/-- `RP2Decimal.__lt__` against zero, on the grid -/
theorem lt13_ofUnits_zero (u : Int) (h : u.natAbs < 10 ^ 31) : lt13 (ofUnits u) 0 = decide (u < 0) := by
  unfold lt13
  rw [dsub_zero_grid u h, quant13_ofUnits]
  by_cases hu : 0 ≤ u
  · have := (ofUnits_nonneg_iff u).mpr hu
    simp [this]; omega
  · have : ¬ (0 ≤ ofUnits u) := fun hc => hu ((ofUnits_nonneg_iff u).mp hc)
    simp [this]; omega

/-- the 10-decimal quantisation of a grid value is a grid value of about the same size -/
theorem quant10_grid (u : Int) : ∃ w : Int, quant 10 (ofUnits u) = ofUnits w ∧ w.natAbs ≤ 10 * (u.natAbs + 1) := by
  have hden : 0 < (ofUnits u).den := (ofUnits u).den_pos
  have hnd := ofUnits_num_den u
  have hnat : (ofUnits u).num.natAbs * 100000000000 = u.natAbs * (ofUnits u).den := by
    have := congrArg Int.natAbs hnd
    simpa [Int.natAbs_mul] using this
  have h10 : (10 : Nat) ^ 10 = 10000000000 := by norm_num
  obtain ⟨r, hrdef⟩ : ∃ r, r = roundHalfEvenNat ((ofUnits u).num.natAbs * 10 ^ 10) (ofUnits u).den := ⟨_, rfl⟩
  have hr : r ≤ u.natAbs + 1 := by
    have h1 := roundHalfEvenNat_le ((ofUnits u).num.natAbs * 10 ^ 10) (ofUnits u).den
    have h2 : (ofUnits u).num.natAbs * 10 ^ 10 / (ofUnits u).den ≤ u.natAbs := by
      apply Nat.div_le_of_le_mul
      rw [h10]
      have hle : (ofUnits u).num.natAbs * 10000000000 ≤ (ofUnits u).num.natAbs * 100000000000 := Nat.mul_le_mul_left _ (by norm_num)
      rw [hnat] at hle
      rw [Nat.mul_comm (ofUnits u).den]; exact hle
    rw [hrdef]; omega
  have hval : ((r : Nat) : ℚ) / ((10 ^ 10 : Nat) : ℚ) = ofUnits (10 * (r : Int)) := by
    unfold ofUnits U; push_cast; field_simp; ring
  unfold quant
  simp only
  rw [← hrdef]
  by_cases hneg : (ofUnits u).num < 0
  · refine ⟨-(10 * (r : Int)), ?_, ?_⟩
    · rw [if_pos hneg, hval]; unfold ofUnits; push_cast; ring
    · rw [Int.natAbs_neg, Int.natAbs_mul]; simp; omega
  · refine ⟨10 * (r : Int), ?_, ?_⟩
    · rw [if_neg hneg]; exact hval
    · rw [Int.natAbs_mul]; simp; omega

/-- `is_equal_within_precision(x, ZERO, 10 decimals)` on the grid: the outer 13-decimal `==` adds nothing -/
theorem eq13_quant10_zero (u : Int) (h : u.natAbs < 10 ^ 29) :
    eq13 (quant 10 (ofUnits u)) 0 = decide (quant 10 (ofUnits u) = 0) := by
  obtain ⟨w, hw, hb⟩ := quant10_grid u
  have hw31 : w.natAbs < 10 ^ 31 := by
    have : 10 * (u.natAbs + 1) < 10 ^ 31 := by
      have : u.natAbs + 1 ≤ 10 ^ 29 := h
      calc 10 * (u.natAbs + 1) ≤ 10 * 10 ^ 29 := Nat.mul_le_mul_left _ this
        _ < 10 ^ 31 := by norm_num
    omega
  unfold eq13
  rw [hw, dsub_zero_grid w hw31, quant13_ofUnits]

/-- **the overdraft test of `BalanceSet.__init__`, as written in Python, is the model's `belowTol`** -/
theorem overdraft_test_eq_belowTol (u : Int) (h : u.natAbs < 10 ^ 29) :
    ((!(eq13 (quant 10 (dsub (ofUnits u) (0 : Rat))) (0 : Rat))) && lt13 (ofUnits u) (0 : Rat)) = belowTol u := by
  have h31 : u.natAbs < 10 ^ 31 := lt_of_lt_of_le h (by norm_num)
  rw [dsub_zero_grid u h31, eq13_quant10_zero u h, lt13_ofUnits_zero u h31]
  unfold belowTol
  by_cases hq : quant 10 (ofUnits u) = 0 <;> simp [hq]

end Rp2
