import Rp2.Proofs.TaxRouting
/-! C16 on the tax-report model: `taxReport` never fails with the `IndexError` branch, and fails with the `KeyError` branch only when some
fraction's transaction type has no sheet — which, with LOST mapped (US map; IE map after fix F11), no taxable type does. -/
namespace Rp2

theorem sum_map_le {α : Type} (f g : α → Nat) : ∀ (l : List α), (∀ a ∈ l, f a ≤ g a) → (l.map f).sum ≤ (l.map g).sum := by
  intro l
  induction l with
  | nil => intro _; simp
  | cons a t ih =>
    intro h
    simp only [List.map_cons, List.sum_cons]
    have := h a (List.mem_cons_self ..)
    have := ih (fun x hx => h x (List.mem_cons_of_mem _ hx))
    omega

theorem sum_map_add {α : Type} (f g : α → Nat) : ∀ (l : List α), (l.map (fun a => f a + g a)).sum = (l.map f).sum + (l.map g).sum := by
  intro l
  induction l with
  | nil => simp
  | cons a t ih => simp only [List.map_cons, List.sum_cons, ih]; omega

theorem one_le_sum_indicator (x : TxType) : ∀ (T : List TxType), x ∈ T → 1 ≤ (T.map (fun t => if x == t then 1 else 0)).sum := by
  intro T
  induction T with
  | nil => intro h; cases h
  | cons a t ih =>
    intro h
    simp only [List.map_cons, List.sum_cons]
    rcases List.mem_cons.mp h with rfl | h'
    · simp
    · have := ih h'; omega

/-- fractions of one asset that go to sheet `s` are at most the sum, over the types of that sheet, of the fractions of that type -/
theorem count_sheet_le (lm : Bool) (s : String) : ∀ (fs : List Numbered),
    (fs.filter (fun n => sheetOf lm n.f.ev.typ == some s)).length ≤
      ((typesOf lm s).map (fun t => (fs.filter (fun f => f.f.ev.typ == t)).length)).sum := by
  intro fs
  induction fs with
  | nil => simp
  | cons n t ih =>
    have hsplit : ((typesOf lm s).map (fun ty => ((n :: t).filter (fun f => f.f.ev.typ == ty)).length)).sum =
        ((typesOf lm s).map (fun ty => (t.filter (fun f => f.f.ev.typ == ty)).length)).sum +
        ((typesOf lm s).map (fun ty => if n.f.ev.typ == ty then 1 else 0)).sum := by
      rw [← sum_map_add]
      congr 1
      apply List.map_congr_left
      intro ty _
      simp only [List.filter_cons]
      split <;> simp
    rw [hsplit]
    simp only [List.filter_cons]
    split
    · rename_i hs
      have hmem : n.f.ev.typ ∈ typesOf lm s := by
        unfold typesOf
        rw [List.mem_filter]
        refine ⟨?_, hs⟩
        cases hty : n.f.ev.typ <;> first | decide | (rw [hty] at hs; cases lm <;> simp [sheetOf] at hs)
      have := one_le_sum_indicator n.f.ev.typ (typesOf lm s) hmem
      simp only [List.length_cons]
      omega
    · omega

theorem allFracs_filter_length (cs : List Computed) (q : Numbered → Bool) :
    ((allFracs cs).filter (fun p => q p.2)).length = (cs.map (fun c => (c.fracs.filter q).length)).sum := by
  unfold allFracs
  induction cs with
  | nil => simp
  | cons c t ih =>
    simp only [List.flatMap_cons, List.filter_append, List.length_append, List.map_cons, List.sum_cons, ih, List.filter_map, List.length_map]
    rfl

/-- the rows a sheet can take are never fewer than the fractions routed to it (each `append_rows` call adds 21 rows more than the
    fractions of its type) -/
theorem capacity_suffices (lm : Bool) (templateRows : Nat) (cs : List Computed) (s : String) (ht : 7 ≤ templateRows) :
    7 + ((allFracs cs).filter (fun p => sheetOf lm p.2.f.ev.typ == some s)).length ≤ capacityAfter lm templateRows cs s := by
  unfold capacityAfter
  rw [allFracs_filter_length cs (fun n => sheetOf lm n.f.ev.typ == some s)]
  have : (cs.map (fun c => (c.fracs.filter (fun n => sheetOf lm n.f.ev.typ == some s)).length)).sum ≤
      (cs.map fun c => ((typesOf lm s).map fun t => 20 + (c.fracs.filter (fun f => f.f.ev.typ == t)).length + 1).sum).sum := by
    apply sum_map_le
    intro c _
    refine Nat.le_trans (count_sheet_le lm s c.fracs) ?_
    apply sum_map_le
    intro t _; omega
  omega

theorem filter_sheet_length (lm : Bool) (period : Int) (s : String) : ∀ (fs : List (String × Numbered)) (idx : List (String × Nat)),
    ((routeFracs lm period idx fs).1.filter (fun r => r.sheet == s)).length = (fs.filter (fun p => sheetOf lm p.2.f.ev.typ == some s)).length := by
  intro fs
  induction fs with
  | nil => intro idx; simp [routeFracs]
  | cons p t ih =>
    intro idx
    obtain ⟨a, n⟩ := p
    simp only [routeFracs]
    cases hs : sheetOf lm n.f.ev.typ with
    | none => simp only [List.filter_cons, hs]; rw [ih]; simp
    | some s' =>
      simp only [List.filter_cons, hs, mkTRow]
      by_cases he : s' = s
      · subst he; simp [ih]
      · have h1 : (s' == s) = false := by simp [he]
        have h2 : (some s' == some s) = false := by simp [he]
        simp [h1, h2, ih]

/-- **C16 on the tax-report model**: the only way `taxReport` can fail is a fraction whose transaction type has no sheet -/
theorem taxReport_total (lm : Bool) (period : Int) (templateRows : Nat) (cs : List Computed) (ht : 7 ≤ templateRows)
    (hty : ∀ p ∈ allFracs cs, (sheetOf lm p.2.f.ev.typ).isSome) : ∃ r, taxReport lm period templateRows cs = .ok r := by
  unfold taxReport
  have hnone : ((allFracs cs).any (fun p => (sheetOf lm p.2.f.ev.typ).isNone)) = false := by
    rw [List.any_eq_false]
    intro p hp
    have := hty p hp
    cases h : sheetOf lm p.2.f.ev.typ <;> simp [h] at this ⊢
  rw [if_neg (by simp [hnone])]
  have hk : ∀ t s, sheetOf lm t = some s → s ∈ (allSheets.map (·, 7)).map (·.1) := by
    intro t s hts
    have hs : s ∈ allSheets := by cases t <;> cases lm <;> simp [sheetOf] at hts <;> subst hts <;> decide
    simpa [List.map_map, Function.comp_def] using hs
  have hget7 : ∀ s ∈ allSheets, getS (allSheets.map (·, 7)) s = 7 := by decide
  obtain ⟨_, _, _, _, h5⟩ := routeFracs_spec lm period (allFracs cs) (allSheets.map (·, 7)) hk
  obtain ⟨h6, h7⟩ := routeFracs_sheets lm period (allFracs cs) (allSheets.map (·, 7)) hk
  have hcap : ((routeFracs lm period (allSheets.map (·, 7)) (allFracs cs)).1.any
      (fun r => decide (capacityAfter lm templateRows cs r.sheet < r.row))) = false := by
    rw [List.any_eq_false]
    intro r hr
    have hrs : r.sheet ∈ allSheets := by
      have : (r.asset, r.sheet) ∈ (routeFracs lm period (allSheets.map (·, 7)) (allFracs cs)).1.map (fun r => (r.asset, r.sheet)) :=
        List.mem_map.mpr ⟨r, hr, rfl⟩
      rw [h6] at this
      obtain ⟨p, _, hp⟩ := List.mem_filterMap.mp this
      cases hso : sheetOf lm p.2.f.ev.typ with
      | none => simp [hso] at hp
      | some s =>
        simp [hso] at hp
        rw [← hp.2]
        cases hty' : p.2.f.ev.typ <;> cases lm <;> simp [sheetOf, hty'] at hso <;> subst hso <;> decide
    have h1 := h5 r hr
    have h2 := h7 r.sheet (by simpa [List.map_map, Function.comp_def] using hrs)
    rw [hget7 _ hrs, filter_sheet_length] at h2
    have h3 := capacity_suffices lm templateRows cs r.sheet ht
    simp only [decide_eq_true_eq]
    omega
  simp only
  rw [if_neg (by simp [hcap])]
  exact ⟨_, rfl⟩

end Rp2
