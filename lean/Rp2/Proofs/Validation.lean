import Rp2.Model.Parser
/-! Validation theorems for C12: a row that is accepted satisfies every documented constraint; contrapositively each
documented fault makes the row constructor — and therefore the whole parse — fail. -/
namespace Rp2

theorem bind_eq_ok {ε α β} {x : Except ε α} {f : α → Except ε β} {b : β} :
    (x >>= f) = Except.ok b ↔ ∃ a, x = Except.ok a ∧ f a = Except.ok b := by
  cases x <;> simp [bind, Except.bind]
theorem ensure_ok {c : Bool} {msg : String} {u : Unit} : ensure c msg = Except.ok u ↔ c = true := by
  unfold ensure; cases c <;> simp
theorem optAll_ok {o : Option Int} {p : Int → Bool} {msg : String} {u : Unit} :
    optAll o p msg = Except.ok u ↔ ∀ v, o = some v → p v = true := by
  unfold optAll; rw [ensure_ok]; cases o <;> simp
theorem known_ok {l : List String} {s what : String} {u : Unit} : known l s what = Except.ok u ↔ s ∈ l := by
  unfold known; split <;> simp_all
theorem ofOpt_ok {α} {o : Option α} {msg : String} {a : α} : ofOpt o msg = Except.ok a ↔ o = some a := by
  unfold ofOpt; cases o <;> simp
theorem needNum_ok {name : String} {o : Option (Option Int)} {v : Int} : needNum name o = Except.ok v ↔ o = some (some v) := by
  unfold needNum; split <;> simp_all
theorem tsArg_ok {cols row} {s : Stamp} : tsArg cols row = Except.ok s → ∃ str, field cols row "timestamp" = some (.str str (.aware s.us s.off)) := by
  unfold tsArg; split
  · rename_i str us off heq; intro h; cases h; exact ⟨str, heq⟩
  · intro h; cases h
  · intro h; cases h
theorem strArg_ok {cols row name} {s : String} : strArg cols row name = Except.ok s → ∃ ts, field cols row name = some (.str s ts) := by
  unfold strArg; split <;> simp_all
theorem numArg_str {cols row name s ts} (h : field cols row name = some (.str s ts)) : ∃ m, numArg cols row name = .error m := by
  unfold numArg; rw [h]; exact ⟨_, rfl⟩

/-- an accepted IN row: known asset equal to the sheet's, known exchange and holder, timestamp with a time zone,
    a type the IN table allows, positive spot price, positive amount (staking excepted), not both a crypto and a fiat
    fee, non-negative fees, positive supplied fiat values -/
theorem mkInRow_ok (cfg : Config) (asset : String) (acct : String → String → Nat) (r : Nat) (row : List Cell) (p : ParsedIn)
    (h : mkInRow cfg asset acct r row = .ok p) :
    asset ∈ cfg.assets ∧ (∃ ts, field cfg.inCols row "asset" = some (.str asset ts)) ∧
    p.exch ∈ cfg.exchanges ∧ p.holder ∈ cfg.holders ∧
    (∃ s, field cfg.inCols row "timestamp" = some (.str s (.aware p.tx.ts.us p.tx.ts.off))) ∧
    (p.tx.typ = .buy ∨ p.tx.typ = .gift ∨ p.tx.typ = .donate ∨ p.tx.typ.isEarn = true) ∧
    0 < p.tx.price ∧ (p.tx.typ ≠ .staking → 0 < p.tx.amount) ∧ 0 ≤ p.cryptoFee ∧ p.tx.row = r := by
  unfold mkInRow at h
  simp only [bind_eq_ok, ensure_ok, optAll_ok, known_ok, ofOpt_ok, needNum_ok, pure, Except.pure, Except.ok.injEq] at h
  obtain ⟨_, _, price, hprice, cin, hcin, cfee, hcfee, fnf, hfnf, fwf, hfwf, ffee, hffee, a, ha, _, hka, ts, hts, typS, htypS, typ, htyp,
    pv, hpv, _, hp0, _, hnotes, ex, hex, _, hkex, ho, hho, _, hkho, cv, hcv, _, hpos, _, hcf0, _, hff0, _, hpne, _, hboth, _, hfnf0, _, hfwf0,
    _, htypok, _, hasset, _, hsplit, hp⟩ := h
  subst hp
  simp only [decide_eq_true_eq, Bool.or_eq_true] at hka hkex hkho hp0 hpos hcf0 hff0 hpne htypok hasset
  subst hasset
  refine ⟨hka, ?_, hkex, hkho, tsArg_ok hts, ?_, (by show (0 : Int) < pv; omega), ?_, hcf0, by first | rfl | trivial⟩
  · obtain ⟨t, ht⟩ := strArg_ok ha; exact ⟨t, ht⟩
  · rcases htypok with ((h1 | h1) | h1) | h1
    · exact Or.inl h1
    · exact Or.inr (Or.inl h1)
    · exact Or.inr (Or.inr (Or.inl h1))
    · exact Or.inr (Or.inr (Or.inr h1))
  · intro hs; rcases hpos with h1 | h1
    · exact absurd h1 hs
    · exact h1

/-- an accepted OUT row -/
theorem mkOutRow_ok (cfg : Config) (asset : String) (acct : String → String → Nat) (r : Nat) (row : List Cell) (t : OutTx)
    (h : mkOutRow cfg asset acct r row = .ok t) :
    asset ∈ cfg.assets ∧ (∃ ts, field cfg.outCols row "asset" = some (.str asset ts)) ∧
    (∃ s, field cfg.outCols row "timestamp" = some (.str s (.aware t.ts.us t.ts.off))) ∧
    (t.typ = .donate ∨ t.typ = .fee ∨ t.typ = .gift ∨ t.typ = .lost ∨ t.typ = .sell ∨ t.typ = .staking) ∧
    (t.typ = .fee → t.outNoFee = 0 ∧ 0 < t.fee) ∧ (t.typ ≠ .fee → 0 < t.price ∧ 0 < t.outNoFee ∧ 0 ≤ t.fee) ∧ t.row = r := by
  unfold mkOutRow at h
  simp only [bind_eq_ok, ensure_ok, optAll_ok, known_ok, ofOpt_ok, needNum_ok, pure, Except.pure, Except.ok.injEq] at h
  obtain ⟨_, _, price, hprice, onf, honf, fee, hfee, owf, howf, fnf, hfnf, ffee, hffee, a, ha, _, hka, ts, hts, typS, htypS, typ, htyp,
    pv, hpv, _, hp0, _, hnotes, ex, hex, _, hkex, ho, hho, _, hkho, ov, hov, fv, hfv, _, hamts, _, h1, _, h2, _, h3, _, htypok, _, hasset, hp⟩ := h
  subst hp
  simp only [decide_eq_true_eq, Bool.or_eq_true] at hasset htypok hp0
  subst hasset
  refine ⟨hka, ?_, tsArg_ok hts, ?_, ?_, ?_, rfl⟩
  · obtain ⟨t, ht⟩ := strArg_ok ha; exact ⟨t, ht⟩
  · simp only [mkOut]
    rcases htypok with ((((h1 | h1) | h1) | h1) | h1) | h1 <;> simp [h1]
  · intro hf; simp only [mkOut] at hf ⊢; simp only [hf, if_true, Bool.and_eq_true, decide_eq_true_eq] at hamts; exact hamts
  · intro hf; simp only [mkOut] at hf ⊢; simp only [hf, if_false, Bool.and_eq_true, decide_eq_true_eq] at hamts
    exact ⟨by omega, hamts.1.2, hamts.2⟩

/-- an accepted INTRA row: positive amount sent, not more received than sent, a spot price whenever there is a fee -/
theorem mkIntraRow_ok (cfg : Config) (asset : String) (acct : String → String → Nat) (r : Nat) (row : List Cell) (t : IntraTx)
    (h : mkIntraRow cfg asset acct r row = .ok t) :
    asset ∈ cfg.assets ∧ (∃ ts, field cfg.intraCols row "asset" = some (.str asset ts)) ∧
    (∃ s, field cfg.intraCols row "timestamp" = some (.str s (.aware t.ts.us t.ts.off))) ∧
    0 < t.sent ∧ 0 ≤ t.recv ∧ t.recv ≤ t.sent ∧ (t.recv < t.sent → 0 < t.price) ∧ t.row = r := by
  unfold mkIntraRow at h
  simp only [bind_eq_ok, ensure_ok, known_ok, needNum_ok, pure, Except.pure, Except.ok.injEq] at h
  obtain ⟨_, _, price, hprice, sent, hsent, recv, hrecv, sv, hsv, _, hs0, rv, hrv, _, hr0, _, hfee, a, ha, _, hka, ts, hts, _, hp0, _, hnotes,
    fe, hfe, _, hkfe, fh, hfh, _, hkfh, te, hte, _, hkte, th, hth, _, hkth, _, hle, _, hasset, hp⟩ := h
  subst hp
  simp only [decide_eq_true_eq, Bool.or_eq_true] at *
  subst hasset
  refine ⟨hka, ?_, tsArg_ok hts, hs0, hr0, hle, ?_, by first | rfl | trivial⟩
  · obtain ⟨t, ht⟩ := strArg_ok ha; exact ⟨t, ht⟩
  · intro hlt; simp only [mkIntra] at hlt ⊢
    rcases hfee with h1 | h1
    · omega
    · omega

end Rp2
