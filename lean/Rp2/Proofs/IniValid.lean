import Rp2.Model.Ini
/-! C12 for the configuration file: what an accepted configuration guarantees. -/
namespace Rp2.Ini
open Rp2

theorem stringSet_ok (field : String) (items : List (String × String)) (vals : List String) (h : stringSet field items = .ok vals) :
    vals ≠ [] ∧ vals.Nodup ∧ (∀ v ∈ vals, v ≠ "") ∧ ∃ raw, lookup items field = some raw ∧ vals = (raw.splitOn ",").map strip := by
  unfold stringSet at h
  split at h
  · cases h
  · rename_i v hv
    split at h
    · cases h
    · simp only at h
      split at h
      · cases h
      · rename_i hemp
        split at h
        · cases h
        · rename_i hne
          split at h
          · cases h
          · rename_i hnd
            simp only [Except.ok.injEq] at h
            subst h
            refine ⟨?_, by simpa using hnd, ?_, v, hv, rfl⟩
            · intro hnil
              apply hemp
              rw [hnil]; rfl
            · intro x hx hx0
              apply hne
              rw [List.any_eq_true]
              exact ⟨x, hx, by simp [hx0]⟩

/-- invariant of the header map under construction: names allowed, columns pairwise distinct -/
def HeaderOk (allowed : List String) (m : List (String × Nat)) : Prop :=
  (m.map (·.2)).Nodup ∧ ∀ p ∈ m, ∃ k ∈ allowed, p.1 = strip k

theorem headerStep_ok (allowed : List String) (acc acc' : List (String × Nat)) (kv : String × String)
    (h : headerStep allowed acc kv = .ok acc') (hacc : HeaderOk allowed acc) : HeaderOk allowed acc' ∧ acc'.length = acc.length + 1 := by
  unfold headerStep at h
  split at h
  · cases h
  · rename_i c hc
    split at h
    · cases h
    · split at h
      · cases h
      · rename_i hdup
        split at h
        · cases h
        · rename_i hall
          simp only [Except.ok.injEq] at h
          subst h
          refine ⟨⟨?_, ?_⟩, by simp⟩
          · rw [List.map_append, List.nodup_append]
            refine ⟨hacc.1, by simp, ?_⟩
            intro a ha b hb
            simp only [List.map_cons, List.map_nil, List.mem_singleton] at hb
            subst hb
            intro e; subst e
            apply hdup
            obtain ⟨p, hp, hpe⟩ := List.mem_map.mp ha
            rw [List.any_eq_true]
            exact ⟨p, hp, by simp [hpe]⟩
          · intro p hp
            rcases List.mem_append.mp hp with hp | hp
            · exact hacc.2 p hp
            · simp only [List.mem_singleton] at hp
              subst hp
              refine ⟨kv.1, ?_, rfl⟩
              simpa using hall

theorem foldlM_headerStep_ok (allowed : List String) : ∀ (items : List (String × String)) (acc r : List (String × Nat)),
    items.foldlM (headerStep allowed) acc = .ok r → HeaderOk allowed acc → HeaderOk allowed r ∧ r.length = acc.length + items.length := by
  intro items
  induction items with
  | nil => intro acc r h hacc; simp only [List.foldlM_nil, pure, Except.pure, Except.ok.injEq] at h; subst h; exact ⟨hacc, by simp⟩
  | cons kv t ih =>
    intro acc r h hacc
    simp only [List.foldlM_cons, bind, Except.bind] at h
    cases hs : headerStep allowed acc kv with
    | error e => rw [hs] at h; cases h
    | ok acc' =>
      rw [hs] at h
      obtain ⟨h1, h2⟩ := headerStep_ok allowed acc acc' kv hs hacc
      obtain ⟨h3, h4⟩ := ih acc' r h h1
      exact ⟨h3, by simp only [List.length_cons]; omega⟩

theorem headerSection_ok (allowed : List String) (items : List (String × String)) (m : List (String × Nat))
    (h : headerSection allowed items = .ok m) : HeaderOk allowed m ∧ m ≠ [] ∧ m.length = items.length := by
  unfold headerSection at h
  split at h
  · cases h
  · rename_i hne
    obtain ⟨h1, h2⟩ := foldlM_headerStep_ok allowed items [] m h ⟨by simp, by simp⟩
    refine ⟨h1, ?_, by simpa using h2⟩
    intro hnil
    subst hnil
    simp at h2
    apply hne
    cases items with
    | nil => rfl
    | cons a t => simp at h2

theorem setYear_years (l : List (Int × String)) (y : Int) (m : String) (hl : ∀ p ∈ l, 1970 ≤ p.1) (hy : 1970 ≤ y) : ∀ p ∈ setYear l y m, 1970 ≤ p.1 := by
  unfold setYear
  split
  · intro p hp
    obtain ⟨q, hq, rfl⟩ := List.mem_map.mp hp
    split
    · exact hy
    · exact hl q hq
  · intro p hp
    rcases List.mem_append.mp hp with hp | hp
    · exact hl p hp
    · simp only [List.mem_singleton] at hp; subst hp; exact hy

theorem foldlM_methodStep_ok : ∀ (items : List (String × String)) (acc r : List (Int × String)),
    items.foldlM methodStep acc = .ok r → (∀ p ∈ acc, 1970 ≤ p.1) → ∀ p ∈ r, 1970 ≤ p.1 := by
  intro items
  induction items with
  | nil => intro acc r h hacc; simp only [List.foldlM_nil, pure, Except.pure, Except.ok.injEq] at h; subst h; exact hacc
  | cons kv t ih =>
    intro acc r h hacc
    simp only [List.foldlM_cons, bind, Except.bind] at h
    cases hs : methodStep acc kv with
    | error e => rw [hs] at h; cases h
    | ok acc' =>
      rw [hs] at h
      apply ih acc' r h
      unfold methodStep at hs
      split at hs
      · cases hs
      · rename_i y _
        split at hs
        · cases hs
        · rename_i hy
          simp only [Except.ok.injEq] at hs
          subst hs
          exact setYear_years acc y _ hacc (by omega)

/-- what the accumulated state guarantees after any number of sections -/
structure AccOk (a : Acc) : Prop where
  assets : a.assets = [] ∨ (a.assets.Nodup ∧ ∀ v ∈ a.assets, v ≠ "")
  exchanges : a.exchanges = [] ∨ (a.exchanges.Nodup ∧ ∀ v ∈ a.exchanges, v ≠ "")
  holders : a.holders = [] ∨ (a.holders.Nodup ∧ ∀ v ∈ a.holders, v ≠ "")
  inH : HeaderOk inAllowed a.inH
  outH : HeaderOk outAllowed a.outH
  intraH : HeaderOk intraAllowed a.intraH
  methods : ∀ p ∈ a.methods, 1970 ≤ p.1

theorem sectionStep_ok (genSec : Bool) (a a' : Acc) (s : Section) (h : sectionStep genSec a s = .ok a') (ha : AccOk a) :
    AccOk a' ∧ normName s.name ∈ ["general", "in_header", "out_header", "intra_header", "accounting_methods"] := by
  unfold sectionStep at h
  simp only at h
  split at h
  · cases h
  by_cases h1 : (normName s.name == "general") = true
  · rw [if_pos h1] at h
    refine ⟨?_, by simp at h1; simp [h1]⟩
    split at h
    · cases h
    · simp only [bind, Except.bind] at h
      cases hA : stringSet "assets" s.items with
      | error e => rw [hA] at h; cases h
      | ok as =>
        rw [hA] at h; simp only at h
        cases hX : stringSet "exchanges" s.items with
        | error e => rw [hX] at h; cases h
        | ok xs =>
          rw [hX] at h; simp only at h
          cases hH : stringSet "holders" s.items with
          | error e => rw [hH] at h; cases h
          | ok hs =>
            rw [hH] at h; simp only at h
            obtain ⟨_, a2, a3, _⟩ := stringSet_ok _ _ _ hA
            obtain ⟨_, x2, x3, _⟩ := stringSet_ok _ _ _ hX
            obtain ⟨_, h2, h3, _⟩ := stringSet_ok _ _ _ hH
            split at h
            · cases hG : stringSet "generators" s.items with
              | error e => rw [hG] at h; cases h
              | ok gs =>
                rw [hG] at h
                simp only [pure, Except.pure, Except.ok.injEq] at h
                subst h
                exact ⟨Or.inr ⟨a2, a3⟩, Or.inr ⟨x2, x3⟩, Or.inr ⟨h2, h3⟩, ha.inH, ha.outH, ha.intraH, ha.methods⟩
            · simp only [pure, Except.pure, Except.ok.injEq] at h
              subst h
              exact ⟨Or.inr ⟨a2, a3⟩, Or.inr ⟨x2, x3⟩, Or.inr ⟨h2, h3⟩, ha.inH, ha.outH, ha.intraH, ha.methods⟩
  rw [if_neg h1] at h
  by_cases h2 : (normName s.name == "in_header") = true
  · rw [if_pos h2] at h
    refine ⟨?_, by simp at h2; simp [h2]⟩
    split at h
    · cases h
    · cases hs : headerSection inAllowed s.items with
      | error e => rw [hs] at h; cases h
      | ok m =>
        rw [hs] at h; simp only [Except.map, Except.ok.injEq] at h; subst h
        exact ⟨ha.assets, ha.exchanges, ha.holders, (headerSection_ok _ _ _ hs).1, ha.outH, ha.intraH, ha.methods⟩
  rw [if_neg h2] at h
  by_cases h3 : (normName s.name == "out_header") = true
  · rw [if_pos h3] at h
    refine ⟨?_, by simp at h3; simp [h3]⟩
    split at h
    · cases h
    · cases hs : headerSection outAllowed s.items with
      | error e => rw [hs] at h; cases h
      | ok m =>
        rw [hs] at h; simp only [Except.map, Except.ok.injEq] at h; subst h
        exact ⟨ha.assets, ha.exchanges, ha.holders, ha.inH, (headerSection_ok _ _ _ hs).1, ha.intraH, ha.methods⟩
  rw [if_neg h3] at h
  by_cases h4 : (normName s.name == "intra_header") = true
  · rw [if_pos h4] at h
    refine ⟨?_, by simp at h4; simp [h4]⟩
    split at h
    · cases h
    · cases hs : headerSection intraAllowed s.items with
      | error e => rw [hs] at h; cases h
      | ok m =>
        rw [hs] at h; simp only [Except.map, Except.ok.injEq] at h; subst h
        exact ⟨ha.assets, ha.exchanges, ha.holders, ha.inH, ha.outH, (headerSection_ok _ _ _ hs).1, ha.methods⟩
  rw [if_neg h4] at h
  by_cases h5 : (normName s.name == "accounting_methods") = true
  · rw [if_pos h5] at h
    refine ⟨?_, by simp at h5; simp [h5]⟩
    split at h
    · cases h
    · cases hs : methodSection s.items with
      | error e => rw [hs] at h; cases h
      | ok m =>
        rw [hs] at h; simp only [Except.map, Except.ok.injEq] at h; subst h
        refine ⟨ha.assets, ha.exchanges, ha.holders, ha.inH, ha.outH, ha.intraH, ?_⟩
        unfold methodSection at hs
        split at hs
        · cases hs
        · exact foldlM_methodStep_ok _ _ _ hs (by simp)
  rw [if_neg h5] at h
  cases h

theorem foldlM_sectionStep_ok (genSec : Bool) : ∀ (secs : List Section) (a r : Acc),
    secs.foldlM (sectionStep genSec) a = .ok r → AccOk a →
    AccOk r ∧ ∀ s ∈ secs, normName s.name ∈ ["general", "in_header", "out_header", "intra_header", "accounting_methods"] := by
  intro secs
  induction secs with
  | nil => intro a r h ha; simp only [List.foldlM_nil, pure, Except.pure, Except.ok.injEq] at h; subst h; exact ⟨ha, by simp⟩
  | cons s t ih =>
    intro a r h ha
    simp only [List.foldlM_cons, bind, Except.bind] at h
    cases hs : sectionStep genSec a s with
    | error e => rw [hs] at h; cases h
    | ok a' =>
      rw [hs] at h
      obtain ⟨h1, h2⟩ := sectionStep_ok genSec a a' s hs ha
      obtain ⟨h3, h4⟩ := ih a' r h h1
      refine ⟨h3, ?_⟩
      intro x hx
      rcases List.mem_cons.mp hx with rfl | hx
      · exact h2
      · exact h4 x hx

/-- **C12 for the configuration file**: an accepted configuration has non-empty, duplicate-free lists of assets, exchanges and holders
    without empty names; each of the three header maps is non-empty, uses only column names of its table and gives every name its own
    column; every section of the file is one of the five known ones; accounting-method years are not before 1970 -/
theorem ofIni_ok (secs : List Section) (c : IniConfig) (h : ofIni secs = .ok c) :
    (c.cfg.assets ≠ [] ∧ c.cfg.assets.Nodup ∧ ∀ v ∈ c.cfg.assets, v ≠ "") ∧
    (c.cfg.exchanges ≠ [] ∧ c.cfg.exchanges.Nodup ∧ ∀ v ∈ c.cfg.exchanges, v ≠ "") ∧
    (c.cfg.holders ≠ [] ∧ c.cfg.holders.Nodup ∧ ∀ v ∈ c.cfg.holders, v ≠ "") ∧
    (c.cfg.inCols ≠ [] ∧ HeaderOk inAllowed c.cfg.inCols) ∧ (c.cfg.outCols ≠ [] ∧ HeaderOk outAllowed c.cfg.outCols) ∧
    (c.cfg.intraCols ≠ [] ∧ HeaderOk intraAllowed c.cfg.intraCols) ∧
    (∀ s ∈ secs, normName s.name ∈ ["general", "in_header", "out_header", "intra_header", "accounting_methods"]) ∧
    (∀ p ∈ c.methods, 1970 ≤ p.1) := by
  unfold ofIni at h
  simp only [bind, Except.bind] at h
  split at h
  · cases h
  · rename_i a ha
    obtain ⟨hok, hsec⟩ := foldlM_sectionStep_ok _ secs {} a ha
      ⟨Or.inl rfl, Or.inl rfl, Or.inl rfl, ⟨by simp, by simp⟩, ⟨by simp, by simp⟩, ⟨by simp, by simp⟩, by simp⟩
    unfold finish at h
    split at h; · cases h
    rename_i e1
    split at h; · cases h
    rename_i e2
    split at h; · cases h
    rename_i e3
    split at h; · cases h
    rename_i e4
    split at h; · cases h
    rename_i e5
    split at h; · cases h
    rename_i e6
    simp only [Except.ok.injEq] at h
    subst h
    have ne : ∀ {α : Type} (l : List α), ¬ l.isEmpty = true → l ≠ [] := by intro α l hl hnil; subst hnil; simp at hl
    refine ⟨⟨ne _ e1, ?_⟩, ⟨ne _ e2, ?_⟩, ⟨ne _ e3, ?_⟩, ⟨ne _ e4, hok.inH⟩, ⟨ne _ e5, hok.outH⟩, ⟨ne _ e6, hok.intraH⟩, hsec, hok.methods⟩
    · rcases hok.assets with h | h; exact absurd h (ne _ e1); exact h
    · rcases hok.exchanges with h | h; exact absurd h (ne _ e2); exact h
    · rcases hok.holders with h | h; exact absurd h (ne _ e3); exact h

end Rp2.Ini
