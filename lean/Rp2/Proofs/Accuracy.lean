import Rp2.Proofs.RndErr
/-! C04 accuracy: every figure of a fraction agrees with exact rational arithmetic to a few units in the 31st digit. -/
namespace Rp2

/-- ε = 5·10⁻³¹: the relative error of one operation in the 31-digit decimal context -/
def eps31 : ℚ := 1 / (2 * 10 ^ 30)

theorem rnd31_err (x : ℚ) : |rnd 31 x - x| ≤ eps31 * |x| := by
  have := rnd_rel_err 31 (by norm_num) x
  unfold eps31
  have h : |x| / (2 * 10 ^ (31 - 1)) = 1 / (2 * 10 ^ 30) * |x| := by norm_num; ring
  rw [h] at this; exact this

theorem eps31_nonneg : 0 ≤ eps31 := by unfold eps31; positivity

theorem ofUnits_ne_zero (n : Int) (h : n ≠ 0) : ofUnits n ≠ 0 := by
  unfold ofUnits U
  have : ((100000000000 : Nat) : ℚ) ≠ 0 := by norm_num
  exact div_ne_zero (by exact_mod_cast h) this

/-- proceeds of a fraction vs. the exact pro-rated taxable value -/
theorem proceeds_accuracy (f : Fraction) (hE : f.ev.amount ≠ 0) :
    |f.proceeds - f.ev.fiatTaxable * ofUnits f.amt / ofUnits f.ev.amount| ≤
      (2 * eps31 + eps31 ^ 2) * |f.ev.fiatTaxable * ofUnits f.amt / ofUnits f.ev.amount| := by
  unfold Fraction.proceeds ddiv dmul
  exact two_roundings (rnd 31) eps31 eps31_nonneg rnd31_err _ _ _ (ofUnits_ne_zero _ hE)

/-- cost basis of a fraction vs. the exact pro-rated lot cost -/
theorem cost_accuracy (f : Fraction) (l : InTx) (hl : f.lot = some l) (hA : l.amount ≠ 0) :
    |f.cost - l.fiatWithFee * ofUnits f.amt / ofUnits l.amount| ≤
      (2 * eps31 + eps31 ^ 2) * |l.fiatWithFee * ofUnits f.amt / ofUnits l.amount| := by
  unfold Fraction.cost
  simp only [hl, ddiv, dmul]
  exact two_roundings (rnd 31) eps31 eps31_nonneg rnd31_err _ _ _ (ofUnits_ne_zero _ hA)

/-- gain vs. exact proceeds − exact cost, relative to the operands (a relative bound on the difference itself is impossible under
    cancellation) -/
theorem gain_accuracy (p c pX cX : ℚ) (δ : ℚ) (hδ : 0 ≤ δ) (hp : |p - pX| ≤ δ * |pX|) (hc : |c - cX| ≤ δ * |cX|) :
    |rnd 31 (p - c) - (pX - cX)| ≤ (δ + eps31 * (1 + δ)) * (|pX| + |cX|) := by
  have h1 := rnd31_err (p - c)
  have hp' : |p| ≤ (1 + δ) * |pX| := by
    have : |p| ≤ |p - pX| + |pX| := by
      have := abs_add_le (p - pX) pX; simpa using this
    nlinarith [abs_nonneg pX]
  have hc' : |c| ≤ (1 + δ) * |cX| := by
    have : |c| ≤ |c - cX| + |cX| := by
      have := abs_add_le (c - cX) cX; simpa using this
    nlinarith [abs_nonneg cX]
  have hpc : |p - c| ≤ |p| + |c| := abs_sub p c
  have h2 : |(p - c) - (pX - cX)| ≤ |p - pX| + |c - cX| := by
    have : (p - c) - (pX - cX) = (p - pX) - (c - cX) := by ring
    rw [this]; exact abs_sub _ _
  have h3 : |rnd 31 (p - c) - (pX - cX)| ≤ |rnd 31 (p - c) - (p - c)| + |(p - c) - (pX - cX)| := by
    have : rnd 31 (p - c) - (pX - cX) = (rnd 31 (p - c) - (p - c)) + ((p - c) - (pX - cX)) := by ring
    rw [this]; exact abs_add_le _ _
  have he := eps31_nonneg
  nlinarith [abs_nonneg pX, abs_nonneg cX, abs_nonneg (p - c), mul_nonneg he (abs_nonneg (p-c))]

/-- the constants: 2ε+ε² and δ+ε(1+δ) are below 1.01·10⁻³⁰ and 1.51·10⁻³⁰ — sixteen orders of magnitude inside the property's 10⁻¹⁵ -/
theorem constants_small : 2 * eps31 + eps31 ^ 2 ≤ 101 / 100 * (1 / 10 ^ 30) ∧
    (2 * eps31 + eps31 ^ 2) + eps31 * (1 + (2 * eps31 + eps31 ^ 2)) ≤ 151 / 100 * (1 / 10 ^ 30) := by
  unfold eps31; constructor <;> norm_num

end Rp2
