import Mathlib.Tactic.Ring
import Mathlib.Tactic.Linarith
import Mathlib.Tactic.FieldSimp
import Mathlib.Tactic.Positivity
import Mathlib.Tactic.NormNum
import Mathlib.Algebra.Order.Field.Rat
import Mathlib.Algebra.Order.Field.Basic
import Mathlib.Algebra.Order.AbsoluteValue.Basic
import Mathlib.Data.Rat.Cast.Order
import Mathlib.Algebra.BigOperators.Group.List.Basic
import Rp2.Model.Pipeline
/-! Analytic lemmas for C04 (single Mathlib modules; the model itself stays Mathlib-free). -/
namespace Rp2

/-- composite relative error of `r (r (F*a) / E)` when `r` is a rounding with relative error `ε` -/
theorem two_roundings (r : ℚ → ℚ) (ε : ℚ) (hε : 0 ≤ ε) (hr : ∀ x, |r x - x| ≤ ε * |x|)
    (F a E : ℚ) (hE : E ≠ 0) :
    |r (r (F * a) / E) - F * a / E| ≤ (2 * ε + ε ^ 2) * |F * a / E| := by
  have h1 := hr (F * a)
  have h2 := hr (r (F * a) / E)
  have hEpos : 0 < |E| := abs_pos.mpr hE
  have h3 : |r (F * a) / E - F * a / E| ≤ ε * |F * a / E| := by
    rw [← sub_div, abs_div, abs_div]
    rw [← mul_div_assoc]
    exact div_le_div_of_nonneg_right h1 hEpos.le
  have h4 : |r (F * a) / E| ≤ (1 + ε) * |F * a / E| := by
    have : r (F * a) / E = (r (F * a) / E - F * a / E) + F * a / E := by ring
    calc |r (F * a) / E| = |(r (F * a) / E - F * a / E) + F * a / E| := by rw [← this]
      _ ≤ |r (F * a) / E - F * a / E| + |F * a / E| := abs_add_le _ _
      _ ≤ ε * |F * a / E| + |F * a / E| := by linarith
      _ = (1 + ε) * |F * a / E| := by ring
  calc |r (r (F * a) / E) - F * a / E|
      = |(r (r (F * a) / E) - r (F * a) / E) + (r (F * a) / E - F * a / E)| := by ring_nf
    _ ≤ |r (r (F * a) / E) - r (F * a) / E| + |r (F * a) / E - F * a / E| := abs_add_le _ _
    _ ≤ ε * |r (F * a) / E| + ε * |F * a / E| := by linarith
    _ ≤ ε * ((1 + ε) * |F * a / E|) + ε * |F * a / E| := by
        have := mul_le_mul_of_nonneg_left h4 hε
        linarith
    _ = (2 * ε + ε ^ 2) * |F * a / E| := by ring

theorem roundHalfEvenNat_err (n d : Nat) (hd : 0 < d) :
    |((roundHalfEvenNat n d : Nat) : ℚ) - (n : ℚ) / (d : ℚ)| ≤ 1 / 2 := by
  have hdq : (0 : ℚ) < d := by exact_mod_cast hd
  have hdiv : (n : ℚ) = (d : ℚ) * ((n / d : Nat) : ℚ) + ((n % d : Nat) : ℚ) := by
    exact_mod_cast (Nat.div_add_mod n d).symm
  have hr : ((n % d : Nat) : ℚ) < d := by exact_mod_cast Nat.mod_lt n hd
  have hr0 : (0 : ℚ) ≤ ((n % d : Nat) : ℚ) := by positivity
  have key : (n : ℚ) / d = ((n / d : Nat) : ℚ) + ((n % d : Nat) : ℚ) / d := by
    rw [hdiv]; field_simp
  unfold roundHalfEvenNat
  simp only
  rw [key]
  have hfrac : ((n % d : Nat) : ℚ) / d < 1 := by rw [div_lt_one hdq]; exact hr
  have hfrac0 : 0 ≤ ((n % d : Nat) : ℚ) / d := by positivity
  split
  · rename_i h
    have h' : 2 * ((n % d : Nat) : ℚ) < d := by exact_mod_cast h
    have : ((n % d : Nat) : ℚ) / d < 1 / 2 := by rw [div_lt_iff₀ hdq]; linarith
    rw [abs_le]; constructor <;> linarith
  · split
    · rename_i _ h
      have h' : (d : ℚ) < 2 * ((n % d : Nat) : ℚ) := by exact_mod_cast h
      have : 1 / 2 < ((n % d : Nat) : ℚ) / d := by rw [lt_div_iff₀ hdq]; linarith
      push_cast
      rw [abs_le]; constructor <;> linarith
    · rename_i h1 h2
      have heq : 2 * (n % d) = d := by omega
      have heq' : 2 * ((n % d : Nat) : ℚ) = d := by exact_mod_cast heq
      have : ((n % d : Nat) : ℚ) / d = 1 / 2 := by rw [div_eq_iff (ne_of_gt hdq)]; linarith
      split
      · rw [abs_le]; constructor <;> linarith
      · push_cast; rw [abs_le]; constructor <;> linarith

/-- relative error of "scale by S, round to integer, scale back" when the scaled value is at least `p1` -/
theorem scaled_round_err (x : ℚ) (hx : 0 < x) (S : ℚ) (hS : 0 < S) (p1 : ℚ) (hp1 : 0 < p1) (r : ℚ)
    (hlow : p1 ≤ x * S) (hr : |r - x * S| ≤ 1 / 2) :
    |r / S - x| ≤ x * (1 / (2 * p1)) := by
  have h1 : r / S - x = (r - x * S) / S := by field_simp
  rw [h1, abs_div, abs_of_pos hS]
  have h2 : |r - x * S| / S ≤ (1 / 2) / S := div_le_div_of_nonneg_right hr hS.le
  have h3 : (1 / 2 : ℚ) / S ≤ x * (1 / (2 * p1)) := by
    rw [div_le_iff₀ hS]
    have : x * (1 / (2 * p1)) * S = (x * S) / (2 * p1) := by field_simp
    rw [this, le_div_iff₀ (by positivity)]
    linarith
  linarith

/-- parts add back to the whole: pro-rating a fiat value `F` over pieces `a` of a total `E` (exact arithmetic) -/
theorem prorate_sum (F E : ℚ) (hE : E ≠ 0) (as : List ℚ) (hsum : as.sum = E) :
    (as.map (fun a => F * a / E)).sum = F := by
  have : ∀ l : List ℚ, (l.map (fun a => F * a / E)).sum = F * l.sum / E := by
    intro l
    induction l with
    | nil => simp
    | cons a t ih => simp only [List.map_cons, List.sum_cons, ih]; ring
  rw [this, hsum]; field_simp

end Rp2
