/-! A stable sort commutes with `filter`: `(l.mergeSort le).filter q = (l.filter q).mergeSort le`.
Proved through the insertion characterisation of `mergeSort` that core's `mergeSort_cons` provides. -/
namespace Rp2
open List

variable {α : Type} (le : α → α → Bool)

/-- stable insertion of `a` into a sorted list: after everything strictly smaller -/
def insSorted (a : α) (s : List α) : List α := s.takeWhile (fun b => !le a b) ++ a :: s.dropWhile (fun b => !le a b)

theorem takeWhile_append_all {p : α → Bool} : ∀ (l₁ l₂ : List α), (∀ x ∈ l₁, p x = true) → (∀ x ∈ l₂, p x = false) →
    (l₁ ++ l₂).takeWhile p = l₁ ∧ (l₁ ++ l₂).dropWhile p = l₂ := by
  intro l₁
  induction l₁ with
  | nil =>
    intro l₂ _ h2
    cases l₂ with
    | nil => simp
    | cons b t => simp [takeWhile_cons, dropWhile_cons, h2 b (mem_cons_self)]
  | cons a t ih =>
    intro l₂ h1 h2
    have ha := h1 a (mem_cons_self)
    have := ih l₂ (fun x hx => h1 x (mem_cons_of_mem _ hx)) h2
    simp [takeWhile_cons, dropWhile_cons, ha, this.1, this.2]

theorem mem_takeWhile_sat {p : α → Bool} : ∀ (l : List α) (x : α), x ∈ l.takeWhile p → p x = true := by
  intro l
  induction l with
  | nil => intro x hx; simp at hx
  | cons b t ih =>
    intro x hx
    by_cases hb : p b = true
    · simp only [takeWhile_cons, hb, if_true] at hx
      rcases mem_cons.mp hx with rfl | hx'
      · exact hb
      · exact ih x hx'
    · simp [takeWhile_cons, hb] at hx

variable (trans : ∀ (a b c : α), le a b → le b c → le a c) (total : ∀ (a b : α), le a b || le b a)

include trans total in
theorem mergeSort_cons_eq_ins (a : α) (l : List α) : mergeSort (a :: l) le = insSorted le a (mergeSort l le) := by
  obtain ⟨l₁, l₂, h1, h2, h3⟩ := mergeSort_cons trans total a l
  have hs := pairwise_mergeSort trans total (a :: l)
  rw [h1] at hs
  have hl2 : ∀ b ∈ l₂, (!le a b) = false := by
    intro b hb
    have := (pairwise_append.mp hs).2.1
    rw [pairwise_cons] at this
    simp [this.1 b hb]
  have := takeWhile_append_all (p := fun b => !le a b) l₁ l₂ (fun x hx => h3 x hx) hl2
  rw [h1, insSorted, h2, this.1, this.2]

include trans in
/-- in a sorted list the elements not strictly below `a` form a suffix -/
theorem sorted_split (a : α) (s : List α) (hs : s.Pairwise (fun x y => le x y)) :
    (∀ x ∈ s.takeWhile (fun b => !le a b), (!le a x) = true) ∧ (∀ x ∈ s.dropWhile (fun b => !le a b), (!le a x) = false) := by
  refine ⟨fun x hx => mem_takeWhile_sat _ x hx, ?_⟩
  induction s with
  | nil => intro x hx; simp at hx
  | cons b t ih =>
    rw [pairwise_cons] at hs
    intro x hx
    by_cases hb : (!le a b) = true
    · simp only [dropWhile_cons, hb, if_true] at hx
      exact ih hs.2 x hx
    · simp only [dropWhile_cons, hb] at hx
      have hab : le a b = true := by simpa using hb
      rcases mem_cons.mp hx with rfl | hx'
      · simp [hab]
      · have := trans a b x hab (hs.1 x hx')
        simp [this]

include trans in
theorem filter_insSorted (q : α → Bool) (a : α) (s : List α) (hs : s.Pairwise (fun x y => le x y)) :
    (insSorted le a s).filter q = if q a then insSorted le a (s.filter q) else s.filter q := by
  obtain ⟨h1, h2⟩ := sorted_split le trans a s hs
  have hsplit : s = s.takeWhile (fun b => !le a b) ++ s.dropWhile (fun b => !le a b) := (takeWhile_append_dropWhile).symm
  have hf : s.filter q = (s.takeWhile (fun b => !le a b)).filter q ++ (s.dropWhile (fun b => !le a b)).filter q := by
    have := congrArg (List.filter q) hsplit
    rw [filter_append] at this
    exact this
  have htd := takeWhile_append_all (p := fun b => !le a b) ((s.takeWhile (fun b => !le a b)).filter q) ((s.dropWhile (fun b => !le a b)).filter q)
    (fun x hx => h1 x (mem_filter.mp hx).1) (fun x hx => h2 x (mem_filter.mp hx).1)
  by_cases hq : q a = true
  · simp only [hq, if_true]
    unfold insSorted
    rw [filter_append, filter_cons, hq, if_pos rfl]
    rw [hf, htd.1, htd.2]
  · simp only [hq, Bool.false_eq_true, if_false]
    unfold insSorted
    rw [filter_append, filter_cons]
    simp only [hq, Bool.false_eq_true, if_false]
    exact hf.symm

include trans total in
/-- **a stable sort commutes with filtering** -/
theorem filter_mergeSort (q : α → Bool) : ∀ (l : List α), (mergeSort l le).filter q = mergeSort (l.filter q) le := by
  intro l
  induction l with
  | nil => simp
  | cons a t ih =>
    rw [mergeSort_cons_eq_ins le trans total, filter_insSorted le trans q a _ (pairwise_mergeSort trans total t), ih]
    by_cases hq : q a = true
    · simp only [hq, if_true, filter_cons]
      rw [mergeSort_cons_eq_ins le trans total]
    · simp [hq, filter_cons]

end Rp2
