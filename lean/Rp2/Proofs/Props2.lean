import Rp2.Proofs.Props
namespace Rp2

theorem split_append {α} {a b pre post : List α} {x : α} (h : a ++ b = pre ++ x :: post) :
    (∃ post', a = pre ++ x :: post' ∧ post = post' ++ b) ∨ (∃ pre', pre = a ++ pre' ∧ b = pre' ++ x :: post) := by
  rcases List.append_eq_append_iff.mp h with ⟨a', h1, h2⟩ | ⟨c', h1, h2⟩
  · right; exact ⟨a', h1, h2⟩
  · cases c' with
    | nil =>
      right
      refine ⟨[], by simpa using h1.symm, by simpa using h2.symm⟩
    | cons y c'' =>
      simp only [List.cons_append, List.cons.injEq] at h2
      obtain ⟨rfl, rfl⟩ := h2
      left; exact ⟨c'', h1, rfl⟩

/-- what one event contributes -/
theorem specEvent_spec (ctx : Ctx) (rem : Nat → Nat) (k : Nat) (e : Event) (fs : List Frac) (rem' : Nat → Nat)
    (hpos : ¬ e.earn → 0 < e.amount) (h : specEvent ctx rem k e = some (fs, rem')) :
    total fs = e.amount ∧
    (∀ f ∈ fs, f.ev = k ∧ 0 < f.amt ∨ (e.earn ∧ f = ⟨k, none, e.amount⟩)) ∧
    (∀ f ∈ fs, f.ev = k) ∧
    (e.earn → fs = [⟨k, none, e.amount⟩]) ∧
    (¬ e.earn → ∀ f ∈ fs, 0 < f.amt ∧ ∃ i, f.lot = some i ∧ i < ctx.bound e.ts) ∧
    (∀ i, rem' i + taken fs i = rem i) ∧
    (∀ pre f post i, fs = pre ++ f :: post → f.lot = some i →
        IsBest (ctx.meth e.slot) ctx.L (fun j => rem j - taken pre j) (ctx.bound e.ts) i) := by
  unfold specEvent at h
  simp only at h
  split at h
  · cases h
  · split at h
    · rename_i hearn
      simp only [Option.some.injEq, Prod.mk.injEq] at h
      obtain ⟨rfl, rfl⟩ := h
      refine ⟨by simp [total], ?_, ?_, ?_, ?_, ?_, ?_⟩
      · intro f hf; simp only [List.mem_singleton] at hf; right; exact ⟨hearn, hf⟩
      · intro f hf; simp only [List.mem_singleton] at hf; subst hf; rfl
      · intro _; rfl
      · intro hne; exact absurd hearn hne
      · intro i; simp [taken_cons]
      · intro pre f post i hfs hlot
        cases pre with
        | nil =>
          simp only [List.nil_append, List.cons.injEq] at hfs
          obtain ⟨rfl, _⟩ := hfs
          simp at hlot
        | cons a t =>
          simp only [List.cons_append, List.cons.injEq] at hfs
          obtain ⟨_, h2⟩ := hfs
          cases t <;> simp at h2
    · rename_i hearn
      obtain ⟨h1, h2, h3, h4⟩ := specConsume_spec ctx _ _ k _ rem e.amount fs rem' (hpos hearn) h
      refine ⟨h1, ?_, ?_, ?_, ?_, h3, h4⟩
      · intro f hf; left; exact ⟨(h2 f hf).2.1, (h2 f hf).1⟩
      · intro f hf; exact (h2 f hf).2.1
      · intro he; exact absurd he hearn
      · intro _ f hf; exact ⟨(h2 f hf).1, (h2 f hf).2.2⟩

/-- **C01/C02/C03 at the level of the specification**, for a whole history. -/
theorem runS_spec (ctx : Ctx) : ∀ (es : List Event) (rem : Nat → Nat) (k : Nat) (out : List Frac),
    (∀ e ∈ es, ¬ e.earn → 0 < e.amount) → runS ctx rem k es = some out →
    -- no lot is overspent
    (∀ i, taken out i ≤ rem i) ∧
    -- every fraction belongs to exactly one event of the history, earn events give one lot-less full fraction,
    -- disposals give positive pieces from lots acquired at or before them
    (∀ f ∈ out, ∃ j e, es[j]? = some e ∧ f.ev = k + j ∧
        (e.earn → f = ⟨k + j, none, e.amount⟩) ∧
        (¬ e.earn → 0 < f.amt ∧ ∃ i, f.lot = some i ∧ i < ctx.bound e.ts)) ∧
    -- every event is covered in full
    (∀ j e, es[j]? = some e → total (out.filter (fun f => f.ev = k + j)) = e.amount) ∧
    -- every piece comes from the best-ranked lot among those that still have balance
    (∀ pre f post i, out = pre ++ f :: post → f.lot = some i →
        ∃ j e, es[j]? = some e ∧ f.ev = k + j ∧
          IsBest (ctx.meth e.slot) ctx.L (fun x => rem x - taken pre x) (ctx.bound e.ts) i) := by
  intro es
  induction es with
  | nil =>
    intro rem k out _ h
    simp [runS] at h
    subst h
    refine ⟨(by intro i; simp), (by intro f hf; cases hf), (by intro j e h; simp at h), ?_⟩
    intro pre f post i h; cases pre <;> simp at h
  | cons e es ih =>
    intro rem k out hpos h
    unfold runS at h
    split at h
    · cases h
    · rename_i fs rem' hev
      split at h
      · cases h
      · rename_i rest hrest
        simp only [Option.some.injEq] at h
        subst h
        have hpos' : ∀ e' ∈ es, ¬ e'.earn → 0 < e'.amount := fun e' he' => hpos e' (List.mem_cons_of_mem _ he')
        obtain ⟨e1, e2, e3, e4, e5, e6, e7⟩ := specEvent_spec ctx rem k e fs rem' (hpos e List.mem_cons_self) hev
        obtain ⟨r1, r2, r3, r4⟩ := ih rem' (k+1) rest hpos' hrest
        have hrest_ev : ∀ f ∈ rest, k + 1 ≤ f.ev := by
          intro f hf; obtain ⟨j, _, _, hj, _⟩ := r2 f hf; omega
        refine ⟨?_, ?_, ?_, ?_⟩
        · intro i
          rw [taken_append]
          have := e6 i; have := r1 i; omega
        · intro f hf
          rcases List.mem_append.mp hf with hf | hf
          · refine ⟨0, e, by simp, by simpa using e3 f hf, ?_, ?_⟩
            · intro he; have := e4 he; rw [this] at hf; simpa using hf
            · intro he; exact e5 he f hf
          · obtain ⟨j, e', h1, h2, h3, h4⟩ := r2 f hf
            refine ⟨j+1, e', by simpa using h1, by omega, ?_, h4⟩
            intro he; have := h3 he; rw [this]; congr 1; omega
        · intro j e' hj
          rw [List.filter_append, total_append]
          cases j with
          | zero =>
            simp only [List.getElem?_cons_zero, Option.some.injEq] at hj
            subst hj
            have hfs : fs.filter (fun f => decide (f.ev = k + 0)) = fs := by
              apply List.filter_eq_self.mpr
              intro f hf; simpa using e3 f hf
            have hr : rest.filter (fun f => decide (f.ev = k + 0)) = [] := by
              apply List.filter_eq_nil_iff.mpr
              intro f hf; have := hrest_ev f hf; simp; omega
            rw [hfs, hr]; simp [e1]
          | succ j' =>
            simp only [List.getElem?_cons_succ] at hj
            have hfs : fs.filter (fun f => decide (f.ev = k + (j' + 1))) = [] := by
              apply List.filter_eq_nil_iff.mpr
              intro f hf; have := e3 f hf; simp; omega
            have := r3 j' e' hj
            rw [hfs]
            have hk : k + (j' + 1) = k + 1 + j' := by omega
            rw [hk]; simpa using this
        · intro pre f post i hout hlot
          rcases split_append hout with ⟨post', h1, _⟩ | ⟨pre', h1, h2⟩
          · refine ⟨0, e, by simp, by simpa using e3 f (by rw [h1]; simp), ?_⟩
            exact e7 pre f post' i h1 hlot
          · obtain ⟨j, e', g1, g2, g3⟩ := r4 pre' f post i h2 hlot
            refine ⟨j+1, e', by simpa using g1, by omega, ?_⟩
            have heq : (fun x => rem x - taken pre x) = (fun x => rem' x - taken pre' x) := by
              funext x
              rw [h1, taken_append]
              have := e6 x; omega
            rw [heq]; exact g3

end Rp2
