import Rp2.Proofs.Final
import Rp2.Proofs.StableSort
import Rp2.Proofs.PropsA
/-! C01/C02 for the function the correspondence check actually runs: `computeFractions` of `Model/Pipeline.lean`. -/
namespace Rp2

/-- `engine_C01_C02` for any context that satisfies the refinement hypotheses -/
theorem engine_C01_C02_ctx (ctx : Ctx) (N : Nat) (hs : SortedLots ctx N) (hinj : LotInj ctx.L N) (hN : ∀ t, ctx.bound t ≤ N)
    (hbm : ∀ a b : Int, a ≤ b → ctx.bound a ≤ ctx.bound b)
    (hlt : ∀ (t : Int) (i : Nat), i < N → (i < ctx.bound t ↔ (ctx.L i).ts ≤ t))
    (es : List Event) (out : List Frac) (hev : EvOK none es) (hpos : ∀ e ∈ es, ¬ e.earn → 0 < e.amount)
    (hrun : runM ctx MSt.init none 0 es = some out) :
    (∀ i, taken out i ≤ (ctx.L i).amount) ∧
    (∀ j e, es[j]? = some e → total (out.filter (fun f => f.ev = j)) = e.amount) ∧
    (∀ f ∈ out, ∃ e, es[f.ev]? = some e ∧ (e.earn → f = ⟨f.ev, none, e.amount⟩) ∧
        (¬ e.earn → 0 < f.amt ∧ ∃ i, f.lot = some i ∧ i < N ∧ (ctx.L i).ts ≤ e.ts)) ∧
    (∀ pre f post i, out = pre ++ f :: post → f.lot = some i →
        ∃ e, es[f.ev]? = some e ∧ (ctx.L i).ts ≤ e.ts ∧ taken pre i < (ctx.L i).amount ∧
          ∀ j, j < N → (ctx.L j).ts ≤ e.ts → taken pre j < (ctx.L j).amount → ¬ better (ctx.meth e.slot) (ctx.L j) (ctx.L i)) := by
  have hspec : runS ctx (fun i => (ctx.L i).amount) 0 es = some out := by
    rw [← engine_eq_spec ctx N hs hinj hN hbm es hev]; exact hrun
  obtain ⟨h1, h2, h3, h4⟩ := runS_spec ctx es _ 0 out hpos hspec
  refine ⟨h1, ?_, ?_, ?_⟩
  · intro j e hj; simpa using h3 j e hj
  · intro f hf
    obtain ⟨j, e, hj, hfe, he1, he2⟩ := h2 f hf
    have hfe' : f.ev = j := by omega
    refine ⟨e, by rw [hfe']; exact hj, ?_, ?_⟩
    · intro he; have := he1 he; rw [this]
    · intro he
      obtain ⟨hp, i, hl, hi⟩ := he2 he
      have hiN : i < N := Nat.lt_of_lt_of_le hi (hN e.ts)
      exact ⟨hp, i, hl, hiN, (hlt e.ts i hiN).mp hi⟩
  · intro pre f post i hout hlot
    obtain ⟨j, e, hj, hfe, hbest⟩ := h4 pre f post i hout hlot
    have hfe' : f.ev = j := by omega
    have hiN : i < N := Nat.lt_of_lt_of_le hbest.1.1 (hN e.ts)
    refine ⟨e, by rw [hfe']; exact hj, (hlt e.ts i hiN).mp hbest.1.1, ?_, ?_⟩
    · have := hbest.1.2; simp only at this; omega
    · intro j' hj'N hts hrem
      apply hbest.2 j'
      refine ⟨(hlt e.ts j' hj'N).mpr hts, ?_⟩
      simp only; omega

/-! ### the pipeline's context satisfies the hypotheses -/

/-- sheet order: rows strictly increasing and positive (what `parseSheet_ids` proves of parsed tables) -/
def SheetOrder (ins : List InTx) : Prop := ins.Pairwise (fun a b => a.row < b.row) ∧ ∀ l ∈ ins, 0 < l.row

theorem sortedIns_lex (ins : List InTx) (h : SheetOrder ins) :
    (sortByTs (·.ts.us) ins).Pairwise (fun a b => a.ts.us < b.ts.us ∨ (a.ts.us = b.ts.us ∧ a.row < b.row)) :=
  sortByTs_lex (fun l : InTx => l.ts.us) (fun l => l.row) ins h.1

theorem sortedIns_mem (ins : List InTx) (l : InTx) : l ∈ sortByTs (·.ts.us) ins ↔ l ∈ ins := by
  unfold sortByTs; exact (List.mergeSort_perm ins _).mem_iff

theorem lotCtx_L (sched : List (Int × Method)) (lots : List InTx) (i : Nat) (hi : i < lots.length) :
    (lotCtx sched lots).L i = lotOf lots[i] := by
  simp [lotCtx, List.getElem?_eq_getElem hi]

theorem lotCtx_sorted (sched : List (Int × Method)) (ins : List InTx) (h : SheetOrder ins) :
    SortedLots (lotCtx sched (sortByTs (·.ts.us) ins)) (sortByTs (·.ts.us) ins).length := by
  intro i j hij hj
  have hi : i < (sortByTs (·.ts.us) ins).length := by omega
  have hp := List.pairwise_iff_getElem.mp (sortedIns_lex ins h) i j hi hj hij
  have hri := h.2 _ ((sortedIns_mem ins _).mp (List.getElem_mem hi))
  have hrj := h.2 _ ((sortedIns_mem ins _).mp (List.getElem_mem hj))
  rw [lotCtx_L _ _ i hi, lotCtx_L _ _ j hj]
  unfold better lexLt key lotOf
  simp only
  omega

theorem lotCtx_inj (sched : List (Int × Method)) (ins : List InTx) (h : SheetOrder ins) :
    LotInj (lotCtx sched (sortByTs (·.ts.us) ins)).L (sortByTs (·.ts.us) ins).length := by
  intro i j hi hj hts hrow
  rw [lotCtx_L _ _ i hi, lotCtx_L _ _ j hj] at hts hrow
  have hri := h.2 _ ((sortedIns_mem ins _).mp (List.getElem_mem hi))
  have hrj := h.2 _ ((sortedIns_mem ins _).mp (List.getElem_mem hj))
  simp only [lotOf] at hts hrow
  apply Classical.byContradiction
  intro hne
  rcases Nat.lt_or_gt_of_ne hne with hlt | hgt
  · have := List.pairwise_iff_getElem.mp (sortedIns_lex ins h) i j hi hj hlt; omega
  · have := List.pairwise_iff_getElem.mp (sortedIns_lex ins h) j i hj hi hgt; omega

theorem lotCtx_bound_le (sched : List (Int × Method)) (lots : List InTx) (t : Int) : (lotCtx sched lots).bound t ≤ lots.length := by
  simp only [lotCtx]; exact List.length_filter_le _ _

theorem lotCtx_bound_mono (sched : List (Int × Method)) (lots : List InTx) (a b : Int) (hab : a ≤ b) :
    (lotCtx sched lots).bound a ≤ (lotCtx sched lots).bound b := by
  simp only [lotCtx, ← List.countP_eq_length_filter]
  apply List.countP_mono_left
  intro l _ hl
  simp only [decide_eq_true_eq] at hl ⊢
  omega

/-- in a list sorted by `ts`, the first `countP (ts ≤ t)` positions are exactly the elements with `ts ≤ t` -/
theorem lt_countP_iff {α} (ts : α → Int) (t : Int) : ∀ (l : List α), l.Pairwise (fun a b => ts a ≤ ts b) → ∀ (i : Nat) (hi : i < l.length),
    (i < l.countP (fun x => decide (ts x ≤ t)) ↔ ts l[i] ≤ t) := by
  intro l
  induction l with
  | nil => intro _ i hi; simp at hi
  | cons a l ih =>
    intro hp i hi
    rw [List.pairwise_cons] at hp
    simp only [List.countP_cons]
    cases i with
    | zero =>
      simp only [List.getElem_cons_zero]
      by_cases ha : ts a ≤ t
      · simp [ha]
      · simp only [ha, decide_false, Bool.false_eq_true, if_false, Nat.add_zero, iff_false, Nat.not_lt, Nat.le_zero]
        apply List.countP_eq_zero.mpr
        intro b hb
        have := hp.1 b hb
        simp; omega
    | succ i' =>
      simp only [List.getElem_cons_succ]
      have hi' : i' < l.length := by simpa using hi
      have := ih hp.2 i' hi'
      by_cases ha : ts a ≤ t
      · simp only [ha, decide_true, if_true]; omega
      · simp only [ha, decide_false, Bool.false_eq_true, if_false, Nat.add_zero]
        have hz : l.countP (fun x => decide (ts x ≤ t)) = 0 := by
          apply List.countP_eq_zero.mpr
          intro b hb
          have := hp.1 b hb
          simp; omega
        have hle := hp.1 (l[i']) (List.getElem_mem hi')
        omega

theorem lotCtx_lt_bound (sched : List (Int × Method)) (ins : List InTx) (h : SheetOrder ins) (t : Int) (i : Nat)
    (hi : i < (sortByTs (·.ts.us) ins).length) :
    i < (lotCtx sched (sortByTs (·.ts.us) ins)).bound t ↔ ((lotCtx sched (sortByTs (·.ts.us) ins)).L i).ts ≤ t := by
  rw [lotCtx_L _ _ i hi]
  simp only [lotCtx, ← List.countP_eq_length_filter, lotOf]
  exact lt_countP_iff (fun l : InTx => l.ts.us) t _ ((sortedIns_lex ins h).imp (by intro a b hab; omega)) i hi

/-! ### events -/

theorem engineEvents_spec (sched : List (Int × Method)) : ∀ (evs : List TaxEv) (es : List Event), engineEvents sched evs = some es →
    es.length = evs.length ∧ ∀ (j : Nat) (e : TaxEv), evs[j]? = some e →
      ∃ s, slotOf sched e.ts.year = some s ∧ es[j]? = some (⟨e.ts.us, s, e.amount.toNat, e.earn⟩ : Event) := by
  intro evs
  induction evs with
  | nil => intro es h; simp [engineEvents] at h; subst h; simp
  | cons e t ih =>
    intro es h
    simp only [engineEvents] at h
    split at h
    · rename_i s r hs hr
      simp only [Option.some.injEq] at h
      subst h
      obtain ⟨hl, hr'⟩ := ih r hr
      refine ⟨by simp [hl], ?_⟩
      intro j e' hj
      cases j with
      | zero => simp at hj; subst hj; exact ⟨s, hs, by simp⟩
      | succ j' => simp at hj; simpa using hr' j' e' hj
    · cases h

theorem evok_of_pairwise : ∀ (es : List Event) (prev : Option (Int × Nat)),
    (∀ t s, prev = some (t, s) → ∀ e ∈ es, t ≤ e.ts ∧ (t = e.ts → s = e.slot)) →
    es.Pairwise (fun a b => a.ts ≤ b.ts ∧ (a.ts = b.ts → a.slot = b.slot)) → EvOK prev es := by
  intro es
  induction es with
  | nil => intro prev _ _; simp [EvOK]
  | cons e t ih =>
    intro prev hprev hp
    rw [List.pairwise_cons] at hp
    refine ⟨fun tt s h => hprev tt s h e (List.mem_cons_self), ih _ ?_ hp.2⟩
    intro tt s h e' he'
    simp only [Option.some.injEq, Prod.mk.injEq] at h
    obtain ⟨rfl, rfl⟩ := h
    exact hp.1 e' he'

/-- events at one instant lie in one local year (hypothesis `SameInstantSameYear`, finding F7) -/
def SameInstantSameYear (evs : List TaxEv) : Prop := ∀ a ∈ evs, ∀ b ∈ evs, a.ts.us = b.ts.us → a.ts.year = b.ts.year

theorem engineEvents_evok (sched : List (Int × Method)) (evs : List TaxEv) (es : List Event) (h : engineEvents sched evs = some es)
    (hsorted : evs.Pairwise (fun a b => a.ts.us ≤ b.ts.us)) (hy : SameInstantSameYear evs) : EvOK none es := by
  apply evok_of_pairwise es none (by intro t s h; cases h)
  obtain ⟨hlen, hspec⟩ := engineEvents_spec sched evs es h
  rw [List.pairwise_iff_getElem]
  intro i j hi hj hij
  have hi' : i < evs.length := by omega
  have hj' : j < evs.length := by omega
  obtain ⟨si, hsi, hei⟩ := hspec i evs[i] (List.getElem?_eq_getElem hi')
  obtain ⟨sj, hsj, hej⟩ := hspec j evs[j] (List.getElem?_eq_getElem hj')
  have e1 : es[i] = ⟨evs[i].ts.us, si, evs[i].amount.toNat, evs[i].earn⟩ := by
    have := List.getElem?_eq_getElem hi; rw [this] at hei; exact Option.some.inj hei
  have e2 : es[j] = ⟨evs[j].ts.us, sj, evs[j].amount.toNat, evs[j].earn⟩ := by
    have := List.getElem?_eq_getElem hj; rw [this] at hej; exact Option.some.inj hej
  rw [e1, e2]
  simp only
  have hle := List.pairwise_iff_getElem.mp hsorted i j hi' hj' hij
  refine ⟨hle, fun heq => ?_⟩
  have hyear := hy _ (List.getElem_mem hi') _ (List.getElem_mem hj') heq
  rw [hyear] at hsi
  rw [hsi] at hsj
  exact Option.some.inj hsj

end Rp2

namespace Rp2
/-- **C01 + C02 for `computeFractions`** — the function behind `compute`, the drivers and every correspondence stream.
    For a table in sheet order and a history in which events at one instant share a local year: the fractions reported are the
    decoding (`decodeFracs`: index ↦ transaction) of an engine run `out` over the time-sorted lots in which
    no lot is overspent; every event is covered in full; income events give one lot-less full fraction and disposals positive
    pieces of lots acquired at or before them; and every piece comes from the lot the method of the event's year ranks first
    among the lots acquired at or before the event that still have balance given everything consumed before it. -/
theorem computeFractions_sound (sched : List (Int × Method)) (ins : List InTx) (outs : List OutTx) (intras : List IntraTx) (fs : List Fraction)
    (hord : SheetOrder ins) (hy : SameInstantSameYear (taxableEvents ins outs intras))
    (h : computeFractions sched ins outs intras = .ok fs) :
    ∃ es out, engineEvents sched (taxableEvents ins outs intras) = some es ∧
      fs = decodeFracs (sortByTs (·.ts.us) ins) (taxableEvents ins outs intras) out ∧
      (∀ i, taken out i ≤ ((lotCtx sched (sortByTs (·.ts.us) ins)).L i).amount) ∧
      (∀ j e, es[j]? = some e → total (out.filter (fun f => f.ev = j)) = e.amount) ∧
      (∀ f ∈ out, ∃ e, es[f.ev]? = some e ∧ (e.earn → f = ⟨f.ev, none, e.amount⟩) ∧
          (¬ e.earn → 0 < f.amt ∧ ∃ i, f.lot = some i ∧ i < (sortByTs (·.ts.us) ins).length ∧
            ((lotCtx sched (sortByTs (·.ts.us) ins)).L i).ts ≤ e.ts)) ∧
      (∀ pre f post i, out = pre ++ f :: post → f.lot = some i →
          ∃ e, es[f.ev]? = some e ∧ ((lotCtx sched (sortByTs (·.ts.us) ins)).L i).ts ≤ e.ts ∧
            taken pre i < ((lotCtx sched (sortByTs (·.ts.us) ins)).L i).amount ∧
            ∀ j, j < (sortByTs (·.ts.us) ins).length → ((lotCtx sched (sortByTs (·.ts.us) ins)).L j).ts ≤ e.ts →
              taken pre j < ((lotCtx sched (sortByTs (·.ts.us) ins)).L j).amount →
              ¬ better ((lotCtx sched (sortByTs (·.ts.us) ins)).meth e.slot) ((lotCtx sched (sortByTs (·.ts.us) ins)).L j)
                  ((lotCtx sched (sortByTs (·.ts.us) ins)).L i)) := by
  unfold computeFractions at h
  simp only at h
  split at h
  · cases h
  · rename_i hbad
    split at h
    · cases h
    · rename_i es hes
      split at h
      · cases h
      · rename_i out hout
        simp only [Except.ok.injEq] at h
        refine ⟨es, out, hes, h.symm, ?_⟩
        have hev := engineEvents_evok sched _ es hes (taxableEvents_sorted ins outs intras) hy
        have hpos : ∀ e ∈ es, ¬ e.earn → 0 < e.amount := by
          intro e he _
          obtain ⟨hlen, hspec⟩ := engineEvents_spec sched _ es hes
          obtain ⟨j, hj, hje⟩ := List.getElem_of_mem he
          have hj' : j < (taxableEvents ins outs intras).length := by omega
          obtain ⟨s, _, hs⟩ := hspec j _ (List.getElem?_eq_getElem hj')
          rw [List.getElem?_eq_getElem hj, hje] at hs
          have := Option.some.inj hs
          subst this
          simp only [Bool.or_eq_true, List.any_eq_true, decide_eq_true_eq, not_or, not_exists, not_and] at hbad
          have := hbad.2 _ (List.getElem_mem hj')
          simp only
          omega
        exact engine_C01_C02_ctx _ _ (lotCtx_sorted sched ins hord) (lotCtx_inj sched ins hord) (lotCtx_bound_le sched _)
          (lotCtx_bound_mono sched _) (fun t i hi => lotCtx_lt_bound sched ins hord t i hi) es out hev hpos hout
end Rp2
