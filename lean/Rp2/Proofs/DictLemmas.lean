import Rp2.Model.Dict
import Rp2.Proofs.BalanceColumns
/-! Lemmas about the insertion-ordered dictionary (`Model/Dict.lean`) and the corresponding facts about the model's balance rows. -/
namespace Rp2

/-- insertion of a key into a key list: an existing key keeps its place, a new one goes last -/
def ins (l : List Nat) (k : Nat) : List Nat := if k ∈ l then l else l ++ [k]

theorem mem_ins (l : List Nat) (k x : Nat) : x ∈ ins l k ↔ x ∈ l ∨ x = k := by
  unfold ins; split
  · constructor
    · exact Or.inl
    · rintro (h | h)
      · exact h
      · subst h; assumption
  · simp

theorem ins_of_mem (l : List Nat) (k : Nat) (h : k ∈ l) : ins l k = l := by unfold ins; simp [h]

theorem ins_ins_self (l : List Nat) (k : Nat) : ins (ins l k) k = ins l k :=
  ins_of_mem _ _ ((mem_ins l k k).mpr (Or.inr rfl))

namespace Dict

theorem any_iff_mem (d : Dict) (k : Nat) : d.any (fun p => p.1 == k) = true ↔ k ∈ d.keys := by
  unfold keys
  simp only [List.any_eq_true, beq_iff_eq, List.mem_map]

theorem keys_set (d : Dict) (k : Nat) (v : Rat) : (d.set k v).keys = ins d.keys k := by
  unfold set ins
  by_cases h : d.any (fun p => p.1 == k) = true
  · have hm := (any_iff_mem d k).mp h
    simp only [h, if_true, hm]
    unfold keys
    rw [List.map_map]
    apply List.map_congr_left
    intro p _; simp only [Function.comp]; split <;> rfl
  · have hm : ¬ k ∈ d.keys := fun hc => h ((any_iff_mem d k).mpr hc)
    have h' : d.any (fun p => p.1 == k) = false := Bool.eq_false_iff.mpr h
    simp only [h', hm, Bool.false_eq_true, if_false]
    unfold keys; simp

theorem get?_set (d : Dict) (k : Nat) (v : Rat) (a : Nat) : (d.set k v).get? a = if a = k then some v else d.get? a := by
  unfold set get?
  by_cases h : d.any (fun p => p.1 == k) = true
  · simp only [h, if_true]
    rw [List.find?_map]
    have hpred : ((fun p : Nat × Rat => p.1 == a) ∘ fun p => if (p.1 == k) = true then (p.1, v) else p) = fun p => p.1 == a := by
      funext p; simp only [Function.comp]; split <;> rfl
    rw [hpred]
    by_cases ha : a = k
    · subst ha
      simp only [if_true]
      obtain ⟨p, hp, hpk⟩ := List.any_eq_true.mp h
      cases hf : d.find? (fun p => p.1 == a) with
      | none => have := List.find?_eq_none.mp hf p hp; simp_all
      | some q =>
        have hq := List.find?_some hf
        simp only [Option.map_some, hq, if_true]
    · simp only [ha, if_false]
      cases hf : d.find? (fun p => p.1 == a) with
      | none => rfl
      | some q =>
        have hq := List.find?_some hf
        simp only [beq_iff_eq] at hq
        have : ¬ q.1 = k := by omega
        simp [this]
  · have h' : d.any (fun p => p.1 == k) = false := Bool.eq_false_iff.mpr h
    simp only [h', Bool.false_eq_true, if_false]
    rw [List.find?_append]
    by_cases ha : a = k
    · subst ha
      have : d.find? (fun p => p.1 == a) = none := by
        apply List.find?_eq_none.mpr
        intro p hp hc
        exact h (List.any_eq_true.mpr ⟨p, hp, hc⟩)
      simp [this]
    · cases hf : d.find? (fun p => p.1 == a) with
      | none =>
        have : ¬ (k == a) = true := by simp; omega
        simp [ha, this]
      | some q => simp [ha]

theorem getD_set (d : Dict) (k : Nat) (v : Rat) (a : Nat) (x : Rat) : (d.set k v).getD a x = if a = k then v else d.getD a x := by
  unfold getD; rw [get?_set]; split <;> rfl

theorem get?_of_mem (d : Dict) (k : Nat) (h : k ∈ d.keys) (x : Rat) : d.get? k = some (d.getD k x) := by
  unfold getD get?
  cases hf : d.find? (fun p => p.1 == k) with
  | none =>
    exfalso
    obtain ⟨p, hp, hk⟩ := List.mem_map.mp h
    have := List.find?_eq_none.mp hf p hp
    simp [hk] at this
  | some q => rfl

end Dict

/-- the accounts of the model's rows after an update: an existing account keeps its place, a new one goes last -/
theorem accts_updBal (bs : List BalRow) (a : Nat) (f : BalRow → BalRow) (hf : ∀ b, (f b).acct = b.acct) :
    (updBal bs a f).map (·.acct) = ins (bs.map (·.acct)) a := by
  unfold updBal ins
  by_cases hany : bs.any (·.acct == a) = true
  · have hm : a ∈ bs.map (·.acct) := by
      obtain ⟨b, hb, hba⟩ := List.any_eq_true.mp hany
      exact List.mem_map.mpr ⟨b, hb, by simpa using hba⟩
    simp only [hany, if_true, hm]
    rw [List.map_map]
    apply List.map_congr_left
    intro b _; simp only [Function.comp]; split <;> simp [hf]
  · have hm : ¬ a ∈ bs.map (·.acct) := by
      intro h
      obtain ⟨b, hb, hba⟩ := List.mem_map.mp h
      exact hany (List.any_eq_true.mpr ⟨b, hb, by simp [hba]⟩)
    simp [hany, hm, hf]

theorem accts_balUpd (bs : List BalRow) (t : AnyTx) :
    (balUpd bs t).map (·.acct) = match t with
      | .i t => ins (bs.map (·.acct)) t.acct
      | .x t => ins (ins (bs.map (·.acct)) t.src) t.dst
      | .o t => ins (bs.map (·.acct)) t.acct := by
  cases t with
  | i t => simp only [balUpd]; rw [accts_updBal _ _ _ (by intro b; rfl)]
  | x t =>
    simp only [balUpd]
    rw [accts_updBal _ _ _ (by intro b; rfl), accts_updBal _ _ _ (by intro b; rfl), accts_updBal _ _ _ (by intro b; rfl),
        accts_updBal _ _ _ (by intro b; rfl)]
    have h1 : t.src ∈ ins (ins (bs.map (·.acct)) t.src) t.dst := (mem_ins _ _ _).mpr (Or.inl ((mem_ins _ _ _).mpr (Or.inr rfl)))
    rw [ins_of_mem _ _ h1, ins_ins_self]
  | o t => simp only [balUpd]; rw [accts_updBal _ _ _ (by intro b; rfl)]

end Rp2
