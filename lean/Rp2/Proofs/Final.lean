import Rp2.Proofs.History
namespace Rp2

/-- **C01 + C02 for the engine model**, stated on inputs and outputs only.
    `acqs`: acquisition rows (any order, distinct rows); `es`: taxable events in processing order
    (chronological; events at one instant share a schedule slot); `meth`: method per schedule slot. -/
theorem engine_C01_C02 (acqs : List Acq) (meth : Nat → Method) (es : List Event) (out : List Frac)
    (hrows : (acqs.map (·.row)).Nodup) (hev : EvOK none es)
    (hpos : ∀ e ∈ es, ¬ e.earn → 0 < e.amount)
    (hrun : runM (mkCtx acqs meth) MSt.init none 0 es = some out) :
    let ctx := mkCtx acqs meth
    -- no lot is overspent
    (∀ i, taken out i ≤ (ctx.L i).amount) ∧
    -- every event is covered in full
    (∀ j e, es[j]? = some e → total (out.filter (fun f => f.ev = j)) = e.amount) ∧
    -- every fraction belongs to one event; income gives one lot-less full fraction; disposals give positive
    -- pieces of lots acquired at or before them
    (∀ f ∈ out, ∃ e, es[f.ev]? = some e ∧
        (e.earn → f = ⟨f.ev, none, e.amount⟩) ∧
        (¬ e.earn → 0 < f.amt ∧ ∃ i, f.lot = some i ∧ i < (sortedLots acqs).length ∧ (ctx.L i).ts ≤ e.ts)) ∧
    -- every piece is taken from the lot the method ranks first among those acquired at or before the
    -- disposal that still have balance, given everything consumed before it
    (∀ pre f post i, out = pre ++ f :: post → f.lot = some i →
        ∃ e, es[f.ev]? = some e ∧ (ctx.L i).ts ≤ e.ts ∧ taken pre i < (ctx.L i).amount ∧
          ∀ j, j < (sortedLots acqs).length → (ctx.L j).ts ≤ e.ts → taken pre j < (ctx.L j).amount →
            ¬ better (meth e.slot) (ctx.L j) (ctx.L i)) := by
  intro ctx
  have hN : ∀ t, ctx.bound t ≤ (sortedLots acqs).length := bound_le_length acqs meth
  have hspec : runS ctx (fun i => (ctx.L i).amount) 0 es = some out := by
    rw [← engine_eq_spec ctx _ (sorted_fifo acqs meth) (lotInj acqs meth hrows) hN (bound_mono acqs meth) es hev]
    exact hrun
  obtain ⟨h1, h2, h3, h4⟩ := runS_spec ctx es _ 0 out hpos hspec
  refine ⟨h1, ?_, ?_, ?_⟩
  · intro j e hj; simpa using h3 j e hj
  · intro f hf
    obtain ⟨j, e, hj, hfe, he1, he2⟩ := h2 f hf
    have hfe' : f.ev = j := by omega
    refine ⟨e, by rw [hfe']; exact hj, ?_, ?_⟩
    · intro he; have := he1 he; rw [this]
    · intro he
      obtain ⟨hp, i, hl, hi⟩ := he2 he
      have hiN : i < (sortedLots acqs).length := Nat.lt_of_lt_of_le hi (hN e.ts)
      exact ⟨hp, i, hl, hiN, (lt_bound_iff acqs meth e.ts i hiN).mp hi⟩
  · intro pre f post i hout hlot
    obtain ⟨j, e, hj, hfe, hbest⟩ := h4 pre f post i hout hlot
    have hfe' : f.ev = j := by omega
    have hiN : i < (sortedLots acqs).length := Nat.lt_of_lt_of_le hbest.1.1 (hN e.ts)
    refine ⟨e, by rw [hfe']; exact hj, (lt_bound_iff acqs meth e.ts i hiN).mp hbest.1.1, ?_, ?_⟩
    · have := hbest.1.2; simp only at this; omega
    · intro j' hj'N hts hrem
      apply hbest.2 j'
      refine ⟨(lt_bound_iff acqs meth e.ts j' hj'N).mpr hts, ?_⟩
      simp only; omega

end Rp2
