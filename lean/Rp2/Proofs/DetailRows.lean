import Rp2.Proofs.RunSums
import Rp2.Proofs.Numbering
/-! C13: every fraction shown has exactly one detail row — the running-sum column has one entry per shown fraction, so zipping the two
loses nothing. -/
namespace Rp2

theorem filterMap_pairs_length {β γ : Type} (f : Nat → Option γ) (p : β → Bool) : ∀ (ps : List (Nat × β)),
    (∀ x ∈ ps, (f x.1).isSome = true) →
    (ps.filterMap (fun x => if p x.2 then f x.1 else none)).length = (ps.filter (fun x => p x.2)).length := by
  intro ps
  induction ps with
  | nil => intro _; rfl
  | cons x t ih =>
    intro h
    have hx := h x (List.mem_cons_self ..)
    have iht := ih (fun y hy => h y (List.mem_cons_of_mem _ hy))
    simp only [List.filterMap_cons, List.filter_cons]
    by_cases hp : p x.2 = true
    · simp only [hp, if_true]
      cases hf : f x.1 with
      | none => rw [hf] at hx; cases hx
      | some v => simp only [List.length_cons, iht]
    · simp only [hp, Bool.false_eq_true, if_false, iht]

theorem zip_range_filter_length {β : Type} (p : β → Bool) (l : List β) :
    (((List.range l.length).zip l).filter (fun x => p x.2)).length = (l.filter p).length := by
  have h1 : (((List.range l.length).zip l).filter (fun x => p x.2)).map (·.2) = l.filter p := by
    rw [show (fun x : Nat × β => p x.2) = (p ∘ fun x => x.2) from rfl, ← List.filter_map, List.map_snd_zip (by simp)]
  rw [← h1, List.length_map]

/-- **the running-sum column of the detail table has one entry per shown fraction** -/
theorem compute_fracRun_length (asset : String) (acctName : Nat → String) (period : Int) (allowNeg : Bool) (fromD toD : Option Int)
    (sched : List (Int × Method)) (ins : List InTx) (outs : List OutTx) (intras : List IntraTx) (cd : Computed)
    (h : compute asset acctName period allowNeg fromD toD sched ins outs intras = .ok cd) : cd.fracRun.length = cd.fracs.length := by
  unfold compute at h
  split at h
  · cases h
  · rename_i fs hfs
    split at h
    · cases h
    · simp only [Except.ok.injEq] at h
      subst h
      simp only
      have hcutlen : (cutAt (fun f : Fraction => f.ev.ts.day) toD fs).length ≤ fs.length := by
        unfold cutAt; cases toD with
        | none => exact Nat.le_refl _
        | some t => exact (List.takeWhile_sublist _).length_le
      have hnum := numberFractions_length (cutAt (fun f : Fraction => f.ev.ts.day) toD fs)
      have hsome : ∀ x ∈ (List.range (cutAt (fun f : Fraction => f.ev.ts.day) toD fs).length).zip (numberFractions (cutAt (fun f : Fraction => f.ev.ts.day) toD fs)),
          ((runSums (fun f : Fraction => ofUnits f.amt) fs)[x.1]?).isSome = true := by
        intro x hx
        have := (List.of_mem_zip hx).1
        have hlt := List.mem_range.mp this
        rw [List.getElem?_eq_getElem (by rw [runSums_length]; omega)]; rfl
      rw [← hnum] at hsome
      cases fromD with
      | none =>
        have := filterMap_pairs_length (fun i => (runSums (fun f : Fraction => ofUnits f.amt) fs)[i]?) (fun _ : Numbered => true) _ hsome
        simp only [if_true] at this
        rw [← hnum]
        simp only [this]
        exact zip_range_filter_length (fun _ : Numbered => true) _
      | some d =>
        have := filterMap_pairs_length (fun i => (runSums (fun f : Fraction => ofUnits f.amt) fs)[i]?) (fun n : Numbered => decide (d ≤ n.f.ev.ts.day)) _ hsome
        simp only [decide_eq_true_eq] at this
        rw [← hnum]
        simp only [this]
        exact zip_range_filter_length (fun n : Numbered => decide (d ≤ n.f.ev.ts.day)) _

end Rp2

namespace Rp2

/-- what a Gain / Loss Detail row says about its fraction: (row, taxable event, acquired lot, amount, k, n of the event label) -/
def detailOf : RRow → Option (Nat × Int × Option Int × Rat × Nat × Nat)
  | .taxD _ row ev lot amt _ _ _ _ _ k n _ _ _ => some (row, ev, lot, amt, k, n)
  | _ => none

theorem filterMap_const_none {α β : Type} (l : List α) : l.filterMap (fun _ => (none : Option β)) = [] := by
  induction l with
  | nil => rfl
  | cons a t ih => simp [List.filterMap_cons, ih]

theorem filterMap_some_fun {α β : Type} (g : α → β) (l : List α) : l.filterMap (fun x => some (g x)) = l.map g := by
  induction l with
  | nil => rfl
  | cons a t ih => simp [List.filterMap_cons, ih]

/-- **the Gain / Loss Detail table of an asset has exactly one row per (shown fraction, running sum) pair, in order, from row `dStart + 1`**,
    carrying that fraction's taxable event, lot, amount and `k/n` label -/
theorem layout_detail_rows (cpa : Bool) (holderOf : Nat → String) (period : Int) (st : GenState) (c : Computed) :
    (layoutAsset cpa holderOf period st c).rows.filterMap detailOf =
      ((List.range c.fracs.length).zip (c.fracs.zip c.fracRun)).map (fun x =>
        ((layoutAsset cpa holderOf period st c).dStart + x.1 + 1, x.2.1.f.ev.row, x.2.1.f.lot.map (·.row), ofUnits x.2.1.f.amt, x.2.1.evK + 1, x.2.1.evN)) := by
  unfold layoutAsset
  simp only [List.filterMap_append, List.filterMap_map, List.map_map, Function.comp_def, detailOf, filterMap_const_none,
    List.filterMap_cons, List.filterMap_nil, List.nil_append, List.append_nil]
  exact filterMap_some_fun _ _

end Rp2
