import Mathlib.Tactic.Ring
import Mathlib.Tactic.Linarith
import Mathlib.Tactic.FieldSimp
import Mathlib.Tactic.NormNum
import Mathlib.Tactic.Positivity
import Mathlib.Tactic.Push
import Mathlib.Algebra.Order.Field.Rat
import Mathlib.Algebra.Order.Field.Power
import Mathlib.Data.Rat.Cast.Order
import Rp2.Proofs.RoundErr
/-! Relative error of the model's `rnd p` (Python `decimal` with precision `p`, half-even): at most ½·10^(1−p). -/
namespace Rp2

theorem ndigits_spec : ∀ (fuel n : Nat), n < fuel → n ≠ 0 → 1 ≤ ndigits fuel n ∧ 10 ^ (ndigits fuel n - 1) ≤ n ∧ n < 10 ^ (ndigits fuel n) := by
  intro fuel
  induction fuel with
  | zero => intro n h; omega
  | succ f ih =>
    intro n hn hn0
    simp only [ndigits, hn0, if_false]
    by_cases h10 : n / 10 = 0
    · have hlt : n < 10 := by omega
      have : ndigits f (n / 10) = 0 := by
        rw [h10]; cases f <;> simp [ndigits]
      rw [this]
      refine ⟨by omega, by simp; omega, by simpa using hlt⟩
    · have hlt : n / 10 < f := by omega
      obtain ⟨h1, h2, h3⟩ := ih (n / 10) hlt h10
      refine ⟨by omega, ?_, ?_⟩
      · have : 1 + ndigits f (n / 10) - 1 = (ndigits f (n / 10) - 1) + 1 := by omega
        rw [this, Nat.pow_succ]
        have := Nat.div_mul_le_self n 10
        nlinarith
      · rw [Nat.add_comm, Nat.pow_succ]
        have := Nat.lt_succ_iff.mpr (Nat.le_refl (n / 10))
        have hdm := Nat.div_add_mod n 10
        have hm := Nat.mod_lt n (by norm_num : 0 < 10)
        nlinarith

theorem geP_iff (n d : Nat) (hd : 0 < d) (e : Int) : geP n d e = true ↔ (10 : ℚ) ^ e ≤ (n : ℚ) / d := by
  have hdq : (0 : ℚ) < d := by exact_mod_cast hd
  unfold geP
  by_cases he : e ≥ 0
  · simp only [he, if_true, decide_eq_true_eq]
    obtain ⟨E, rfl⟩ := Int.eq_ofNat_of_zero_le he
    simp only [Int.toNat_natCast, zpow_natCast]
    rw [le_div_iff₀ hdq]
    constructor
    · intro h; have : ((d * 10 ^ E : Nat) : ℚ) ≤ n := by exact_mod_cast h
      push_cast at this; linarith
    · intro h; have : ((d * 10 ^ E : Nat) : ℚ) ≤ n := by push_cast; linarith
      exact_mod_cast this
  · simp only [he, if_false, decide_eq_true_eq]
    have hneg : e < 0 := by omega
    obtain ⟨E, hE⟩ : ∃ E : Nat, e = -(E : Int) := ⟨(-e).toNat, by omega⟩
    subst hE
    simp only [neg_neg, Int.toNat_natCast, zpow_neg, zpow_natCast]
    have hpow : (0 : ℚ) < 10 ^ E := by positivity
    rw [le_div_iff₀ hdq, inv_mul_le_iff₀ hpow]
    constructor
    · intro h; have : ((d : Nat) : ℚ) ≤ ((n * 10 ^ E : Nat) : ℚ) := by exact_mod_cast h
      push_cast at this; linarith
    · intro h; have : ((d : Nat) : ℚ) ≤ ((n * 10 ^ E : Nat) : ℚ) := by push_cast; linarith
      exact_mod_cast this

/-- the exponent `rnd` settles on never exceeds the true one: `10^e ≤ |x|` -/
theorem chosen_exponent_le (n d : Nat) (hn : 0 < n) (hd : 0 < d) :
    let e0 : Int := (ndigits (n+1) n : Int) - (ndigits (d+1) d : Int)
    let e : Int := if geP n d e0 then (if geP n d (e0 + 1) then e0 + 1 else e0) else e0 - 1
    (10 : ℚ) ^ e ≤ (n : ℚ) / d := by
  intro e0 e
  have hdq : (0 : ℚ) < d := by exact_mod_cast hd
  show (10 : ℚ) ^ (if geP n d e0 then (if geP n d (e0 + 1) then e0 + 1 else e0) else e0 - 1) ≤ (n : ℚ) / d
  by_cases h0 : geP n d e0 = true
  · by_cases h1 : geP n d (e0 + 1) = true
    · simp only [h0, h1, if_true]; exact (geP_iff n d hd _).mp h1
    · simp only [h0, h1, if_true, Bool.false_eq_true, if_false]; exact (geP_iff n d hd _).mp h0
  · simp only [h0, Bool.false_eq_true, if_false]
    obtain ⟨a1, a2, _⟩ := ndigits_spec (n+1) n (by omega) (by omega)
    obtain ⟨b1, _, b3⟩ := ndigits_spec (d+1) d (by omega) (by omega)
    have hn' : ((10 : ℚ) ^ (ndigits (n+1) n - 1)) ≤ n := by exact_mod_cast a2
    have hd' : (d : ℚ) ≤ (10 : ℚ) ^ (ndigits (d+1) d) := by
      have : ((d : Nat) : ℚ) < ((10 ^ ndigits (d+1) d : Nat) : ℚ) := by exact_mod_cast b3
      push_cast at this; linarith
    have he : e0 - 1 = ((ndigits (n+1) n - 1 : Nat) : Int) - ((ndigits (d+1) d : Nat) : Int) := by
      show (ndigits (n+1) n : Int) - (ndigits (d+1) d : Int) - 1 = _
      omega
    rw [he, zpow_sub₀ (by norm_num : (10 : ℚ) ≠ 0), zpow_natCast, zpow_natCast]
    have hpd : (0 : ℚ) < 10 ^ ndigits (d+1) d := by positivity
    rw [div_le_div_iff₀ hpd hdq]
    have hpn : (0 : ℚ) ≤ 10 ^ (ndigits (n+1) n - 1) := by positivity
    nlinarith

end Rp2

namespace Rp2

theorem rnd_eq_mag (p : Nat) (x : Rat) : rnd p x =
    if x = 0 then 0 else if x.num < 0 then -rndMag p x.num.natAbs x.den else rndMag p x.num.natAbs x.den := rfl

theorem abs_eq_natAbs_div (x : ℚ) : |x| = (x.num.natAbs : ℚ) / (x.den : ℚ) := by
  have hd : (0 : ℚ) < x.den := by exact_mod_cast x.den_pos
  conv_lhs => rw [← Rat.num_div_den x]
  rw [abs_div, abs_of_pos hd]
  congr 1
  rw [← Int.cast_abs, Int.abs_eq_natAbs]; simp

theorem rndMag_err (p n d : Nat) (hp : 1 ≤ p) (hn : 0 < n) (hd : 0 < d) : |rndMag p n d - (n : ℚ) / d| ≤ ((n : ℚ) / d) / (2 * 10 ^ (p - 1)) := by
  have hL := chosen_exponent_le n d hn hd
  simp only at hL
  unfold rndMag
  simp only
  generalize (if geP n d ((ndigits (n+1) n : Int) - (ndigits (d+1) d : Int)) = true then
      (if geP n d ((ndigits (n+1) n : Int) - (ndigits (d+1) d : Int) + 1) = true then (ndigits (n+1) n : Int) - (ndigits (d+1) d : Int) + 1
       else (ndigits (n+1) n : Int) - (ndigits (d+1) d : Int)) else (ndigits (n+1) n : Int) - (ndigits (d+1) d : Int) - 1) = e at *
  have hdq : (0 : ℚ) < d := by exact_mod_cast hd
  by_cases hk : (p : Int) - 1 - e ≥ 0
  · simp only [hk, if_true]
    obtain ⟨K, hK⟩ := Int.eq_ofNat_of_zero_le hk
    rw [hK]; simp only [Int.toNat_natCast]
    have hS : (0 : ℚ) < 10 ^ K := by positivity
    have herr := roundHalfEvenNat_err (n * 10 ^ K) d hd
    push_cast at herr ⊢
    have hlow : (10 : ℚ) ^ (p - 1) ≤ (n : ℚ) / d * 10 ^ K := by
      have he' : e = ((p - 1 : Nat) : Int) - (K : Int) := by omega
      rw [he', zpow_sub₀ (by norm_num : (10 : ℚ) ≠ 0), zpow_natCast, zpow_natCast, div_le_iff₀ hS] at hL
      linarith
    have h1 : (roundHalfEvenNat (n * 10 ^ K) d : ℚ) / 10 ^ K - (n : ℚ) / d = ((roundHalfEvenNat (n * 10 ^ K) d : ℚ) - (n : ℚ) * 10 ^ K / d) / 10 ^ K := by
      field_simp
    rw [h1, abs_div, abs_of_pos hS, div_le_div_iff₀ hS (by positivity)]
    calc |(roundHalfEvenNat (n * 10 ^ K) d : ℚ) - (n : ℚ) * 10 ^ K / d| * (2 * 10 ^ (p - 1))
        ≤ (1 / 2) * (2 * 10 ^ (p - 1)) := by
          apply mul_le_mul_of_nonneg_right herr (by positivity)
      _ = 10 ^ (p - 1) := by ring
      _ ≤ (n : ℚ) / d * 10 ^ K := hlow
  · simp only [hk, if_false]
    have hk' : (p : Int) - 1 - e < 0 := by omega
    obtain ⟨K, hK⟩ : ∃ K : Nat, -((p : Int) - 1 - e) = (K : Int) := ⟨(-((p : Int) - 1 - e)).toNat, by omega⟩
    rw [hK]; simp only [Int.toNat_natCast]
    have hS : (0 : ℚ) < 10 ^ K := by positivity
    have hdS : 0 < d * 10 ^ K := Nat.mul_pos hd (by positivity)
    have herr := roundHalfEvenNat_err n (d * 10 ^ K) hdS
    push_cast at herr ⊢
    have hlow : (10 : ℚ) ^ (p - 1) * 10 ^ K ≤ (n : ℚ) / d := by
      have he' : e = ((p - 1 + K : Nat) : Int) := by push_cast; omega
      rw [he', zpow_natCast, pow_add] at hL
      exact hL
    have h1 : (roundHalfEvenNat n (d * 10 ^ K) : ℚ) * 10 ^ K - (n : ℚ) / d = ((roundHalfEvenNat n (d * 10 ^ K) : ℚ) - (n : ℚ) / (d * 10 ^ K)) * 10 ^ K := by
      field_simp
    rw [h1, abs_mul, abs_of_pos hS, le_div_iff₀ (by positivity)]
    calc |(roundHalfEvenNat n (d * 10 ^ K) : ℚ) - (n : ℚ) / (d * 10 ^ K)| * 10 ^ K * (2 * 10 ^ (p - 1))
        ≤ (1 / 2) * 10 ^ K * (2 * 10 ^ (p - 1)) := by
          apply mul_le_mul_of_nonneg_right (mul_le_mul_of_nonneg_right herr (by positivity)) (by positivity)
      _ = 10 ^ (p - 1) * 10 ^ K := by ring
      _ ≤ (n : ℚ) / d := hlow

/-- **relative error of one decimal operation**: rounding to `p` significant digits, ties to even, changes a value by at
    most half a unit in the last place, i.e. by at most `|x| / (2·10^(p−1))` (for `p = 31`: 5·10⁻³¹ relative) -/
theorem rnd_rel_err (p : Nat) (hp : 1 ≤ p) (x : ℚ) : |rnd p x - x| ≤ |x| / (2 * 10 ^ (p - 1)) := by
  rw [rnd_eq_mag]
  by_cases hx : x = 0
  · simp [hx]
  simp only [hx, if_false]
  have hnum : x.num ≠ 0 := by intro h; exact hx (Rat.num_eq_zero.mp h)
  have hn : 0 < x.num.natAbs := Int.natAbs_pos.mpr hnum
  have hd : 0 < x.den := x.den_pos
  have hmag := rndMag_err p x.num.natAbs x.den hp hn hd
  rw [abs_eq_natAbs_div x]
  have hxq : x = (x.num : ℚ) / x.den := (Rat.num_div_den x).symm
  generalize hm : rndMag p x.num.natAbs x.den = m at *
  by_cases hneg : x.num < 0
  · simp only [hneg, if_true]
    have h3 : (x.num.natAbs : ℚ) = -(x.num : ℚ) := by
      rw [Nat.cast_natAbs, abs_of_neg hneg]; push_cast; ring
    have hxv : x = -((x.num.natAbs : ℚ) / x.den) := by
      rw [h3, neg_div, neg_neg]; exact hxq
    have : -m - x = -(m - (x.num.natAbs : ℚ) / x.den) := by linarith
    rw [this, abs_neg]; exact hmag
  · simp only [hneg, if_false]
    have h3 : (x.num.natAbs : ℚ) = (x.num : ℚ) := by
      rw [Nat.cast_natAbs, abs_of_nonneg (by omega)]
    have hxv : x = (x.num.natAbs : ℚ) / x.den := by
      rw [h3]; exact hxq
    have : m - x = m - (x.num.natAbs : ℚ) / x.den := by linarith
    rw [this]; exact hmag

end Rp2
