import Rp2.Model.Report
/-! C19, Summary clause, on the full-report model: when the years of the detail rows never go back (hypothesis LocalDatesMonotone; finding
F15 is its failure), the (asset, year) → row dictionary sends each year to the first detail row of that year. -/
namespace Rp2

section alist
variable {κ ν : Type} [BEq κ] [LawfulBEq κ]

theorem aget_aset_same (l : List (κ × ν)) (k : κ) (v : ν) : aget (aset l k v) k = some v := by
  unfold aget aset
  by_cases h : l.any (·.1 == k) = true
  · rw [if_pos h, List.find?_map]
    obtain ⟨p, hp, hpk⟩ := List.any_eq_true.mp h
    cases hf : l.find? ((fun p : κ × ν => p.1 == k) ∘ fun p => if (p.1 == k) = true then (p.1, v) else p) with
    | none =>
      have := List.find?_eq_none.mp hf p hp
      simp [Function.comp, hpk] at this
    | some q =>
      have hq := List.find?_some hf
      simp only [Function.comp] at hq
      by_cases hqk : (q.1 == k) = true
      · simp [hqk]
      · simp [hqk] at hq
  · rw [if_neg h, List.find?_append]
    have hnone : l.find? (fun p => p.1 == k) = none := by
      apply List.find?_eq_none.mpr
      intro x hx hxk
      exact h (List.any_eq_true.mpr ⟨x, hx, hxk⟩)
    simp [hnone]

theorem aget_aset_other (l : List (κ × ν)) (k k' : κ) (v : ν) (hne : k' ≠ k) : aget (aset l k v) k' = aget l k' := by
  unfold aget aset
  by_cases h : l.any (·.1 == k) = true
  · rw [if_pos h, List.find?_map]
    have hpred : ((fun p : κ × ν => p.1 == k') ∘ fun p => if (p.1 == k) = true then (p.1, v) else p) = fun p => p.1 == k' := by
      funext p; simp only [Function.comp]
      by_cases hp : (p.1 == k) = true
      · simp [hp]
      · simp [hp]
    rw [hpred]
    cases hf : l.find? (·.1 == k') with
    | none => rfl
    | some q =>
      have hq' : q.1 = k' := by simpa using List.find?_some hf
      have hqk : ¬ (q.1 == k) = true := by simp [hq', hne]
      simp [hqk]
  · rw [if_neg h, List.find?_append]
    cases hf : l.find? (·.1 == k') with
    | none =>
      have : ¬ (k == k') = true := by simp; exact fun e => hne e.symm
      simp [this]
    | some q => simp

end alist

/-- position of the first detail row whose year is `y` -/
def firstIdx (y : Int) : List Int → Option Nat
  | [] => none
  | x :: t => if x = y then some 0 else (firstIdx y t).map (· + 1)

theorem firstIdx_none_of_not_mem (y : Int) : ∀ l : List Int, y ∉ l → firstIdx y l = none := by
  intro l
  induction l with
  | nil => intro _; rfl
  | cons x t ih =>
    intro h
    have hx : ¬ x = y := fun e => h (e ▸ List.mem_cons_self ..)
    simp [firstIdx, hx, ih (fun hm => h (List.mem_cons_of_mem _ hm))]

/-- **the year dictionary under non-decreasing years**: starting at detail row index `k` with previous year `prev` (every year to come
    is ≥ `prev`, and `prev` — if it occurs again — is already registered), after the remaining rows:
    a year that occurs among them and differs from `prev` maps to the first row where it occurs; every other key is untouched -/
theorem yearRowsFrom_spec (asset : String) (dStart : Nat) : ∀ (years : List Int) (k : Nat) (prev : Int) (yr : List ((String × Int) × Nat)),
    (prev :: years).Pairwise (· ≤ ·) →
    (∀ y, prev < y → aget yr (asset, y) = none) →
    (∀ y, y ∈ years → y ≠ prev → aget (yearRowsFrom asset dStart k prev yr years) (asset, y) = (firstIdx y years).map (fun i => dStart + k + i + 1)) ∧
    (∀ key, (∀ y, y ∈ years → y ≠ prev → key ≠ (asset, y)) → aget (yearRowsFrom asset dStart k prev yr years) key = aget yr key) := by
  intro years
  induction years with
  | nil =>
    intro k prev yr _ _
    refine ⟨?_, ?_⟩
    · intro y hy; cases hy
    · intro key _; rfl
  | cons x t ih =>
    intro k prev yr hs hfresh
    have hpx : prev ≤ x := (List.pairwise_cons.mp hs).1 x (List.mem_cons_self ..)
    have hst : (x :: t).Pairwise (· ≤ ·) := (List.pairwise_cons.mp hs).2
    simp only [yearRowsFrom]
    by_cases hx : x = prev
    · subst hx
      simp only [ne_eq, not_true_eq_false, if_false]
      obtain ⟨h1, h2⟩ := ih (k + 1) x yr hst hfresh
      refine ⟨?_, ?_⟩
      · intro y hy hne
        have hyt : y ∈ t := by
          rcases List.mem_cons.mp hy with e | e
          · exact absurd e hne
          · exact e
        rw [h1 y hyt hne]
        have : ¬ x = y := fun e => hne e.symm
        simp only [firstIdx, this, if_false, Option.map_map]
        congr 1; funext i; simp only [Function.comp]; omega
      · intro key hkey
        exact h2 key (fun y hy hne => hkey y (List.mem_cons_of_mem _ hy) hne)
    · have hlt : prev < x := by omega
      simp only [ne_eq, hx, not_false_eq_true, if_true]
      have hfresh' : ∀ y, x < y → aget (aset yr (asset, x) (dStart + k + 1)) (asset, y) = none := by
        intro y hy
        rw [aget_aset_other _ _ _ _ (by intro e; have := (Prod.mk.inj e).2; omega)]
        exact hfresh y (by omega)
      obtain ⟨h1, h2⟩ := ih (k + 1) x (aset yr (asset, x) (dStart + k + 1)) hst hfresh'
      refine ⟨?_, ?_⟩
      · intro y hy hne
        by_cases hyx : y = x
        · subst hyx
          rw [h2 (asset, y) (fun z _ hz e => hz (Prod.mk.inj e).2.symm), aget_aset_same]
          simp [firstIdx]
        · have hyt : y ∈ t := by
            rcases List.mem_cons.mp hy with e | e
            · exact absurd e hyx
            · exact e
          rw [h1 y hyt hyx]
          have : ¬ x = y := fun e => hyx e.symm
          simp only [firstIdx, this, if_false, Option.map_map]
          congr 1; funext i; simp only [Function.comp]; omega
      · intro key hkey
        rw [h2 key (fun y hy hne => hkey y (List.mem_cons_of_mem _ hy) (by
          intro e; subst e
          -- y = prev would contradict prev < x ≤ y
          have := (List.pairwise_cons.mp hst).1 y hy
          omega))]
        exact aget_aset_other _ _ _ _ (hkey x (List.mem_cons_self ..) hx)

end Rp2

namespace Rp2
/-- years of the detail rows of an asset, in row order -/
def detailYears (c : Computed) : List Int := (c.fracs.zip c.fracRun).map (·.1.f.ev.ts.year)

theorem layout_yearRow (cpa : Bool) (holderOf : Nat → String) (period : Int) (st : GenState) (c : Computed) :
    (layoutAsset cpa holderOf period st c).state.yearRow =
      yearRowsFrom c.asset (layoutAsset cpa holderOf period st c).dStart 0 0 st.yearRow (detailYears c) := rfl

/-- **C19, Summary clause, on the full-report model.** If the years of an asset's detail rows never go back (hypothesis
    LocalDatesMonotone) and the asset has not been written before, then after the asset is laid out the (asset, year) dictionary —
    from which the Summary links are taken — sends every year that has a detail row to the first detail row of that year, and keeps
    every entry of the other assets. -/
theorem layout_summary_links (cpa : Bool) (holderOf : Nat → String) (period : Int) (st : GenState) (c : Computed)
    (hmono : (detailYears c).Pairwise (· ≤ ·)) (hpos : ∀ y ∈ detailYears c, 0 < y)
    (hfresh : ∀ y, aget st.yearRow (c.asset, y) = none) :
    (∀ y ∈ detailYears c, aget (layoutAsset cpa holderOf period st c).state.yearRow (c.asset, y) =
        (firstIdx y (detailYears c)).map (fun i => (layoutAsset cpa holderOf period st c).dStart + i + 1)) ∧
    (∀ a y, a ≠ c.asset → aget (layoutAsset cpa holderOf period st c).state.yearRow (a, y) = aget st.yearRow (a, y)) := by
  rw [layout_yearRow]
  have hs : ((0 : Int) :: detailYears c).Pairwise (· ≤ ·) :=
    List.pairwise_cons.mpr ⟨fun y hy => Int.le_of_lt (hpos y hy), hmono⟩
  obtain ⟨h1, h2⟩ := yearRowsFrom_spec c.asset (layoutAsset cpa holderOf period st c).dStart (detailYears c) 0 0 st.yearRow hs (fun y _ => hfresh y)
  refine ⟨?_, ?_⟩
  · intro y hy
    have := h1 y hy (by have := hpos y hy; omega)
    simpa using this
  · intro a y ha
    exact h2 (a, y) (fun z _ _ e => ha (Prod.mk.inj e).1)
end Rp2
