import Rp2.Proofs.SortPerm
import Rp2.Model.Pipeline
/-! C17 on the executable pipeline: reordering the rows of the three tables does not change the computed fractions when timestamps
are distinct (each transaction keeps its identity; only the order in which the rows are presented changes). -/
namespace Rp2

theorem taxableEvents_perm_eq (ins ins' : List InTx) (outs outs' : List OutTx) (intras intras' : List IntraTx)
    (hi : ins.Perm ins') (ho : outs.Perm outs') (hx : intras.Perm intras')
    (hinj : ∀ a ∈ (ins.filter (·.typ.isEarn)).map InTx.toEv ++ outs.map OutTx.toEv ++ (intras.filter (fun t => gt13 t.fiatFee 0)).map IntraTx.toEv,
            ∀ b ∈ (ins.filter (·.typ.isEarn)).map InTx.toEv ++ outs.map OutTx.toEv ++ (intras.filter (fun t => gt13 t.fiatFee 0)).map IntraTx.toEv,
            a.ts.us = b.ts.us → a = b) :
    taxableEvents ins outs intras = taxableEvents ins' outs' intras' := by
  unfold taxableEvents
  apply sortByTs_perm_eq _ _ _ _ hinj
  exact ((hi.filter _).map _).append (ho.map _) |>.append ((hx.filter _).map _)

/-- **C17 (row order) on `computeFractions`**: permuting the rows of the IN, OUT and INTRA tables leaves the computed fractions
    unchanged, provided acquisitions have distinct timestamps and taxable events have distinct timestamps -/
theorem computeFractions_perm (sched : List (Int × Method)) (ins ins' : List InTx) (outs outs' : List OutTx) (intras intras' : List IntraTx)
    (hi : ins.Perm ins') (ho : outs.Perm outs') (hx : intras.Perm intras')
    (hlots : ∀ a ∈ ins, ∀ b ∈ ins, a.ts.us = b.ts.us → a = b)
    (hevs : ∀ a ∈ (ins.filter (·.typ.isEarn)).map InTx.toEv ++ outs.map OutTx.toEv ++ (intras.filter (fun t => gt13 t.fiatFee 0)).map IntraTx.toEv,
            ∀ b ∈ (ins.filter (·.typ.isEarn)).map InTx.toEv ++ outs.map OutTx.toEv ++ (intras.filter (fun t => gt13 t.fiatFee 0)).map IntraTx.toEv,
            a.ts.us = b.ts.us → a = b) :
    computeFractions sched ins outs intras = computeFractions sched ins' outs' intras' := by
  unfold computeFractions
  rw [sortByTs_perm_eq (fun l : InTx => l.ts.us) ins ins' hi hlots, taxableEvents_perm_eq ins ins' outs outs' intras intras' hi ho hx hevs]
end Rp2
