import Rp2.Model.OtherReports
/-! C15 on the open-positions model (`openPositions`): which rows the report has. Every holder with a positive final balance gets exactly
one row on the "Asset" sheet, every (holder, account) with a positive final balance exactly one row on the "Asset - Exchange" sheet with
that very balance, for every asset that has unsold cost; rows are numbered consecutively below the three header rows. -/
namespace Rp2

theorem addS_keys (l : List (String × Rat)) (k : String) (v : Rat) :
    (addS l k v).map (·.1) = if k ∈ l.map (·.1) then l.map (·.1) else l.map (·.1) ++ [k] := by
  unfold addS
  by_cases h : l.any (·.1 == k) = true
  · have hk : k ∈ l.map (·.1) := by
      obtain ⟨p, hp, hpk⟩ := List.any_eq_true.mp h
      exact List.mem_map.mpr ⟨p, hp, by simpa using hpk⟩
    rw [if_pos h, if_pos hk, List.map_map]
    apply List.map_congr_left; intro p _; simp only [Function.comp]; split
    · rename_i h'; simp at h'; simp [h']
    · rfl
  · have hk : k ∉ l.map (·.1) := by
      intro hk; apply h
      obtain ⟨p, hp, hpk⟩ := List.mem_map.mp hk
      exact List.any_eq_true.mpr ⟨p, hp, by simp [hpk]⟩
    rw [if_neg h, if_neg hk]; simp

/-- the per-holder dictionary built by `setdefault` + `+=`: keys are distinct and are exactly the holders met -/
theorem holders_fold_keys {α : Type} (f : α → String) (g : α → Rat) : ∀ (l : List α) (init : List (String × Rat)),
    (init.map (·.1)).Nodup →
    ((l.foldl (fun acc b => addS acc (f b) (g b)) init).map (·.1)).Nodup ∧
    ∀ k, k ∈ (l.foldl (fun acc b => addS acc (f b) (g b)) init).map (·.1) ↔ k ∈ init.map (·.1) ∨ k ∈ l.map f := by
  intro l
  induction l with
  | nil => intro init h; simp [h]
  | cons b t ih =>
    intro init h
    simp only [List.foldl_cons]
    have hk := addS_keys init (f b) (g b)
    have hnd : ((addS init (f b) (g b)).map (·.1)).Nodup := by
      rw [hk]; split
      · exact h
      · rename_i hn
        rw [List.nodup_append]
        exact ⟨h, by simp, by intro a ha b' hb'; simp at hb'; subst hb'; intro e; subst e; exact hn ha⟩
    obtain ⟨h1, h2⟩ := ih _ hnd
    refine ⟨h1, ?_⟩
    intro k
    rw [h2 k, hk]
    split
    · rename_i hin
      simp only [List.map_cons, List.mem_cons]
      constructor
      · rintro (h' | h'); exact Or.inl h'; exact Or.inr (Or.inr h')
      · rintro (h' | h' | h'); exact Or.inl h'; exact Or.inl (h' ▸ hin); exact Or.inr h'
    · simp only [List.mem_append, List.map_cons, List.mem_cons, List.not_mem_nil, or_false]
      constructor
      · rintro ((h' | h') | h'); exact Or.inl h'; exact Or.inr (Or.inl h'); exact Or.inr (Or.inr h')
      · rintro (h' | h' | h'); exact Or.inl (Or.inl h'); exact Or.inl (Or.inr h'); exact Or.inr h'

theorem foldl_append_filter (exch : List (String × Nat × Rat)) : ∀ (hs : List (String × Rat)) (init : List (String × Nat × Rat)),
    hs.foldl (fun l h => l ++ exch.filter (·.1 == h.1)) init = init ++ (hs.map (·.1)).flatMap (fun k => exch.filter (·.1 == k)) := by
  intro hs
  induction hs with
  | nil => intro init; simp
  | cons h t ih => intro init; simp only [List.foldl_cons, ih, List.map_cons, List.flatMap_cons, List.append_assoc]

theorem flatMap_congr' {α β : Type} (f g : α → List β) : ∀ (l : List α), (∀ a ∈ l, f a = g a) → l.flatMap f = l.flatMap g := by
  intro l
  induction l with
  | nil => intro _; rfl
  | cons a t ih =>
    intro h
    rw [List.flatMap_cons, List.flatMap_cons, h a (List.mem_cons_self ..), ih (fun x hx => h x (List.mem_cons_of_mem _ hx))]

/-- grouping a list by a duplicate-free list of keys that covers it only reorders it -/
theorem flatMap_filter_perm : ∀ (ks : List String) (exch : List (String × Nat × Rat)), ks.Nodup → (∀ x ∈ exch, x.1 ∈ ks) →
    (ks.flatMap (fun k => exch.filter (·.1 == k))).Perm exch := by
  intro ks
  induction ks with
  | nil =>
    intro exch _ h
    have : exch = [] := by
      cases exch with
      | nil => rfl
      | cons x t => exact absurd (h x (List.mem_cons_self ..)) (by simp)
    subst this; simp
  | cons k t ih =>
    intro exch hnd hcov
    have hk : k ∉ t := (List.nodup_cons.mp hnd).1
    have hrest : t.flatMap (fun k' => exch.filter (·.1 == k')) = t.flatMap (fun k' => (exch.filter (fun x => !(x.1 == k))).filter (·.1 == k')) := by
      apply flatMap_congr'
      intro k' hk'
      rw [List.filter_filter]
      apply List.filter_congr
      intro x _
      by_cases hx : x.1 = k'
      · have : ¬ k' = k := by intro e; exact hk (e ▸ hk')
        simp [hx, this]
      · simp [hx]
    rw [List.flatMap_cons, hrest]
    have := ih (exch.filter (fun x => !(x.1 == k))) (List.nodup_cons.mp hnd).2 (by
      intro x hx
      obtain ⟨hx1, hx2⟩ := List.mem_filter.mp hx
      have := hcov x hx1
      rcases List.mem_cons.mp this with e | e
      · simp [e] at hx2
      · exact e)
    exact (List.Perm.append_left _ this).trans (List.filter_append_perm _ _)

/-- the positive final balances of an asset, as (holder, account, balance) -/
def posBalances (holderOf : Nat → String) (c : Computed) : List (String × Nat × Rat) :=
  (c.bals.filter (fun b => gt13 (ofUnits b.fin) 0)).map (fun b => (holderOf b.acct, b.acct, ofUnits b.fin))

/-- **first pass**: the holder dictionary has each holder with a positive balance once, and the rows of the "Asset - Exchange" sheet are
    a rearrangement (grouped by holder) of the positive balances -/
theorem opAsset_spec (holderOf : Nat → String) (c : Computed) :
    (((opAsset holderOf c).holders).map (·.1)).Nodup ∧
    (∀ h, h ∈ ((opAsset holderOf c).holders).map (·.1) ↔ ∃ x ∈ posBalances holderOf c, x.1 = h) ∧
    (opGrouped (opAsset holderOf c)).Perm (posBalances holderOf c) := by
  have hf := holders_fold_keys (fun b : BalRow => holderOf b.acct) (fun b => ofUnits b.fin) (c.bals.filter (fun b => gt13 (ofUnits b.fin) 0)) [] (by simp)
  obtain ⟨h1, h2⟩ := hf
  have hmem : ∀ h, h ∈ ((opAsset holderOf c).holders).map (·.1) ↔ ∃ x ∈ posBalances holderOf c, x.1 = h := by
    intro h
    have := h2 h
    simp only [List.map_nil, List.not_mem_nil, false_or] at this
    unfold opAsset posBalances
    simp only
    rw [this]
    simp only [List.mem_map]
    constructor
    · rintro ⟨b, hb, rfl⟩; exact ⟨_, ⟨b, hb, rfl⟩, rfl⟩
    · rintro ⟨x, ⟨b, hb, rfl⟩, rfl⟩; exact ⟨b, hb, rfl⟩
  refine ⟨h1, hmem, ?_⟩
  unfold opGrouped
  rw [foldl_append_filter, List.nil_append]
  apply flatMap_filter_perm _ _ h1
  intro x hx
  exact (hmem x.1).mpr ⟨x, hx, rfl⟩

end Rp2

namespace Rp2

theorem zip_range_map_fst {α β : Type} (l : List α) (F : Nat → β) :
    ((List.range l.length).zip l).map (fun p => F p.1) = (List.range l.length).map F := by
  have : ((List.range l.length).zip l).map (fun p => F p.1) = (((List.range l.length).zip l).map (·.1)).map F := by
    rw [List.map_map]; rfl
  rw [this, List.map_fst_zip (by simp)]

theorem zip_range_map_snd {α β : Type} (l : List α) (G : α → β) :
    ((List.range l.length).zip l).map (fun p => G p.2) = l.map G := by
  have : ((List.range l.length).zip l).map (fun p => G p.2) = (((List.range l.length).zip l).map (·.2)).map G := by
    rw [List.map_map]; rfl
  rw [this, List.map_snd_zip (by simp)]

theorem opARows_rows (p : OPAsset) (unit total : Rat) (ai : Nat) :
    (opARows p unit total ai).map (·.row) = List.range' (ai + 1) p.holders.length ∧
    (opARows p unit total ai).map (fun x => (x.asset, x.holder, x.bal)) = p.holders.map (fun h => (p.asset, h.1, h.2)) ∧
    (opARows p unit total ai).length = p.holders.length := by
  unfold opARows
  refine ⟨?_, ?_, by simp⟩
  · rw [List.map_map]
    have := zip_range_map_fst p.holders (fun k => ai + k + 1)
    simp only [Function.comp_def]
    rw [this, List.range'_eq_map_range]
    apply List.map_congr_left; intro k _; omega
  · rw [List.map_map]
    exact zip_range_map_snd p.holders (fun h => (p.asset, h.1, h.2))

theorem opERows_rows (p : OPAsset) (unit total : Rat) (ei : Nat) :
    (opERows p unit total ei).map (·.row) = List.range' (ei + 1) (opGrouped p).length ∧
    (opERows p unit total ei).map (fun x => (x.asset, x.holder, x.acct, x.bal)) = (opGrouped p).map (fun g => (p.asset, g.1, g.2.1, g.2.2)) ∧
    (opERows p unit total ei).length = (opGrouped p).length := by
  unfold opERows
  refine ⟨?_, ?_, by simp⟩
  · rw [List.map_map]
    have := zip_range_map_fst (opGrouped p) (fun k => ei + k + 1)
    simp only [Function.comp_def]
    rw [this, List.range'_eq_map_range]
    apply List.map_congr_left; intro k _; omega
  · rw [List.map_map]
    exact zip_range_map_snd (opGrouped p) (fun g => (p.asset, g.1, g.2.1, g.2.2))

/-- state of the second pass: counters = 3 header rows + rows written so far; rows numbered 4, 5, … -/
def OPInv (acc : List OARow × List OERow × Nat × Nat) : Prop :=
  acc.2.2.1 = 3 + acc.1.length ∧ acc.2.2.2 = 3 + acc.2.1.length ∧
  acc.1.map (·.row) = List.range' 4 acc.1.length ∧ acc.2.1.map (·.row) = List.range' 4 acc.2.1.length

theorem opStep_total (total : Rat) (acc : List OARow × List OERow × Nat × Nat) (p : OPAsset) : ∃ r, opStep total acc p = .ok r := by
  unfold opStep
  cases p.cost with
  | none => exact ⟨_, rfl⟩
  | some cost =>
    simp only
    split
    · exact ⟨_, rfl⟩
    · exact ⟨_, rfl⟩

theorem foldlM_opStep_spec (total : Rat) : ∀ (per : List OPAsset) (acc r : List OARow × List OERow × Nat × Nat),
    per.foldlM (opStep total) acc = .ok r → OPInv acc →
    OPInv r ∧
    r.1.map (fun x => (x.asset, x.holder, x.bal)) = acc.1.map (fun x => (x.asset, x.holder, x.bal)) ++
      (per.filter (fun p => p.cost.isSome && !p.holders.isEmpty)).flatMap (fun p => p.holders.map (fun h => (p.asset, h.1, h.2))) ∧
    r.2.1.map (fun x => (x.asset, x.holder, x.acct, x.bal)) = acc.2.1.map (fun x => (x.asset, x.holder, x.acct, x.bal)) ++
      (per.filter (fun p => p.cost.isSome && !p.holders.isEmpty)).flatMap (fun p => (opGrouped p).map (fun g => (p.asset, g.1, g.2.1, g.2.2))) := by
  intro per
  induction per with
  | nil =>
    intro acc r h hinv
    simp only [List.foldlM_nil, pure, Except.pure, Except.ok.injEq] at h
    subst h; simp [hinv]
  | cons p t ih =>
    intro acc r h hinv
    simp only [List.foldlM_cons, bind, Except.bind] at h
    cases hs : opStep total acc p with
    | error e => rw [hs] at h; cases h
    | ok acc' =>
      rw [hs] at h
      simp only at h
      unfold opStep at hs
      cases hc : p.cost with
      | none =>
        rw [hc] at hs
        simp only [pure, Except.pure, Except.ok.injEq] at hs
        subst hs
        obtain ⟨h1, h2, h3⟩ := ih acc r h hinv
        refine ⟨h1, ?_, ?_⟩
        · simpa [List.filter_cons, hc] using h2
        · simpa [List.filter_cons, hc] using h3
      | some cost =>
        rw [hc] at hs
        simp only at hs
        by_cases he : p.holders.isEmpty = true
        · rw [if_pos he] at hs
          simp only [pure, Except.pure, Except.ok.injEq] at hs
          subst hs
          obtain ⟨h1, h2, h3⟩ := ih acc r h hinv
          refine ⟨h1, ?_, ?_⟩
          · simpa [List.filter_cons, hc, he] using h2
          · simpa [List.filter_cons, hc, he] using h3
        · rw [if_neg he] at hs
          simp only [pure, Except.pure, Except.ok.injEq] at hs
          obtain ⟨i1, i2, i3, i4⟩ := hinv
          generalize hu : ddiv cost (p.holders.foldl (fun s h => dadd s h.2) 0) = unit at hs
          obtain ⟨a1, a2, a3⟩ := opARows_rows p unit total acc.2.2.1
          obtain ⟨e1, e2, e3⟩ := opERows_rows p unit total acc.2.2.2
          have hinv' : OPInv acc' := by
            subst hs
            refine ⟨?_, ?_, ?_, ?_⟩
            · simp only [List.length_append]; omega
            · simp only [List.length_append]; omega
            · simp only [List.map_append, List.length_append, a1, i3, a3]
              rw [i1, show 3 + acc.1.length + 1 = 4 + acc.1.length by omega]
              exact List.range'_append_1 ..
            · simp only [List.map_append, List.length_append, e1, i4, e3]
              rw [i2, show 3 + acc.2.1.length + 1 = 4 + acc.2.1.length by omega]
              exact List.range'_append_1 ..
          obtain ⟨h1, h2, h3⟩ := ih acc' r h hinv'
          have hne : (!p.holders.isEmpty) = true := by simp [he]
          refine ⟨h1, ?_, ?_⟩
          · rw [h2]; subst hs
            simp only [List.map_append, a2, List.filter_cons, hc, Option.isSome_some, hne, Bool.and_self, if_true, List.flatMap_cons, List.append_assoc]
          · rw [h3]; subst hs
            simp only [List.map_append, e2, List.filter_cons, hc, Option.isSome_some, hne, Bool.and_self, if_true, List.flatMap_cons, List.append_assoc]

/-- **C16**: after the repair of F16 the open-positions model has no failure branch left -/
theorem openPositions_total (holderOf : Nat → String) (cs : List Computed) : ∃ r, openPositions holderOf cs = .ok r := by
  unfold openPositions
  have : ∀ (per : List OPAsset) (total : Rat) (acc : List OARow × List OERow × Nat × Nat), ∃ r, per.foldlM (opStep total) acc = .ok r := by
    intro per total
    induction per with
    | nil => intro acc; exact ⟨acc, rfl⟩
    | cons p t ih =>
      intro acc
      obtain ⟨a', ha'⟩ := opStep_total total acc p
      obtain ⟨r, hr⟩ := ih a'
      exact ⟨r, by simp only [List.foldlM_cons, bind, Except.bind, ha']; exact hr⟩
  simp only [bind, Except.bind]
  generalize (cs.foldl (fun (t : Rat) c => c.ins.foldl (fun t tx =>
      let sold := (lookupI tx.row c.sold).getD 0
      let tcb := dmul tx.fiatWithFee (dsub 1 sold)
      if gt13 tcb 0 then dadd t tcb else t) t) 0) = total
  obtain ⟨r, hr⟩ := this (cs.map (opAsset holderOf)) total ([], [], 3, 3)
  rw [hr]
  exact ⟨_, rfl⟩

/-- **C15 on the open-positions model — which rows the report has.** For the assets that have unsold cost and a positive balance, in
    processing order: the "Asset" sheet has one row per holder of the holder dictionary (distinct holders = those with a positive final
    balance, `opAsset_spec`), the "Asset - Exchange" sheet one row per positive (holder, account) balance carrying that balance, grouped by
    holder; rows are numbered 4, 5, … without gaps. -/
theorem openPositions_rows (holderOf : Nat → String) (cs : List Computed) (ars : List OARow) (ers : List OERow) (hs : List String)
    (h : openPositions holderOf cs = .ok (ars, ers, hs)) :
    ars.map (fun x => (x.asset, x.holder, x.bal)) =
      ((cs.map (opAsset holderOf)).filter (fun p => p.cost.isSome && !p.holders.isEmpty)).flatMap (fun p => p.holders.map (fun h => (p.asset, h.1, h.2))) ∧
    ers.map (fun x => (x.asset, x.holder, x.acct, x.bal)) =
      ((cs.map (opAsset holderOf)).filter (fun p => p.cost.isSome && !p.holders.isEmpty)).flatMap (fun p => (opGrouped p).map (fun g => (p.asset, g.1, g.2.1, g.2.2))) ∧
    ars.map (·.row) = List.range' 4 ars.length ∧ ers.map (·.row) = List.range' 4 ers.length := by
  unfold openPositions at h
  simp only [bind, Except.bind] at h
  split at h
  · cases h
  · rename_i r hr
    simp only [pure, Except.pure, Except.ok.injEq, Prod.mk.injEq] at h
    obtain ⟨rfl, rfl, _⟩ := h
    obtain ⟨⟨_, _, i3, i4⟩, h2, h3⟩ := foldlM_opStep_spec _ _ _ _ hr (by simp [OPInv])
    exact ⟨by simpa using h2, by simpa using h3, i3, i4⟩

end Rp2

namespace Rp2
/-- per-unit cost, cost and weight columns of the rows of one asset: cost = balance × unit cost, weight = cost / total (31-digit decimal
    operations `dmul`, `ddiv` — their exact-arithmetic counterparts are the laws in `Props/C15.lean`) -/
theorem opARows_fields (p : OPAsset) (unit total : Rat) (ai : Nat) :
    ∀ x ∈ opARows p unit total ai, x.unit = unit ∧ x.cost = dmul x.bal unit ∧ x.weight = ddiv x.cost total := by
  intro x hx
  unfold opARows at hx
  obtain ⟨⟨k, h, b⟩, _, rfl⟩ := List.mem_map.mp hx
  exact ⟨rfl, rfl, rfl⟩
theorem opERows_fields (p : OPAsset) (unit total : Rat) (ei : Nat) :
    ∀ x ∈ opERows p unit total ei, x.unit = unit ∧ x.cost = dmul x.bal unit ∧ x.weight = ddiv x.cost total := by
  intro x hx
  unfold opERows at hx
  obtain ⟨⟨k, h, a, b⟩, _, rfl⟩ := List.mem_map.mp hx
  exact ⟨rfl, rfl, rfl⟩
end Rp2
