import Rp2.Proofs.RoundErr
/-! Exact-arithmetic laws behind the open-positions report (C15). The model computes the same expressions in the
31-digit decimal model (`dmul t.fiatWithFee (dsub 1 sold)`, `ddiv cost total`, …). -/
namespace Rp2

theorem sum_map_mul_div (F A : ℚ) (l : List ℚ) : (l.map (fun a => F * a / A)).sum = F * l.sum / A := by
  induction l with
  | nil => simp
  | cons a t ih => simp only [List.map_cons, List.sum_cons, ih]; ring

/-- realized + unrealized = acquired, per lot: the cost of the pieces taken from a lot plus the lot's cost times
    (1 − sold fraction) is the lot's full cost, whatever was consumed -/
theorem realized_plus_unrealized (F A : ℚ) (hA : A ≠ 0) (as : List ℚ) :
    (as.map (fun a => F * a / A)).sum + F * (1 - as.sum / A) = F := by
  rw [sum_map_mul_div]; field_simp; ring

/-- summed over all lots of an asset -/
theorem conservation (lots : List (ℚ × ℚ × List ℚ)) (hA : ∀ l ∈ lots, l.2.1 ≠ 0) :
    (lots.map (fun l => (l.2.2.map (fun a => l.1 * a / l.2.1)).sum)).sum + (lots.map (fun l => l.1 * (1 - l.2.2.sum / l.2.1))).sum
      = (lots.map (·.1)).sum := by
  induction lots with
  | nil => simp
  | cons l t ih =>
    have h1 := realized_plus_unrealized l.1 l.2.1 (hA l (List.mem_cons_self)) l.2.2
    have h2 := ih (fun x hx => hA x (List.mem_cons_of_mem _ hx))
    simp only [List.map_cons, List.sum_cons]
    linarith

/-- cost-basis weights add up to 100 % -/
theorem weights_sum_one (cs : List ℚ) (T : ℚ) (hT : T ≠ 0) (h : cs.sum = T) : (cs.map (· / T)).sum = 1 := by
  have : ∀ l : List ℚ, (l.map (· / T)).sum = l.sum / T := by
    intro l; induction l with
    | nil => simp
    | cons a t ih => simp only [List.map_cons, List.sum_cons, ih]; ring
  rw [this, h]; field_simp

/-- per-unit cost × balances add back to the asset's unrealized cost -/
theorem unit_cost_distributes (bs : List ℚ) (C : ℚ) (hB : bs.sum ≠ 0) : (bs.map (fun b => b * (C / bs.sum))).sum = C := by
  have : ∀ l : List ℚ, ∀ u : ℚ, (l.map (fun b => b * u)).sum = l.sum * u := by
    intro l u; induction l with
    | nil => simp
    | cons a t ih => simp only [List.map_cons, List.sum_cons, ih]; ring
  rw [this]; field_simp
end Rp2
