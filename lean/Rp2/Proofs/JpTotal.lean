import Rp2.Model.OtherReports
/-! C16 on the JP report model: the only failure of `jpAsset` is a fee-bearing transfer whose yen fee vanishes at 13 decimals (finding F13,
hypothesis `FeeFiatVisible`). -/
namespace Rp2

/-- hypothesis FeeFiatVisible on a transaction of the JP report: a transfer with a crypto fee has a yen fee that is visible at 13 decimals -/
def JTx.feeVisible : JTx → Prop
  | .x t => gt13 (dsub (ofUnits t.sent) (ofUnits t.recv)) 0 = true → gt13 (dmul (dsub (ofUnits t.sent) (ofUnits t.recv)) (ofUnits t.price)) 0 = true
  | _ => True

theorem jRowOf_total (sheet : String) (row : Nat) (t : JTx) (h : t.feeVisible) : ∃ r, jRowOf sheet row t = .ok r := by
  cases t with
  | i t => exact ⟨_, rfl⟩
  | o t => exact ⟨_, rfl⟩
  | x t =>
    unfold jRowOf
    simp only
    by_cases hf : gt13 (dsub (ofUnits t.sent) (ofUnits t.recv)) 0 = true
    · have := h hf
      simp only [hf, this, Bool.not_true]
      exact ⟨_, rfl⟩
    · simp only [hf]
      exact ⟨_, rfl⟩

theorem jpRows_total (name : String) : ∀ (ts : List JTx) (k : Nat), (∀ t ∈ ts, t.feeVisible) → ∃ r, jpRows name ts k = .ok r := by
  intro ts
  induction ts with
  | nil => intro k _; exact ⟨_, rfl⟩
  | cons t rest ih =>
    intro k h
    obtain ⟨r, hr⟩ := jRowOf_total name (k + 1) t (h t (List.mem_cons_self ..))
    unfold jpRows
    simp only [bind, Except.bind, hr]
    cases r with
    | none => exact ih k (fun x hx => h x (List.mem_cons_of_mem _ hx))
    | some r =>
      obtain ⟨rs, hrs⟩ := ih (k + 1) (fun x hx => h x (List.mem_cons_of_mem _ hx))
      simp only [hrs]
      exact ⟨_, rfl⟩

theorem mem_sortByTs' {α} (ts : α → Int) (l : List α) (x : α) : x ∈ sortByTs ts l ↔ x ∈ l := by
  unfold sortByTs; exact (List.mergeSort_perm l _).mem_iff

theorem jpSheets_total (sortedYears : Bool) (asset : String) (all : List JTx) (h : ∀ t ∈ all, t.feeVisible) :
    ∀ (ys : List Int) (prevOff : Nat) (prevYear : Int), ∃ r, jpSheets sortedYears asset all ys prevOff prevYear = .ok r := by
  intro ys
  induction ys with
  | nil => intro _ _; exact ⟨_, rfl⟩
  | cons y rest ih =>
    intro prevOff prevYear
    unfold jpSheets
    obtain ⟨rows, hrows⟩ := jpRows_total (jpSheetName asset y) (sortByTs (·.ts.us) (all.filter (fun t => t.ts.year == y))) 21 (by
      intro t ht
      rw [mem_sortByTs'] at ht
      exact h t (List.mem_filter.mp ht).1)
    simp only [bind, Except.bind, hrows]
    obtain ⟨r, hr⟩ := ih (21 + rows.length + 9) y
    simp only [hr]
    exact ⟨_, rfl⟩

/-- **C16 on the JP report model**: with every fee-bearing transfer's yen fee visible at 13 decimals the generator model never fails -/
theorem jpAsset_total (sortedYears : Bool) (c : Computed)
    (h : ∀ x ∈ c.intras, gt13 (dsub (ofUnits x.sent) (ofUnits x.recv)) 0 = true → gt13 (dmul (dsub (ofUnits x.sent) (ofUnits x.recv)) (ofUnits x.price)) 0 = true) :
    ∃ r, jpAsset sortedYears c = .ok r := by
  unfold jpAsset
  apply jpSheets_total
  intro t ht
  simp only [List.mem_append, List.mem_map] at ht
  rcases ht with (⟨i, _, rfl⟩ | ⟨o, _, rfl⟩) | ⟨x, hx, rfl⟩
  · trivial
  · trivial
  · exact h x hx

end Rp2
