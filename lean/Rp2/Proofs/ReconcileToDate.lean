import Rp2.Proofs.Reconcile
import Rp2.Proofs.Truncate
/-! C07, last clause, with a to-date: under monotone local dates the balances "up to T" and the fractions "up to T" are those of the history
truncated at T, so they reconcile as in `balances_reconcile_with_lots`. -/
namespace Rp2
open List

/-- the balance replay with a to-date is the replay of the truncated history, when local dates never go back along the instant order -/
theorem balanceOrder_truncate (T : Int) (ins : List InTx) (outs : List OutTx) (intras : List IntraTx)
    (hm : (sortByTs (fun t : AnyTx => t.ts.us) (ins.map AnyTx.i ++ intras.map AnyTx.x ++ outs.map AnyTx.o)).Pairwise (fun a b => a.ts.day ≤ b.ts.day)) :
    balanceOrder (some T) ins outs intras = balanceOrder none (ins.filter (keepIn T)) (outs.filter (keepOut T)) (intras.filter (keepIntra T)) := by
  unfold balanceOrder cutAt
  simp only
  rw [takeWhile_eq_filter_of_sorted (fun t : AnyTx => t.ts.day) T _ hm, sortByTs_filter]
  congr 1
  simp only [filter_append, filter_map, map_append]
  rfl

/-- **C07, reconciliation with a to-date** (executable model): under monotone local dates (hypothesis LocalDatesMonotone — finding F6 is
    its failure), the final balances reported for to-date `T` add up to everything acquired up to `T` minus everything the fractions dated
    up to `T` take out of lots. -/
theorem balances_reconcile_with_lots_to_date (sched : List (Int × Method)) (allowNeg : Bool) (ins : List InTx) (outs : List OutTx) (intras : List IntraTx)
    (fs : List Fraction) (bs : List BalRow) (T : Int)
    (hord : SheetOrder ins) (hy : SameInstantSameYear (taxableEvents ins outs intras)) (hm : DatesMonotone ins outs intras)
    (hmb : (sortByTs (fun t : AnyTx => t.ts.us) (ins.map AnyTx.i ++ intras.map AnyTx.x ++ outs.map AnyTx.o)).Pairwise (fun a b => a.ts.day ≤ b.ts.day))
    (hf : computeFractions sched ins outs intras = .ok fs) (hb : balances allowNeg (some T) ins outs intras = .ok bs)
    (hcons : ∀ o ∈ outs, o.outWithFee = o.outNoFee + o.fee)
    (hvis : ∀ x ∈ intras, gt13 x.fiatFee 0 = false → x.sent - x.recv = 0) :
    sumFin bs = ((ins.filter (keepIn T)).map (·.amount)).sum -
      ((fs.filter (fun f => decide (f.ev.ts.day ≤ T))).map (fun f => if f.lot.isSome then f.amt else (0 : Int))).sum := by
  have hf' := computeFractions_truncate sched ins outs intras fs T hord hy hm hf
  have hb' : balances allowNeg none (ins.filter (keepIn T)) (outs.filter (keepOut T)) (intras.filter (keepIntra T)) = .ok bs := by
    unfold balances at hb ⊢
    rw [← balanceOrder_truncate T ins outs intras hmb]; exact hb
  apply balances_reconcile_with_lots sched allowNeg _ _ _ _ bs (sheetOrder_filter ins _ hord) ?_ hf' hb'
  · intro o ho; exact hcons o (mem_filter.mp ho).1
  · intro x hx; exact hvis x (mem_filter.mp hx).1
  · rw [taxableEvents_truncate]
    intro a ha b hb2 hab
    exact hy a (mem_filter.mp ha).1 b (mem_filter.mp hb2).1 hab

end Rp2

namespace Rp2
open List

theorem pricePerUnit_truncate (T : Int) (ins : List InTx) (hl : (sortByTs (·.ts.us) ins).Pairwise (fun a b => a.ts.day ≤ b.ts.day)) :
    pricePerUnit (some T) ins = pricePerUnit none (ins.filter (keepIn T)) := by
  unfold pricePerUnit cutAt
  simp only
  rw [takeWhile_eq_filter_of_sorted (fun l : InTx => l.ts.day) T _ hl, sortByTs_filter]
  rfl

/-- **C09 on the `compute` model, whole computation**: a run limited by to-date `T` computes, for everything it shows, what the run on
    the history truncated at `T` computes — the same numbered fractions, the same yearly summary lines, the same account balances and the
    same average price. Hypotheses: table in sheet order, `SameInstantSameYear` (F7), monotone local dates (F6) for lots, events,
    lot/event pairs, the fractions and the replayed transactions. -/
theorem compute_to_date_eq_truncated (asset : String) (acctName : Nat → String) (period : Int) (allowNeg : Bool) (T : Int)
    (sched : List (Int × Method)) (ins : List InTx) (outs : List OutTx) (intras : List IntraTx) (cd : Computed)
    (hord : SheetOrder ins) (hy : SameInstantSameYear (taxableEvents ins outs intras)) (hm : DatesMonotone ins outs intras)
    (hmb : (sortByTs (fun t : AnyTx => t.ts.us) (ins.map AnyTx.i ++ intras.map AnyTx.x ++ outs.map AnyTx.o)).Pairwise (fun a b => a.ts.day ≤ b.ts.day))
    (hmf : ∀ fs, computeFractions sched ins outs intras = .ok fs → fs.Pairwise (fun a b => a.ev.ts.day ≤ b.ev.ts.day))
    (h : compute asset acctName period allowNeg none (some T) sched ins outs intras = .ok cd) :
    ∃ cd', compute asset acctName period allowNeg none none sched (ins.filter (keepIn T)) (outs.filter (keepOut T)) (intras.filter (keepIntra T)) = .ok cd' ∧
      cd'.fracs = cd.fracs ∧ cd'.yearly = cd.yearly ∧ cd'.bals = cd.bals ∧ cd'.price = cd.price := by
  unfold compute at h
  split at h
  · cases h
  · rename_i fs hfs
    split at h
    · cases h
    · rename_i bs hbs
      simp only [Except.ok.injEq] at h
      have hf' := computeFractions_truncate sched ins outs intras fs T hord hy hm hfs
      have hb' : balances allowNeg none (ins.filter (keepIn T)) (outs.filter (keepOut T)) (intras.filter (keepIntra T)) = .ok bs := by
        unfold balances at hbs ⊢
        rw [← balanceOrder_truncate T ins outs intras hmb]; exact hbs
      have hcut : fs.takeWhile (fun f => decide (f.ev.ts.day ≤ T)) = fs.filter (fun f => decide (f.ev.ts.day ≤ T)) :=
        takeWhile_eq_filter_of_sorted (fun f : Fraction => f.ev.ts.day) T fs (hmf fs hfs)
      unfold compute
      simp only [hf', hb']
      refine ⟨_, rfl, ?_⟩
      subst h
      simp only [cutAt, hcut, pricePerUnit_truncate T ins hm.lots]
      exact ⟨trivial, trivial, trivial, trivial⟩

end Rp2
