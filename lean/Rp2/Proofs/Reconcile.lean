import Rp2.Proofs.BalanceColumns
import Rp2.Proofs.Props
import Rp2.Proofs.PipelineEngine
/-! C07, last clause: the sum of all final balances equals what the tax computation leaves unconsumed in lots.
Part A: the sum of the final balances is the net flow of the replayed transactions. -/
namespace Rp2

def sumFin (bs : List BalRow) : Int := (bs.map (·.fin)).sum

/-- net effect of a transaction on the holdings as a whole: acquisitions add, disposals (amount + fee) and transfer fees subtract -/
def netOf : AnyTx → Int
  | .i t => t.amount
  | .x t => t.recv - t.sent
  | .o t => -(t.outNoFee + t.fee)

theorem sumFin_updBal (f : BalRow → BalRow) (δ : Int) (hf : ∀ b, (f b).acct = b.acct) (hfin : ∀ b, (f b).fin = b.fin + δ) (a : Nat) :
    ∀ (bs : List BalRow), (bs.map (·.acct)).Nodup → sumFin (updBal bs a f) = sumFin bs + δ := by
  intro bs
  unfold updBal sumFin
  induction bs with
  | nil =>
    intro _
    simp only [List.any_nil, Bool.false_eq_true, if_false, List.nil_append, List.map_cons, List.map_nil, List.sum_cons, List.sum_nil, hfin]
    simp
  | cons b t ih =>
    intro hnd
    simp only [List.map_cons, List.nodup_cons] at hnd
    by_cases hb : b.acct = a
    · -- the head is the account; it does not occur in the tail
      have hany : (b :: t).any (·.acct == a) = true := by simp [hb]
      have htail : t.map (fun x => if (x.acct == a) = true then f x else x) = t := by
        have : t.map (fun x => if (x.acct == a) = true then f x else x) = t.map id := by
          apply List.map_congr_left
          intro x hx
          have : x.acct ≠ a := by
            intro e; apply hnd.1; rw [hb, ← e]; exact List.mem_map.mpr ⟨x, hx, rfl⟩
          simp [this]
        rw [this, List.map_id]
      simp only [hany, if_true, List.map_cons, hb, beq_self_eq_true, List.sum_cons, hfin]
      rw [List.map_map] at *
      have : (t.map ((fun x => x.fin) ∘ fun x => if (x.acct == a) = true then f x else x)) = t.map (·.fin) := by
        rw [← List.map_map, htail]
      rw [this]; omega
    · have hba : (b.acct == a) = false := by simp [hb]
      by_cases hany : t.any (·.acct == a) = true
      · have hany' : (b :: t).any (·.acct == a) = true := by simp [hany]
        have := ih hnd.2
        simp only [hany, if_true] at this
        simp only [hany', if_true, List.map_cons, hba, Bool.false_eq_true, if_false, List.sum_cons, this]
        omega
      · have hany' : (b :: t).any (·.acct == a) = false := by simp [hba, hany]
        have := ih hnd.2
        simp only [hany, Bool.false_eq_true, if_false] at this
        simp only [hany', Bool.false_eq_true, if_false, List.cons_append, List.map_cons, List.sum_cons, this]
        omega

theorem sumFin_balUpd (bs : List BalRow) (t : AnyTx) (hnd : (bs.map (·.acct)).Nodup) : sumFin (balUpd bs t) = sumFin bs + netOf t := by
  cases t with
  | i t =>
    simp only [balUpd, netOf]
    exact sumFin_updBal _ t.amount (by intro b; rfl) (by intro b; rfl) t.acct bs hnd
  | o t =>
    simp only [balUpd, netOf]
    rw [sumFin_updBal _ (-(t.outNoFee + t.fee)) (by intro b; rfl) (by intro b; show b.fin - t.outNoFee - t.fee = _; omega) t.acct bs hnd]
  | x t =>
    simp only [balUpd, netOf]
    have h1 := updBal_keys bs t.src (fun b => { b with sent := b.sent + t.sent }) (by intro b; rfl) hnd
    have h2 := updBal_keys _ t.dst (fun b => { b with recv := b.recv + t.recv }) (by intro b; rfl) h1.1
    have h3 := updBal_keys _ t.src (fun b => { b with fin := b.fin - t.sent }) (by intro b; rfl) h2.1
    rw [sumFin_updBal _ t.recv (by intro b; rfl) (by intro b; rfl) t.dst _ h3.1,
        sumFin_updBal _ (-t.sent) (by intro b; rfl) (by intro b; show b.fin - t.sent = _; omega) t.src _ h2.1,
        sumFin_updBal _ 0 (by intro b; rfl) (by intro b; show b.fin = _; omega) t.dst _ h1.1,
        sumFin_updBal _ 0 (by intro b; rfl) (by intro b; show b.fin = _; omega) t.src _ hnd]
    omega

theorem sumFin_foldl : ∀ (ts : List AnyTx) (bs : List BalRow), (bs.map (·.acct)).Nodup →
    sumFin (ts.foldl balUpd bs) = sumFin bs + (ts.map netOf).sum := by
  intro ts
  induction ts with
  | nil => intro bs _; simp
  | cons t ts ih =>
    intro bs hnd
    simp only [List.foldl_cons, List.map_cons, List.sum_cons]
    rw [ih _ (balUpd_keys bs t hnd).1, sumFin_balUpd bs t hnd]
    omega

/-- **the sum of the final balances is the net flow** of the transactions the balance replay saw -/
theorem balances_sumFin (allowNeg : Bool) (to : Option Int) (ins : List InTx) (outs : List OutTx) (intras : List IntraTx) (bs : List BalRow)
    (h : balances allowNeg to ins outs intras = .ok bs) : sumFin bs = ((balanceOrder to ins outs intras).map netOf).sum := by
  have := foldlM_balStep_ok allowNeg _ _ _ h
  subst this
  rw [sumFin_foldl _ [] (by simp)]
  simp [sumFin]

end Rp2

namespace Rp2

theorem perm_sum_int {l₁ l₂ : List Int} (h : l₁.Perm l₂) : l₁.sum = l₂.sum := by
  induction h with
  | nil => rfl
  | cons x _ ih => simp only [List.sum_cons, ih]
  | swap x y l => simp only [List.sum_cons]; omega
  | trans _ _ ih1 ih2 => rw [ih1, ih2]

theorem sum_map_append_int {α : Type} (f : α → Int) (l₁ l₂ : List α) : ((l₁ ++ l₂).map f).sum = (l₁.map f).sum + (l₂.map f).sum := by
  induction l₁ with
  | nil => simp
  | cons a t ih => simp only [List.cons_append, List.map_cons, List.sum_cons, ih]; omega

theorem sum_map_neg {α : Type} (f : α → Int) : ∀ (l : List α), (l.map (fun x => -(f x))).sum = -(l.map f).sum := by
  intro l
  induction l with
  | nil => simp
  | cons a t ih => simp only [List.map_cons, List.sum_cons, ih]; omega

/-- Part B: without a to-date the replay sees every transaction, so the net flow is acquisitions − disposals (amount + fee) − transfer fees -/
theorem netFlow_all (ins : List InTx) (outs : List OutTx) (intras : List IntraTx) :
    ((balanceOrder none ins outs intras).map netOf).sum =
      (ins.map (·.amount)).sum - (outs.map (fun o => o.outNoFee + o.fee)).sum - (intras.map (fun x => x.sent - x.recv)).sum := by
  unfold balanceOrder cutAt
  simp only
  have hperm : (sortByTs (fun t : AnyTx => t.ts.us) (ins.map AnyTx.i ++ intras.map AnyTx.x ++ outs.map AnyTx.o)).Perm
      (ins.map AnyTx.i ++ intras.map AnyTx.x ++ outs.map AnyTx.o) := by
    unfold sortByTs; exact List.mergeSort_perm _ _
  rw [perm_sum_int (hperm.map netOf), sum_map_append_int, sum_map_append_int]
  simp only [List.map_map, Function.comp_def, netOf]
  have h1 := sum_map_neg (fun x : IntraTx => x.sent - x.recv) intras
  have h2 := sum_map_neg (fun o : OutTx => o.outNoFee + o.fee) outs
  have e1 : (intras.map (fun x => x.recv - x.sent)) = intras.map (fun x => -(x.sent - x.recv)) := by
    apply List.map_congr_left; intro x _; omega
  rw [e1]
  rw [h1, h2]; omega

end Rp2

namespace Rp2

theorem sum_range_indicator (c : Nat) (j0 : Nat) : ∀ n, j0 < n → ((List.range n).map (fun j => if j0 = j then c else 0)).sum = c := by
  intro n
  induction n with
  | zero => intro h; omega
  | succ n ih =>
    intro h
    rw [List.range_succ, List.map_append, List.sum_append]
    simp only [List.map_cons, List.map_nil, List.sum_cons, List.sum_nil, Nat.add_zero]
    by_cases hj : j0 = n
    · subst hj
      have : ((List.range j0).map (fun j => if j0 = j then c else 0)).sum = 0 := by
        have hz : ((List.range j0).map (fun j => if j0 = j then c else 0)) = (List.range j0).map (fun _ => 0) := by
          apply List.map_congr_left; intro j hj; have := List.mem_range.mp hj; simp; omega
        rw [hz]; clear hz ih h
        induction j0 with
        | zero => simp
        | succ m ihm => rw [List.range_succ, List.map_append, List.sum_append, ihm]; simp
      simp [this]
    · have := ih (by omega)
      simp [this, hj]

theorem sum_map_zero {α : Type} : ∀ (l : List α), (l.map (fun _ => (0 : Nat))).sum = 0 := by
  intro l; induction l with
  | nil => rfl
  | cons a t ih => simp only [List.map_cons, List.sum_cons, ih]

theorem sum_map_add_nat {α : Type} (f g : α → Nat) : ∀ (l : List α), (l.map (fun a => f a + g a)).sum = (l.map f).sum + (l.map g).sum := by
  intro l
  induction l with
  | nil => simp
  | cons a t ih => simp only [List.map_cons, List.sum_cons, ih]; omega

/-- a sum over a list, regrouped by a key with values below `n` -/
theorem sum_by_key {α : Type} (k : α → Nat) (g : α → Nat) (n : Nat) : ∀ (l : List α), (∀ x ∈ l, k x < n) →
    (l.map g).sum = ((List.range n).map (fun j => ((l.filter (fun x => decide (k x = j))).map g).sum)).sum := by
  intro l
  induction l with
  | nil => intro _; simp [sum_map_zero]
  | cons x t ih =>
    intro h
    have hx := h x (List.mem_cons_self ..)
    have iht := ih (fun y hy => h y (List.mem_cons_of_mem _ hy))
    have hsplit : ∀ j, (((x :: t).filter (fun y => decide (k y = j))).map g).sum =
        (if k x = j then g x else 0) + ((t.filter (fun y => decide (k y = j))).map g).sum := by
      intro j
      simp only [List.filter_cons]
      by_cases hk : k x = j
      · simp [hk]
      · simp [hk]
    simp only [List.map_cons, List.sum_cons]
    rw [show (fun j => (((x :: t).filter (fun y => decide (k y = j))).map g).sum) =
          (fun j => (if k x = j then g x else 0) + ((t.filter (fun y => decide (k y = j))).map g).sum) from funext hsplit,
        sum_map_add_nat, sum_range_indicator (g x) (k x) n hx, ← iht]

end Rp2

namespace Rp2

/-- amount the fractions take out of lots -/
def consumed (out : List Frac) : Nat := (out.map (fun f => if f.lot.isSome then f.amt else 0)).sum

theorem range_map_getElem? {β γ : Type} (F : Option β → γ) (l : List β) :
    (List.range l.length).map (fun j => F l[j]?) = l.map (fun e => F (some e)) := by
  apply List.ext_getElem
  · simp
  · intro i h1 h2
    simp only [List.getElem_map, List.getElem_range]
    have : i < l.length := by simpa using h2
    rw [List.getElem?_eq_getElem this]

/-- **Part C**: what the fractions take out of lots is the total amount of the non-income events — because every event is covered in
    full, income fractions carry no lot and disposal fractions always do -/
theorem consumed_eq (es : List Event) (out : List Frac)
    (hcov : ∀ j e, es[j]? = some e → total (out.filter (fun f => f.ev = j)) = e.amount)
    (hshape : ∀ f ∈ out, ∃ e, es[f.ev]? = some e ∧ (e.earn = true → f.lot = none) ∧ (¬ e.earn = true → f.lot.isSome = true)) :
    consumed out = (es.map (fun e => if e.earn then 0 else e.amount)).sum := by
  unfold consumed
  rw [sum_by_key (·.ev) (fun f => if f.lot.isSome then f.amt else 0) es.length out (by
    intro f hf
    obtain ⟨e, he, _⟩ := hshape f hf
    apply Nat.lt_of_not_le
    intro hle
    rw [List.getElem?_eq_none hle] at he; cases he)]
  have hinner : ∀ j, ((out.filter (fun f => decide (f.ev = j))).map (fun f => if f.lot.isSome then f.amt else 0)).sum =
      (match es[j]? with | some e => if e.earn then 0 else e.amount | none => 0) := by
    intro j
    cases hj : es[j]? with
    | none =>
      -- no fraction has this key
      have : out.filter (fun f => decide (f.ev = j)) = [] := by
        apply List.filter_eq_nil_iff.mpr
        intro f hf
        obtain ⟨e, he, _⟩ := hshape f hf
        simp only [decide_eq_true_eq]
        intro hfj; rw [hfj, hj] at he; cases he
      simp [this]
    | some e =>
      simp only
      have hall : ∀ f ∈ out.filter (fun f => decide (f.ev = j)), (e.earn = true → f.lot = none) ∧ (¬ e.earn = true → f.lot.isSome = true) := by
        intro f hf
        obtain ⟨hf1, hf2⟩ := List.mem_filter.mp hf
        simp only [decide_eq_true_eq] at hf2
        obtain ⟨e', he', h1, h2⟩ := hshape f hf1
        rw [hf2, hj] at he'
        cases he'
        exact ⟨h1, h2⟩
      by_cases hearn : e.earn = true
      · simp only [hearn, if_true]
        have : (out.filter (fun f => decide (f.ev = j))).map (fun f => if f.lot.isSome then f.amt else 0) =
            (out.filter (fun f => decide (f.ev = j))).map (fun _ => 0) := by
          apply List.map_congr_left
          intro f hf
          simp [(hall f hf).1 hearn]
        rw [this, sum_map_zero]
      · have hne : e.earn = false := by simpa using hearn
        simp only [hne, Bool.false_eq_true, if_false]
        have : (out.filter (fun f => decide (f.ev = j))).map (fun f => if f.lot.isSome then f.amt else 0) =
            (out.filter (fun f => decide (f.ev = j))).map (·.amt) := by
          apply List.map_congr_left
          intro f hf
          simp [(hall f hf).2 hearn]
        rw [this]
        have := hcov j e hj
        unfold total at this
        exact this
  have hfun : (fun j => ((out.filter (fun f => decide (f.ev = j))).map (fun f => if f.lot.isSome then f.amt else 0)).sum) =
      (fun j => (fun o : Option Event => match o with | some e => if e.earn then 0 else e.amount | none => 0) es[j]?) := funext hinner
  rw [hfun]
  exact congrArg List.sum (range_map_getElem? (fun o : Option Event => match o with | some e => if e.earn then 0 else e.amount | none => 0) es)

end Rp2

namespace Rp2

theorem engineEvents_fields (sched : List (Int × Method)) : ∀ (evs : List TaxEv) (es : List Event), engineEvents sched evs = some es →
    es.map (fun e => if e.earn then 0 else e.amount) = evs.map (fun e => if e.earn then 0 else e.amount.toNat) := by
  intro evs
  induction evs with
  | nil => intro es h; simp only [engineEvents, Option.some.injEq] at h; subst h; rfl
  | cons e t ih =>
    intro es h
    simp only [engineEvents] at h
    split at h
    · rename_i s r hs hr
      simp only [Option.some.injEq] at h
      subst h
      simp only [List.map_cons, ih r hr]
    · cases h

theorem cast_sum_map {α : Type} (f : α → Nat) : ∀ (l : List α), (((l.map f).sum : Nat) : Int) = (l.map (fun x => (f x : Int))).sum := by
  intro l
  induction l with
  | nil => simp
  | cons a t ih => simp only [List.map_cons, List.sum_cons, Int.natCast_add, ih]

theorem sum_filter_of_zero {α : Type} (p : α → Bool) (f : α → Int) : ∀ (l : List α), (∀ x ∈ l, p x = false → f x = 0) →
    ((l.filter p).map f).sum = (l.map f).sum := by
  intro l
  induction l with
  | nil => intro _; rfl
  | cons a t ih =>
    intro h
    have iht := ih (fun x hx => h x (List.mem_cons_of_mem _ hx))
    simp only [List.filter_cons]
    by_cases hp : p a = true
    · simp only [hp, if_true, List.map_cons, List.sum_cons, iht]
    · have hp' : p a = false := by simpa using hp
      have := h a (List.mem_cons_self ..) hp'
      simp only [hp', Bool.false_eq_true, if_false, List.map_cons, List.sum_cons, iht, this]; omega

/-- the non-income part of the taxable events, as amounts: every disposal's `crypto_out_with_fee` and every taxable transfer's fee -/
theorem taxable_nonearn_sum (ins : List InTx) (outs : List OutTx) (intras : List IntraTx) :
    ((taxableEvents ins outs intras).map (fun e => if e.earn then (0 : Int) else e.amount)).sum =
      (outs.map (·.outWithFee)).sum + ((intras.filter (fun t => gt13 t.fiatFee 0)).map (fun x => x.sent - x.recv)).sum := by
  unfold taxableEvents
  have hperm : (sortByTs (fun t : TaxEv => t.ts.us) ((ins.filter (·.typ.isEarn)).map InTx.toEv ++ outs.map OutTx.toEv ++
      (intras.filter (fun t => gt13 t.fiatFee 0)).map IntraTx.toEv)).Perm
      ((ins.filter (·.typ.isEarn)).map InTx.toEv ++ outs.map OutTx.toEv ++ (intras.filter (fun t => gt13 t.fiatFee 0)).map IntraTx.toEv) := by
    unfold sortByTs; exact List.mergeSort_perm _ _
  rw [perm_sum_int (hperm.map _), sum_map_append_int, sum_map_append_int]
  simp only [List.map_map, Function.comp_def, InTx.toEv, OutTx.toEv, IntraTx.toEv, if_true, Bool.false_eq_true, if_false]
  have : ((ins.filter (·.typ.isEarn)).map (fun _ => (0 : Int))).sum = 0 := by
    generalize ins.filter (·.typ.isEarn) = l
    induction l with
    | nil => rfl
    | cons a t ih => simp only [List.map_cons, List.sum_cons, ih]; omega
  rw [this]; omega

end Rp2

namespace Rp2

theorem engineEvents_length (sched : List (Int × Method)) : ∀ (evs : List TaxEv) (es : List Event), engineEvents sched evs = some es → es.length = evs.length := by
  intro evs
  induction evs with
  | nil => intro es h; simp only [engineEvents, Option.some.injEq] at h; subst h; rfl
  | cons e t ih =>
    intro es h
    simp only [engineEvents] at h
    split at h
    · rename_i s r hs hr
      simp only [Option.some.injEq] at h
      subst h
      simp only [List.length_cons, ih r hr]
    · cases h

/-- decoding keeps every fraction when its event and lot indices are valid; amounts and "has a lot" are unchanged -/
theorem decode_consumed (lots : List InTx) (evs : List TaxEv) : ∀ (out : List Frac),
    (∀ f ∈ out, (evs[f.ev]?).isSome = true) → (∀ f ∈ out, ∀ i, f.lot = some i → (lots[i]?).isSome = true) →
    ((decodeFracs lots evs out).map (fun f => if f.lot.isSome then f.amt else (0 : Int))).sum = ((consumed out : Nat) : Int) := by
  intro out
  induction out with
  | nil => intro _ _; simp [decodeFracs, consumed]
  | cons f t ih =>
    intro h1 h2
    have iht := ih (fun g hg => h1 g (List.mem_cons_of_mem _ hg)) (fun g hg => h2 g (List.mem_cons_of_mem _ hg))
    have he := h1 f (List.mem_cons_self ..)
    cases hev : evs[f.ev]? with
    | none => rw [hev] at he; cases he
    | some e =>
      unfold decodeFracs at iht ⊢
      simp only [List.filterMap_cons, hev, List.map_cons, List.sum_cons, iht]
      unfold consumed
      simp only [List.map_cons, List.sum_cons, Int.natCast_add]
      cases hl : f.lot with
      | none => simp
      | some i =>
        have := h2 f (List.mem_cons_self ..) i hl
        cases hli : lots[i]? with
        | none => rw [hli] at this; cases this
        | some l => simp [hli]

end Rp2

namespace Rp2

/-- **C07, last clause, on the executable model (no to-date): the final balances add up to what lot matching leaves unconsumed.**
    If lot matching and the balance replay both succeed, then (sum of the final balances of all accounts) =
    (everything acquired) − (everything the fractions take out of lots) — under the two hypotheses the C07 oracle also carries:
    an exchange-supplied `crypto_out_with_fee` equals amount + fee (`OutWithFeeConsistent`) and every fee-bearing transfer is taxable,
    i.e. its fiat fee does not vanish at 13 decimals (`FeeFiatVisible`, finding F12). -/
theorem balances_reconcile_with_lots (sched : List (Int × Method)) (allowNeg : Bool) (ins : List InTx) (outs : List OutTx) (intras : List IntraTx)
    (fs : List Fraction) (bs : List BalRow)
    (hord : SheetOrder ins) (hy : SameInstantSameYear (taxableEvents ins outs intras))
    (hf : computeFractions sched ins outs intras = .ok fs) (hb : balances allowNeg none ins outs intras = .ok bs)
    (hcons : ∀ o ∈ outs, o.outWithFee = o.outNoFee + o.fee)
    (hvis : ∀ x ∈ intras, gt13 x.fiatFee 0 = false → x.sent - x.recv = 0) :
    sumFin bs = (ins.map (·.amount)).sum - (fs.map (fun f => if f.lot.isSome then f.amt else (0 : Int))).sum := by
  -- positivity of the event amounts (the engine refuses non-positive amounts)
  have hpos : ∀ e ∈ taxableEvents ins outs intras, 0 < e.amount := by
    intro e he
    unfold computeFractions at hf
    simp only at hf
    split at hf
    · cases hf
    · rename_i hbad
      simp only [Bool.or_eq_true, not_or, Bool.not_eq_true, List.any_eq_false, decide_eq_true_eq, Int.not_le] at hbad
      exact hbad.2 e he
  obtain ⟨es, out, hes, hfs, _, hcov, hshape, _⟩ := computeFractions_sound sched ins outs intras fs hord hy hf
  have hlen := engineEvents_length sched _ es hes
  have hshape' : ∀ f ∈ out, ∃ e, es[f.ev]? = some e ∧ (e.earn = true → f.lot = none) ∧ (¬ e.earn = true → f.lot.isSome = true) := by
    intro f hfm
    obtain ⟨e, he, h1, h2⟩ := hshape f hfm
    refine ⟨e, he, ?_, ?_⟩
    · intro hearn; rw [h1 hearn]
    · intro hne
      obtain ⟨_, i, hi, _⟩ := h2 hne
      simp [hi]
  have hcov' : ∀ j e, es[j]? = some e → total (out.filter (fun f => decide (f.ev = j))) = e.amount := hcov
  have hcons_eq := consumed_eq es out hcov' hshape'
  -- decoded fractions carry the same amounts
  have hdec := decode_consumed (sortByTs (·.ts.us) ins) (taxableEvents ins outs intras) out
    (by
      intro f hfm
      obtain ⟨e, he, _⟩ := hshape f hfm
      have : f.ev < es.length := by
        apply Nat.lt_of_not_le; intro hle; rw [List.getElem?_eq_none hle] at he; cases he
      rw [List.getElem?_eq_getElem (by omega)]; rfl)
    (by
      intro f hfm i hi
      obtain ⟨e, he, h1, h2⟩ := hshape f hfm
      by_cases hearn : e.earn = true
      · have := h1 hearn; rw [this] at hi; cases hi
      · obtain ⟨_, i', hi', hlt, _⟩ := h2 hearn
        rw [hi] at hi'; cases hi'
        rw [List.getElem?_eq_getElem hlt]; rfl)
  rw [hfs, hdec, hcons_eq, engineEvents_fields sched _ es hes, cast_sum_map]
  -- amounts are positive, so `toNat` casts back
  have hcast : (taxableEvents ins outs intras).map (fun e => (((if e.earn then 0 else e.amount.toNat) : Nat) : Int)) =
      (taxableEvents ins outs intras).map (fun e => if e.earn then (0 : Int) else e.amount) := by
    apply List.map_congr_left
    intro e he
    have := hpos e he
    by_cases hearn : e.earn = true
    · simp [hearn]
    · simp only [hearn, Bool.false_eq_true, if_false]; exact Int.toNat_of_nonneg (by omega)
  rw [hcast, taxable_nonearn_sum, balances_sumFin allowNeg none ins outs intras bs hb, netFlow_all]
  have h1 : (outs.map (·.outWithFee)).sum = (outs.map (fun o => o.outNoFee + o.fee)).sum := by
    congr 1; apply List.map_congr_left; intro o ho; exact hcons o ho
  have h2 := sum_filter_of_zero (fun t : IntraTx => gt13 t.fiatFee 0) (fun x => x.sent - x.recv) intras hvis
  rw [h1, h2]; omega

end Rp2
