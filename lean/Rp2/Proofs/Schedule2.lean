import Rp2.Proofs.Schedule
namespace Rp2

/-- entries of the schedule that start after year `Y` have no influence on the method in force in any year up to `Y`: a run limited by a
    to-date sees the methods of the whole configuration, and a configuration extended by later years changes nothing earlier -/
theorem methodFor_drop_later (sched : List (Int × Method)) (hnd : (sched.map (·.1)).Nodup) (Y y : Int) (hy : y ≤ Y) :
    methodFor (sched.filter (fun p => decide (p.1 ≤ Y))) y = methodFor sched y := by
  have hnd2 : ((sched.filter (fun p => decide (p.1 ≤ Y))).map (·.1)).Nodup :=
    (List.Sublist.map _ (List.filter_sublist)).nodup hnd
  have key : ∀ m, methodFor (sched.filter (fun p => decide (p.1 ≤ Y))) y = some m ↔ methodFor sched y = some m := by
    intro m
    rw [methodFor_iff _ hnd2, methodFor_iff _ hnd]
    constructor
    · rintro ⟨y0, h1, h2, h3⟩
      have h1' := List.mem_filter.mp h1
      refine ⟨y0, h1'.1, h2, ?_⟩
      intro p hp hpy
      exact h3 p (List.mem_filter.mpr ⟨hp, by simpa using Int.le_trans hpy hy⟩) hpy
    · rintro ⟨y0, h1, h2, h3⟩
      refine ⟨y0, List.mem_filter.mpr ⟨h1, by simpa using Int.le_trans h2 hy⟩, h2, ?_⟩
      intro p hp hpy
      exact h3 p (List.mem_filter.mp hp).1 hpy
  cases h1 : methodFor (sched.filter (fun p => decide (p.1 ≤ Y))) y with
  | none =>
    cases h2 : methodFor sched y with
    | none => rfl
    | some m => have := (key m).mpr h2; rw [h1] at this; cases this
  | some m => exact ((key m).mp h1).symm

/-- the boundary is sharp: the entry *of* year `Y` matters in year `Y` (dropping the entries with `Y ≤ year` instead of `Y < year` changes
    the method of a disposal dated 1 January `Y`) -/
example : methodFor [(2020, .fifo), (2023, .lifo)] 2023 = some .lifo ∧
    methodFor ([(2020, Method.fifo), (2023, Method.lifo)].filter (fun p => decide (p.1 < 2023))) 2023 = some .fifo := by decide
end Rp2
