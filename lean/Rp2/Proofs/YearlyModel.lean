import Rp2.Proofs.Yearly
import Rp2.Proofs.PropsA
import Rp2.Model.Report
namespace Rp2

/-- **C06 on the executable model**: the yearly list has one line per (year, type, long/short) key that occurs among the fractions,
    no other line, and each line holds the in-order decimal sums of amount, proceeds, cost basis and gain over exactly the
    fractions with that key; the year is the local year of the taxable event's own timestamp (`yearKey`) -/
theorem yearly_spec (period : Int) (fs : List Fraction) :
    ((yearly period fs).map (·.1)).Nodup ∧
    (∀ k, k ∈ (yearly period fs).map (·.1) ↔ ∃ f ∈ fs, yearKey period f = k) ∧
    (∀ k, (∃ f ∈ fs, yearKey period f = k) →
      lookup k (yearly period fs) = some (((fs.filter (fun f => yearKey period f = k)).map yearVal).foldl YSums.add YSums.zero)) := by
  have h := group_spec YSums.add YSums.zero (fs.map (fun f => (yearKey period f, yearVal f)))
  unfold yearly
  refine ⟨h.1, ?_, ?_⟩
  · intro k; rw [h.2.1 k]; simp
  · intro k hk
    have hk' : k ∈ (fs.map (fun f => (yearKey period f, yearVal f))).map (·.1) := by simpa using hk
    rw [h.2.2 k hk']
    congr 1
    unfold sumKey
    rw [List.filter_map, List.foldl_map, List.foldl_map]
    rfl

/-- every fraction contributes to exactly one line: its own key's -/
theorem yearly_every_fraction_counted (period : Int) (fs : List Fraction) (f : Fraction) (hf : f ∈ fs) :
    yearKey period f ∈ (yearly period fs).map (·.1) := ((yearly_spec period fs).2.1 _).mpr ⟨f, hf, rfl⟩

/-- the fractions summarised for a to-date: with monotone local dates (hypothesis `LocalDatesMonotone`, finding F6) the cut
    keeps exactly the fractions dated up to the to-date -/
theorem cutAt_eq_filter {α} (day : α → Int) (t : Int) (l : List α) (hmono : l.Pairwise (fun a b => day a ≤ day b)) :
    cutAt day (some t) l = l.filter (fun x => decide (day x ≤ t)) := by
  simp only [cutAt]
  exact takeWhile_eq_filter_of_sorted day t l hmono

end Rp2
