import Rp2.Model.Cli
namespace Rp2.Cli
open Rp2

theorem genStep_files (o : Options) (iso lang mname : String) (period : Nat) (holderOf : Nat → String) (cs : List Computed) (acc : Outcome) (g : String)
    (P : String → Prop) (hP : ∀ base, P (fileName o.pfx mname base)) (h : ∀ f ∈ acc.files, P f.1) :
    ∀ f ∈ (genStep o iso lang mname period holderOf cs acc g).files, P f.1 := by
  unfold genStep
  split
  · exact h
  · split
    · exact h
    · split
      · exact h
      · rename_i rep _
        intro f hf
        have hf' : f ∈ acc.files ∨ f = (fileName o.pfx mname (genBase g), rep) := by
          simpa [List.mem_append] using hf
        rcases hf' with hf' | rfl
        · exact h f hf'
        · exact hP _

theorem foldl_genStep_files (o : Options) (iso lang mname : String) (period : Nat) (holderOf : Nat → String) (cs : List Computed)
    (P : String → Prop) (hP : ∀ base, P (fileName o.pfx mname base)) :
    ∀ (gs : List String) (acc : Outcome), (∀ f ∈ acc.files, P f.1) →
      ∀ f ∈ (gs.foldl (genStep o iso lang mname period holderOf cs) acc).files, P f.1 := by
  intro gs
  induction gs with
  | nil => intro acc h; simpa using h
  | cons g t ih => intro acc h; simp only [List.foldl_cons]; exact ih _ (genStep_files o iso lang mname period holderOf cs acc g P hP h)

/-- **C18 (writes)**: every file the run writes is named `<prefix><method or "mixed">_<generator>.ods` inside the output
    directory; nothing else is written by the model -/
theorem run_files (o : Options) (acctName holderOf : Nat → String) (cfgAssets : List String) (sheets : List AssetIn) :
    ∀ f ∈ (run o acctName holderOf cfgAssets sheets).files, ∃ m base, f.1 = fileName o.pfx m base := by
  have hr : ∀ (st : String) (c : Nat), ∀ f ∈ (reject st c).files, ∃ m base, f.1 = fileName o.pfx m base := by
    intro st c f hf; simp [reject] at hf
  unfold run
  cases country? o.script with
  | none => exact hr _ _
  | some c =>
    obtain ⟨_, iso, period, defMethod, methods, gens, defLang⟩ := c
    simp only
    by_cases h1 : badMethod o methods = true
    · simp only [h1, if_true]; exact hr _ _
    · simp only [h1]
      by_cases h2 : (!o.knownLocales.contains (o.lang.getD defLang)) = true
      · simp only [h2, if_true]; exact hr _ _
      · simp only [h2]
        by_cases h3 : badWindow o = true
        · simp only [h3, if_true]; exact hr _ _
        · simp only [h3]
          by_cases h4 : (o.method.isSome && !o.cfgSched.isEmpty) = true
          · simp only [h4, if_true]; exact hr _ _
          · simp only [h4]
            cases (scheduleOf o defMethod).mapM (fun p => (methodOf? p.2).map (fun m => (p.1, m))) with
            | none => exact hr _ _
            | some sched =>
              simp only
              by_cases h5 : o.pluginFlag = true
              · simp only [h5, if_true]; exact hr _ _
              · simp only [h5]
                by_cases h6 : ((assetNames o cfgAssets).any fun a => !cfgAssets.contains a) = true
                · simp only [h6, if_true]; exact hr _ _
                · simp only [h6]
                  cases computeAll o acctName period sched (assetNames o cfgAssets) sheets with
                  | error e => exact hr _ _
                  | ok cs =>
                    simp only
                    exact foldl_genStep_files o _ _ _ _ holderOf _ (fun s => ∃ m base, s = fileName o.pfx m base) (fun b => ⟨_, b, rfl⟩) _ _
                      (by intro f hf; simp at hf)

/-- a rejected run (any exit status other than 0 reached before the generators) writes nothing;
    exit status 0 means every generator of the country ran -/
theorem reject_no_files (stage : String) (code : Nat) : (reject stage code).files = [] := rfl
end Rp2.Cli

namespace Rp2.Cli
open Rp2
/-- the faults `rp2_main` detects before any generator runs -/
def OptionFault (o : Options) (acctName : Nat → String) (cfgAssets : List String) (sheets : List AssetIn) : Prop :=
  match country? o.script with
  | none => True
  | some (_, _, period, defMethod, methods, _, defLang) =>
    badMethod o methods = true ∨ (!o.knownLocales.contains (o.lang.getD defLang)) = true ∨ badWindow o = true ∨
    (o.method.isSome && !o.cfgSched.isEmpty) = true ∨
    (match (scheduleOf o defMethod).mapM (fun p => (methodOf? p.2).map (fun m => (p.1, m))) with
     | none => True
     | some sched => o.pluginFlag = true ∨ ((assetNames o cfgAssets).any fun a => !cfgAssets.contains a) = true ∨
        ∃ e, computeAll o acctName period sched (assetNames o cfgAssets) sheets = .error e)

/-- **C12 (command line / input faults)**: an unsupported method, an unknown language, from-date after to-date, a method given
    both ways, an unknown method in the schedule, the deprecated `-l`, an asset that is not configured, or any asset whose sheet
    fails to parse or compute (overdrawn account, uncovered disposal, …) — each makes the run exit non-zero having written nothing -/
theorem reject_spec (stage : String) (code : Nat) (hc : code ≠ 0) : (reject stage code).exit ≠ 0 ∧ (reject stage code).files = [] := ⟨hc, rfl⟩

theorem run_fault_rejected (o : Options) (acctName holderOf : Nat → String) (cfgAssets : List String) (sheets : List AssetIn)
    (h : OptionFault o acctName cfgAssets sheets) :
    (run o acctName holderOf cfgAssets sheets).exit ≠ 0 ∧ (run o acctName holderOf cfgAssets sheets).files = [] := by
  unfold OptionFault at h
  unfold run
  cases hc : country? o.script with
  | none => exact reject_spec _ _ (by decide)
  | some c =>
    obtain ⟨_, iso, period, defMethod, methods, gens, defLang⟩ := c
    rw [hc] at h
    simp only at h ⊢
    by_cases h1 : badMethod o methods = true
    · simp only [h1, if_true]; exact reject_spec _ _ (by decide)
    · simp only [h1]
      by_cases h2 : (!o.knownLocales.contains (o.lang.getD defLang)) = true
      · simp only [h2, if_true]; exact reject_spec _ _ (by decide)
      · simp only [h2]
        by_cases h3 : badWindow o = true
        · simp only [h3, if_true]; exact reject_spec _ _ (by decide)
        · simp only [h3]
          by_cases h4 : (o.method.isSome && !o.cfgSched.isEmpty) = true
          · simp only [h4, if_true]; exact reject_spec _ _ (by decide)
          · simp only [h4]
            cases hs : (scheduleOf o defMethod).mapM (fun p => (methodOf? p.2).map (fun m => (p.1, m))) with
            | none => exact reject_spec _ _ (by decide)
            | some sched =>
              rw [hs] at h
              simp only at h ⊢
              by_cases h5 : o.pluginFlag = true
              · simp only [h5, if_true]; exact reject_spec _ _ (by decide)
              · simp only [h5]
                by_cases h6 : ((assetNames o cfgAssets).any fun a => !cfgAssets.contains a) = true
                · simp only [h6, if_true]; exact reject_spec _ _ (by decide)
                · simp only [h6]
                  rcases h with h | h | h | h | h
                  · exact absurd h h1
                  · exact absurd h h2
                  · exact absurd h h3
                  · exact absurd h h4
                  · rcases h with h | h | ⟨e, he⟩
                    · exact absurd h h5
                    · exact absurd h h6
                    · simp only [he]
                      exact reject_spec _ _ (by decide)
end Rp2.Cli
