import Rp2.Model.Report
/-! C16: the repaired full-report generator cannot fail — the Tax sheet is always large enough and a Summary line without detail
rows simply carries no link. -/
namespace Rp2

theorem layout_fits (cpa : Bool) (holderOf : Nat → String) (period : Int) (st : GenState) (c : Computed) :
    (layoutAsset cpa holderOf period st c).dStart + c.fracs.length ≤ (layoutAsset cpa holderOf period st c).capacity := by
  unfold layoutAsset
  simp only
  omega

/-- `genAsset` with both repairs never returns an error -/
theorem genAsset_total (holderOf : Nat → String) (period : Int) (st : GenState) (c : Computed) :
    genAsset true true holderOf period st c =
      .ok ((layoutAsset true holderOf period st c).rows, (layoutAsset true holderOf period st c).state) := by
  unfold genAsset
  have := layout_fits true holderOf period st c
  simp only [Bool.not_true, Bool.false_and, Bool.false_eq_true, if_false]
  split
  · omega
  · rfl

theorem genFullFrom_total (holderOf : Nat → String) (period : Int) : ∀ (cs : List Computed) (acc : List RRow × GenState),
    ∃ rows, genFullFrom true true holderOf period acc cs = .ok rows := by
  intro cs
  induction cs with
  | nil => intro acc; exact ⟨acc.1, rfl⟩
  | cons c t ih =>
    intro acc
    simp only [genFullFrom, genAsset_total]
    exact ih _

/-- **the repaired full-report generator never ends in an internal error**, whatever the computed data -/
theorem genFull_total (holderOf : Nat → String) (period : Int) (cs : List Computed) : ∃ rows, genFull true true holderOf period cs = .ok rows :=
  genFullFrom_total holderOf period cs ([], {})
end Rp2
