import Rp2.Model.Parser
/-! C11 / C12: blank rows between tables are skipped, however many there are — the sheet is read to its end. -/
namespace Rp2

theorem toLower_empty : "".toLower = "" := by simp [String.toLower]

theorem isEmptyCell_cases (c : Cell) (h : isEmptyCell c = true) : c = .empty ∨ ∃ t, c = .str "" t := by
  cases c with
  | empty => exact Or.inl rfl
  | num q => simp [isEmptyCell] at h
  | str s t =>
    by_cases hs : s = ""
    · subst hs; exact Or.inr ⟨t, rfl⟩
    · simp [isEmptyCell, hs] at h

theorem parseRows_blank (cfg : Config) (asset : String) (acct : String → String → Nat) (i : Nat) (st : PState) (row : List Cell)
    (rest : List (List Cell)) (hcur : st.cur = none) (hb : isEmptyCell (row.getD 0 .empty) = true) :
    parseRows cfg asset acct i st (row :: rest) = parseRows cfg asset acct (i + 1) { st with count := st.count + 1 } rest := by
  have hnt : tableOf (row.getD 0 .empty) = none := by
    rcases isEmptyCell_cases _ hb with h | ⟨t, h⟩
    · rw [h]; rfl
    · rw [h]; simp [tableOf, toLower_empty]
  have hne : isEnd (row.getD 0 .empty) = false := by
    rcases isEmptyCell_cases _ hb with h | ⟨t, h⟩
    · rw [h]; rfl
    · rw [h]; simp [isEnd]
  rw [parseRows]
  simp only [hcur, hnt, hne, hb, Option.isNone_none, Bool.not_true, Bool.false_and, Bool.false_eq_true, if_false]

/-- **any number of blank rows outside a table changes nothing but the row numbers that follow**: the rest of the sheet is parsed exactly
    as if it started right there (the table counter is reset by the next table header) -/
theorem parseRows_blanks (cfg : Config) (asset : String) (acct : String → String → Nat) : ∀ (blanks : List (List Cell)) (i : Nat) (st : PState)
    (rest : List (List Cell)), st.cur = none → (∀ r ∈ blanks, isEmptyCell (r.getD 0 .empty) = true) →
    parseRows cfg asset acct i st (blanks ++ rest) =
      parseRows cfg asset acct (i + blanks.length) { st with count := st.count + blanks.length } rest := by
  intro blanks
  induction blanks with
  | nil => intro i st rest _ _; simp
  | cons b t ih =>
    intro i st rest hcur hb
    rw [List.cons_append, parseRows_blank cfg asset acct i st b (t ++ rest) hcur (hb b (List.mem_cons_self ..))]
    rw [ih (i + 1) { st with count := st.count + 1 } rest hcur (fun r hr => hb r (List.mem_cons_of_mem _ hr))]
    simp only [List.length_cons]
    congr 1
    · omega
    · simp only [PState.mk.injEq, true_and, and_true]; omega

end Rp2
