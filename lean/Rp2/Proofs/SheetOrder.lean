import Rp2.Model.Cli
/-! C17: the order of the sheets inside the workbook is irrelevant (sheets are found by name). -/
namespace Rp2.Cli
open Rp2

theorem eq_of_mem_of_key_eq {β : Type} : ∀ (l : List (String × β)), (l.map (·.1)).Nodup → ∀ x y, x ∈ l → y ∈ l → x.1 = y.1 → x = y := by
  intro l
  induction l with
  | nil => intro _ x y hx; cases hx
  | cons h t ih =>
    intro hnd x y hx hy hk
    simp only [List.map_cons, List.nodup_cons] at hnd
    rcases List.mem_cons.mp hx with rfl | hx'
    · rcases List.mem_cons.mp hy with rfl | hy'
      · rfl
      · exact absurd (List.mem_map.mpr ⟨y, hy', hk.symm⟩) hnd.1
    · rcases List.mem_cons.mp hy with rfl | hy'
      · exact absurd (List.mem_map.mpr ⟨x, hx', hk⟩) hnd.1
      · exact ih hnd.2 x y hx' hy' hk

/-- looking a sheet up by name gives the same sheet in any arrangement of a workbook whose sheet names are distinct -/
theorem find?_perm {β : Type} (l₁ l₂ : List (String × β)) (hp : l₁.Perm l₂) (hnd : (l₁.map (·.1)).Nodup) (a : String) :
    l₁.find? (·.1 == a) = l₂.find? (·.1 == a) := by
  cases h1 : l₁.find? (·.1 == a) with
  | none =>
    symm
    apply List.find?_eq_none.mpr
    intro x hx
    exact List.find?_eq_none.mp h1 x (hp.mem_iff.mpr hx)
  | some x =>
    have hx1 : x ∈ l₁ := List.mem_of_find?_eq_some h1
    have hxk : (x.1 == a) = true := @List.find?_some _ (fun p : String × β => p.1 == a) x l₁ h1
    cases h2 : l₂.find? (·.1 == a) with
    | none =>
      have := List.find?_eq_none.mp h2 x (hp.mem_iff.mp hx1)
      exact absurd hxk this
    | some y =>
      have hy2 : y ∈ l₂ := List.mem_of_find?_eq_some h2
      have hyk : (y.1 == a) = true := @List.find?_some _ (fun p : String × β => p.1 == a) y l₂ h2
      have hk : x.1 = y.1 := by
        have e1 : x.1 = a := by simpa using hxk
        have e2 : y.1 = a := by simpa using hyk
        rw [e1, e2]
      rw [eq_of_mem_of_key_eq l₁ hnd x y hx1 (hp.mem_iff.mpr hy2) hk]

/-- **C17 on the whole-run model: sheet order**: rearranging the sheets of a workbook (distinct names) changes nothing — not the exit
    status, not the files, not a cell of any report -/
theorem runCells_sheet_order (o : Options) (cfg : Config) (g₁ g₂ : List (String × List (List Cell)))
    (hp : g₁.Perm g₂) (hnd : (g₁.map (·.1)).Nodup) : runCells o cfg g₁ = runCells o cfg g₂ := by
  unfold runCells
  have : (fun a => (g₁.find? (·.1 == a)).map (·.2)) = (fun a => (g₂.find? (·.1 == a)).map (·.2)) := by
    funext a; rw [find?_perm g₁ g₂ hp hnd a]
  rw [this]

end Rp2.Cli

namespace Rp2.Cli
open Rp2

theorem mapM_ok_zip {α β ε : Type} (f : α → Except ε β) : ∀ (l : List α) (r : List β), l.mapM f = .ok r → ∀ p ∈ l.zip r, f p.1 = .ok p.2 := by
  intro l
  induction l with
  | nil => intro r h p hp; simp at hp
  | cons a t ih =>
    intro r h p hp
    simp only [List.mapM_cons, bind, Except.bind] at h
    cases ha : f a with
    | error e => rw [ha] at h; cases h
    | ok b =>
      rw [ha] at h
      cases ht : t.mapM f with
      | error e => rw [ht] at h; cases h
      | ok bs =>
        rw [ht] at h
        simp only [pure, Except.pure, Except.ok.injEq] at h
        subst h
        simp only [List.zip_cons_cons, List.mem_cons] at hp
        rcases hp with rfl | hp
        · exact ha
        · exact ih bs ht p hp

/-- **C17: an asset's computed data depend on that asset's sheet only** — in a run over any list of assets, the k-th result is `compute`
    of the k-th asset's own transactions with the run's options; no other asset enters -/
theorem computeAll_pointwise (o : Options) (acctName : Nat → String) (period : Nat) (sched : List (Int × Method)) (names : List String)
    (sheets : List AssetIn) (cs : List Computed) (h : computeAll o acctName period sched names sheets = .ok cs) :
    ∀ p ∈ names.zip cs, ∃ s, sheets.find? (·.name == p.1) = some s ∧
      compute p.1 acctName (period : Int) o.allowNeg o.fromD o.toD sched s.ins s.outs s.intras = .ok p.2 := by
  intro p hp
  unfold computeAll at h
  have := mapM_ok_zip _ names cs h p hp
  cases hf : sheets.find? (·.name == p.1) with
  | none => simp [hf] at this
  | some s => simp only [hf] at this; exact ⟨s, rfl, this⟩

end Rp2.Cli
