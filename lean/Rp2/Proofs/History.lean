import Rp2.Proofs.Props2
namespace Rp2

/-- An acquisition row as the engine sees it -/
structure Acq where
  ts : Int
  row : Nat
  price : Nat
  amount : Nat
deriving Repr

def Acq.toLot (a : Acq) : Lot := ⟨a.ts, a.row, a.price, a.amount⟩

/-- chronological order used for the lot list: by instant, ties by sheet row (what a stable sort of rows in
    sheet order produces) -/
def acqLe (a b : Acq) : Bool := decide (a.ts < b.ts) || (decide (a.ts = b.ts) && decide (a.row ≤ b.row))

theorem acqLe_total (a b : Acq) : acqLe a b || acqLe b a := by
  simp only [acqLe, Bool.or_eq_true, Bool.and_eq_true, decide_eq_true_eq]
  by_cases h1 : a.ts < b.ts
  · simp [h1]
  · by_cases h2 : b.ts < a.ts
    · simp [h2]
    · have : a.ts = b.ts := by omega
      simp [this]; omega

theorem acqLe_trans (a b c : Acq) : acqLe a b → acqLe b c → acqLe a c := by
  simp only [acqLe, Bool.or_eq_true, Bool.and_eq_true, decide_eq_true_eq]
  omega

def sortedLots (acqs : List Acq) : List Lot := (acqs.mergeSort acqLe).map Acq.toLot

def dflt : Lot := ⟨0, 0, 0, 0⟩

def mkCtx (acqs : List Acq) (meth : Nat → Method) : Ctx :=
  { L := fun i => (sortedLots acqs).getD i dflt,
    bound := fun t => (sortedLots acqs).countP (fun l => decide (l.ts ≤ t)),
    meth := meth }

theorem bound_le_length (acqs meth t) : (mkCtx acqs meth).bound t ≤ (sortedLots acqs).length :=
  List.countP_le_length

theorem bound_mono (acqs meth) (a b : Int) (h : a ≤ b) : (mkCtx acqs meth).bound a ≤ (mkCtx acqs meth).bound b := by
  simp only [mkCtx]
  apply List.countP_mono_left
  intro l _ hl
  simp only [decide_eq_true_eq] at hl ⊢
  omega

theorem sortedLots_pairwise (acqs : List Acq) :
    (sortedLots acqs).Pairwise (fun a b => a.ts < b.ts ∨ (a.ts = b.ts ∧ a.row ≤ b.row)) := by
  unfold sortedLots
  rw [List.pairwise_map]
  have := List.pairwise_mergeSort (le := acqLe) acqLe_trans acqLe_total acqs
  refine this.imp ?_
  intro a b hab
  simpa [acqLe, Acq.toLot] using hab

/-- in the sorted list, a later index never ranks before an earlier one under FIFO's key -/
theorem sorted_fifo (acqs : List Acq) (meth) : ∀ i j, i < j → j < (sortedLots acqs).length →
    ¬ better .fifo ((mkCtx acqs meth).L j) ((mkCtx acqs meth).L i) := by
  intro i j hij hj
  have hp := sortedLots_pairwise acqs
  have hi : i < (sortedLots acqs).length := by omega
  have := List.pairwise_iff_getElem.mp hp i j hi hj hij
  simp only [mkCtx, List.getD_eq_getElem?_getD, List.getElem?_eq_getElem hi, List.getElem?_eq_getElem hj, Option.getD_some]
  unfold better lexLt key
  simp only
  omega

/-- with distinct rows, distinct indices are distinct lots -/
theorem lotInj (acqs : List Acq) (meth) (hrows : (acqs.map (·.row)).Nodup) :
    LotInj (mkCtx acqs meth).L (sortedLots acqs).length := by
  intro i j hi hj _ hrow
  have hperm : ((sortedLots acqs).map (·.row)).Perm (acqs.map (·.row)) := by
    unfold sortedLots
    rw [List.map_map]
    have : (fun a : Acq => (Acq.toLot a).row) = (fun a => a.row) := rfl
    simp only [Function.comp_def, this]
    exact (List.mergeSort_perm acqs acqLe).map _
  have hnd : ((sortedLots acqs).map (·.row)).Nodup := hperm.nodup_iff.mpr hrows
  simp only [mkCtx, List.getD_eq_getElem?_getD, List.getElem?_eq_getElem hi, List.getElem?_eq_getElem hj, Option.getD_some] at hrow
  have h1 : ((sortedLots acqs).map (·.row))[i]'(by simpa using hi) = ((sortedLots acqs).map (·.row))[j]'(by simpa using hj) := by
    simpa using hrow
  exact (List.getElem_inj hnd).mp h1

/-- `i < bound t` is exactly "lot `i` was acquired at or before `t`" -/
theorem lt_bound_iff (acqs : List Acq) (meth) (t : Int) (i : Nat) (hi : i < (sortedLots acqs).length) :
    i < (mkCtx acqs meth).bound t ↔ ((mkCtx acqs meth).L i).ts ≤ t := by
  have hp : (sortedLots acqs).Pairwise (fun a b => a.ts ≤ b.ts) := (sortedLots_pairwise acqs).imp (by intro a b h; omega)
  simp only [mkCtx, List.getD_eq_getElem?_getD, List.getElem?_eq_getElem hi, Option.getD_some]
  generalize sortedLots acqs = l at hp hi
  induction l generalizing i with
  | nil => simp at hi
  | cons a l ih =>
    rw [List.pairwise_cons] at hp
    simp only [List.countP_cons]
    cases i with
    | zero =>
      simp only [List.getElem_cons_zero]
      by_cases ha : a.ts ≤ t
      · simp [ha]
      · simp only [ha, decide_false, Bool.false_eq_true, if_false, Nat.add_zero, iff_false, Nat.not_lt, Nat.le_zero]
        apply List.countP_eq_zero.mpr
        intro b hb
        have := hp.1 b hb
        simp; omega
    | succ i' =>
      simp only [List.getElem_cons_succ]
      have hi' : i' < l.length := by simpa using hi
      have := ih i' hp.2 hi'
      by_cases ha : a.ts ≤ t
      · simp only [ha, decide_true, if_true]
        omega
      · simp only [ha, decide_false, Bool.false_eq_true, if_false, Nat.add_zero]
        have hz : l.countP (fun l => decide (l.ts ≤ t)) = 0 := by
          apply List.countP_eq_zero.mpr
          intro b hb
          have := hp.1 b hb
          simp; omega
        have hle := hp.1 (l[i']) (List.getElem_mem hi')
        omega

end Rp2
