import Rp2.Model.OtherReports
/-! C20, summary sheets: every asset-year sheet has exactly one line, in the summary sheet of its year, naming its asset and pointing at its
closing-balance row; within a year's sheet the lines are on consecutive rows from 8, in generation order. -/
namespace Rp2

def JSumLine.key (l : JSumLine) : Int × String × String × Nat := (l.year, l.asset, l.sheet, l.closeRow)
def JSheet.key (s : JSheet) : Int × String × String × Nat := (s.year, s.asset, s.name, s.closeRow)

theorem jpSummaryLines_keys : ∀ (shs : List JSheet) (acc : List JSumLine),
    (jpSummaryLines acc shs).map JSumLine.key = acc.map JSumLine.key ++ shs.map JSheet.key := by
  intro shs
  induction shs with
  | nil => intro acc; simp [jpSummaryLines]
  | cons s rest ih =>
    intro acc
    rw [jpSummaryLines, ih]
    simp [JSumLine.key, JSheet.key]

/-- the row of every line is 8 + the number of earlier lines of the same year -/
def RowsOk (ls : List JSumLine) : Prop :=
  ∀ pre l post, ls = pre ++ l :: post → l.row = 8 + (pre.filter (fun x => x.year == l.year)).length

theorem rowsOk_snoc (acc : List JSumLine) (l : JSumLine) (h : RowsOk acc)
    (hl : l.row = 8 + (acc.filter (fun x => x.year == l.year)).length) : RowsOk (acc ++ [l]) := by
  intro pre l' post heq
  -- either l' lies in acc, or it is the new last line
  rcases List.append_eq_append_iff.mp heq with ⟨as, h1, h2⟩ | ⟨cs, h1, h2⟩
  · -- pre = acc ++ as and [l] = as ++ l' :: post
    cases as with
    | nil =>
      simp at h2
      obtain ⟨rfl, _⟩ := h2
      have : pre = acc := by simpa using h1
      subst this; exact hl
    | cons a as' =>
      exfalso
      have := congrArg List.length h2
      simp at this
  · -- acc = pre ++ cs and l' :: post = cs ++ [l]
    cases cs with
    | nil =>
      simp at h2
      obtain ⟨rfl, _⟩ := h2
      have : acc = pre := by simpa using h1
      subst this; exact hl
    | cons c cs' =>
      simp at h2
      obtain ⟨rfl, _⟩ := h2
      exact h pre l' cs' h1

theorem jpSummaryLines_rows : ∀ (shs : List JSheet) (acc : List JSumLine), RowsOk acc → RowsOk (jpSummaryLines acc shs) := by
  intro shs
  induction shs with
  | nil => intro acc h; simpa [jpSummaryLines] using h
  | cons s rest ih =>
    intro acc h
    rw [jpSummaryLines]
    exact ih _ (rowsOk_snoc acc _ h rfl)

/-- **summary sheets**: one line per asset-year sheet, in generation order, carrying the sheet's year (= the summary sheet it is written to), its
    asset, its name and its closing row; and the lines of one year occupy rows 8, 9, 10, … of that year's sheet in that order -/
theorem jpSummaries_spec (shs : List JSheet) :
    (jpSummaries shs).map JSumLine.key = shs.map JSheet.key ∧ RowsOk (jpSummaries shs) := by
  refine ⟨by simpa [jpSummaries] using jpSummaryLines_keys shs [], jpSummaryLines_rows shs [] ?_⟩
  intro pre l post h
  cases pre <;> cases h

/-- the sheets `jpSheets` builds carry the asset they belong to and the year they are about -/
theorem jpSheets_tags (asset : String) (all : List JTx) : ∀ (ys : List Int) (po : Nat) (py : Int) (shs : List JSheet),
    jpSheets true asset all ys po py = .ok shs → shs.map (fun s => (s.asset, s.year)) = ys.map (fun y => (asset, y)) := by
  intro ys
  induction ys with
  | nil => intro po py shs h; simp [jpSheets, pure, Except.pure] at h; subst h; rfl
  | cons y ys ih =>
    intro po py shs h
    simp only [jpSheets, bind, Except.bind, pure, Except.pure] at h
    split at h
    · cases h
    · rename_i rows hrows
      split at h
      · cases h
      · rename_i rest hrest
        cases h
        simp [ih _ _ _ hrest]

end Rp2
