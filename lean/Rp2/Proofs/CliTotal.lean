import Rp2.Proofs.CliFiles
/-! C16 on the whole-run model: when no option fault is present, the input computes, every generator of the country has a template for the
language and its generator model succeeds, the run exits 0 and writes one file per generator, in execution order. -/
namespace Rp2.Cli
open Rp2

theorem foldl_genStep_ok (o : Options) (iso lang mname : String) (period : Nat) (holderOf : Nat → String) (cs : List Computed) :
    ∀ (gs : List String) (acc : Outcome), acc.exit = 0 →
      (∀ g ∈ gs, hasTemplate iso (genBase g) lang = true ∧ ∃ rep, genReport o (genBase g) period holderOf cs = .ok rep) →
      (gs.foldl (genStep o iso lang mname period holderOf cs) acc).exit = 0 ∧
      (gs.foldl (genStep o iso lang mname period holderOf cs) acc).stage = acc.stage ∧
      (gs.foldl (genStep o iso lang mname period holderOf cs) acc).files.map (·.1) = acc.files.map (·.1) ++ gs.map (fun g => fileName o.pfx mname (genBase g)) := by
  intro gs
  induction gs with
  | nil => intro acc h _; simp [h]
  | cons g t ih =>
    intro acc h hg
    obtain ⟨ht, rep, hrep⟩ := hg g (List.mem_cons_self ..)
    have hstep : genStep o iso lang mname period holderOf cs acc g = { acc with files := acc.files ++ [(fileName o.pfx mname (genBase g), rep)] } := by
      unfold genStep
      simp [h, ht, hrep]
    simp only [List.foldl_cons, hstep]
    obtain ⟨h1, h2, h3⟩ := ih { acc with files := acc.files ++ [(fileName o.pfx mname (genBase g), rep)] } h (fun x hx => hg x (List.mem_cons_of_mem _ hx))
    refine ⟨h1, h2, ?_⟩
    rw [h3]; simp

/-- the invocation has no option fault and the input computes -/
structure Valid (o : Options) (acctName : Nat → String) (cfgAssets : List String) (sheets : List AssetIn)
    (iso : String) (period : Nat) (defMethod : String) (methods gens : List String) (defLang : String) (sched : List (Int × Method)) (cs : List Computed) : Prop where
  country : ∃ name, country? o.script = some (name, iso, period, defMethod, methods, gens, defLang)
  method : badMethod o methods = false
  lang : o.knownLocales.contains (o.lang.getD defLang) = true
  window : badWindow o = false
  once : (o.method.isSome && !o.cfgSched.isEmpty) = false
  schedOk : (scheduleOf o defMethod).mapM (fun p => (methodOf? p.2).map (fun m => (p.1, m))) = some sched
  plugin : o.pluginFlag = false
  assets : ((assetNames o cfgAssets).any fun a => !cfgAssets.contains a) = false
  computed : computeAll o acctName period sched (assetNames o cfgAssets) sheets = .ok cs

/-- **C16 on the whole-run model**: a valid invocation whose generators all have a template and succeed exits with status 0 and writes
    exactly one report per generator of the country, named `<prefix><method or "mixed">_<generator>.ods`, in execution order -/
theorem run_complete (o : Options) (acctName holderOf : Nat → String) (cfgAssets : List String) (sheets : List AssetIn)
    (iso : String) (period : Nat) (defMethod : String) (methods gens : List String) (defLang : String) (sched : List (Int × Method)) (cs : List Computed)
    (v : Valid o acctName cfgAssets sheets iso period defMethod methods gens defLang sched cs)
    (hg : ∀ g ∈ ordered gens, hasTemplate iso (genBase g) (o.lang.getD defLang) = true ∧ ∃ rep, genReport o (genBase g) period holderOf cs = .ok rep) :
    (run o acctName holderOf cfgAssets sheets).exit = 0 ∧
    (run o acctName holderOf cfgAssets sheets).files.map (·.1) =
      (ordered gens).map (fun g => fileName o.pfx (methodName (scheduleOf o defMethod)) (genBase g)) := by
  obtain ⟨name, hc⟩ := v.country
  unfold run
  simp only [hc, v.method, v.lang, v.window, v.once, v.schedOk, v.plugin, v.assets, v.computed, Bool.not_true, Bool.false_eq_true, if_false]
  obtain ⟨h1, _, h3⟩ := foldl_genStep_ok o iso (o.lang.getD defLang) (methodName (scheduleOf o defMethod)) period holderOf cs (ordered gens)
    { exit := 0, stage := "", files := [] } rfl hg
  exact ⟨h1, by simpa using h3⟩

end Rp2.Cli

namespace Rp2.Cli
open Rp2

theorem mapM_ok_mem {α β ε : Type} (f : α → Except ε β) : ∀ (l : List α) (r : List β), l.mapM f = .ok r → ∀ y ∈ r, ∃ x ∈ l, f x = .ok y := by
  intro l
  induction l with
  | nil => intro r h y hy; simp only [List.mapM_nil, pure, Except.pure, Except.ok.injEq] at h; subst h; cases hy
  | cons a t ih =>
    intro r h y hy
    simp only [List.mapM_cons, bind, Except.bind] at h
    cases ha : f a with
    | error e => rw [ha] at h; cases h
    | ok b =>
      rw [ha] at h
      cases ht : t.mapM f with
      | error e => rw [ht] at h; cases h
      | ok bs =>
        rw [ht] at h
        simp only [pure, Except.pure, Except.ok.injEq] at h
        subst h
        rcases List.mem_cons.mp hy with rfl | hy'
        · exact ⟨a, List.mem_cons_self .., ha⟩
        · obtain ⟨x, hx, hfx⟩ := ih bs ht y hy'
          exact ⟨x, List.mem_cons_of_mem _ hx, hfx⟩

theorem mapM_total {α β ε : Type} (f : α → Except ε β) : ∀ (l : List α), (∀ x ∈ l, ∃ y, f x = .ok y) → ∃ r, l.mapM f = .ok r := by
  intro l
  induction l with
  | nil => intro _; exact ⟨[], rfl⟩
  | cons a t ih =>
    intro h
    obtain ⟨b, hb⟩ := h a (List.mem_cons_self ..)
    obtain ⟨bs, hbs⟩ := ih (fun x hx => h x (List.mem_cons_of_mem _ hx))
    exact ⟨b :: bs, by simp only [List.mapM_cons, bind, Except.bind, hb, hbs]; rfl⟩

end Rp2.Cli
