import Rp2.Model.Pipeline
import Rp2.Proofs.Flows
/-! The balance computation of the executable model (`balances`, `balStep`: insertion-ordered rows with four figures per
account) refines the abstract replay of `Proofs/Balance.lean`, for which C07's flow equations and C08's rejection criterion
are proved. -/
namespace Rp2

def finOf (bs : List BalRow) (a : Nat) : Int := ((bs.find? (·.acct == a)).map (·.fin)).getD 0
def bsGet (bs : List BalRow) (a : Nat) : BalRow := (bs.find? (·.acct == a)).getD { acct := a }

theorem bsGet_fin (bs : List BalRow) (a : Nat) : (bsGet bs a).fin = finOf bs a := by
  unfold bsGet finOf; cases bs.find? (·.acct == a) <;> rfl

theorem find_updBal (bs : List BalRow) (a : Nat) (f : BalRow → BalRow) (hf : ∀ b, (f b).acct = b.acct) (x : Nat) :
    (updBal bs a f).find? (·.acct == x) = if x = a then some (f (bsGet bs a)) else bs.find? (·.acct == x) := by
  unfold updBal
  by_cases hany : bs.any (·.acct == a) = true
  · simp only [hany, if_true]
    rw [List.find?_map]
    have hpred : ((fun b : BalRow => b.acct == x) ∘ fun b => if (b.acct == a) = true then f b else b) = fun b => b.acct == x := by
      funext b; simp only [Function.comp]; split <;> simp [hf]
    rw [hpred]
    by_cases hx : x = a
    · subst hx
      simp only [if_true]
      obtain ⟨b, hb, hba⟩ := List.any_eq_true.mp hany
      cases hfind : bs.find? (·.acct == x) with
      | none =>
        have := List.find?_eq_none.mp hfind b hb
        simp_all
      | some b' =>
        have hb' := List.find?_some hfind
        simp only [Option.map_some, bsGet, hfind, Option.getD_some]
        simp [hb']
    · simp only [hx, if_false]
      cases hfind : bs.find? (·.acct == x) with
      | none => rfl
      | some b' =>
        have hb' := List.find?_some hfind
        simp only [Option.map_some]
        have : (b'.acct == a) = false := by
          simp only [beq_iff_eq] at hb'
          simp [hb', hx]
        simp [this]
  · simp only [hany, Bool.false_eq_true, if_false]
    have hnone : bs.find? (·.acct == a) = none := by
      apply List.find?_eq_none.mpr
      intro b hb hba
      exact hany (List.any_eq_true.mpr ⟨b, hb, hba⟩)
    rw [List.find?_append]
    by_cases hx : x = a
    · subst hx
      simp [hnone, bsGet, hf]
    · simp only [hx, if_false]
      cases hfind : bs.find? (·.acct == x) with
      | some b' => simp
      | none =>
        simp only [Option.none_or]
        have : ((f { acct := a }).acct == x) = false := by rw [hf]; simp; exact fun h => hx h.symm
        simp [List.find?_cons, this]

theorem finOf_updBal (bs : List BalRow) (a : Nat) (f : BalRow → BalRow) (hf : ∀ b, (f b).acct = b.acct) (x : Nat) :
    finOf (updBal bs a f) x = if x = a then (f (bsGet bs a)).fin else finOf bs x := by
  unfold finOf
  rw [find_updBal bs a f hf x]
  split <;> rfl

theorem finOf_updBal_same (bs : List BalRow) (a : Nat) (f : BalRow → BalRow) (hf : ∀ b, (f b).acct = b.acct) (hfin : ∀ b, (f b).fin = b.fin) (x : Nat) :
    finOf (updBal bs a f) x = finOf bs x := by
  rw [finOf_updBal bs a f hf x]
  split
  · rename_i h; subst h; rw [hfin, bsGet_fin]
  · rfl

/-- the four updates of a transfer: only the two `fin` updates matter for the final balances -/
theorem finOf_move (bs : List BalRow) (s d : Nat) (sent recv : Int) (f1 f2 : BalRow → BalRow)
    (h1a : ∀ b, (f1 b).acct = b.acct) (h1f : ∀ b, (f1 b).fin = b.fin) (h2a : ∀ b, (f2 b).acct = b.acct) (h2f : ∀ b, (f2 b).fin = b.fin) (x : Nat) :
    finOf (updBal (updBal (updBal (updBal bs s f1) d f2) s (fun b => { b with fin := b.fin - sent })) d (fun b => { b with fin := b.fin + recv })) x =
      if x = d then (if d = s then finOf bs s - sent else finOf bs d) + recv else if x = s then finOf bs s - sent else finOf bs x := by
  have e2 : ∀ y, finOf (updBal (updBal bs s f1) d f2) y = finOf bs y := by
    intro y; rw [finOf_updBal_same _ _ _ h2a h2f, finOf_updBal_same _ _ _ h1a h1f]
  have e3 : ∀ y, finOf (updBal (updBal (updBal bs s f1) d f2) s (fun b => { b with fin := b.fin - sent })) y =
      if y = s then finOf bs s - sent else finOf bs y := by
    intro y; rw [finOf_updBal _ _ _ (by intro b; rfl), bsGet_fin, e2, e2]
  rw [finOf_updBal _ _ _ (by intro b; rfl), bsGet_fin, e3, e3]

/-- the abstract transaction a row of the replay stands for -/
def toBTx : AnyTx → BTx
  | .i t => .acq t.acct t.amount.toNat
  | .x t => .move t.src t.dst t.sent.toNat t.recv.toNat
  | .o t => .out t.acct (t.outNoFee + t.fee).toNat

/-- amounts are non-negative (what the constructors enforce; staking losses are OUT rows) -/
def AnyTx.NonNeg : AnyTx → Prop
  | .i t => 0 ≤ t.amount
  | .x t => 0 ≤ t.sent ∧ 0 ≤ t.recv
  | .o t => 0 ≤ t.outNoFee + t.fee

/-- the balance rows after a step (whatever the overdraft check says) -/
def balUpd (bs : List BalRow) : AnyTx → List BalRow
  | .i t => updBal bs t.acct (fun b => { b with acq := b.acq + t.amount, fin := b.fin + t.amount })
  | .x t =>
    let bs := updBal bs t.src (fun b => { b with sent := b.sent + t.sent })
    let bs := updBal bs t.dst (fun b => { b with recv := b.recv + t.recv })
    let bs := updBal bs t.src (fun b => { b with fin := b.fin - t.sent })
    updBal bs t.dst (fun b => { b with fin := b.fin + t.recv })
  | .o t => updBal bs t.acct (fun b => { b with sent := b.sent + t.outNoFee + t.fee, fin := b.fin - t.outNoFee - t.fee })

theorem finOf_balUpd (bs : List BalRow) (t : AnyTx) (h : t.NonNeg) : finOf (balUpd bs t) = applyTx (finOf bs) (toBTx t) := by
  funext x
  cases t with
  | i t =>
    simp only [AnyTx.NonNeg] at h
    simp only [balUpd, toBTx, applyTx, upd]
    rw [finOf_updBal _ _ _ (by intro b; rfl)]
    by_cases hx : x = t.acct
    · simp only [hx, if_true, bsGet_fin]; omega
    · simp [hx]
  | x t =>
    simp only [AnyTx.NonNeg] at h
    simp only [balUpd, toBTx, applyTx, upd]
    rw [finOf_move bs t.src t.dst t.sent t.recv _ _ (by intro b; rfl) (by intro b; rfl) (by intro b; rfl) (by intro b; rfl) x]
    by_cases h1 : x = t.dst
    · by_cases h3 : t.dst = t.src
      · have h2 : x = t.src := by omega
        simp only [h1, h3, if_true]; omega
      · have h2 : ¬ x = t.src := by omega
        simp only [h1, h3, if_true, if_false]; omega
    · by_cases h2 : x = t.src
      · simp only [h1, h2, if_true, if_false]
        by_cases h3 : t.src = t.dst
        · omega
        · simp only [h3, if_false]; omega
      · simp only [h1, h2, if_false]
  | o t =>
    simp only [AnyTx.NonNeg] at h
    simp only [balUpd, toBTx, applyTx, upd]
    rw [finOf_updBal _ _ _ (by intro b; rfl)]
    by_cases hx : x = t.acct
    · simp only [hx, if_true, bsGet_fin]; omega
    · simp [hx]

theorem find_balUpd_debited (bs : List BalRow) (t : AnyTx) (a : Nat) (h : debited (toBTx t) = some a) :
    ∃ b, (balUpd bs t).find? (·.acct == a) = some b ∧ b.fin = finOf (balUpd bs t) a := by
  have key : ∀ (bs : List BalRow) (f : BalRow → BalRow) (hf : ∀ b, (f b).acct = b.acct),
      ∃ b, (updBal bs a f).find? (·.acct == a) = some b := by
    intro bs f hf; rw [find_updBal bs a f hf a]; simp
  cases t with
  | i t => simp [toBTx, debited] at h
  | x t =>
    simp only [toBTx, debited, Option.some.injEq] at h
    subst h
    simp only [balUpd]
    -- after the last update the source account is present whether or not it equals the destination
    have : ∃ b, (updBal (updBal (updBal (updBal bs t.src fun b => { b with sent := b.sent + t.sent }) t.dst fun b => { b with recv := b.recv + t.recv }) t.src
        fun b => { b with fin := b.fin - t.sent }) t.dst fun b => { b with fin := b.fin + t.recv }).find? (·.acct == t.src) = some b := by
      rw [find_updBal _ _ _ (by intro b; rfl)]
      by_cases hsd : t.src = t.dst
      · simp [hsd]
      · simp only [hsd, if_false]
        exact key _ _ (by intro b; rfl)
    obtain ⟨b, hb⟩ := this
    exact ⟨b, hb, by simp [finOf, hb]⟩
  | o t =>
    simp only [toBTx, debited, Option.some.injEq] at h
    subst h
    simp only [balUpd]
    obtain ⟨b, hb⟩ := key bs (fun b => { b with sent := b.sent + t.outNoFee + t.fee, fin := b.fin - t.outNoFee - t.fee }) (by intro b; rfl)
    exact ⟨b, hb, by simp [finOf, hb]⟩

theorem balStep_eq (allowNeg : Bool) (bs : List BalRow) (t : AnyTx) :
    balStep allowNeg bs t =
      match debited (toBTx t) with
      | some a => if belowTol (finOf (balUpd bs t) a) && !allowNeg then .error a else .ok (balUpd bs t)
      | none => .ok (balUpd bs t) := by
  cases t with
  | i t => rfl
  | x t =>
    obtain ⟨b, hb, hfin⟩ := find_balUpd_debited bs (.x t) t.src rfl
    simp only [balUpd] at hb hfin
    simp only [balStep, toBTx, debited, balUpd, hb, hfin]
    rfl
  | o t =>
    obtain ⟨b, hb, hfin⟩ := find_balUpd_debited bs (.o t) t.acct rfl
    simp only [balUpd] at hb hfin
    simp only [balStep, toBTx, debited, balUpd, hb, hfin]
    rfl

/-- **refinement**: folding `balStep` over the transactions is the abstract `replay` over their abstractions -/
theorem foldlM_balStep_replay (allowNeg : Bool) : ∀ (ts : List AnyTx) (bs : List BalRow), (∀ t ∈ ts, t.NonNeg) →
    (match ts.foldlM (balStep allowNeg) bs with
     | .error a => replay belowTol allowNeg (finOf bs) (ts.map toBTx) = .error a
     | .ok bs' => replay belowTol allowNeg (finOf bs) (ts.map toBTx) = .ok (finOf bs')) := by
  intro ts
  induction ts with
  | nil => intro bs _; simp [List.foldlM, replay, pure, Except.pure]
  | cons t ts ih =>
    intro bs hnn
    have ht := hnn t (List.mem_cons_self)
    have hrest : ∀ t' ∈ ts, t'.NonNeg := fun t' h' => hnn t' (List.mem_cons_of_mem _ h')
    simp only [List.foldlM_cons, List.map_cons, replay]
    rw [balStep_eq, ← finOf_balUpd bs t ht]
    cases hd : debited (toBTx t) with
    | none =>
      simp only [bind, Except.bind]
      exact ih (balUpd bs t) hrest
    | some a =>
      simp only
      by_cases hb : (belowTol (finOf (balUpd bs t) a) && !allowNeg) = true
      · simp only [hb, if_true, bind, Except.bind]
      · simp only [hb, Bool.false_eq_true, if_false, bind, Except.bind]
        exact ih (balUpd bs t) hrest

end Rp2
