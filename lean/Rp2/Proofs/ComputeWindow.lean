import Rp2.Proofs.Numbering
import Rp2.Proofs.PropsA
import Rp2.Model.Report
/-! C10 on the `compute` model (= `ComputedData`): the date window only selects which fractions are shown; the fractions themselves
come from one computation over the whole history that does not take the window as an argument. -/
namespace Rp2

theorem filter_numbered_map (fs : List Fraction) (p : Fraction → Bool) :
    ((numberFractions fs).filter (fun n => p n.f)).map (·.f) = fs.filter p := by
  have h := numberFractions_map fs
  have : (numberFractions fs).filter (fun n => p n.f) = (numberFractions fs).filter (p ∘ (·.f)) := rfl
  rw [this, ← List.filter_map, h]

/-- the fractions shown for a window are the fractions of the unfiltered computation, cut at the to-date and filtered by the
    from-date — same pairing, same amounts, same figures (they are the same `Fraction` values) -/
theorem compute_fracs (asset : String) (acctName : Nat → String) (period : Int) (allowNeg : Bool) (fromD toD : Option Int)
    (sched : List (Int × Method)) (ins : List InTx) (outs : List OutTx) (intras : List IntraTx) (cd : Computed)
    (h : compute asset acctName period allowNeg fromD toD sched ins outs intras = .ok cd) :
    ∃ fs, computeFractions sched ins outs intras = .ok fs ∧
      cd.fracs.map (·.f) = (cutAt (fun f : Fraction => f.ev.ts.day) toD fs).filter
        (fun f => match fromD with | none => true | some d => decide (d ≤ f.ev.ts.day)) := by
  unfold compute at h
  split at h
  · cases h
  · rename_i fs hfs
    split at h
    · cases h
    · simp only [Except.ok.injEq] at h
      subst h
      refine ⟨fs, hfs, ?_⟩
      exact filter_numbered_map (cutAt (fun f : Fraction => f.ev.ts.day) toD fs)
        (fun f => match fromD with | none => true | some d => decide (d ≤ f.ev.ts.day))

/-- with monotone local dates (hypothesis `LocalDatesMonotone`) that is exactly the filter by the window, both bounds inclusive -/
theorem compute_fracs_window (asset : String) (acctName : Nat → String) (period : Int) (allowNeg : Bool) (fromD : Option Int) (t : Int)
    (sched : List (Int × Method)) (ins : List InTx) (outs : List OutTx) (intras : List IntraTx) (cd : Computed)
    (h : compute asset acctName period allowNeg fromD (some t) sched ins outs intras = .ok cd)
    (hmono : ∀ fs, computeFractions sched ins outs intras = .ok fs → fs.Pairwise (fun a b => a.ev.ts.day ≤ b.ev.ts.day)) :
    ∃ fs, computeFractions sched ins outs intras = .ok fs ∧
      cd.fracs.map (·.f) = fs.filter (fun f => decide (f.ev.ts.day ≤ t) && (match fromD with | none => true | some d => decide (d ≤ f.ev.ts.day))) := by
  obtain ⟨fs, hfs, hcd⟩ := compute_fracs asset acctName period allowNeg fromD (some t) sched ins outs intras cd h
  refine ⟨fs, hfs, ?_⟩
  rw [hcd]
  simp only [cutAt]
  rw [takeWhile_eq_filter_of_sorted (fun f : Fraction => f.ev.ts.day) t fs (hmono fs hfs), List.filter_filter]
  congr 1
  funext f
  rw [Bool.and_comm]
end Rp2

namespace Rp2
/-- **what makes an input computable**: `compute` (= `compute_tax` for one asset) succeeds exactly when lot matching succeeds (every
    disposal covered, amounts positive, a method for every year — C02) and the balance replay is not rejected (no overdrawn account, or
    `-n` — C08); nothing else can make it fail, and the date window plays no part in it beyond the to-date of the balance replay -/
theorem compute_ok_iff (asset : String) (acctName : Nat → String) (period : Int) (allowNeg : Bool) (fromD toD : Option Int)
    (sched : List (Int × Method)) (ins : List InTx) (outs : List OutTx) (intras : List IntraTx) :
    (∃ cd, compute asset acctName period allowNeg fromD toD sched ins outs intras = .ok cd) ↔
      (∃ fs, computeFractions sched ins outs intras = .ok fs) ∧ (∃ bs, balances allowNeg toD ins outs intras = .ok bs) := by
  unfold compute
  constructor
  · rintro ⟨cd, h⟩
    split at h
    · cases h
    · rename_i fs hfs
      split at h
      · cases h
      · rename_i bs hbs
        exact ⟨⟨fs, hfs⟩, ⟨bs, hbs⟩⟩
  · rintro ⟨⟨fs, hfs⟩, ⟨bs, hbs⟩⟩
    simp only [hfs, hbs]
    exact ⟨_, rfl⟩
end Rp2

namespace Rp2
/-- **C10, on the `compute` model: the from-date only hides.** The same computation with and without a from-date (same to-date): the
    balances, the average price and the running sums are identical, and the fractions shown — *with their `k/n` numbering* — are those of
    the run without a from-date whose event is dated on or after it. Numbering, balances and price reflect all history up to the to-date. -/
theorem compute_from_date_only_hides (asset : String) (acctName : Nat → String) (period : Int) (allowNeg : Bool) (d : Int) (toD : Option Int)
    (sched : List (Int × Method)) (ins : List InTx) (outs : List OutTx) (intras : List IntraTx) (cd cd0 : Computed)
    (h : compute asset acctName period allowNeg (some d) toD sched ins outs intras = .ok cd)
    (h0 : compute asset acctName period allowNeg none toD sched ins outs intras = .ok cd0) :
    cd.bals = cd0.bals ∧ cd.price = cd0.price ∧ cd.inRun = cd0.inRun ∧ cd.outRun = cd0.outRun ∧ cd.intraRun = cd0.intraRun ∧
    cd.fracs = cd0.fracs.filter (fun n => decide (d ≤ n.f.ev.ts.day)) := by
  unfold compute at h h0
  split at h
  · cases h
  · rename_i fs hfs
    rw [hfs] at h0
    simp only at h0
    split at h
    · cases h
    · rename_i bs hbs
      rw [hbs] at h0
      simp only [Except.ok.injEq] at h h0
      subst h; subst h0
      refine ⟨rfl, rfl, rfl, rfl, rfl, ?_⟩
      simp
end Rp2
