import Rp2.Proofs.Validation
/-! Row identity for C11/C12: every parsed transaction carries the 1-based number of the sheet row it was built from,
no row yields two transactions of a table, and a data row that cannot be built aborts the parse. -/
namespace Rp2

/-- ids of the accumulated (reversed) lists are positive, at most `i`, and strictly decreasing -/
def IdsInv (i : Nat) (st : PState) : Prop :=
  (st.ins.map (·.tx.row)).Pairwise (· > ·) ∧ (∀ p ∈ st.ins, 0 < p.tx.row ∧ p.tx.row ≤ i) ∧
  (st.outs.map (·.row)).Pairwise (· > ·) ∧ (∀ p ∈ st.outs, 0 < p.row ∧ p.row ≤ i) ∧
  (st.intras.map (·.row)).Pairwise (· > ·) ∧ (∀ p ∈ st.intras, 0 < p.row ∧ p.row ≤ i)

theorem IdsInv.mono {i : Nat} {st : PState} (h : IdsInv i st) : IdsInv (i + 1) st := by
  obtain ⟨a, b, c, d, e, f⟩ := h
  exact ⟨a, fun p hp => ⟨(b p hp).1, by have := (b p hp).2; omega⟩, c, fun p hp => ⟨(d p hp).1, by have := (d p hp).2; omega⟩,
    e, fun p hp => ⟨(f p hp).1, by have := (f p hp).2; omega⟩⟩

theorem IdsInv.setCur {i : Nat} {st : PState} (h : IdsInv i st) (c : Option Table) (n : Nat) : IdsInv i { st with cur := c, count := n } := h

theorem tryRow_inv (cfg : Config) (asset : String) (acct : String → String → Nat) (t : Table) (i : Nat) (row : List Cell) (st st' : PState)
    (hinv : IdsInv i st) (h : tryRow cfg asset acct t (i + 1) row st = .ok st') : IdsInv (i + 1) st' ∧ st'.cur = st.cur ∧ st'.count = st.count := by
  obtain ⟨a, b, c, d, e, f⟩ := hinv
  cases t with
  | tin =>
    simp only [tryRow, bind_eq_ok, pure, Except.pure, Except.ok.injEq] at h
    obtain ⟨p, hp, hst⟩ := h
    subst hst
    have hr := (mkInRow_ok cfg asset acct (i + 1) row p hp).2.2.2.2.2.2.2.2.2
    refine ⟨⟨?_, ?_, c, fun q hq => ⟨(d q hq).1, by have := (d q hq).2; omega⟩, e, fun q hq => ⟨(f q hq).1, by have := (f q hq).2; omega⟩⟩, rfl, rfl⟩
    · simp only [List.map_cons, List.pairwise_cons]
      refine ⟨fun x hx => ?_, a⟩
      obtain ⟨q, hq, rfl⟩ := List.mem_map.mp hx
      have := (b q hq).2; rw [hr]; push_cast; omega
    · intro q hq
      rcases List.mem_cons.mp hq with rfl | hq
      · rw [hr]; push_cast; omega
      · exact ⟨(b q hq).1, by have := (b q hq).2; omega⟩
  | tout =>
    simp only [tryRow, bind_eq_ok, pure, Except.pure, Except.ok.injEq] at h
    obtain ⟨p, hp, hst⟩ := h
    subst hst
    have hr := (mkOutRow_ok cfg asset acct (i + 1) row p hp).2.2.2.2.2.2
    refine ⟨⟨a, fun q hq => ⟨(b q hq).1, by have := (b q hq).2; omega⟩, ?_, ?_, e, fun q hq => ⟨(f q hq).1, by have := (f q hq).2; omega⟩⟩, rfl, rfl⟩
    · simp only [List.map_cons, List.pairwise_cons]
      refine ⟨fun x hx => ?_, c⟩
      obtain ⟨q, hq, rfl⟩ := List.mem_map.mp hx
      have := (d q hq).2; rw [hr]; push_cast; omega
    · intro q hq
      rcases List.mem_cons.mp hq with rfl | hq
      · rw [hr]; push_cast; omega
      · exact ⟨(d q hq).1, by have := (d q hq).2; omega⟩
  | tintra =>
    simp only [tryRow, bind_eq_ok, pure, Except.pure, Except.ok.injEq] at h
    obtain ⟨p, hp, hst⟩ := h
    subst hst
    have hr := (mkIntraRow_ok cfg asset acct (i + 1) row p hp).2.2.2.2.2.2.2
    refine ⟨⟨a, fun q hq => ⟨(b q hq).1, by have := (b q hq).2; omega⟩, c, fun q hq => ⟨(d q hq).1, by have := (d q hq).2; omega⟩, ?_, ?_⟩, rfl, rfl⟩
    · simp only [List.map_cons, List.pairwise_cons]
      refine ⟨fun x hx => ?_, e⟩
      obtain ⟨q, hq, rfl⟩ := List.mem_map.mp hx
      have := (f q hq).2; rw [hr]; push_cast; omega
    · intro q hq
      rcases List.mem_cons.mp hq with rfl | hq
      · rw [hr]; push_cast; omega
      · exact ⟨(f q hq).1, by have := (f q hq).2; omega⟩

theorem parseRows_inv (cfg : Config) (asset : String) (acct : String → String → Nat) :
    ∀ (rows : List (List Cell)) (i : Nat) (st st' : PState), IdsInv i st → parseRows cfg asset acct i st rows = .ok st' →
      IdsInv (i + rows.length) st' := by
  intro rows
  induction rows with
  | nil => intro i st st' hinv h; simp only [parseRows, Except.ok.injEq] at h; subst h; simpa using hinv
  | cons row rest ih =>
    intro i st st' hinv h
    have hlen : i + (row :: rest).length = (i + 1) + rest.length := by simp; omega
    rw [hlen]
    unfold parseRows at h
    simp only at h
    split at h
    · cases h
    · split at h
      · split at h
        · cases h
        · exact ih _ _ _ (hinv.mono.setCur _ _) h
      · split at h
        · exact ih _ _ _ (hinv.mono.setCur _ _) h
        · split at h
          · exact ih _ _ _ (hinv.mono.setCur _ _) h
          · split at h
            · split at h
              · cases h
              · exact ih _ _ _ (hinv.mono.setCur _ _) h
            · split at h
              · rename_i st2 htry
                have := tryRow_inv cfg asset acct _ i row st st2 hinv htry
                exact ih _ _ _ (this.1.setCur _ _) h
              · cases h

/-- **a data row that cannot be turned into a transaction aborts the parse** (nothing is skipped): inside a table, past
    the header row, a row whose first cell is neither a keyword nor empty and whose constructor fails makes `parseRows` fail -/
theorem parseRows_bad_row (cfg : Config) (asset : String) (acct : String → String → Nat) (i : Nat) (st : PState) (row : List Cell)
    (rest : List (List Cell)) (t : Table) (hcur : st.cur = some t) (hcount : st.count ≠ 1)
    (h0 : tableOf (row.getD 0 .empty) = none) (h1 : isEnd (row.getD 0 .empty) = false) (h2 : isEmptyCell (row.getD 0 .empty) = false)
    (m : String) (hbad : tryRow cfg asset acct t (i + 1) row st = .error m) :
    parseRows cfg asset acct i st (row :: rest) = .error (.row (i + 1) m) := by
  unfold parseRows
  simp only [List.getD_eq_getElem?_getD] at h0 h1 h2
  simp [hcur, h0, h1, h2, hcount, hbad]

end Rp2

namespace Rp2
/-- **ids are row numbers; no row is read twice**: in an accepted sheet the transactions of each table carry strictly
    increasing ids between 1 and the number of sheet rows (the artificial fee transactions appended to the OUT table
    carry the negative ids −1, −2, …) and the IN table is not empty -/
theorem parseSheet_ids (cfg : Config) (asset : String) (acct : String → String → Nat) (rows : List (List Cell)) (p : Parsed)
    (h : parseSheet cfg asset acct rows = .ok p) :
    p.ins ≠ [] ∧ (p.ins.map (·.row)).Pairwise (· < ·) ∧ (∀ t ∈ p.ins, 0 < t.row ∧ t.row ≤ rows.length) ∧
    (p.intras.map (·.row)).Pairwise (· < ·) ∧ (∀ t ∈ p.intras, 0 < t.row ∧ t.row ≤ rows.length) ∧
    (∀ t ∈ p.outs, (0 < t.row ∧ t.row ≤ rows.length) ∨ (t.row < 0 ∧ t.typ = .fee ∧ t.outNoFee = 0)) := by
  unfold parseSheet at h
  split at h
  · cases h
  · rename_i st hst
    have hinv := parseRows_inv cfg asset acct rows 0 {} st (by simp [IdsInv]) hst
    simp only [Nat.zero_add] at hinv
    obtain ⟨a, b, c, d, e, f⟩ := hinv
    split at h
    · cases h
    · split at h
      · cases h
      · rename_i hne
        simp only [Except.ok.injEq] at h
        subst h
        refine ⟨?_, ?_, ?_, ?_, ?_, ?_⟩
        · simp only [ne_eq, List.map_eq_nil_iff, List.reverse_eq_nil_iff]
          intro hnil; rw [hnil] at hne; simp at hne
        · have : (st.ins.reverse.map (·.tx.row)).Pairwise (· < ·) := by
            rw [List.map_reverse, List.pairwise_reverse]; exact a
          simpa [List.map_map, Function.comp_def] using this
        · intro t ht
          simp only [List.mem_map, List.mem_reverse] at ht
          obtain ⟨q, hq, rfl⟩ := ht
          exact b q hq
        · rw [List.map_reverse, List.pairwise_reverse]; exact e
        · intro t ht; exact f t (List.mem_reverse.mp ht)
        · intro t ht
          rcases List.mem_append.mp ht with ht | ht
          · exact Or.inl (d t (List.mem_reverse.mp ht))
          · right
            simp only [List.mem_map] at ht
            obtain ⟨⟨k, q⟩, _, rfl⟩ := ht
            simp only [mkOut]
            refine ⟨by omega, by first | rfl | trivial, by first | rfl | trivial⟩
end Rp2
